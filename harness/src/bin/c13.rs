//! C13 — axis-aligned boxes (Aabr/Aabb) and rectangles (Rect/Rect3) behave as the point sets they denote.
//!
//! Model space ("u-units"): box corners lie on the even grid {0,2,..,2(g-1)}^D, the point universe is
//! the integer grid {-1..2g-1}^D (the half-grid of the corner grid, one step beyond it on every side).
//! A point set is a bit mask over the universe; every oracle below is a statement about such masks
//! (membership by closed-interval test on the raw coordinates, bounding box of a mask, open-box
//! mask).  The real vek structs are built by struct literal and decoded by field access only.
//! Element types: i32 (u-unit = 1), the exact rational X and f64 (u-unit = 1/2, so X and f64 really run
//! on half-integers).
//!
//! Audit additions (out/AUDIT.md; sections after "map, as_ and Aabr::from(Aabb)"): the same mask oracles under strictly increasing
//! relabellings of the model coordinates (i32 with corners on ALL integers; tables reaching the least/greatest value of i32, i64,
//! u8, f64, f32 including +-infinity) for the comparison-only methods; i32 arithmetic on odd corners (truncating division);
//! the Rect == Aab differential on negative-extent and odd rectangles; the pair laws that set semantics still fixes when an
//! operand is invalid; the anchored Vec partial_min/partial_max/Clamp impls called directly; call sequences; an f32 distance tier.
//!
//! Second audit (out/AUDIT2.md; code after "second audit" markers): slips that are right on the exact small grid and wrong elsewhere -
//! the remaining members of the scalar Clamp family (i8..usize, Wrapping<_>) and adjacent-float corners in the relabelling section;
//! f64/f32 boxes whose sums and differences round (adjacent floats, nearly symmetric boxes, close points far from the origin, tiny,
//! subnormal, huge within the magnitude policy) with oracles built from error-free transformations; the Rect == Aab differential
//! started from the rectangle (position + extent rounds; unsigned integers).
use rayon::prelude::*;
use std::fmt::Debug;
use std::num::Wrapping;
use std::ops::*;
use vek::geom::repr_c::{Aabb, Aabr, Rect, Rect3};
use vek::num_traits::{real::Real, AsPrimitive, One};
use vek::ops::Clamp;
use vek::vec::repr_c::{Extent2, Extent3, Vec2, Vec3};
use vx::*;

// ------------------------------------------------------------------------------------------------
// element types

trait El: Copy + PartialOrd + Debug + Send + Sync + 'static + Add<Output = Self> + Sub<Output = Self> + Div<Output = Self> + One + Clamp {
    const NAME: &'static str;
    /// the value of model coordinate `u`
    fn from_u(u: i32) -> Self;
}
impl El for i32 { const NAME: &'static str = "i32"; fn from_u(u: i32) -> i32 { u } }
impl El for X { const NAME: &'static str = "X"; fn from_u(u: i32) -> X { q(u as i128, 2) } }
impl El for f64 { const NAME: &'static str = "f64"; fn from_u(u: i32) -> f64 { u as f64 * 0.5 } }
// further element types (sections "relabelling", "distance_to_point" f32 tier); the relabelling sections use explicit value tables, not from_u
impl El for f32 { const NAME: &'static str = "f32"; fn from_u(u: i32) -> f32 { u as f32 * 0.5 } }
impl El for i64 { const NAME: &'static str = "i64"; fn from_u(u: i32) -> i64 { u as i64 } }
impl El for u8 { const NAME: &'static str = "u8"; fn from_u(u: i32) -> u8 { u8::try_from(u).expect("u8 model coordinate") } }

/// typed box `[min, max]` or typed rectangle `[position, extent]`
type TB<T, const D: usize> = [[T; D]; 2];
/// model box `[min, max]` in u-units
type UB<const D: usize> = [[i32; D]; 2];

fn tp<T: El, const D: usize>(p: &[i32; D]) -> [T; D] { let mut o = [T::from_u(0); D]; for i in 0..D { o[i] = T::from_u(p[i]); } o }
fn tb<T: El, const D: usize>(b: &UB<D>) -> TB<T, D> { [tp(&b[0]), tp(&b[1])] }
/// model rectangle (position, extent) denoting the same set as the model box
fn rect_of<const D: usize>(b: &UB<D>) -> UB<D> { let mut e = [0; D]; for i in 0..D { e[i] = b[1][i] - b[0][i]; } [b[0], e] }
fn valid<const D: usize>(b: &UB<D>) -> bool { (0..D).all(|i| b[0][i] <= b[1][i]) }
fn posext<const D: usize>(b: &UB<D>) -> bool { (0..D).all(|i| b[0][i] < b[1][i]) }
fn inside<const D: usize>(b: &UB<D>, p: &[i32; D]) -> bool { (0..D).all(|i| b[0][i] <= p[i] && p[i] <= b[1][i]) }
fn strictly_inside<const D: usize>(b: &UB<D>, p: &[i32; D]) -> bool { (0..D).all(|i| b[0][i] < p[i] && p[i] < b[1][i]) }
fn wb<const D: usize>(b: &UB<D>) -> u64 { b.iter().flatten().map(|v| v.unsigned_abs() as u64).sum() }
fn wp<const D: usize>(p: &[i32; D]) -> u64 { p.iter().map(|v| v.unsigned_abs() as u64 + 1).sum() }

// ------------------------------------------------------------------------------------------------
// point-set masks over the universe

const W: usize = 21; // 1344 bits >= 11^3
#[derive(Clone, Copy, PartialEq, Eq, Debug)]
struct Mask([u64; W]);
impl Mask {
    const ZERO: Mask = Mask([0; W]);
    fn bit(i: usize) -> Mask { let mut m = Mask::ZERO; m.0[i / 64] |= 1 << (i % 64); m }
    #[inline] fn get(&self, i: usize) -> bool { self.0[i / 64] >> (i % 64) & 1 == 1 }
    #[inline] fn or(mut self, o: Mask) -> Mask { for k in 0..W { self.0[k] |= o.0[k]; } self }
    #[inline] fn and(mut self, o: Mask) -> Mask { for k in 0..W { self.0[k] &= o.0[k]; } self }
    #[inline] fn minus(mut self, o: Mask) -> Mask { for k in 0..W { self.0[k] &= !o.0[k]; } self }
    #[inline] fn any(&self) -> bool { self.0.iter().any(|&w| w != 0) }
}

struct Uni<const D: usize> {
    g: usize,
    shift: i32, // corners on {shift, shift+2, ..}; shift is even
    base: i32,  // smallest point coordinate = shift - 1
    nc: usize,
    pts: Vec<[i32; D]>,
    all: Mask,
    slab: Vec<Vec<Mask>>, // [axis][k]: points with coordinate k-1 on that axis
    le: Vec<Vec<Mask>>,
    ge: Vec<Vec<Mask>>,
    boxes: Vec<UB<D>>,    // every box with corners on the even grid (valid and invalid)
    vboxes: Vec<UB<D>>,   // the valid ones
    closed: Vec<Mask>,    // per valid box: its points
    open: Vec<Mask>,      // per valid box: its interior points
}
impl<const D: usize> Uni<D> {
    fn new(g: usize, shift: i32) -> Self { Self::with_margin(g, shift, 1) }
    /// `margin` = number of point coordinates beyond the outermost corners on each side (1 everywhere except in the
    /// extreme-magnitude alphabets, where the outermost corner is the least/greatest value of the type and nothing lies beyond)
    fn with_margin(g: usize, shift: i32, margin: i32) -> Self {
        assert!(shift % 2 == 0 && (margin == 0 || margin == 1) && g >= 1);
        let base = shift - margin;
        let nc = 2 * g - 1 + 2 * margin as usize;
        let npts = nc.pow(D as u32);
        assert!(npts <= 64 * W);
        let mut pts = Vec::with_capacity(npts);
        for idx in 0..npts { let mut p = [0i32; D]; let mut r = idx; for i in 0..D { p[i] = (r % nc) as i32 + base; r /= nc; } pts.push(p); }
        let mut all = Mask::ZERO;
        let mut slab = vec![vec![Mask::ZERO; nc]; D];
        for (idx, p) in pts.iter().enumerate() { all = all.or(Mask::bit(idx)); for i in 0..D { let k = (p[i] - base) as usize; slab[i][k] = slab[i][k].or(Mask::bit(idx)); } }
        let mut le = slab.clone();
        let mut ge = slab.clone();
        for i in 0..D { for k in 1..nc { le[i][k] = le[i][k].or(le[i][k - 1]); } for k in (0..nc - 1).rev() { ge[i][k] = ge[i][k].or(ge[i][k + 1]); } }
        let nb = g.pow(2 * D as u32);
        let mut boxes = Vec::with_capacity(nb);
        for idx in 0..nb { let mut b = [[0i32; D]; 2]; let mut r = idx; for i in 0..D { b[0][i] = 2 * (r % g) as i32 + shift; r /= g; b[1][i] = 2 * (r % g) as i32 + shift; r /= g; } boxes.push(b); }
        let vboxes: Vec<UB<D>> = boxes.iter().filter(|b| valid(b)).copied().collect();
        let mut u = Uni { g, shift, base, nc, pts, all, slab, le, ge, boxes, vboxes, closed: Vec::new(), open: Vec::new() };
        u.closed = u.vboxes.iter().map(|b| u.closed_mask(b)).collect();
        u.open = u.vboxes.iter().map(|b| u.open_mask(b)).collect();
        u
    }
    fn pidx(&self, p: &[i32; D]) -> usize { let mut idx = 0; for i in (0..D).rev() { idx = idx * self.nc + (p[i] - self.base) as usize; } idx }
    fn le_mask(&self, axis: usize, c: i32) -> Mask { let k = c - self.base; if k < 0 { Mask::ZERO } else if k as usize >= self.nc { self.all } else { self.le[axis][k as usize] } }
    fn ge_mask(&self, axis: usize, c: i32) -> Mask { let k = c - self.base; if k <= 0 { self.all } else if k as usize >= self.nc { Mask::ZERO } else { self.ge[axis][k as usize] } }
    /// { p in universe : min <= p <= max on every axis }
    fn closed_mask(&self, b: &UB<D>) -> Mask { let mut m = self.all; for i in 0..D { m = m.and(self.ge_mask(i, b[0][i])).and(self.le_mask(i, b[1][i])); } m }
    /// { p in universe : min < p < max on every axis }
    fn open_mask(&self, b: &UB<D>) -> Mask { let mut m = self.all; for i in 0..D { m = m.and(self.ge_mask(i, b[0][i] + 1)).and(self.le_mask(i, b[1][i] - 1)); } m }
    /// smallest box containing every point of the mask (None for the empty set)
    fn bbox(&self, m: &Mask) -> Option<UB<D>> {
        if !m.any() { return None; }
        let mut b = [[0i32; D]; 2];
        for i in 0..D {
            let lo = (0..self.nc).find(|&k| m.and(self.slab[i][k]).any()).unwrap();
            let hi = (0..self.nc).rev().find(|&k| m.and(self.slab[i][k]).any()).unwrap();
            b[0][i] = lo as i32 + self.base; b[1][i] = hi as i32 + self.base;
        }
        Some(b)
    }
    /// the point(s) of the set nearest to p: (squared distance in u-units, the point, unique?)
    fn nearest(&self, m: &Mask, p: &[i32; D]) -> (i32, [i32; D], bool) {
        let (mut best, mut arg, mut uniq) = (i32::MAX, [0; D], true);
        for (idx, y) in self.pts.iter().enumerate() {
            if !m.get(idx) { continue; }
            let d2: i32 = (0..D).map(|i| (y[i] - p[i]) * (y[i] - p[i])).sum();
            if d2 < best { best = d2; arg = *y; uniq = true; } else if d2 == best { uniq = false; }
        }
        (best, arg, uniq)
    }
    fn describe(&self) -> Value {
        json!({"dim": D, "corner_grid": (0..self.g).map(|k| 2 * k as i32 + self.shift).collect::<Vec<_>>(), "point_coords": [self.base, self.base + self.nc as i32 - 1], "points": self.pts.len(),
               "boxes": self.boxes.len(), "valid_boxes": self.vboxes.len(), "ordered_pairs_all": self.boxes.len() * self.boxes.len(), "ordered_pairs_valid": self.vboxes.len() * self.vboxes.len()})
    }
}

// ------------------------------------------------------------------------------------------------
// local tallies (flushed once per outer-loop item to keep the hot loops off the section mutexes)

struct Tally { ev: u64, nt: u64, cls: Vec<(&'static str, u64)> }
impl Tally {
    fn new() -> Tally { Tally { ev: 0, nt: 0, cls: Vec::new() } }
    #[inline] fn eval(&mut self, nt: bool) { self.ev += 1; if nt { self.nt += 1; } }
    #[inline] fn class(&mut self, c: &'static str) { if let Some(e) = self.cls.iter_mut().find(|e| e.0 == c) { e.1 += 1; } else { self.cls.push((c, 1)); } }
    fn flush(self, s: &Section) { s.evals(self.ev, self.nt); for (c, n) in self.cls { s.class_n(c, n); } }
}

/// run the real call (panics -> violation "panic"), compare with the oracle value
fn run<V: PartialEq + Debug>(s: &Section, t: &mut Tally, nt: bool, site: &str, class: &str, inp: &dyn Fn() -> Value, w: u64, f: impl FnOnce() -> V, want: &V) {
    t.eval(nt);
    if let Some(g) = s.call(site, || inp(), f) {
        if &g != want { report(s, site, class, w, || json!({"input": inp(), "got": jd(&g), "want": jd(want)})); }
    }
}

/// Mass failures (a defect that breaks every case of a section) must not take hours to write out: the first REPORT_CAP violations
/// of a site|class are all handed to the report; after that only one that is lighter than every earlier one of that key (so the
/// smallest witness is always kept).  The verdict is unaffected: one reported violation already fails the run.
const REPORT_CAP: u64 = 400;
fn report(s: &Section, site: &str, class: &str, w: u64, detail: impl FnOnce() -> Value) {
    static SEEN: std::sync::OnceLock<std::sync::Mutex<std::collections::HashMap<String, (u64, u64)>>> = std::sync::OnceLock::new();
    let go = {
        let mut m = SEEN.get_or_init(Default::default).lock().unwrap();
        let e = m.entry(format!("{}|{}", site, class)).or_insert((0, u64::MAX));
        let go = e.0 < REPORT_CAP || w < e.1;
        e.0 += 1; if w < e.1 { e.1 = w; }
        go
    };
    if go { s.violation_w(site, class, detail(), w); }
}

// ------------------------------------------------------------------------------------------------
// binding of the vek API to arrays (struct literals in, field access out)

trait Geo<const D: usize>: 'static {
    const AAB: &'static str;
    const RECT: &'static str;
    const AX: [&'static str; D];
    const CONTAINS_AAB: &'static str; const COLLIDES_AAB: &'static str; const CV_AAB: &'static str;
    const CONTAINS_RECT: &'static str; const COLLIDES_RECT: &'static str; const CV_RECT: &'static str;
    const INTO_RECT: &'static str; const INTO_AAB: &'static str;
    fn is_valid<T: El>(b: TB<T, D>) -> bool;
    fn new_empty<T: El>(p: [T; D]) -> TB<T, D>;
    fn made_valid<T: El>(b: TB<T, D>) -> TB<T, D>;
    fn make_valid<T: El>(b: TB<T, D>) -> TB<T, D>;
    fn center<T: El>(b: TB<T, D>) -> [T; D];
    fn size<T: El>(b: TB<T, D>) -> [T; D];
    fn half_size<T: El>(b: TB<T, D>) -> [T; D];
    fn union<T: El>(a: TB<T, D>, b: TB<T, D>) -> TB<T, D>;
    fn intersection<T: El>(a: TB<T, D>, b: TB<T, D>) -> TB<T, D>;
    fn expand_to_contain<T: El>(a: TB<T, D>, b: TB<T, D>) -> TB<T, D>;
    fn intersect<T: El>(a: TB<T, D>, b: TB<T, D>) -> TB<T, D>;
    fn expanded_pt<T: El>(a: TB<T, D>, p: [T; D]) -> TB<T, D>;
    fn expand_pt<T: El>(a: TB<T, D>, p: [T; D]) -> TB<T, D>;
    fn contains_point<T: El>(a: TB<T, D>, p: [T; D]) -> bool;
    fn contains<T: El>(a: TB<T, D>, b: TB<T, D>) -> bool;
    fn collides<T: El>(a: TB<T, D>, b: TB<T, D>) -> bool;
    fn cv<T: El>(a: TB<T, D>, b: TB<T, D>) -> [T; D];
    fn proj<T: El>(a: TB<T, D>, p: [T; D]) -> [T; D];
    fn dist<T: El + Real + vek::approx::RelativeEq>(a: TB<T, D>, p: [T; D]) -> T;
    fn split<T: El>(a: TB<T, D>, axis: usize, sp: T) -> [TB<T, D>; 2];
    fn into_rect<T: El>(a: TB<T, D>) -> TB<T, D>;
    fn rect_from<T: El>(a: TB<T, D>) -> TB<T, D>;
    fn map<T: Copy, U: Copy>(a: TB<T, D>, f: impl FnMut(T) -> U) -> TB<U, D>;
    fn as_<T: Copy + AsPrimitive<U>, U: 'static + Copy>(a: TB<T, D>) -> TB<U, D>;
    // rectangles: r = [position, extent]
    fn r_into_aab<T: El>(r: TB<T, D>) -> TB<T, D>;
    fn aab_from<T: El>(r: TB<T, D>) -> TB<T, D>;
    fn r_contains_point<T: El>(r: TB<T, D>, p: [T; D]) -> bool;
    fn r_contains<T: El>(a: TB<T, D>, b: TB<T, D>) -> bool;
    fn r_collides<T: El>(a: TB<T, D>, b: TB<T, D>) -> bool;
    fn r_center<T: El>(r: TB<T, D>) -> [T; D];
    fn r_expanded_pt<T: El>(r: TB<T, D>, p: [T; D]) -> TB<T, D>;
    fn r_expand_pt<T: El>(r: TB<T, D>, p: [T; D]) -> TB<T, D>;
    fn r_union<T: El>(a: TB<T, D>, b: TB<T, D>) -> TB<T, D>;
    fn r_intersection<T: El>(a: TB<T, D>, b: TB<T, D>) -> TB<T, D>;
    fn r_expand_to_contain<T: El>(a: TB<T, D>, b: TB<T, D>) -> TB<T, D>;
    fn r_intersect<T: El>(a: TB<T, D>, b: TB<T, D>) -> TB<T, D>;
    fn r_cv<T: El>(a: TB<T, D>, b: TB<T, D>) -> [T; D];
    fn r_split<T: El>(r: TB<T, D>, axis: usize, sp: T) -> [TB<T, D>; 2];
    /// constructor / accessor plumbing: reading number `which` (named PLUMB[which]) of (position, extent), must equal `r`
    fn r_plumb<T: El>(r: TB<T, D>, which: usize) -> TB<T, D>;
    fn r_map<T: Copy, P: Copy, E: Copy>(r: TB<T, D>, pf: impl FnMut(T) -> P, ef: impl FnMut(T) -> E) -> ([P; D], [E; D]);
    fn r_as<T: Copy + AsPrimitive<P> + AsPrimitive<E>, P: 'static + Copy, E: 'static + Copy>(r: TB<T, D>) -> ([P; D], [E; D]);
    // the anchored mechanism, called directly: vector partial_min / partial_max (vector and array operands), vector clamp with
    // vector bounds (method and `Clamp::clamp` alias) and with scalar bounds
    fn v_partial_min<T: El>(a: [T; D], b: [T; D]) -> [T; D];
    fn v_partial_max<T: El>(a: [T; D], b: [T; D]) -> [T; D];
    fn v_partial_min_arr<T: El>(a: [T; D], b: [T; D]) -> [T; D];
    fn v_partial_max_arr<T: El>(a: [T; D], b: [T; D]) -> [T; D];
    fn v_clamped<T: El>(p: [T; D], lo: [T; D], hi: [T; D]) -> [T; D];
    fn v_clamp_alias<T: El>(p: [T; D], lo: [T; D], hi: [T; D]) -> [T; D];
    fn v_clamped_scalar<T: El>(p: [T; D], lo: T, hi: T) -> [T; D];
}

macro_rules! geo_impl {
    ($M:ident, $D:literal, $Aab:ident, $Vec:ident, $Ext:ident, $Rect:ident,
     [$(($p:ident, $e:ident, $i:literal, $split:ident)),+],
     $contains_aab:ident, $collides_aab:ident, $cv_aab:ident, $contains_rect:ident, $collides_rect:ident, $cv_rect:ident, $into_rect:ident, $into_aab:ident) => {
        struct $M;
        #[allow(dead_code)]
        impl $M {
            #[inline] fn v<T: Copy>(a: [T; $D]) -> $Vec<T> { $Vec { $($p: a[$i]),+ } }
            #[inline] fn dv<T: Copy>(v: $Vec<T>) -> [T; $D] { [$(v.$p),+] }
            #[inline] fn ex<T: Copy>(a: [T; $D]) -> $Ext<T> { $Ext { $($e: a[$i]),+ } }
            #[inline] fn de<T: Copy>(v: $Ext<T>) -> [T; $D] { [$(v.$e),+] }
            #[inline] fn b<T: Copy>(b: TB<T, $D>) -> $Aab<T> { $Aab { min: Self::v(b[0]), max: Self::v(b[1]) } }
            #[inline] fn db<T: Copy>(b: $Aab<T>) -> TB<T, $D> { [Self::dv(b.min), Self::dv(b.max)] }
            #[inline] fn r<T: Copy>(r: TB<T, $D>) -> $Rect<T, T> { $Rect { $($p: r[0][$i],)+ $($e: r[1][$i]),+ } }
            #[inline] fn dr<P: Copy, E: Copy>(r: $Rect<P, E>) -> ([P; $D], [E; $D]) { ([$(r.$p),+], [$(r.$e),+]) }
            #[inline] fn drt<T: Copy>(r: $Rect<T, T>) -> TB<T, $D> { let (p, e) = Self::dr(r); [p, e] }
        }
        impl Geo<$D> for $M {
            const AAB: &'static str = stringify!($Aab);
            const RECT: &'static str = stringify!($Rect);
            const AX: [&'static str; $D] = [$(stringify!($p)),+];
            const CONTAINS_AAB: &'static str = stringify!($contains_aab); const COLLIDES_AAB: &'static str = stringify!($collides_aab); const CV_AAB: &'static str = stringify!($cv_aab);
            const CONTAINS_RECT: &'static str = stringify!($contains_rect); const COLLIDES_RECT: &'static str = stringify!($collides_rect); const CV_RECT: &'static str = stringify!($cv_rect);
            const INTO_RECT: &'static str = stringify!($into_rect); const INTO_AAB: &'static str = stringify!($into_aab);
            fn is_valid<T: El>(b: TB<T, $D>) -> bool { Self::b(b).is_valid() }
            fn new_empty<T: El>(p: [T; $D]) -> TB<T, $D> { Self::db($Aab::new_empty(Self::v(p))) }
            fn made_valid<T: El>(b: TB<T, $D>) -> TB<T, $D> { Self::db(Self::b(b).made_valid()) }
            fn make_valid<T: El>(b: TB<T, $D>) -> TB<T, $D> { let mut x = Self::b(b); x.make_valid(); Self::db(x) }
            fn center<T: El>(b: TB<T, $D>) -> [T; $D] { Self::dv(Self::b(b).center()) }
            fn size<T: El>(b: TB<T, $D>) -> [T; $D] { Self::de(Self::b(b).size()) }
            fn half_size<T: El>(b: TB<T, $D>) -> [T; $D] { Self::de(Self::b(b).half_size()) }
            fn union<T: El>(a: TB<T, $D>, b: TB<T, $D>) -> TB<T, $D> { Self::db(Self::b(a).union(Self::b(b))) }
            fn intersection<T: El>(a: TB<T, $D>, b: TB<T, $D>) -> TB<T, $D> { Self::db(Self::b(a).intersection(Self::b(b))) }
            fn expand_to_contain<T: El>(a: TB<T, $D>, b: TB<T, $D>) -> TB<T, $D> { let mut x = Self::b(a); x.expand_to_contain(Self::b(b)); Self::db(x) }
            fn intersect<T: El>(a: TB<T, $D>, b: TB<T, $D>) -> TB<T, $D> { let mut x = Self::b(a); x.intersect(Self::b(b)); Self::db(x) }
            fn expanded_pt<T: El>(a: TB<T, $D>, p: [T; $D]) -> TB<T, $D> { Self::db(Self::b(a).expanded_to_contain_point(Self::v(p))) }
            fn expand_pt<T: El>(a: TB<T, $D>, p: [T; $D]) -> TB<T, $D> { let mut x = Self::b(a); x.expand_to_contain_point(Self::v(p)); Self::db(x) }
            fn contains_point<T: El>(a: TB<T, $D>, p: [T; $D]) -> bool { Self::b(a).contains_point(Self::v(p)) }
            fn contains<T: El>(a: TB<T, $D>, b: TB<T, $D>) -> bool { Self::b(a).$contains_aab(Self::b(b)) }
            fn collides<T: El>(a: TB<T, $D>, b: TB<T, $D>) -> bool { Self::b(a).$collides_aab(Self::b(b)) }
            fn cv<T: El>(a: TB<T, $D>, b: TB<T, $D>) -> [T; $D] { Self::dv(Self::b(a).$cv_aab(Self::b(b))) }
            fn proj<T: El>(a: TB<T, $D>, p: [T; $D]) -> [T; $D] { Self::dv(Self::b(a).projected_point(Self::v(p))) }
            fn dist<T: El + Real + vek::approx::RelativeEq>(a: TB<T, $D>, p: [T; $D]) -> T { Self::b(a).distance_to_point(Self::v(p)) }
            fn split<T: El>(a: TB<T, $D>, axis: usize, sp: T) -> [TB<T, $D>; 2] {
                let r = match axis { $($i => Self::b(a).$split(sp),)+ _ => unreachable!() };
                [Self::db(r[0]), Self::db(r[1])]
            }
            fn into_rect<T: El>(a: TB<T, $D>) -> TB<T, $D> { Self::drt(Self::b(a).$into_rect()) }
            fn rect_from<T: El>(a: TB<T, $D>) -> TB<T, $D> { Self::drt($Rect::from(Self::b(a))) }
            fn map<T: Copy, U: Copy>(a: TB<T, $D>, f: impl FnMut(T) -> U) -> TB<U, $D> { Self::db(Self::b(a).map(f)) }
            fn as_<T: Copy + AsPrimitive<U>, U: 'static + Copy>(a: TB<T, $D>) -> TB<U, $D> { Self::db(Self::b(a).as_::<U>()) }

            fn r_into_aab<T: El>(r: TB<T, $D>) -> TB<T, $D> { Self::db(Self::r(r).$into_aab()) }
            fn aab_from<T: El>(r: TB<T, $D>) -> TB<T, $D> { Self::db($Aab::from(Self::r(r))) }
            fn r_contains_point<T: El>(r: TB<T, $D>, p: [T; $D]) -> bool { Self::r(r).contains_point(Self::v(p)) }
            fn r_contains<T: El>(a: TB<T, $D>, b: TB<T, $D>) -> bool { Self::r(a).$contains_rect(Self::r(b)) }
            fn r_collides<T: El>(a: TB<T, $D>, b: TB<T, $D>) -> bool { Self::r(a).$collides_rect(Self::r(b)) }
            fn r_center<T: El>(r: TB<T, $D>) -> [T; $D] { Self::dv(Self::r(r).center()) }
            fn r_expanded_pt<T: El>(r: TB<T, $D>, p: [T; $D]) -> TB<T, $D> { Self::drt(Self::r(r).expanded_to_contain_point(Self::v(p))) }
            fn r_expand_pt<T: El>(r: TB<T, $D>, p: [T; $D]) -> TB<T, $D> { let mut x = Self::r(r); x.expand_to_contain_point(Self::v(p)); Self::drt(x) }
            fn r_union<T: El>(a: TB<T, $D>, b: TB<T, $D>) -> TB<T, $D> { Self::drt(Self::r(a).union(Self::r(b))) }
            fn r_intersection<T: El>(a: TB<T, $D>, b: TB<T, $D>) -> TB<T, $D> { Self::drt(Self::r(a).intersection(Self::r(b))) }
            fn r_expand_to_contain<T: El>(a: TB<T, $D>, b: TB<T, $D>) -> TB<T, $D> { let mut x = Self::r(a); x.expand_to_contain(Self::r(b)); Self::drt(x) }
            fn r_intersect<T: El>(a: TB<T, $D>, b: TB<T, $D>) -> TB<T, $D> { let mut x = Self::r(a); x.intersect(Self::r(b)); Self::drt(x) }
            fn r_cv<T: El>(a: TB<T, $D>, b: TB<T, $D>) -> [T; $D] { Self::dv(Self::r(a).$cv_rect(Self::r(b))) }
            fn r_split<T: El>(r: TB<T, $D>, axis: usize, sp: T) -> [TB<T, $D>; 2] {
                let x = match axis { $($i => Self::r(r).$split(sp),)+ _ => unreachable!() };
                [Self::drt(x[0]), Self::drt(x[1])]
            }
            fn r_plumb<T: El>(r: TB<T, $D>, which: usize) -> TB<T, $D> {
                let rr = Self::r(r);
                match which {
                    0 => Self::drt($Rect::new($(r[0][$i],)+ $(r[1][$i]),+)),
                    1 => [Self::dv(rr.position()), Self::de(rr.extent())],
                    2 => { let (pp, ee) = rr.position_extent(); [Self::dv(pp), Self::de(ee)] }
                    3 => Self::drt($Rect::from((Self::v(r[0]), Self::ex(r[1])))),
                    // start from a rectangle with position and extent exchanged, then set both
                    4 => { let mut set = Self::r([r[1], r[0]]); set.set_position(Self::v(r[0])); Self::drt(set) }
                    _ => { let mut set = Self::r([r[1], r[0]]); set.set_extent(Self::ex(r[1])); Self::drt(set) }
                }
            }
            fn r_map<T: Copy, P: Copy, E: Copy>(r: TB<T, $D>, pf: impl FnMut(T) -> P, ef: impl FnMut(T) -> E) -> ([P; $D], [E; $D]) { Self::dr(Self::r(r).map(pf, ef)) }
            fn r_as<T: Copy + AsPrimitive<P> + AsPrimitive<E>, P: 'static + Copy, E: 'static + Copy>(r: TB<T, $D>) -> ([P; $D], [E; $D]) { Self::dr(Self::r(r).as_::<P, E>()) }
            fn v_partial_min<T: El>(a: [T; $D], b: [T; $D]) -> [T; $D] { Self::dv($Vec::<T>::partial_min(Self::v(a), Self::v(b))) }
            fn v_partial_max<T: El>(a: [T; $D], b: [T; $D]) -> [T; $D] { Self::dv($Vec::<T>::partial_max(Self::v(a), Self::v(b))) }
            fn v_partial_min_arr<T: El>(a: [T; $D], b: [T; $D]) -> [T; $D] { Self::dv($Vec::<T>::partial_min(a, b)) }
            fn v_partial_max_arr<T: El>(a: [T; $D], b: [T; $D]) -> [T; $D] { Self::dv($Vec::<T>::partial_max(a, b)) }
            fn v_clamped<T: El>(p: [T; $D], lo: [T; $D], hi: [T; $D]) -> [T; $D] { Self::dv(<$Vec<T> as Clamp<$Vec<T>>>::clamped(Self::v(p), Self::v(lo), Self::v(hi))) }
            fn v_clamp_alias<T: El>(p: [T; $D], lo: [T; $D], hi: [T; $D]) -> [T; $D] { Self::dv(<$Vec<T> as Clamp<$Vec<T>>>::clamp(Self::v(p), Self::v(lo), Self::v(hi))) }
            fn v_clamped_scalar<T: El>(p: [T; $D], lo: T, hi: T) -> [T; $D] { Self::dv(<$Vec<T> as Clamp<T>>::clamped(Self::v(p), lo, hi)) }
        }
    };
}
geo_impl!(D2, 2, Aabr, Vec2, Extent2, Rect, [(x, w, 0, split_at_x), (y, h, 1, split_at_y)],
    contains_aabr, collides_with_aabr, collision_vector_with_aabr, contains_rect, collides_with_rect, collision_vector_with_rect, into_rect, into_aabr);
geo_impl!(D3, 3, Aabb, Vec3, Extent3, Rect3, [(x, w, 0, split_at_x), (y, h, 1, split_at_y), (z, d, 2, split_at_z)],
    contains_aabb, collides_with_aabb, collision_vector_with_aabb, contains_rect3, collides_with_rect3, collision_vector_with_rect3, into_rect3, into_aabb);

const PLUMB: [&str; 6] = ["new", "position+extent", "position_extent", "from((position,extent))", "set_position", "set_extent"];
fn sa<G: Geo<D>, T: El, const D: usize>(m: &str) -> String { format!("{}::{}<{}>", G::AAB, m, T::NAME) }
fn sr<G: Geo<D>, T: El, const D: usize>(m: &str) -> String { format!("{}::{}<{}>", G::RECT, m, T::NAME) }

// ------------------------------------------------------------------------------------------------
// sections

/// mask machinery against the definition, point by point
fn premise<const D: usize>(s: &Section, u: &Uni<D>) {
    for b in &u.boxes {
        let (mut c, mut o) = (Mask::ZERO, Mask::ZERO);
        for (idx, p) in u.pts.iter().enumerate() { if inside(b, p) { c = c.or(Mask::bit(idx)); } if strictly_inside(b, p) { o = o.or(Mask::bit(idx)); } assert_eq!(u.pidx(p), idx); }
        s.eval(valid(b));
        let ok = c == u.closed_mask(b) && o == u.open_mask(b) && (!valid(b) || u.bbox(&c) == Some(*b)) && (valid(b) || !c.any()) && (!posext(b) || o.any());
        if !ok { s.rep.machinery_error(format!("mask machinery disagrees with the pointwise definition on {:?}", b)); }
    }
    s.class_n("valid", u.vboxes.len() as u64);
    s.class_n("invalid-box", (u.boxes.len() - u.vboxes.len()) as u64);
}

/// `new_empty(p)`: the box that contains exactly the point p (min = max = p)
fn new_empty_boxes<G: Geo<D>, T: El, const D: usize>(s: &Section, u: &Uni<D>) {
    let site = sa::<G, T, D>("new_empty");
    let mut t = Tally::new();
    for p in u.pts.iter() {
        let px = tp::<T, D>(p);
        let inp = || json!({"p": jd(&px)});
        let want: TB<T, D> = [px, px];
        run(s, &mut t, true, &site, "not-the-single-point-box", &inp, wp(p), || G::new_empty(px), &want);
        run(s, &mut t, true, &site, "single-point-box-does-not-contain-its-point", &inp, wp(p), || { let b = G::new_empty(px); G::is_valid(b) && G::contains_point(b, px) }, &true);
    }
    t.class("new_empty");
    t.flush(s);
}

fn validity<G: Geo<D>, T: El, const D: usize>(s: &Section, u: &Uni<D>) {
    let (st_iv, st_mdv, st_mkv, st_cp, st_rcp) = (sa::<G, T, D>("is_valid"), sa::<G, T, D>("made_valid"), sa::<G, T, D>("make_valid"), sa::<G, T, D>("contains_point"), sr::<G, T, D>("contains_point"));
    let (st_ep, st_mp, st_rep, st_rmp) = (sa::<G, T, D>("expanded_to_contain_point"), sa::<G, T, D>("expand_to_contain_point"), sr::<G, T, D>("expanded_to_contain_point"), sr::<G, T, D>("expand_to_contain_point"));
    u.boxes.par_iter().for_each(|b| {
        let mut t = Tally::new();
        let x = tb::<T, D>(b);
        let inp = || json!({"box[min,max]": jd(&x)});
        let (w, v) = (wb(b), valid(b));
        let bad_axes = (0..D).filter(|&i| b[0][i] > b[1][i]).count();
        t.class(if v { "valid" } else { "invalid-box" });
        if bad_axes == 1 { t.class("invalid-on-one-axis"); }
        if bad_axes == D { t.class("invalid-on-every-axis"); }
        if v && !posext(b) { t.class("valid-zero-extent"); }
        run(s, &mut t, true, &st_iv, "wrong-verdict", &inp, w, || G::is_valid(x), &v);
        let mut f = *b;
        for i in 0..D { if f[0][i] > f[1][i] { let (lo, hi) = (f[1][i], f[0][i]); f[0][i] = lo; f[1][i] = hi; } }
        let want = tb::<T, D>(&f);
        run(s, &mut t, !v, &st_mdv, "wrong-repair", &inp, w, || G::made_valid(x), &want);
        run(s, &mut t, !v, &st_mkv, "wrong-repair", &inp, w, || G::make_valid(x), &want);
        if !v {
            // an invalid box denotes the empty set
            let hull = u.closed_mask(&f);
            let rx = tb::<T, D>(&rect_of(b));
            for (idx, p) in u.pts.iter().enumerate() {
                let px = tp::<T, D>(p);
                let inp = || json!({"box[min,max]": jd(&x), "p": jd(&px)});
                run(s, &mut t, hull.get(idx), &st_cp, "invalid-box-contains-a-point", &inp, w + wp(p), || G::contains_point(x, px), &false);
                let inp = || json!({"rect[position,extent]": jd(&rx), "p": jd(&px)});
                run(s, &mut t, hull.get(idx), &st_rcp, "negative-extent-rect-contains-a-point", &inp, w + wp(p), || G::r_contains_point(rx, px), &false);
                // "expanding to contain a point": whatever the box was (the empty set here), the result contains the point
                // (the accumulate-from-an-inverted-box idiom); judged on the result's public fields by closed-interval membership
                let inp = || json!({"box[min,max]": jd(&x), "p": jd(&px)});
                for (site, got) in [(&st_ep, s.call(&st_ep, &inp, || G::expanded_pt(x, px))), (&st_mp, s.call(&st_mp, &inp, || G::expand_pt(x, px)))] {
                    t.eval(true);
                    if let Some(g) = got { if !(0..D).all(|i| g[0][i] <= px[i] && px[i] <= g[1][i]) { s.violation_w(site, "expanded-invalid-box-does-not-contain-the-point", json!({"input": inp(), "got": jd(&g)}), w + wp(p)); } }
                }
                let inp = || json!({"rect[position,extent]": jd(&rx), "p": jd(&px)});
                for (site, got) in [(&st_rep, s.call(&st_rep, &inp, || G::r_expanded_pt(rx, px))), (&st_rmp, s.call(&st_rmp, &inp, || G::r_expand_pt(rx, px)))] {
                    t.eval(true);
                    if let Some(g) = got { if !(0..D).all(|i| g[0][i] <= px[i] && px[i] <= g[0][i] + g[1][i]) { s.violation_w(site, "expanded-negative-extent-rect-does-not-contain-the-point", json!({"input": inp(), "got[position,extent]": jd(&g)}), w + wp(p)); } }
                }
            }
            if bad_axes == 1 && s.wants_sample() { s.sample(json!({"type": T::NAME, "invalid box[min,max]": jd(&x), "made_valid must be": jd(&want), "is_valid": false, "contains_point": "false on every universe point"})); }
        }
        t.flush(s);
    });
}

fn contains_point<G: Geo<D>, T: El, const D: usize>(s: &Section, u: &Uni<D>) {
    let st = sa::<G, T, D>("contains_point");
    u.vboxes.par_iter().for_each(|b| {
        let mut t = Tally::new();
        let x = tb::<T, D>(b);
        for p in &u.pts {
            let px = tp::<T, D>(p);
            let want = inside(b, p);
            let strict = strictly_inside(b, p);
            let near = !want && (0..D).all(|i| b[0][i] - 1 <= p[i] && p[i] <= b[1][i] + 1);
            t.class(if strict { "interior" } else if want { "boundary" } else if near { "outside-by-one-step" } else { "outside" });
            let inp = || json!({"box[min,max]": jd(&x), "p": jd(&px)});
            run(s, &mut t, want && !strict || near, &st, if want { "point-of-the-box-rejected" } else { "outside-point-accepted" }, &inp, wb(b) + wp(p), || G::contains_point(x, px), &want);
            if want && !strict && s.wants_sample() { s.sample(json!({"type": T::NAME, "box[min,max]": jd(&x), "p": jd(&px), "contains_point": true, "note": "boundary point"})); }
        }
        t.flush(s);
    });
}

fn pair_class<const D: usize>(u: &Uni<D>, ai: usize, bi: usize) -> &'static str {
    let (ma, mb) = (u.closed[ai], u.closed[bi]);
    if ai == bi { "equal" }
    else if !ma.and(mb).any() { "disjoint" }
    else if !mb.minus(ma).any() || !ma.minus(mb).any() { "contained" }
    else if u.open[ai].and(u.open[bi]).any() { "colliding" }
    else if posext(&u.vboxes[ai]) && posext(&u.vboxes[bi]) { "touching" }
    else { "meeting-with-a-flat-operand" }
}

fn union_intersection<G: Geo<D>, T: El, const D: usize>(s: &Section, u: &Uni<D>) {
    let (st_u, st_i, st_e, st_x) = (sa::<G, T, D>("union"), sa::<G, T, D>("intersection"), sa::<G, T, D>("expand_to_contain"), sa::<G, T, D>("intersect"));
    (0..u.vboxes.len()).into_par_iter().for_each(|ai| {
        let mut t = Tally::new();
        let a = &u.vboxes[ai];
        let xa = tb::<T, D>(a);
        for (bi, b) in u.vboxes.iter().enumerate() {
            let xb = tb::<T, D>(b);
            let (ma, mb) = (u.closed[ai], u.closed[bi]);
            let cls = pair_class(u, ai, bi);
            t.class(cls);
            let nt = cls != "equal";
            let w = wb(a) + wb(b);
            let inp = || json!({"a[min,max]": jd(&xa), "b[min,max]": jd(&xb)});
            // smallest box containing every point of both
            let want_u = tb::<T, D>(&u.bbox(&ma.or(mb)).unwrap());
            run(s, &mut t, nt, &st_u, "not-the-smallest-enclosing-box", &inp, w, || G::union(xa, xb), &want_u);
            run(s, &mut t, nt, &st_e, "not-the-smallest-enclosing-box", &inp, w, || G::expand_to_contain(xa, xb), &want_u);
            // exactly the common points; invalid when there are none
            let common = ma.and(mb);
            for (site, which) in [(&st_i, 0), (&st_x, 1)] {
                t.eval(nt);
                let got = s.call(site, || inp(), || if which == 0 { G::intersection(xa, xb) } else { G::intersect(xa, xb) });
                if let Some(g) = got {
                    match u.bbox(&common) {
                        Some(wi) => { let want = tb::<T, D>(&wi); if g != want { s.violation_w(site, "not-exactly-the-common-points", json!({"input": inp(), "got": jd(&g), "want": jd(&want)}), w); } }
                        None => { if !(0..D).any(|i| g[0][i] > g[1][i]) { s.violation_w(site, "valid-result-for-disjoint-boxes", json!({"input": inp(), "got": jd(&g), "want": "an invalid box (min > max on some axis)"}), w); } }
                    }
                }
            }
            if cls == "touching" && s.wants_sample() { s.sample(json!({"type": T::NAME, "a": jd(&xa), "b": jd(&xb), "class": cls, "union must be": jd(&want_u), "intersection must be": u.bbox(&common).map(|x| jd(&tb::<T, D>(&x)))})); }
        }
        t.flush(s);
    });
}

fn contains_collides<G: Geo<D>, T: El, const D: usize>(s: &Section, u: &Uni<D>) {
    let (st_c, st_k) = (sa::<G, T, D>(G::CONTAINS_AAB), sa::<G, T, D>(G::COLLIDES_AAB));
    (0..u.vboxes.len()).into_par_iter().for_each(|ai| {
        let mut t = Tally::new();
        let a = &u.vboxes[ai];
        let xa = tb::<T, D>(a);
        for (bi, b) in u.vboxes.iter().enumerate() {
            let xb = tb::<T, D>(b);
            let (ma, mb) = (u.closed[ai], u.closed[bi]);
            let w = wb(a) + wb(b);
            let inp = || json!({"a[min,max]": jd(&xa), "b[min,max]": jd(&xb)});
            let meet = ma.and(mb).any();
            // every point of b is a point of a
            let want_c = !mb.minus(ma).any();
            t.class(if ai == bi { "contains:equal" } else if want_c { "contains:inside" } else if meet { "contains:partial-overlap" } else { "contains:disjoint" });
            run(s, &mut t, meet, &st_c, if want_c { "contained-box-rejected" } else { "box-with-outside-points-accepted" }, &inp, w, || G::contains(xa, xb), &want_c);
            // interiors share a point (positive extent only)
            if posext(a) && posext(b) {
                let want_k = u.open[ai].and(u.open[bi]).any();
                let cls = if want_k { if want_c || !ma.minus(mb).any() { "collides:nested" } else { "collides:colliding" } } else if meet { "collides:touching" } else { "collides:disjoint" };
                t.class(cls);
                run(s, &mut t, meet, &st_k, if want_k { "overlap-missed" } else if meet { "touching-reported-as-collision" } else { "disjoint-reported-as-collision" }, &inp, w, || G::collides(xa, xb), &want_k);
                if cls == "collides:touching" && s.wants_sample() { s.sample(json!({"type": T::NAME, "a": jd(&xa), "b": jd(&xb), "class": "touching faces", "collides must be": false, "contains must be": want_c})); }
            } else { t.class("collides:zero-extent-operand-not-asserted"); }
        }
        t.flush(s);
    });
}

fn point_ops<G: Geo<D>, T: El, const D: usize>(s: &Section, u: &Uni<D>) {
    let (st_e, st_m, st_p) = (sa::<G, T, D>("expanded_to_contain_point"), sa::<G, T, D>("expand_to_contain_point"), sa::<G, T, D>("projected_point"));
    (0..u.vboxes.len()).into_par_iter().for_each(|ai| {
        let mut t = Tally::new();
        let a = &u.vboxes[ai];
        let xa = tb::<T, D>(a);
        let ma = u.closed[ai];
        for (idx, p) in u.pts.iter().enumerate() {
            let px = tp::<T, D>(p);
            let w = wb(a) + wp(p);
            let inp = || json!({"box[min,max]": jd(&xa), "p": jd(&px)});
            let isin = ma.get(idx);
            // smallest box containing the box and the point
            let want_e = tb::<T, D>(&u.bbox(&ma.or(Mask::bit(idx))).unwrap());
            run(s, &mut t, !isin, &st_e, "not-the-smallest-box-containing-box-and-point", &inp, w, || G::expanded_pt(xa, px), &want_e);
            run(s, &mut t, !isin, &st_m, "not-the-smallest-box-containing-box-and-point", &inp, w, || G::expand_pt(xa, px), &want_e);
            // the point of the box nearest to p (unique: the box is convex)
            let (_, arg, uniq) = u.nearest(&ma, p);
            if !uniq { s.rep.machinery_error(format!("nearest point of {:?} to {:?} is not unique", a, p)); }
            let moved = (0..D).filter(|&i| arg[i] != p[i]).count();
            t.class(if moved == 0 { "point-in-box" } else if moved == 1 { "moved-on-one-axis" } else if moved == D { "moved-on-every-axis" } else { "moved-on-two-axes" });
            let want_p = tp::<T, D>(&arg);
            run(s, &mut t, !isin, &st_p, "not-the-nearest-point-of-the-box", &inp, w, || G::proj(xa, px), &want_p);
            if moved == D && s.wants_sample() { s.sample(json!({"type": T::NAME, "box[min,max]": jd(&xa), "p": jd(&px), "projected_point must be": jd(&want_p), "expanded box must be": jd(&want_e)})); }
        }
        t.flush(s);
    });
}

fn shape_ops<G: Geo<D>, T: El, const D: usize>(s: &Section, u: &Uni<D>) {
    let (st_c, st_s, st_h) = (sa::<G, T, D>("center"), sa::<G, T, D>("size"), sa::<G, T, D>("half_size"));
    let st_split: Vec<String> = (0..D).map(|i| sa::<G, T, D>(&format!("split_at_{}", G::AX[i]))).collect();
    (0..u.vboxes.len()).into_par_iter().for_each(|ai| {
        let mut t = Tally::new();
        let a = &u.vboxes[ai];
        let xa = tb::<T, D>(a);
        let ma = u.closed[ai];
        let w = wb(a);
        let inp = || json!({"box[min,max]": jd(&xa)});
        let pe = posext(a);
        t.class(if pe { "positive-extent" } else { "zero-extent-axis" });
        // corners are even in u-units: midpoint and half extent are exact for every element type
        let (mut c, mut sz, mut hs) = ([0; D], [0; D], [0; D]);
        for i in 0..D { assert!((a[0][i] + a[1][i]) % 2 == 0 && (a[1][i] - a[0][i]) % 2 == 0); c[i] = (a[0][i] + a[1][i]) / 2; sz[i] = a[1][i] - a[0][i]; hs[i] = sz[i] / 2; }
        // the centre is the point about which the set is symmetric
        for (idx, p) in u.pts.iter().enumerate() { let mut m = [0; D]; for i in 0..D { m[i] = 2 * c[i] - p[i]; } if ma.get(idx) != inside(a, &m) { s.rep.machinery_error(format!("centre oracle: {:?} is not symmetric about {:?}", a, c)); } }
        // size in u-steps = T(size): the element unit scales both sides alike
        let szx = { let mut o = [T::from_u(0); D]; for i in 0..D { o[i] = T::from_u(sz[i]); } o };
        let hsx = { let mut o = [T::from_u(0); D]; for i in 0..D { o[i] = T::from_u(hs[i]); } o };
        run(s, &mut t, pe, &st_c, "not-the-midpoint", &inp, w, || G::center(xa), &tp::<T, D>(&c));
        run(s, &mut t, pe, &st_s, "wrong-extent", &inp, w, || G::size(xa), &szx);
        run(s, &mut t, pe, &st_h, "wrong-half-extent", &inp, w, || G::half_size(xa), &hsx);
        for axis in 0..D {
            for sp in a[0][axis]..=a[1][axis] {
                let spx = T::from_u(sp);
                let inp = || json!({"box[min,max]": jd(&xa), "axis": G::AX[axis], "sp": jd(&spx)});
                let lo = u.bbox(&ma.and(u.le_mask(axis, sp))).unwrap();
                let hi = u.bbox(&ma.and(u.ge_mask(axis, sp))).unwrap();
                let atface = sp == a[0][axis] || sp == a[1][axis];
                t.class(if a[0][axis] == a[1][axis] { "split:zero-extent-axis" } else if atface { "split:at-a-face" } else if sp % 2 != 0 { "split:interior-half-grid" } else { "split:interior-grid" });
                // tiling: the pieces cover the box and meet exactly on the plane
                if u.closed_mask(&lo).or(u.closed_mask(&hi)) != ma || u.closed_mask(&lo).and(u.closed_mask(&hi)) != ma.and(u.slab[axis][(sp - u.base) as usize]) { s.rep.machinery_error(format!("split oracle does not tile {:?} at {}={}", a, G::AX[axis], sp)); }
                let want = [tb::<T, D>(&lo), tb::<T, D>(&hi)];
                run(s, &mut t, !atface, &st_split[axis], "pieces-are-not-the-two-sides-of-the-plane", &inp, w + sp.unsigned_abs() as u64, || G::split(xa, axis, spx), &want);
                if !atface && sp % 2 != 0 && s.wants_sample() { s.sample(json!({"type": T::NAME, "box[min,max]": jd(&xa), "axis": G::AX[axis], "sp": jd(&spx), "[low,high] must be": jd(&want), "center must be": jd(&tp::<T, D>(&c))})); }
            }
        }
        t.flush(s);
    });
}

/// exact tier: X, on the cases whose distance is rational
fn distance_exact<G: Geo<D>, const D: usize>(s: &Section, u: &Uni<D>) {
    let st = sa::<G, X, D>("distance_to_point");
    (0..u.vboxes.len()).into_par_iter().for_each(|ai| {
        let mut t = Tally::new();
        let a = &u.vboxes[ai];
        let xa = tb::<X, D>(a);
        for p in &u.pts {
            let (d2, arg, _) = u.nearest(&u.closed[ai], p);
            let moved = (0..D).filter(|&i| arg[i] != p[i]).count();
            let Some(r) = Q::isqrt(d2 as i128) else { t.class("exact:irrational-distance-left-to-the-float-tier"); continue; };
            t.class(if moved == 0 { "exact:zero" } else if moved == 1 { "exact:axis-aligned" } else { "exact:pythagorean" });
            let px = tp::<X, D>(p);
            let inp = || json!({"box[min,max]": jd(&xa), "p": jd(&px)});
            run(s, &mut t, moved > 0, &st, "not-the-distance-to-the-nearest-point", &inp, wb(a) + wp(p), || G::dist(xa, px), &X::from_u(r as i32));
            if moved > 1 && s.wants_sample() { s.sample(json!({"type": "X", "box[min,max]": jd(&xa), "p": jd(&px), "distance must be": jx(X::from_u(r as i32))})); }
        }
        t.flush(s);
    });
}
/// float tier: f64 on every case; inputs are small dyadics, so differences, squares and their sum are exact
/// and only the final square root rounds: bound K*eps*scale with scale = max(distance, squared distance, 1)
fn distance_float<G: Geo<D>, const D: usize>(s: &Section, u: &Uni<D>) {
    let st = sa::<G, f64, D>("distance_to_point");
    (0..u.vboxes.len()).into_par_iter().for_each(|ai| {
        let mut t = Tally::new();
        let a = &u.vboxes[ai];
        let xa = tb::<f64, D>(a);
        for p in &u.pts {
            let (d2, arg, _) = u.nearest(&u.closed[ai], p);
            let moved = (0..D).filter(|&i| arg[i] != p[i]).count();
            t.class(if moved == 0 { "float:zero" } else if Q::isqrt(d2 as i128).is_some() { "float:rational" } else { "float:irrational" });
            let px = tp::<f64, D>(p);
            let d2r = d2 as f64 * 0.25;
            let want = d2r.sqrt();
            t.eval(moved > 0);
            let inp = || json!({"box[min,max]": jd(&xa), "p": jd(&px)});
            if let Some(g) = s.call(&st, || inp(), || G::dist(xa, px)) {
                if !fl::close64(g, want, want.max(d2r).max(1.0)) { s.violation_w(&st, "not-the-distance-to-the-nearest-point", json!({"input": inp(), "got": g, "want": want}), wb(a) + wp(p)); }
            }
            if moved > 1 && Q::isqrt(d2 as i128).is_none() && s.wants_sample() { s.sample(json!({"type": "f64", "box[min,max]": jd(&xa), "p": jd(&px), "distance must be": want})); }
        }
        t.flush(s);
    });
}

fn collision_vector<G: Geo<D>, T: El, const D: usize>(s: &Section, u: &Uni<D>) {
    let st = sa::<G, T, D>(G::CV_AAB);
    (0..u.vboxes.len()).into_par_iter().for_each(|ai| {
        let mut t = Tally::new();
        let a = &u.vboxes[ai];
        let xa = tb::<T, D>(a);
        for (bi, b) in u.vboxes.iter().enumerate() {
            let xb = tb::<T, D>(b);
            let inp = || json!({"self[min,max]": jd(&xa), "other[min,max]": jd(&xb)});
            let w = wb(a) + wb(b);
            let tie = (0..D).any(|i| a[0][i] + a[1][i] == b[0][i] + b[1][i]);
            let pe = posext(a) && posext(b);
            t.class(if !pe { "zero-extent-operand" } else if tie { "centres-tie-on-an-axis" } else if u.open[ai].and(u.open[bi]).any() { "penetrating" } else if u.closed[ai].and(u.closed[bi]).any() { "touching" } else { "separated" });
            let Some(v) = s.call(&st, || inp(), || G::cv(xa, xb)) else { t.eval(pe); continue; };
            for i in 0..D {
                t.eval(pe);
                // self moved by -v[i] along axis i: one of its faces must coincide with the opposite face of other
                let (lo, hi) = (xa[0][i] - v[i], xa[1][i] - v[i]);
                if !(hi == xb[0][i] || lo == xb[1][i]) {
                    s.violation_w(&st, "translated-box-does-not-touch-on-the-axis", json!({"input": inp(), "collision_vector": jd(&v), "axis": G::AX[i], "self interval after translation by -v[axis]": jd(&[lo, hi]), "other interval": jd(&[xb[0][i], xb[1][i]])}), w);
                }
            }
            if pe && !tie && u.open[ai].and(u.open[bi]).any() && ai != bi && s.wants_sample() { s.sample(json!({"type": T::NAME, "self": jd(&xa), "other": jd(&xb), "collision_vector": jd(&v), "law": "self - v[i]*e_i has a face on the opposite face of other, for each axis i"})); }
        }
        t.flush(s);
    });
}

fn rect_conversions<G: Geo<D>, T: El, const D: usize>(s: &Section, u: &Uni<D>) { rect_conversions_on::<G, T, D>(s, &u.vboxes) }
/// the same on the invalid boxes: the rectangle has a negative extent on the inverted axes, the conversions stay field-exact
fn rect_conversions_invalid<G: Geo<D>, T: El, const D: usize>(s: &Section, u: &Uni<D>) { let inv: Vec<UB<D>> = u.boxes.iter().filter(|b| !valid(b)).copied().collect(); rect_conversions_on::<G, T, D>(s, &inv) }
fn rect_conversions_on<G: Geo<D>, T: El, const D: usize>(s: &Section, boxes: &[UB<D>]) {
    let (st_ir, st_rf, st_ia, st_af) = (sa::<G, T, D>(G::INTO_RECT), format!("{}::from({})<{}>", G::RECT, G::AAB, T::NAME), sr::<G, T, D>(G::INTO_AAB), format!("{}::from({})<{}>", G::AAB, G::RECT, T::NAME));
    let st_pl: Vec<String> = PLUMB.iter().map(|m| sr::<G, T, D>(m)).collect();
    boxes.par_iter().for_each(|a| {
        let mut t = Tally::new();
        let xa = tb::<T, D>(a);
        let xr = tb::<T, D>(&rect_of(a));
        let w = wb(a);
        let nt = a[0].iter().any(|&v| v != 0) && (posext(a) || !valid(a));
        t.class(if !valid(a) { "negative-extent" } else if posext(a) { "positive-extent" } else { "zero-extent-axis" });
        if a[0].iter().all(|&v| v != 0) { t.class("position-nonzero-on-every-axis"); }
        let ib = || json!({"box[min,max]": jd(&xa)});
        let ir = || json!({"rect[position,extent]": jd(&xr)});
        // same point set: position = min corner, extent = max - min  /  min = position, max = position + extent
        run(s, &mut t, nt, &st_ir, "rect-denotes-a-different-set", &ib, w, || G::into_rect(xa), &xr);
        run(s, &mut t, nt, &st_rf, "rect-denotes-a-different-set", &ib, w, || G::rect_from(xa), &xr);
        run(s, &mut t, nt, &st_ia, "box-denotes-a-different-set", &ir, w, || G::r_into_aab(xr), &xa);
        run(s, &mut t, nt, &st_af, "box-denotes-a-different-set", &ir, w, || G::aab_from(xr), &xa);
        run(s, &mut t, nt, &st_ir, "round-trip-box-rect-box", &ib, w, || G::aab_from(G::rect_from(xa)), &xa);
        run(s, &mut t, nt, &st_ia, "round-trip-rect-box-rect", &ir, w, || G::rect_from(G::aab_from(xr)), &xr);
        for (k, name) in PLUMB.iter().enumerate() {
            // set_position alone must leave the (exchanged) extent alone and vice versa
            let want = match k { 4 => [xr[0], xr[0]], 5 => [xr[1], xr[1]], _ => xr };
            run(s, &mut t, nt, &st_pl[k], "wrong-field", &ir, w, || G::r_plumb(xr, k), &want);
            let _ = name;
        }
        if nt && s.wants_sample() { s.sample(json!({"type": T::NAME, "box[min,max]": jd(&xa), "rect[position,extent] must be": jd(&xr)})); }
        t.flush(s);
    });
}

/// model conversion of a typed box to the typed rectangle denoting the same set (harness arithmetic, not vek's)
fn to_rect<T: El, const D: usize>(b: &TB<T, D>) -> TB<T, D> { let mut e = b[1]; for i in 0..D { e[i] = b[1][i] - b[0][i]; } [b[0], e] }

fn rect_methods<G: Geo<D>, T: El, const D: usize>(s: &Section, u: &Uni<D>) {
    let n = |m: &str| sr::<G, T, D>(m);
    let (st_cp, st_c, st_k, st_ce, st_ep, st_mp, st_u, st_i, st_eu, st_ei, st_cv) = (n("contains_point"), n(G::CONTAINS_RECT), n(G::COLLIDES_RECT), n("center"), n("expanded_to_contain_point"), n("expand_to_contain_point"), n("union"), n("intersection"), n("expand_to_contain"), n("intersect"), n(G::CV_RECT));
    let st_split: Vec<String> = (0..D).map(|i| n(&format!("split_at_{}", G::AX[i]))).collect();
    const CL: &str = "differs-from-the-box-method-on-the-converted-value";
    (0..u.vboxes.len()).into_par_iter().for_each(|ai| {
        let mut t = Tally::new();
        let a = &u.vboxes[ai];
        let xa = tb::<T, D>(a);
        let ra = tb::<T, D>(&rect_of(a));
        let wa = wb(a);
        let pe = posext(a);
        // the right-hand sides are the real box methods (decided against set semantics in the other sections);
        // a panic there is reported there, here the case is skipped
        macro_rules! rhs { ($e:expr) => { match catch(|| $e) { Ok(v) => v, Err(_) => continue } } }
        for _once in 0..1 {
            let inp = || json!({"rect[position,extent]": jd(&ra)});
            let want = rhs!(G::center(xa));
            run(s, &mut t, pe, &st_ce, CL, &inp, wa, || G::r_center(ra), &want);
        }
        for axis in 0..D {
            for sp in a[0][axis]..=a[1][axis] {
                let spx = T::from_u(sp);
                let inp = || json!({"rect[position,extent]": jd(&ra), "axis": G::AX[axis], "sp": jd(&spx)});
                let bx = rhs!(G::split(xa, axis, spx));
                let want = [to_rect(&bx[0]), to_rect(&bx[1])];
                t.class("box,coordinate");
                run(s, &mut t, sp != a[0][axis] && sp != a[1][axis], &st_split[axis], CL, &inp, wa + sp.unsigned_abs() as u64, || G::r_split(ra, axis, spx), &want);
            }
        }
        for (idx, p) in u.pts.iter().enumerate() {
            let px = tp::<T, D>(p);
            let w = wa + wp(p);
            let inp = || json!({"rect[position,extent]": jd(&ra), "p": jd(&px)});
            let isin = u.closed[ai].get(idx);
            t.class("box,point");
            let want = rhs!(G::contains_point(xa, px));
            run(s, &mut t, isin && !u.open[ai].get(idx), &st_cp, CL, &inp, w, || G::r_contains_point(ra, px), &want);
            let want = to_rect(&rhs!(G::expanded_pt(xa, px)));
            run(s, &mut t, !isin, &st_ep, CL, &inp, w, || G::r_expanded_pt(ra, px), &want);
            run(s, &mut t, !isin, &st_mp, CL, &inp, w, || G::r_expand_pt(ra, px), &want);
        }
        for (bi, b) in u.vboxes.iter().enumerate() {
            let xb = tb::<T, D>(b);
            let rb = tb::<T, D>(&rect_of(b));
            let w = wa + wb(b);
            let inp = || json!({"a[position,extent]": jd(&ra), "b[position,extent]": jd(&rb)});
            let cls = pair_class(u, ai, bi);
            t.class(cls);
            let nt = cls != "equal" && cls != "disjoint";
            let want = rhs!(G::contains(xa, xb));
            run(s, &mut t, nt, &st_c, CL, &inp, w, || G::r_contains(ra, rb), &want);
            let want = rhs!(G::collides(xa, xb));
            run(s, &mut t, nt, &st_k, CL, &inp, w, || G::r_collides(ra, rb), &want);
            let want = to_rect(&rhs!(G::union(xa, xb)));
            run(s, &mut t, nt, &st_u, CL, &inp, w, || G::r_union(ra, rb), &want);
            run(s, &mut t, nt, &st_eu, CL, &inp, w, || G::r_expand_to_contain(ra, rb), &want);
            let want = to_rect(&rhs!(G::intersection(xa, xb)));
            run(s, &mut t, nt, &st_i, CL, &inp, w, || G::r_intersection(ra, rb), &want);
            run(s, &mut t, nt, &st_ei, CL, &inp, w, || G::r_intersect(ra, rb), &want);
            let want = rhs!(G::cv(xa, xb));
            run(s, &mut t, nt, &st_cv, CL, &inp, w, || G::r_cv(ra, rb), &want);
            if cls == "colliding" && s.wants_sample() { s.sample(json!({"type": T::NAME, "a[position,extent]": jd(&ra), "b[position,extent]": jd(&rb), "class": cls, "methods_compared": 7, "e.g. intersection must be": jd(&to_rect(&rhs!(G::intersection(xa, xb))))})); }
        }
        t.flush(s);
    });
}

/// map / as_ with order-preserving lossless conversions: the fields must be the converted fields
fn mapping<G: Geo<D>, const D: usize>(s: &Section, u: &Uni<D>) { mapping_on::<G, D>(s, &u.vboxes) }
fn mapping_invalid<G: Geo<D>, const D: usize>(s: &Section, u: &Uni<D>) { let inv: Vec<UB<D>> = u.boxes.iter().filter(|b| !valid(b)).copied().collect(); mapping_on::<G, D>(s, &inv) }
fn mapping_on<G: Geo<D>, const D: usize>(s: &Section, boxes: &[UB<D>]) {
    fn cv<A: Copy, B: Copy, const D: usize>(b: &TB<A, D>, f: impl Fn(A) -> B) -> TB<B, D> { [b[0].map(&f), b[1].map(&f)] }
    let a = |m: &str, t: &str| format!("{}::{}<{}>", G::AAB, m, t);
    let r = |m: &str, t: &str| format!("{}::{}<{}>", G::RECT, m, t);
    const CL: &str = "fields-are-not-the-converted-fields";
    for b in boxes {
        let mut t = Tally::new();
        let bi: TB<i32, D> = *b;
        let (bx, bf) = (tb::<X, D>(b), tb::<f64, D>(b));
        let ri = rect_of(b);
        let (rx, rf) = (tb::<X, D>(&ri), tb::<f64, D>(&ri));
        let w = wb(b);
        let nt = posext(b) || !valid(b);
        t.class(if !valid(b) { "invalid-box" } else if nt { "positive-extent" } else { "zero-extent-axis" });
        let ii = || json!({"box[min,max]": jd(&bi)});
        let ix = || json!({"box[min,max]": jd(&bx)});
        let iff = || json!({"box[min,max]": jd(&bf)});
        let iri = || json!({"rect[position,extent]": jd(&ri)});
        let irx = || json!({"rect[position,extent]": jd(&rx)});
        run(s, &mut t, nt, &a("as_", "i32->f64"), CL, &ii, w, || G::as_::<i32, f64>(bi), &cv(&bi, |v| v as f64));
        run(s, &mut t, nt, &a("as_", "i32->i64"), CL, &ii, w, || G::as_::<i32, i64>(bi), &cv(&bi, |v| v as i64));
        run(s, &mut t, nt, &a("as_", "i32->X"), CL, &ii, w, || G::as_::<i32, X>(bi), &cv(&bi, |v| qi(v as i128)));
        run(s, &mut t, nt, &a("as_", "X->f64"), CL, &ix, w, || G::as_::<X, f64>(bx), &bf);
        run(s, &mut t, nt, &a("as_", "f64->f32"), CL, &iff, w, || G::as_::<f64, f32>(bf), &cv(&bf, |v| v as f32));
        run(s, &mut t, nt, &a("map", "i32->X"), CL, &ii, w, || G::map(bi, X::from_u), &bx);
        run(s, &mut t, nt, &a("map", "X->X identity"), CL, &ix, w, || G::map(bx, |v| v), &bx);
        run(s, &mut t, nt, &a("map", "i32 v->3v+1"), CL, &ii, w, || G::map(bi, |v| 3 * v + 1), &cv(&bi, |v| 3 * v + 1));
        run(s, &mut t, nt, &a("map", "f64->X exact"), CL, &iff, w, || G::map(bf, |v| X::R(fl::qf(v))), &bx);
        run(s, &mut t, nt, &r("as_", "i32->(f64,i64)"), CL, &iri, w, || G::r_as::<i32, f64, i64>(ri), &(ri[0].map(|v| v as f64), ri[1].map(|v| v as i64)));
        run(s, &mut t, nt, &r("as_", "X->(X,f64)"), CL, &irx, w, || G::r_as::<X, X, f64>(rx), &(rx[0], rf[1]));
        run(s, &mut t, nt, &r("map", "i32->(X,f64)"), CL, &iri, w, || G::r_map(ri, X::from_u, f64::from_u), &(rx[0], rf[1]));
        run(s, &mut t, nt, &r("map", "i32 (p->p+1, e->2e)"), CL, &iri, w, || G::r_map(ri, |p| p + 1, |e| 2 * e), &(ri[0].map(|v| v + 1), ri[1].map(|v| 2 * v)));
        if nt && b[0].iter().all(|&v| v != 0) && s.wants_sample() { s.sample(json!({"box<i32>": jd(&bi), "as_::<f64>() must be": jd(&cv(&bi, |v| v as f64)), "map(u -> u/2 as X) must be": jd(&bx)})); }
        t.flush(s);
    }
}

/// Aabr::from(Aabb): the shadow of the box on the xy plane
fn flatten<T: El>(s: &Section, u3: &Uni<3>) { flatten_on::<T>(s, &u3.vboxes) }
fn flatten_invalid<T: El>(s: &Section, u3: &Uni<3>) { let inv: Vec<UB<3>> = u3.boxes.iter().filter(|b| !valid(b)).copied().collect(); flatten_on::<T>(s, &inv) }
fn flatten_on<T: El>(s: &Section, boxes: &[UB<3>]) {
    let st = format!("Aabr::from(Aabb)<{}>", T::NAME);
    for b in boxes {
        let mut t = Tally::new();
        let x = tb::<T, 3>(b);
        // { (x,y) : some (x,y,z) is in the box } has the bounding box (min.xy, max.xy) because the box is a product of intervals
        let want: TB<T, 2> = [[x[0][0], x[0][1]], [x[1][0], x[1][1]]];
        let nt = b[0][2] != b[0][0] || b[1][2] != b[1][1];
        t.class(if nt { "z-differs-from-xy" } else { "z-like-xy" });
        let inp = || json!({"box[min,max]": jd(&x)});
        run(s, &mut t, nt, &st, "not-the-xy-shadow", &inp, wb(b), || { let r: Aabr<T> = Aabb { min: Vec3 { x: x[0][0], y: x[0][1], z: x[0][2] }, max: Vec3 { x: x[1][0], y: x[1][1], z: x[1][2] } }.into(); [[r.min.x, r.min.y], [r.max.x, r.max.y]] }, &want);
        t.flush(s);
    }
}

// ------------------------------------------------------------------------------------------------
// added by the clause-by-clause audit (out/AUDIT.md): alphabets the first version did not reach

/// nine strictly increasing values per element type; a universe with nc point coordinates uses the sub-table `sub9(.., nc)`,
/// whose even positions (the corner coordinates) include the least and the greatest value of the type
fn sub9<T: Copy>(t: &[T; 9], nc: usize) -> Vec<T> {
    let ix: &[usize] = match nc { 5 => &[0, 2, 4, 6, 8], 7 => &[0, 1, 3, 4, 5, 7, 8], 9 => &[0, 1, 2, 3, 4, 5, 6, 7, 8], _ => panic!("no sub-table of length {}", nc) };
    ix.iter().map(|&i| t[i]).collect()
}
const T9_I32: [i32; 9] = [i32::MIN, i32::MIN + 1, -2, -1, 0, 1, 2, i32::MAX - 1, i32::MAX];
const T9_I64: [i64; 9] = [i64::MIN, i64::MIN + 1, -2, -1, 0, 1, 2, i64::MAX - 1, i64::MAX];
const T9_U8: [u8; 9] = [0, 1, 2, 127, 128, 129, 253, 254, 255];
const T9_F64_FINITE: [f64; 9] = [-f64::MAX, -1e300, -1.0, -5e-324, 0.0, 5e-324, 1.0, 1e300, f64::MAX];
const T9_F64_INF: [f64; 9] = [f64::NEG_INFINITY, -f64::MAX, -1.5, -1.0, 0.0, 1.0, 1.5, f64::MAX, f64::INFINITY];
const T9_F32: [f32; 9] = [f32::NEG_INFINITY, -f32::MAX, -1.0, -1.0e-45, 0.0, 1.0e-45, 1.0, f32::MAX, f32::INFINITY];

/// Comparison-only methods under a strictly increasing labelling `f` of the model coordinates (`None`: the coordinate has no
/// value of type T; such points are left out, corners are always labelled).  min/max/<=/< commute with every strictly
/// increasing map, so the labelled result must be the label of the mask oracle's result.
fn ordered_ops<G: Geo<D>, T: El, const D: usize>(s: &Section, u: &Uni<D>, alphabet: &'static str, f: &(dyn Fn(i32) -> Option<T> + Sync)) {
    let defined: Vec<T> = (0..u.nc as i32).filter_map(|k| f(k + u.base)).collect();
    if defined.is_empty() || defined.windows(2).any(|w| !(w[0] < w[1])) || (0..u.g as i32).any(|k| f(2 * k + u.shift).is_none()) {
        s.rep.machinery_error(format!("labelling {} is not strictly increasing or misses a corner coordinate", alphabet));
        return;
    }
    let filler = defined[0];
    let lp = |p: &[i32; D]| -> Option<[T; D]> { let mut o = [filler; D]; for i in 0..D { o[i] = f(p[i])?; } Some(o) };
    let lb = |b: &UB<D>| -> TB<T, D> { [lp(&b[0]).expect("labelled corner"), lp(&b[1]).expect("labelled corner")] };
    let pts: Vec<(usize, [i32; D], [T; D])> = u.pts.iter().enumerate().filter_map(|(idx, p)| lp(p).map(|x| (idx, *p, x))).collect();
    let n = |m: &str| sa::<G, T, D>(m);
    let (st_iv, st_mdv, st_mkv, st_ne, st_cp, st_ep, st_mp, st_p) = (n("is_valid"), n("made_valid"), n("make_valid"), n("new_empty"), n("contains_point"), n("expanded_to_contain_point"), n("expand_to_contain_point"), n("projected_point"));
    let (st_u, st_i, st_e, st_x, st_c, st_k) = (n("union"), n("intersection"), n("expand_to_contain"), n("intersect"), n(G::CONTAINS_AAB), n(G::COLLIDES_AAB));
    let st_split: Vec<String> = (0..D).map(|i| n(&format!("split_at_{}", G::AX[i]))).collect();
    // every box, valid and invalid
    u.boxes.par_iter().for_each(|b| {
        let mut t = Tally::new();
        let x = lb(b);
        let (w, v) = (wb(b), valid(b));
        let inp = || json!({"alphabet": alphabet, "box[min,max]": jd(&x)});
        t.class(alphabet);
        t.class(if v { "valid" } else { "invalid-box" });
        run(s, &mut t, true, &st_iv, "wrong-verdict", &inp, w, || G::is_valid(x), &v);
        let mut fx = *b;
        for i in 0..D { if fx[0][i] > fx[1][i] { let (lo, hi) = (fx[1][i], fx[0][i]); fx[0][i] = lo; fx[1][i] = hi; } }
        let want = lb(&fx);
        run(s, &mut t, !v, &st_mdv, "wrong-repair", &inp, w, || G::made_valid(x), &want);
        run(s, &mut t, !v, &st_mkv, "wrong-repair", &inp, w, || G::make_valid(x), &want);
        if !v {
            let hull = u.closed_mask(&fx);
            for (idx, p, px) in &pts {
                let inp = || json!({"alphabet": alphabet, "box[min,max]": jd(&x), "p": jd(px)});
                run(s, &mut t, hull.get(*idx), &st_cp, "invalid-box-contains-a-point", &inp, w + wp(p), || G::contains_point(x, *px), &false);
            }
        }
        t.flush(s);
    });
    // valid boxes: points, cuts, pairs
    (0..u.vboxes.len()).into_par_iter().for_each(|ai| {
        let mut t = Tally::new();
        let a = &u.vboxes[ai];
        let xa = lb(a);
        let ma = u.closed[ai];
        for (idx, p, px) in &pts {
            let w = wb(a) + wp(p);
            let inp = || json!({"alphabet": alphabet, "box[min,max]": jd(&xa), "p": jd(px)});
            let (isin, strict) = (ma.get(*idx), u.open[ai].get(*idx));
            t.class(if strict { "interior" } else if isin { "boundary" } else { "outside" });
            run(s, &mut t, !strict, &st_cp, if isin { "point-of-the-box-rejected" } else { "outside-point-accepted" }, &inp, w, || G::contains_point(xa, *px), &isin);
            let want_e = lb(&u.bbox(&ma.or(Mask::bit(*idx))).unwrap());
            run(s, &mut t, !isin, &st_ep, "not-the-smallest-box-containing-box-and-point", &inp, w, || G::expanded_pt(xa, *px), &want_e);
            run(s, &mut t, !isin, &st_mp, "not-the-smallest-box-containing-box-and-point", &inp, w, || G::expand_pt(xa, *px), &want_e);
            let (_, arg, uniq) = u.nearest(&ma, p);
            if !uniq { s.rep.machinery_error(format!("nearest point of {:?} to {:?} is not unique", a, p)); }
            let want_p = lp(&arg).expect("the nearest point has corner or point coordinates");
            run(s, &mut t, !isin, &st_p, "not-the-nearest-point-of-the-box", &inp, w, || G::proj(xa, *px), &want_p);
            if ai == 0 {
                let inp = || json!({"alphabet": alphabet, "p": jd(px)});
                let want: TB<T, D> = [*px, *px];
                run(s, &mut t, true, &st_ne, "not-the-single-point-box", &inp, wp(p), || G::new_empty(*px), &want);
            }
            if !isin && s.wants_sample() { s.sample(json!({"alphabet": alphabet, "type": T::NAME, "box[min,max]": jd(&xa), "p": jd(px), "projected_point must be": jd(&want_p), "expanded box must be": jd(&want_e)})); }
        }
        for axis in 0..D {
            for sp in a[0][axis]..=a[1][axis] {
                let Some(spx) = f(sp) else { continue; };
                let inp = || json!({"alphabet": alphabet, "box[min,max]": jd(&xa), "axis": G::AX[axis], "sp": jd(&spx)});
                let lo = u.bbox(&ma.and(u.le_mask(axis, sp))).unwrap();
                let hi = u.bbox(&ma.and(u.ge_mask(axis, sp))).unwrap();
                let atface = sp == a[0][axis] || sp == a[1][axis];
                t.class(if atface { "split:at-a-face" } else { "split:interior" });
                let want = [lb(&lo), lb(&hi)];
                run(s, &mut t, !atface, &st_split[axis], "pieces-are-not-the-two-sides-of-the-plane", &inp, wb(a) + sp.unsigned_abs() as u64, || G::split(xa, axis, spx), &want);
            }
        }
        for (bi, b) in u.vboxes.iter().enumerate() {
            let xb = lb(b);
            let mb = u.closed[bi];
            let cls = pair_class(u, ai, bi);
            t.class(cls);
            let nt = cls != "equal";
            let w = wb(a) + wb(b);
            let inp = || json!({"alphabet": alphabet, "a[min,max]": jd(&xa), "b[min,max]": jd(&xb)});
            let want_u = lb(&u.bbox(&ma.or(mb)).unwrap());
            run(s, &mut t, nt, &st_u, "not-the-smallest-enclosing-box", &inp, w, || G::union(xa, xb), &want_u);
            run(s, &mut t, nt, &st_e, "not-the-smallest-enclosing-box", &inp, w, || G::expand_to_contain(xa, xb), &want_u);
            let common = ma.and(mb);
            for (site, which) in [(&st_i, 0), (&st_x, 1)] {
                t.eval(nt);
                let got = s.call(site, || inp(), || if which == 0 { G::intersection(xa, xb) } else { G::intersect(xa, xb) });
                if let Some(g) = got {
                    match u.bbox(&common) {
                        Some(wi) => { let want = lb(&wi); if g != want { report(s, site, "not-exactly-the-common-points", w, || json!({"input": inp(), "got": jd(&g), "want": jd(&want)})); } }
                        None => { if !(0..D).any(|i| g[0][i] > g[1][i]) { report(s, site, "valid-result-for-disjoint-boxes", w, || json!({"input": inp(), "got": jd(&g), "want": "an invalid box (min > max on some axis)"})); } }
                    }
                }
            }
            let want_c = !mb.minus(ma).any();
            run(s, &mut t, common.any(), &st_c, if want_c { "contained-box-rejected" } else { "box-with-outside-points-accepted" }, &inp, w, || G::contains(xa, xb), &want_c);
            if posext(a) && posext(b) {
                let want_k = u.open[ai].and(u.open[bi]).any();
                run(s, &mut t, common.any(), &st_k, if want_k { "overlap-missed" } else if common.any() { "touching-reported-as-collision" } else { "disjoint-reported-as-collision" }, &inp, w, || G::collides(xa, xb), &want_k);
            }
        }
        t.flush(s);
    });
}

/// i32 boxes with corners on ALL integers of a small range (model corner 2k <-> value k; the universe's odd coordinates are
/// the half-integers, which only the oracle uses): arithmetic methods where integer division truncates
fn int_arith<G: Geo<D>, const D: usize>(s: &Section, u: &Uni<D>) {
    let hv = |b: &UB<D>| -> TB<i32, D> { [b[0].map(|v| v / 2), b[1].map(|v| v / 2)] };
    let n = |m: &str| sa::<G, i32, D>(m);
    let (st_c, st_s, st_h, st_cv) = (n("center"), n("size"), n("half_size"), n(G::CV_AAB));
    let (st_ir, st_rf, st_ia, st_af) = (n(G::INTO_RECT), format!("{}::from({})<i32>", G::RECT, G::AAB), sr::<G, i32, D>(G::INTO_AAB), format!("{}::from({})<i32>", G::AAB, G::RECT));
    u.boxes.par_iter().for_each(|b| {
        let mut t = Tally::new();
        let x = hv(b);
        let r = to_rect(&x);
        let w = wb(b);
        let v = valid(b);
        let odd = (0..D).any(|i| r[1][i] % 2 != 0);
        t.class(if !v { "negative-extent" } else if odd { "odd-extent" } else { "even-extent" });
        let ib = || json!({"box[min,max]": jd(&x)});
        let ir = || json!({"rect[position,extent]": jd(&r)});
        run(s, &mut t, odd || !v, &st_ir, "rect-denotes-a-different-set", &ib, w, || G::into_rect(x), &r);
        run(s, &mut t, odd || !v, &st_rf, "rect-denotes-a-different-set", &ib, w, || G::rect_from(x), &r);
        run(s, &mut t, odd || !v, &st_ia, "box-denotes-a-different-set", &ir, w, || G::r_into_aab(r), &x);
        run(s, &mut t, odd || !v, &st_af, "box-denotes-a-different-set", &ir, w, || G::aab_from(r), &x);
        if v {
            // size is exact; centre and half size are a nearest integer to the exact midpoint / half extent (exact when that is an integer)
            run(s, &mut t, odd, &st_s, "wrong-extent", &ib, w, || G::size(x), &r[1]);
            let oddsum = (0..D).any(|i| (x[0][i] + x[1][i]) % 2 != 0);
            if oddsum { t.class(if (0..D).any(|i| (x[0][i] + x[1][i]) % 2 != 0 && x[0][i] + x[1][i] < 0) { "centre:odd-negative-sum" } else { "centre:odd-sum" }); } else { t.class("centre:even-sum"); }
            t.eval(oddsum);
            if let Some(c) = s.call(&st_c, &ib, || G::center(x)) {
                for i in 0..D {
                    let sum = x[0][i] + x[1][i];
                    if (2 * c[i] - sum).abs() > sum.rem_euclid(2) { report(s, &st_c, if sum % 2 == 0 { "not-the-midpoint" } else { "not-a-nearest-integer-to-the-midpoint" }, w, || json!({"input": ib(), "axis": G::AX[i], "got": jd(&c), "exact midpoint x2": sum})); }
                    if !(x[0][i] <= c[i] && c[i] <= x[1][i]) { report(s, &st_c, "centre-outside-the-box", w, || json!({"input": ib(), "axis": G::AX[i], "got": jd(&c)})); }
                }
            }
            t.eval(odd);
            if let Some(h) = s.call(&st_h, &ib, || G::half_size(x)) {
                for i in 0..D {
                    if (2 * h[i] - r[1][i]).abs() > r[1][i].rem_euclid(2) { report(s, &st_h, if r[1][i] % 2 == 0 { "wrong-half-extent" } else { "not-a-nearest-integer-to-half-the-extent" }, w, || json!({"input": ib(), "axis": G::AX[i], "got": jd(&h), "extent": r[1][i]})); }
                }
            }
            if oddsum && s.wants_sample() { s.sample(json!({"box<i32>[min,max]": jd(&x), "size must be": jd(&r[1]), "2*center - (min+max) must be within": "-1..=1 per axis (0 where the sum is even)"})); }
        }
        t.flush(s);
    });
    (0..u.vboxes.len()).into_par_iter().for_each(|ai| {
        let mut t = Tally::new();
        let a = &u.vboxes[ai];
        let xa = hv(a);
        for (bi, b) in u.vboxes.iter().enumerate() {
            let xb = hv(b);
            let inp = || json!({"self[min,max]": jd(&xa), "other[min,max]": jd(&xb)});
            let w = wb(a) + wb(b);
            let pe = posext(a) && posext(b);
            // the centres are compared after truncation: a pair is non-trivial when a centre is not an integer
            let frac = (0..D).any(|i| (xa[0][i] + xa[1][i]) % 2 != 0 || (xb[0][i] + xb[1][i]) % 2 != 0);
            t.class(if !pe { "cv:zero-extent-operand" } else if !frac { "cv:integer-centres" } else if u.open[ai].and(u.open[bi]).any() { "cv:fractional-centre-penetrating" } else { "cv:fractional-centre-apart" });
            let Some(v) = s.call(&st_cv, || inp(), || G::cv(xa, xb)) else { t.eval(frac); continue; };
            for i in 0..D {
                t.eval(frac);
                let (lo, hi) = (xa[0][i] - v[i], xa[1][i] - v[i]);
                if !(hi == xb[0][i] || lo == xb[1][i]) {
                    report(s, &st_cv, "translated-box-does-not-touch-on-the-axis", w, || json!({"input": inp(), "collision_vector": jd(&v), "axis": G::AX[i], "self interval after translation by -v[axis]": jd(&[lo, hi]), "other interval": jd(&[xb[0][i], xb[1][i]])}));
                }
            }
        }
        t.flush(s);
    });
}

/// Every Rect method against the real Aab method on the harness-converted value, on operands the first version left out:
/// rectangles with a negative extent (converted invalid boxes) and i32 rectangles with odd extents / odd positions.
/// `boxes`: (typed box, weight, novel?) - pairs of two non-novel boxes are the old section's and are skipped here.
fn rect_methods_all<G: Geo<D>, T: El, const D: usize>(s: &Section, alphabet: &'static str, boxes: &[(TB<T, D>, u64, bool)], pts: &[([T; D], u64)], coords: &[(T, u64)]) {
    let n = |m: &str| sr::<G, T, D>(m);
    let (st_cp, st_c, st_k, st_ce, st_ep, st_mp, st_u, st_i, st_eu, st_ei, st_cv) = (n("contains_point"), n(G::CONTAINS_RECT), n(G::COLLIDES_RECT), n("center"), n("expanded_to_contain_point"), n("expand_to_contain_point"), n("union"), n("intersection"), n("expand_to_contain"), n("intersect"), n(G::CV_RECT));
    let st_split: Vec<String> = (0..D).map(|i| n(&format!("split_at_{}", G::AX[i]))).collect();
    const CL: &str = "differs-from-the-box-method-on-the-converted-value";
    let isvalid = |x: &TB<T, D>| (0..D).all(|i| x[0][i] <= x[1][i]);
    (0..boxes.len()).into_par_iter().for_each(|ai| {
        let mut t = Tally::new();
        let (xa, wa, na) = boxes[ai];
        let ra = to_rect(&xa);
        let va = isvalid(&xa);
        macro_rules! rhs { ($e:expr) => { match catch(|| $e) { Ok(v) => v, Err(_) => { t.class("box-method-panics:skipped"); continue } } } }
        if na {
            t.class(alphabet);
            for _once in 0..1 {
                let inp = || json!({"alphabet": alphabet, "rect[position,extent]": jd(&ra)});
                let want = rhs!(G::center(xa));
                run(s, &mut t, true, &st_ce, CL, &inp, wa, || G::r_center(ra), &want);
            }
            for axis in 0..D {
                for (spx, wsp) in coords {
                    // the documented precondition, on the cut axis
                    if !(xa[0][axis] <= *spx && *spx <= xa[1][axis]) { continue; }
                    let inp = || json!({"alphabet": alphabet, "rect[position,extent]": jd(&ra), "axis": G::AX[axis], "sp": jd(spx)});
                    let bx = rhs!(G::split(xa, axis, *spx));
                    let want = [to_rect(&bx[0]), to_rect(&bx[1])];
                    t.class("rect,coordinate");
                    run(s, &mut t, true, &st_split[axis], CL, &inp, wa + wsp, || G::r_split(ra, axis, *spx), &want);
                }
            }
            for (px, wpx) in pts {
                let w = wa + wpx;
                let inp = || json!({"alphabet": alphabet, "rect[position,extent]": jd(&ra), "p": jd(px)});
                t.class("rect,point");
                let want = rhs!(G::contains_point(xa, *px));
                run(s, &mut t, true, &st_cp, CL, &inp, w, || G::r_contains_point(ra, *px), &want);
                let want = to_rect(&rhs!(G::expanded_pt(xa, *px)));
                run(s, &mut t, true, &st_ep, CL, &inp, w, || G::r_expanded_pt(ra, *px), &want);
                run(s, &mut t, true, &st_mp, CL, &inp, w, || G::r_expand_pt(ra, *px), &want);
            }
        }
        for (xb, wb_, nb) in boxes {
            if !(na || *nb) { continue; }
            let rb = to_rect(xb);
            let vb = isvalid(xb);
            let w = wa + wb_;
            let inp = || json!({"alphabet": alphabet, "a[position,extent]": jd(&ra), "b[position,extent]": jd(&rb)});
            t.class(if va && vb { "pair:both-valid" } else if va || vb { "pair:one-negative-extent" } else { "pair:both-negative-extent" });
            let want = rhs!(G::contains(xa, *xb));
            run(s, &mut t, true, &st_c, CL, &inp, w, || G::r_contains(ra, rb), &want);
            let want = rhs!(G::collides(xa, *xb));
            run(s, &mut t, true, &st_k, CL, &inp, w, || G::r_collides(ra, rb), &want);
            let want = to_rect(&rhs!(G::union(xa, *xb)));
            run(s, &mut t, true, &st_u, CL, &inp, w, || G::r_union(ra, rb), &want);
            run(s, &mut t, true, &st_eu, CL, &inp, w, || G::r_expand_to_contain(ra, rb), &want);
            let want = to_rect(&rhs!(G::intersection(xa, *xb)));
            run(s, &mut t, true, &st_i, CL, &inp, w, || G::r_intersection(ra, rb), &want);
            run(s, &mut t, true, &st_ei, CL, &inp, w, || G::r_intersect(ra, rb), &want);
            let want = rhs!(G::cv(xa, *xb));
            run(s, &mut t, true, &st_cv, CL, &inp, w, || G::r_cv(ra, rb), &want);
            if !va && vb && s.wants_sample() { s.sample(json!({"alphabet": alphabet, "type": T::NAME, "a[position,extent]": jd(&ra), "b[position,extent]": jd(&rb), "methods_compared": 7, "e.g. union must be": jd(&to_rect(&rhs!(G::union(xa, *xb))))})); }
        }
        t.flush(s);
    });
}
/// the operand lists of `rect_methods_all` for an element type with a linear `from_u`: every box of the universe, novel = invalid
fn rma_linear<G: Geo<D>, T: El, const D: usize>(s: &Section, u: &Uni<D>, alphabet: &'static str) {
    let boxes: Vec<(TB<T, D>, u64, bool)> = u.boxes.iter().map(|b| (tb::<T, D>(b), wb(b), !valid(b))).collect();
    let pts: Vec<([T; D], u64)> = u.pts.iter().map(|p| (tp::<T, D>(p), wp(p))).collect();
    let coords: Vec<(T, u64)> = (0..u.nc as i32).map(|k| (T::from_u(k + u.base), (k + u.base).unsigned_abs() as u64)).collect();
    rect_methods_all::<G, T, D>(s, alphabet, &boxes, &pts, &coords);
}
/// ... and for i32 with corners on all integers (model 2k <-> k): novel = invalid or some odd coordinate
fn rma_dense<G: Geo<D>, const D: usize>(s: &Section, u: &Uni<D>, alphabet: &'static str) {
    let boxes: Vec<(TB<i32, D>, u64, bool)> = u.boxes.iter().map(|b| ([b[0].map(|v| v / 2), b[1].map(|v| v / 2)], wb(b), !valid(b) || b.iter().flatten().any(|v| (v / 2) % 2 != 0))).collect();
    let pts: Vec<([i32; D], u64)> = u.pts.iter().filter(|p| p.iter().all(|v| v % 2 == 0)).map(|p| (p.map(|v| v / 2), wp(p))).collect();
    let coords: Vec<(i32, u64)> = (0..u.nc as i32).map(|k| k + u.base).filter(|c| c % 2 == 0).map(|c| (c / 2, c.unsigned_abs() as u64)).collect();
    rect_methods_all::<G, i32, D>(s, alphabet, &boxes, &pts, &coords);
}

/// pair laws with an invalid (= empty, see the validity section) operand, as far as the property text fixes them
fn invalid_operands<G: Geo<D>, T: El, const D: usize>(s: &Section, u: &Uni<D>) {
    let (st_u, st_e, st_i, st_x, st_c) = (sa::<G, T, D>("union"), sa::<G, T, D>("expand_to_contain"), sa::<G, T, D>("intersection"), sa::<G, T, D>("intersect"), sa::<G, T, D>(G::CONTAINS_AAB));
    let (st_iv, st_mdv) = (sa::<G, T, D>("is_valid"), sa::<G, T, D>("made_valid"));
    (0..u.boxes.len()).into_par_iter().for_each(|ai| {
        let mut t = Tally::new();
        let a = &u.boxes[ai];
        let xa = tb::<T, D>(a);
        let va = valid(a);
        if !va {
            // repair sequence: repairing twice is repairing once, and the repaired box is valid
            let inp = || json!({"box[min,max]": jd(&xa)});
            run(s, &mut t, true, &st_mdv, "repair-is-not-idempotent", &inp, wb(a), || G::made_valid(G::made_valid(xa)) == G::made_valid(xa), &true);
            run(s, &mut t, true, &st_iv, "repaired-box-is-not-valid", &inp, wb(a), || G::is_valid(G::make_valid(xa)), &true);
        }
        for b in &u.boxes {
            let vb = valid(b);
            if va && vb { continue; }
            let xb = tb::<T, D>(b);
            let w = wb(a) + wb(b);
            let inp = || json!({"a[min,max]": jd(&xa), "b[min,max]": jd(&xb)});
            t.class(if !va && !vb { "invalid,invalid" } else if va { "valid,invalid" } else { "invalid,valid" });
            // no point is common to the empty set and anything: the result must be invalid
            for (site, which) in [(&st_i, 0), (&st_x, 1)] {
                t.eval(true);
                if let Some(g) = s.call(site, || inp(), || if which == 0 { G::intersection(xa, xb) } else { G::intersect(xa, xb) }) {
                    if !(0..D).any(|i| g[0][i] > g[1][i]) { report(s, site, "valid-result-although-an-operand-is-empty", w, || json!({"input": inp(), "got": jd(&g), "want": "an invalid box (min > max on some axis)"})); }
                }
            }
            if va != vb {
                // the union contains both, in particular every point of the valid operand (minimality is not asserted here)
                let xv = if va { xa } else { xb };
                for (site, which) in [(&st_u, 0), (&st_e, 1)] {
                    t.eval(true);
                    if let Some(g) = s.call(site, || inp(), || if which == 0 { G::union(xa, xb) } else { G::expand_to_contain(xa, xb) }) {
                        if !(0..D).all(|i| g[0][i] <= xv[0][i] && xv[1][i] <= g[1][i]) { report(s, site, "union-with-an-empty-box-loses-points-of-the-other", w, || json!({"input": inp(), "got": jd(&g), "must contain": jd(&xv)})); }
                    }
                }
                // an empty box contains no point, the valid operand has points: some point of b is not contained
                if !va { run(s, &mut t, true, &st_c, "empty-box-contains-a-non-empty-box", &inp, w, || G::contains(xa, xb), &false); }
                else { t.class("contains(valid, invalid): not asserted"); }
            }
            if !va && vb && s.wants_sample() { s.sample(json!({"type": T::NAME, "a (invalid)": jd(&xa), "b": jd(&xb), "intersection": "must be invalid", "a contains b": false, "union": "must contain b"})); }
        }
        t.flush(s);
    });
}

/// the anchored mechanism called directly: Vec partial_min / partial_max and the two vector Clamp impls
fn vec_mechanism<G: Geo<D>, T: El, const D: usize>(s: &Section, u: &Uni<D>) {
    let vn = |m: &str| format!("Vec{}::{}<{}>", D, m, T::NAME);
    let (st_mn, st_mx, st_mna, st_mxa, st_cl, st_ca, st_cs) = (vn("partial_min"), vn("partial_max"), vn("partial_min(arrays)"), vn("partial_max(arrays)"), vn("clamped(Vec,Vec)"), vn("Clamp::clamp(Vec,Vec,Vec)"), vn("clamped(scalar,scalar)"));
    u.pts.par_iter().for_each(|p| {
        let mut t = Tally::new();
        let px = tp::<T, D>(p);
        for q in &u.pts {
            let qx = tp::<T, D>(q);
            let (mut mn, mut mx) = (*p, *p);
            for i in 0..D { mn[i] = p[i].min(q[i]); mx[i] = p[i].max(q[i]); }
            let mixed = (0..D).any(|i| p[i] < q[i]) && (0..D).any(|i| p[i] > q[i]);
            t.class(if mixed { "lanes-disagree" } else { "lanes-agree" });
            let inp = || json!({"a": jd(&px), "b": jd(&qx)});
            let w = wp(p) + wp(q);
            run(s, &mut t, mixed, &st_mn, "not-the-lanewise-minimum", &inp, w, || G::v_partial_min(px, qx), &tp::<T, D>(&mn));
            run(s, &mut t, mixed, &st_mx, "not-the-lanewise-maximum", &inp, w, || G::v_partial_max(px, qx), &tp::<T, D>(&mx));
            run(s, &mut t, mixed, &st_mna, "not-the-lanewise-minimum", &inp, w, || G::v_partial_min_arr(px, qx), &tp::<T, D>(&mn));
            run(s, &mut t, mixed, &st_mxa, "not-the-lanewise-maximum", &inp, w, || G::v_partial_max_arr(px, qx), &tp::<T, D>(&mx));
        }
        // scalar bounds lo <= hi: the nearest point of the cube [lo,hi]^D
        for lo in u.base..u.base + u.nc as i32 { for hi in lo..u.base + u.nc as i32 {
            let cube: UB<D> = [[lo; D], [hi; D]];
            let (_, arg, _) = u.nearest(&u.closed_mask(&cube), p);
            let moved = (0..D).filter(|&i| arg[i] != p[i]).count();
            t.class(if moved == 0 { "cube:inside" } else if moved == D { "cube:moved-on-every-axis" } else { "cube:moved-on-some-axes" });
            let (lx, hx) = (T::from_u(lo), T::from_u(hi));
            let inp = || json!({"p": jd(&px), "lower": jd(&lx), "upper": jd(&hx)});
            run(s, &mut t, moved > 0, &st_cs, "not-the-nearest-point-of-the-cube", &inp, wp(p) + (lo.unsigned_abs() + hi.unsigned_abs()) as u64, || G::v_clamped_scalar(px, lx, hx), &tp::<T, D>(&arg));
        } }
        t.flush(s);
    });
    (0..u.vboxes.len()).into_par_iter().for_each(|ai| {
        let mut t = Tally::new();
        let a = &u.vboxes[ai];
        let xa = tb::<T, D>(a);
        for p in &u.pts {
            let px = tp::<T, D>(p);
            let (_, arg, _) = u.nearest(&u.closed[ai], p);
            let moved = (0..D).filter(|&i| arg[i] != p[i]).count();
            t.class(if moved == 0 { "box:inside" } else { "box:moved" });
            let inp = || json!({"p": jd(&px), "lower": jd(&xa[0]), "upper": jd(&xa[1])});
            let w = wb(a) + wp(p);
            run(s, &mut t, moved > 0, &st_cl, "not-the-nearest-point-of-the-box", &inp, w, || G::v_clamped(px, xa[0], xa[1]), &tp::<T, D>(&arg));
            run(s, &mut t, moved > 0, &st_ca, "not-the-nearest-point-of-the-box", &inp, w, || G::v_clamp_alias(px, xa[0], xa[1]), &tp::<T, D>(&arg));
        }
        t.flush(s);
    });
}

/// call sequences: the outputs of one real method are the inputs of the next
fn sequences<G: Geo<D>, T: El, const D: usize>(s: &Section, u: &Uni<D>) {
    let n = |m: &str| sa::<G, T, D>(m);
    let (st_u, st_i, st_c, st_k, st_mp, st_e, st_x, st_rmp) = (n("union"), n("intersection"), n(G::CONTAINS_AAB), n(G::COLLIDES_AAB), n("expand_to_contain_point"), n("expand_to_contain"), n("intersect"), sr::<G, T, D>("expand_to_contain_point"));
    // (i) the two pieces of a split, fed back: their union is the box, their intersection is the flat box on the plane, the box
    // contains both, and - touching faces - they do not collide
    (0..u.vboxes.len()).into_par_iter().for_each(|ai| {
        let mut t = Tally::new();
        let a = &u.vboxes[ai];
        let xa = tb::<T, D>(a);
        for axis in 0..D {
            for sp in a[0][axis]..=a[1][axis] {
                let spx = T::from_u(sp);
                let inp = || json!({"box[min,max]": jd(&xa), "axis": G::AX[axis], "sp": jd(&spx), "sequence": "split_at, then the method named by the site on the two pieces"});
                let Ok(pc) = catch(|| G::split(xa, axis, spx)) else { continue; };
                let w = wb(a) + sp.unsigned_abs() as u64;
                let mut plane = *a; plane[0][axis] = sp; plane[1][axis] = sp;
                let inner = a[0][axis] < sp && sp < a[1][axis];
                t.class(if inner { "pieces:cut-strictly-inside" } else { "pieces:cut-at-a-face" });
                run(s, &mut t, inner, &st_u, "union-of-the-split-pieces-is-not-the-box", &inp, w, || G::union(pc[0], pc[1]), &xa);
                run(s, &mut t, inner, &st_u, "union-of-the-split-pieces-is-not-the-box", &inp, w, || G::union(pc[1], pc[0]), &xa);
                run(s, &mut t, inner, &st_i, "intersection-of-the-split-pieces-is-not-the-cut-face", &inp, w, || G::intersection(pc[0], pc[1]), &tb::<T, D>(&plane));
                run(s, &mut t, inner, &st_c, "box-does-not-contain-its-split-piece", &inp, w, || G::contains(xa, pc[0]) && G::contains(xa, pc[1]), &true);
                if inner && posext(a) {
                    t.class("pieces:touching-faces");
                    run(s, &mut t, true, &st_k, "touching-reported-as-collision", &inp, w, || G::collides(pc[0], pc[1]) || G::collides(pc[1], pc[0]), &false);
                    run(s, &mut t, true, &st_k, "overlap-missed", &inp, w, || G::collides(xa, pc[0]) && G::collides(pc[1], xa), &true);
                }
            }
        }
        t.flush(s);
    });
    // (ii) in-place accumulation of three points from new_empty (box and rectangle twin): the bounding box of the three
    u.pts.par_iter().enumerate().for_each(|(i0, p0)| {
        let mut t = Tally::new();
        let x0 = tp::<T, D>(p0);
        for (i1, p1) in u.pts.iter().enumerate() { for (i2, p2) in u.pts.iter().enumerate() {
            let (x1, x2) = (tp::<T, D>(p1), tp::<T, D>(p2));
            let bb = u.bbox(&Mask::bit(i0).or(Mask::bit(i1)).or(Mask::bit(i2))).unwrap();
            let grew_twice = !inside(&[*p0, *p0], p1) && !inside(&u.bbox(&Mask::bit(i0).or(Mask::bit(i1))).unwrap(), p2);
            t.class(if grew_twice { "points:grew-at-both-steps" } else { "points:some-step-idle" });
            let inp = || json!({"sequence": "new_empty(p0); expand_to_contain_point(p1); expand_to_contain_point(p2)", "p0": jd(&x0), "p1": jd(&x1), "p2": jd(&x2)});
            let w = wp(p0) + wp(p1) + wp(p2);
            run(s, &mut t, grew_twice, &st_mp, "accumulated-box-is-not-the-bounding-box-of-the-points", &inp, w, || G::expand_pt(G::expand_pt(G::new_empty(x0), x1), x2), &tb::<T, D>(&bb));
            run(s, &mut t, grew_twice, &st_rmp, "accumulated-rect-is-not-the-bounding-box-of-the-points", &inp, w, || G::r_expand_pt(G::r_expand_pt(G::into_rect(G::new_empty(x0)), x1), x2), &tb::<T, D>(&rect_of(&bb)));
        } }
        t.flush(s);
    });
    // (iii) in-place folds over three boxes: expand_to_contain accumulates the bounding box of all points, intersect keeps exactly
    // the points common to all three and stays invalid once it is (the invalid intermediate is a real result, not a literal)
    (0..u.vboxes.len()).into_par_iter().for_each(|ai| {
        let mut t = Tally::new();
        let xa = tb::<T, D>(&u.vboxes[ai]);
        for bi in 0..u.vboxes.len() { for ci in 0..u.vboxes.len() {
            let (xb, xc) = (tb::<T, D>(&u.vboxes[bi]), tb::<T, D>(&u.vboxes[ci]));
            let (ma, mb, mc) = (u.closed[ai], u.closed[bi], u.closed[ci]);
            let inp = || json!({"sequence": "x = a; x.<site>(b); x.<site>(c)", "a[min,max]": jd(&xa), "b[min,max]": jd(&xb), "c[min,max]": jd(&xc)});
            let w = wb(&u.vboxes[ai]) + wb(&u.vboxes[bi]) + wb(&u.vboxes[ci]);
            let distinct = ai != bi && bi != ci && ai != ci;
            run(s, &mut t, distinct, &st_e, "fold-is-not-the-bounding-box-of-all-three", &inp, w, || G::expand_to_contain(G::expand_to_contain(xa, xb), xc), &tb::<T, D>(&u.bbox(&ma.or(mb).or(mc)).unwrap()));
            t.eval(distinct);
            if let Some(g) = s.call(&st_x, || inp(), || G::intersect(G::intersect(xa, xb), xc)) {
                match u.bbox(&ma.and(mb).and(mc)) {
                    Some(wi) => { t.class("fold:common-points"); let want = tb::<T, D>(&wi); if g != want { report(s, &st_x, "fold-is-not-exactly-the-points-common-to-all-three", w, || json!({"input": inp(), "got": jd(&g), "want": jd(&want)})); } }
                    None => { t.class(if ma.and(mb).any() { "fold:emptied-at-the-second-step" } else { "fold:invalid-intermediate" }); if !(0..D).any(|i| g[0][i] > g[1][i]) { report(s, &st_x, "fold-is-valid-although-no-point-is-common-to-all-three", w, || json!({"input": inp(), "got": jd(&g)})); } }
                }
            }
        } }
        t.flush(s);
    });
}

/// float tier, f32: the same derivation as for f64 with the f32 epsilon
fn distance_f32<G: Geo<D>, const D: usize>(s: &Section, u: &Uni<D>) {
    let st = sa::<G, f32, D>("distance_to_point");
    (0..u.vboxes.len()).into_par_iter().for_each(|ai| {
        let mut t = Tally::new();
        let a = &u.vboxes[ai];
        let xa = tb::<f32, D>(a);
        for p in &u.pts {
            let (d2, arg, _) = u.nearest(&u.closed[ai], p);
            let moved = (0..D).filter(|&i| arg[i] != p[i]).count();
            t.class(if moved == 0 { "float32:zero" } else if Q::isqrt(d2 as i128).is_some() { "float32:rational" } else { "float32:irrational" });
            let px = tp::<f32, D>(p);
            let d2r = d2 as f64 * 0.25;
            let want = d2r.sqrt();
            t.eval(moved > 0);
            let inp = || json!({"box[min,max]": jd(&xa), "p": jd(&px)});
            if let Some(g) = s.call(&st, || inp(), || G::dist(xa, px)) {
                if !fl::close32(g, want, want.max(d2r).max(1.0)) { report(s, &st, "not-the-distance-to-the-nearest-point", wb(a) + wp(p), || json!({"input": inp(), "got": g, "want": want})); }
            }
        }
        t.flush(s);
    });
}

// ------------------------------------------------------------------------------------------------
// second audit (out/AUDIT2.md): slips that are right on the exact small grid and wrong elsewhere

// (a) the remaining members of vek's scalar `Clamp` family (impl_clamp_integer! list in ops.rs): every primitive integer and its
// `Wrapping<_>` - projected_point is the only box method that reaches a per-type impl, the relabelling section runs all of them
macro_rules! el_plain { ($($T:ident)+) => { $(
    impl El for $T { const NAME: &'static str = stringify!($T); fn from_u(u: i32) -> $T { <$T>::try_from(u).expect("model coordinate outside the type") } }
)+ } }
macro_rules! el_wrapping { ($($T:ident)+) => { $(
    impl El for Wrapping<$T> { const NAME: &'static str = concat!("Wrapping<", stringify!($T), ">"); fn from_u(u: i32) -> Self { Wrapping(<$T>::try_from(u).expect("model coordinate outside the type")) } }
)+ } }
el_plain!(i8 i16 isize u16 u32 u64 usize);
el_wrapping!(i8 i16 i32 i64 isize u8 u16 u32 u64 usize);
/// nine strictly increasing values whose ends are the least and the greatest value of the type (same shape as T9_I32 / T9_U8)
macro_rules! t9_signed { ($T:ty) => { [<$T>::MIN, <$T>::MIN + 1, -2, -1, 0, 1, 2, <$T>::MAX - 1, <$T>::MAX] } }
macro_rules! t9_unsigned { ($T:ty) => { [0, 1, 2, <$T>::MAX / 2, <$T>::MAX / 2 + 1, <$T>::MAX / 2 + 2, <$T>::MAX - 2, <$T>::MAX - 1, <$T>::MAX] } }

// (b) floats off the exact grid
trait Fp: El + Real + vek::approx::RelativeEq + Into<f64> {
    /// significand bits; exponents of the "far from the origin", "tiny" and "huge" clusters (huge^2 and tiny^2 stay normal numbers)
    const MANT: i32; const FAR: i32; const TINY: i32; const HUGE: i32;
    fn fp_up(self) -> Self;
    fn fp_down(self) -> Self;
    fn p2(k: i32) -> Self;
    fn lit(v: f64) -> Self;
    fn min_sub() -> Self;
}
impl Fp for f64 {
    const MANT: i32 = 53; const FAR: i32 = 40; const TINY: i32 = 100; const HUGE: i32 = 500;
    fn fp_up(self) -> f64 { self.next_up() } fn fp_down(self) -> f64 { self.next_down() }
    fn p2(k: i32) -> f64 { 2f64.powi(k) } fn lit(v: f64) -> f64 { v } fn min_sub() -> f64 { f64::from_bits(1) }
}
impl Fp for f32 {
    const MANT: i32 = 24; const FAR: i32 = 20; const TINY: i32 = 30; const HUGE: i32 = 60;
    fn fp_up(self) -> f32 { self.next_up() } fn fp_down(self) -> f32 { self.next_down() }
    fn p2(k: i32) -> f32 { 2f32.powi(k) } fn lit(v: f64) -> f32 { v as f32 } fn min_sub() -> f32 { f32::from_bits(1) }
}
/// error-free sum (Knuth): a + b == s + e exactly, s = fl(a + b); valid for all finite operands whose sum does not overflow
fn two_sum<T: Fp>(a: T, b: T) -> (T, T) { let s = a + b; let bb = s - a; let e = (a - (s - bb)) + (b - bb); (s, e) }
/// the floats a faithful evaluation of a + b may return: the exact sum if it is a float, else its two neighbours
fn faithful<T: Fp>(a: T, b: T) -> [T; 2] { let (s, e) = two_sum(a, b); let z = <T as vek::num_traits::Zero>::zero(); [s, if e > z { s.fp_up() } else if e < z { s.fp_down() } else { s }] }
/// x / 2: exact unless a subnormal loses its last bit, then either neighbour
fn halves<T: Fp>(x: T) -> [T; 3] { let h = x / (<T as One>::one() + <T as One>::one()); if h + h == x { [h; 3] } else { [h, h.fp_up(), h.fp_down()] } }
fn f64of<T: Fp>(v: T) -> f64 { v.into() }

/// the hot list: clusters at 1 (adjacent floats, nearly symmetric about 0), 0.1/0.3, tiny, subnormal, far from the origin
/// (2^FAR + small integers), at the end of the integer range (2^MANT, spacing 2) and huge (2^HUGE); `reduced` drops a few
fn hot_values<T: Fp>(reduced: bool) -> Vec<T> {
    let one = <T as One>::one();
    let e = T::p2(1 - T::MANT);
    let (far, big, tiny, huge) = (T::p2(T::FAR), T::p2(T::MANT), T::p2(-T::TINY), T::p2(T::HUGE));
    let (two, three, four) = (one + one, one + one + one, one + one + one + one);
    let mut v = vec![-huge, -(big + two), -(far + three), -(one + e), -one, -tiny, one - one, T::min_sub(), tiny, T::lit(0.1), T::lit(0.3), one - e / two, one, one + e, three,
                     far, far + three, far + four, big, big + two, huge];
    if !reduced { v.extend([one + e + e, big + four, huge * (one + e)]); }
    v.sort_by(|a, b| a.partial_cmp(b).unwrap());
    assert!(v.windows(2).all(|w| w[0] < w[1]), "hot list must be strictly increasing");
    v
}
fn with_neighbours<T: Fp>(v: &[T]) -> Vec<T> {
    let mut o: Vec<T> = v.iter().flat_map(|&x| [x.fp_down(), x, x.fp_up()]).collect();
    o.sort_by(|a, b| a.partial_cmp(b).unwrap()); o.dedup_by(|a, b| a == b); o
}
/// one-hot-axis design: for every axis h, the h interval runs through all lo <= hi of `hot`, the other axes through all lo <= hi of `cold`
/// (`hw`: weight of each hot value - its distance in the list from 1.0 - so that the lightest witness is the most readable one)
fn hot_boxes<T: Copy, const D: usize>(hot: &[T], hw: &[u64], cold: &[T]) -> Vec<Vec<(TB<T, D>, u64)>> {
    let iv = |l: &[T], lw: Option<&[u64]>| -> Vec<(T, T, u64)> { let mut o = Vec::new(); for i in 0..l.len() { for j in i..l.len() { o.push((l[i], l[j], match lw { Some(w) => w[i] + w[j], None => (i + j) as u64 })); } } o };
    let (hi, ci) = (iv(hot, Some(hw)), iv(cold, None));
    (0..D).map(|h| {
        let mut o = Vec::new();
        let ncomb = ci.len().pow(D as u32 - 1);
        for &(lo, up, w) in &hi { for c in 0..ncomb {
            let mut b = [[lo; D]; 2]; b[1][h] = up; let (mut r, mut ww) = (c, w);
            for i in 0..D { if i != h { let (l, u, wc) = ci[r % ci.len()]; r /= ci.len(); b[0][i] = l; b[1][i] = u; ww += wc; } }
            o.push((b, ww));
        } }
        o
    }).collect()
}
fn hot_points<T: Copy, const D: usize>(hot: &[T], hw: &[u64], cold: &[T]) -> Vec<Vec<([T; D], u64)>> {
    (0..D).map(|h| {
        let mut o = Vec::new();
        let ncomb = cold.len().pow(D as u32 - 1);
        for (k, &x) in hot.iter().enumerate() { for c in 0..ncomb {
            let mut p = [x; D]; let (mut r, mut w) = (c, hw[k] + 1);
            for i in 0..D { if i != h { p[i] = cold[r % cold.len()]; w += (r % cold.len()) as u64 + 1; r /= cold.len(); } }
            o.push((p, w));
        } }
        o
    }).collect()
}

/// Arithmetic methods on float boxes whose sums and differences are NOT exact, with oracles that are exact by construction:
/// every expected value is derived from the inputs with error-free transformations (two_sum) and comparisons only.
fn float_arith<G: Geo<D>, T: Fp, const D: usize>(s: &Section, reduced: bool, reduced_pairs: bool) {
    let n = |m: &str| sa::<G, T, D>(m);
    let (st_c, st_s, st_h, st_ir, st_rf, st_p, st_d, st_cv) = (n("center"), n("size"), n("half_size"), n(G::INTO_RECT), format!("{}::from({})<{}>", G::RECT, G::AAB, T::NAME), n("projected_point"), n("distance_to_point"), n(G::CV_AAB));
    let z = <T as vek::num_traits::Zero>::zero();
    let one = <T as One>::one();
    let hot = hot_values::<T>(reduced);
    let hotp = with_neighbours(&hot);
    let cold: Vec<T> = if D == 2 { vec![-one, T::lit(0.1), T::p2(T::FAR) + one + one + one + one] } else { vec![-one, T::p2(T::FAR) + one + one + one + one] };
    let coldp: Vec<T> = if D == 2 { vec![-(one + one), T::lit(0.1), T::lit(0.3), T::p2(T::FAR) + T::p2(3)] } else { vec![-(one + one), T::lit(0.1), T::p2(T::FAR) + T::p2(3)] };
    let from_one = |l: &[T]| -> Vec<u64> { let k1 = l.iter().position(|&v| v == one).expect("1.0 is a hot value") as i64; (0..l.len() as i64).map(|k| (k - k1).unsigned_abs()).collect() };
    let boxes = hot_boxes::<T, D>(&hot, &from_one(&hot), &cold);
    let points = hot_points::<T, D>(&hotp, &from_one(&hotp), &coldp);
    let lim = T::p2(T::HUGE + 1);
    let tiny_lim = T::p2(-T::HUGE);
    let eps = f64of(T::p2(1 - T::MANT));
    let in_set = |v: T, c: &[T]| c.iter().any(|&x| x == v);
    for h in 0..D {
        boxes[h].par_iter().for_each(|&(x, w)| {
            let mut t = Tally::new();
            let ib = || json!({"box[min,max]": jd(&x), "hot axis": G::AX[h]});
            // ---- per box
            let (mut sum_exact, mut diff_exact) = (true, true);
            for i in 0..D { if two_sum(x[0][i], x[1][i]).1 != z { sum_exact = false; } if two_sum(x[1][i], -x[0][i]).1 != z { diff_exact = false; } }
            t.class(if sum_exact { "box:min+max-exact" } else { "box:min+max-rounds" });
            t.class(if diff_exact { "box:max-min-exact" } else { "box:max-min-rounds" });
            t.eval(!sum_exact);
            if let Some(c) = s.call(&st_c, &ib, || G::center(x)) {
                for i in 0..D {
                    if !(x[0][i] <= c[i] && c[i] <= x[1][i]) { report(s, &st_c, "centre-outside-the-box", w, || json!({"input": ib(), "axis": G::AX[i], "got": jd(&c)})); }
                    let f = faithful(x[0][i], x[1][i]);
                    if !f.iter().any(|&sm| in_set(c[i], &halves(sm))) { report(s, &st_c, if sum_exact { "not-the-midpoint" } else { "not-a-faithful-rounding-of-the-midpoint" }, w, || json!({"input": ib(), "axis": G::AX[i], "got": jd(&c), "min+max lies in": jd(&f), "want": "half of it"})); }
                }
            }
            t.eval(!diff_exact);
            if let Some(g) = s.call(&st_s, &ib, || G::size(x)) {
                for i in 0..D { let f = faithful(x[1][i], -x[0][i]); if !in_set(g[i], &f) { report(s, &st_s, if diff_exact { "wrong-extent" } else { "not-a-faithful-rounding-of-max-minus-min" }, w, || json!({"input": ib(), "axis": G::AX[i], "got": jd(&g), "max-min lies in": jd(&f)})); } }
            }
            t.eval(!diff_exact);
            if let Some(g) = s.call(&st_h, &ib, || G::half_size(x)) {
                for i in 0..D { let f = faithful(x[1][i], -x[0][i]); if !f.iter().any(|&d| in_set(g[i], &halves(d))) { report(s, &st_h, if diff_exact { "wrong-half-extent" } else { "not-a-faithful-rounding-of-half-the-extent" }, w, || json!({"input": ib(), "axis": G::AX[i], "got": jd(&g), "max-min lies in": jd(&f), "want": "half of it"})); } }
            }
            for (site, which) in [(&st_ir, 0), (&st_rf, 1)] {
                t.eval(!diff_exact);
                if let Some(g) = s.call(site, &ib, || if which == 0 { G::into_rect(x) } else { G::rect_from(x) }) {
                    for i in 0..D { let f = faithful(x[1][i], -x[0][i]); if !(g[0][i] == x[0][i] && in_set(g[1][i], &f)) { report(s, site, "rect-denotes-a-different-set", w, || json!({"input": ib(), "axis": G::AX[i], "got[position,extent]": jd(&g), "max-min lies in": jd(&f)})); } }
                }
            }
            // ---- per point: the nearest point by comparisons, the distance from the error-free differences
            for (p, wpt) in &points[h] {
                let mut want_p = *p;
                for i in 0..D { if p[i] < x[0][i] { want_p[i] = x[0][i]; } else if p[i] > x[1][i] { want_p[i] = x[1][i]; } }
                let ip = || json!({"box[min,max]": jd(&x), "p": jd(p)});
                let moved = (0..D).filter(|&i| want_p[i] != p[i]).count();
                run(s, &mut t, moved > 0, &st_p, "not-the-nearest-point-of-the-box", &ip, w + wpt, || G::proj(x, *p), &want_p);
                // magnitude policy: every non-zero lane difference has a normal, finite square
                let mut lanes: Vec<[T; 2]> = Vec::new();
                let mut policy = true;
                let mut sum = 0f64;
                for i in 0..D { if want_p[i] != p[i] { let f = faithful(p[i], -want_p[i]); let a = f[0].abs(); if !(a >= tiny_lim && a <= lim) { policy = false; } let d = f64of(f[0]); sum += d * d; lanes.push([f[0].abs(), f[1].abs()]); } }
                t.eval(moved > 0 && policy);
                let Some(g) = s.call(&st_d, &ip, || G::dist(x, *p)) else { continue; };
                if moved == 0 {
                    t.class("distance:point-in-box");
                    if g != z { report(s, &st_d, "non-zero-distance-for-a-point-of-the-box", w + wpt, || json!({"input": ip(), "got": jd(&g)})); }
                } else if !policy {
                    t.class("distance:square-leaves-the-normal-range-not-asserted");
                } else if moved == 1 {
                    // sqrt(fl(d*d)) == |d| exactly in binary floating point; d = fl(p - face) is a faithful difference
                    let exact = lanes[0][0] == lanes[0][1];
                    t.class(if exact { "distance:one-axis-exact-difference" } else { "distance:one-axis-rounded-difference" });
                    if !in_set(g, &lanes[0]) { report(s, &st_d, "not-the-distance-to-the-nearest-point", w + wpt, || json!({"input": ip(), "got": jd(&g), "want one of": jd(&lanes[0]), "nearest point": jd(&want_p)})); }
                } else {
                    t.class("distance:several-axes");
                    let want = sum.sqrt();
                    let gd = f64of(g);
                    if !(gd.is_finite() && (gd - want).abs() <= fl::K * eps * want) { report(s, &st_d, "not-the-distance-to-the-nearest-point", w + wpt, || json!({"input": ip(), "got": jd(&g), "want": want, "bound": fl::K * eps * want, "nearest point": jd(&want_p)})); }
                }
                if moved == 1 && policy && s.wants_sample() { s.sample(json!({"type": T::NAME, "box[min,max]": jd(&x), "p": jd(p), "nearest point": jd(&want_p), "distance must be one of": jd(&lanes[0])})); }
            }
            t.flush(s);
        });
        // ---- pairs (same hot axis): each component of the collision vector is a faithful face-to-face offset
        // (quick tier: only the first two combinations of cold intervals; the hot interval still runs through the whole list)
        let pb: Vec<(TB<T, D>, u64)> = if reduced_pairs { let nc = cold.len() * (cold.len() + 1) / 2; let per = nc.pow(D as u32 - 1); boxes[h].iter().enumerate().filter(|(k, _)| k % per < 2).map(|(_, b)| *b).collect() } else { boxes[h].clone() };
        pb.par_iter().for_each(|&(xa, wa)| {
            let mut t = Tally::new();
            for &(xb, wb_) in &pb {
                let inp = || json!({"self[min,max]": jd(&xa), "other[min,max]": jd(&xb)});
                let Some(v) = s.call(&st_cv, &inp, || G::cv(xa, xb)) else { t.eval(true); continue; };
                for i in 0..D {
                    let (f1, f2) = (faithful(xa[1][i], -xb[0][i]), faithful(xa[0][i], -xb[1][i]));
                    let exact = f1[0] == f1[1] && f2[0] == f2[1];
                    t.eval(!exact);
                    if i == h { t.class(if exact { "cv:exact-offsets" } else { "cv:rounded-offsets" }); }
                    if !(in_set(v[i], &f1) || in_set(v[i], &f2)) { report(s, &st_cv, if exact { "translated-box-does-not-touch-on-the-axis" } else { "not-a-faithful-face-to-face-offset" }, wa + wb_, || json!({"input": inp(), "axis": G::AX[i], "collision_vector": jd(&v), "self.max-other.min lies in": jd(&f1), "self.min-other.max lies in": jd(&f2)})); }
                }
            }
            t.flush(s);
        });
    }
    s.meta(&format!("{} {}", G::AAB, T::NAME), json!({"hot values": jd(&hot), "hot point coordinates": hotp.len(), "cold values": jd(&cold), "cold point coordinates": jd(&coldp), "boxes per hot axis": boxes[0].len(), "points per hot axis": points[0].len()}));
}

/// model conversion rectangle -> box in the element type itself (the definition of "the converted value": max = position + extent)
fn from_rect_t<T: El, const D: usize>(r: &TB<T, D>) -> TB<T, D> { let mut mx = r[0]; for i in 0..D { mx[i] = r[0][i] + r[1][i]; } [r[0], mx] }

/// Every Rect method against the real Aab method, starting from the RECTANGLE: the box is position / position+extent computed by
/// the harness in the element type (for floats this sum rounds, for unsigned integers nothing may go below zero), results are
/// converted back with max-min in the element type.  A box-side panic (unsigned underflow, clamp of an inverted range) skips the case.
fn rect_first<G: Geo<D>, T: El, const D: usize>(s: &Section, alphabet: &'static str, rects: &[(TB<T, D>, u64)], pts: &[([T; D], u64)], coords: &[(T, u64)]) {
    let n = |m: &str| sr::<G, T, D>(m);
    let (st_cp, st_c, st_k, st_ce, st_ep, st_mp, st_u, st_i, st_eu, st_ei, st_cv) = (n("contains_point"), n(G::CONTAINS_RECT), n(G::COLLIDES_RECT), n("center"), n("expanded_to_contain_point"), n("expand_to_contain_point"), n("union"), n("intersection"), n("expand_to_contain"), n("intersect"), n(G::CV_RECT));
    let (st_ia, st_af) = (n(G::INTO_AAB), format!("{}::from({})<{}>", G::AAB, G::RECT, T::NAME));
    let st_split: Vec<String> = (0..D).map(|i| n(&format!("split_at_{}", G::AX[i]))).collect();
    const CL: &str = "differs-from-the-box-method-on-the-converted-value";
    let conv: Vec<Option<TB<T, D>>> = rects.iter().map(|(r, _)| catch(|| from_rect_t(r)).ok()).collect();
    (0..rects.len()).into_par_iter().for_each(|ai| {
        let mut t = Tally::new();
        let (ra, wa) = rects[ai];
        let Some(xa) = conv[ai] else { t.class("rect:position+extent-leaves-the-type:skipped"); t.flush(s); return; };
        t.class(alphabet);
        let rounds = (0..D).any(|i| !(xa[1][i] - ra[0][i] == ra[1][i]));
        t.class(if rounds { "rect:position+extent-rounds" } else { "rect:position+extent-exact" });
        // want side under catch: Ok(v) -> compare, Err -> skip
        macro_rules! cmp { ($site:expr, $inp:expr, $w:expr, $want:expr, $got:expr) => { match catch(|| $want) { Ok(want) => run(s, &mut t, true, $site, CL, $inp, $w, || $got, &want), Err(_) => t.class("box-side-panics:skipped") } } }
        let inp = || json!({"alphabet": alphabet, "rect[position,extent]": jd(&ra)});
        run(s, &mut t, true, &st_ia, "box-denotes-a-different-set", &inp, wa, || G::r_into_aab(ra), &xa);
        run(s, &mut t, true, &st_af, "box-denotes-a-different-set", &inp, wa, || G::aab_from(ra), &xa);
        cmp!(&st_ce, &inp, wa, G::center(xa), G::r_center(ra));
        for axis in 0..D {
            for (spx, wsp) in coords {
                if !(xa[0][axis] <= *spx && *spx <= xa[1][axis]) { continue; }
                let inp = || json!({"alphabet": alphabet, "rect[position,extent]": jd(&ra), "axis": G::AX[axis], "sp": jd(spx)});
                t.class("rect,coordinate");
                cmp!(&st_split[axis], &inp, wa + wsp, { let bx = G::split(xa, axis, *spx); [to_rect(&bx[0]), to_rect(&bx[1])] }, G::r_split(ra, axis, *spx));
            }
        }
        for (px, wpx) in pts {
            let w = wa + wpx;
            let inp = || json!({"alphabet": alphabet, "rect[position,extent]": jd(&ra), "p": jd(px)});
            t.class("rect,point");
            cmp!(&st_cp, &inp, w, G::contains_point(xa, *px), G::r_contains_point(ra, *px));
            cmp!(&st_ep, &inp, w, to_rect(&G::expanded_pt(xa, *px)), G::r_expanded_pt(ra, *px));
            cmp!(&st_mp, &inp, w, to_rect(&G::expanded_pt(xa, *px)), G::r_expand_pt(ra, *px));
        }
        for (bi, (rb, wb_)) in rects.iter().enumerate() {
            let Some(xb) = conv[bi] else { continue; };
            let w = wa + wb_;
            let inp = || json!({"alphabet": alphabet, "a[position,extent]": jd(&ra), "b[position,extent]": jd(rb)});
            t.class("rect,rect");
            cmp!(&st_c, &inp, w, G::contains(xa, xb), G::r_contains(ra, *rb));
            cmp!(&st_k, &inp, w, G::collides(xa, xb), G::r_collides(ra, *rb));
            cmp!(&st_u, &inp, w, to_rect(&G::union(xa, xb)), G::r_union(ra, *rb));
            cmp!(&st_eu, &inp, w, to_rect(&G::union(xa, xb)), G::r_expand_to_contain(ra, *rb));
            cmp!(&st_i, &inp, w, to_rect(&G::intersection(xa, xb)), G::r_intersection(ra, *rb));
            cmp!(&st_ei, &inp, w, to_rect(&G::intersection(xa, xb)), G::r_intersect(ra, *rb));
            cmp!(&st_cv, &inp, w, G::cv(xa, xb), G::r_cv(ra, *rb));
            if rounds && s.wants_sample() { s.sample(json!({"alphabet": alphabet, "type": T::NAME, "a[position,extent]": jd(&ra), "a as box (position, position+extent in the type)": jd(&xa), "b[position,extent]": jd(rb), "methods_compared": 7})); }
        }
        t.flush(s);
    });
}
/// one-hot-axis rectangles: hot axis through every (position, extent) of pos x ext, the other axes through `cold`
fn hot_rects<T: Copy, const D: usize>(pos: &[T], ext: &[T], cold: &[(T, T)]) -> Vec<(TB<T, D>, u64)> {
    let mut o = Vec::new();
    for h in 0..D { for (i, &p) in pos.iter().enumerate() { for (j, &e) in ext.iter().enumerate() { for c in 0..cold.len().pow(D as u32 - 1) {
        let mut r = [[p; D], [e; D]]; let (mut k, mut w) = (c, (i + j) as u64);
        for a in 0..D { if a != h { let (cp, ce) = cold[k % cold.len()]; w += (k % cold.len()) as u64; k /= cold.len(); r[0][a] = cp; r[1][a] = ce; } }
        o.push((r, w));
    } } } }
    o
}
fn rect_first_float<G: Geo<D>, T: Fp, const D: usize>(s: &Section, alphabet: &'static str, thorough: bool) {
    let one = <T as One>::one();
    let z = one - one;
    let e = T::p2(1 - T::MANT);
    let pos = vec![T::lit(-0.3), z, T::lit(0.1), one, T::p2(T::FAR), T::p2(T::MANT)];
    // 0.75 ulp(1): 1 + it rounds up to 1 + ulp; 0.1, 0.2: the classic 0.1 + 0.2 != 0.3; 3: 2^MANT + 3 is a tie
    let ext = vec![T::lit(-0.1), z, e * T::lit(0.75), T::lit(0.1), T::lit(0.2), one, one + one, one + one + one];
    let cold: Vec<(T, T)> = if D == 2 || thorough { vec![(z, one), (T::lit(0.1), T::lit(0.2)), (one, T::lit(-0.1))] } else { vec![(T::lit(0.1), T::lit(0.2)), (one, T::lit(-0.1))] };
    let rects = hot_rects::<T, D>(&pos, &ext, &cold);
    let mut hv: Vec<T> = pos.iter().flat_map(|&p| ext.iter().map(move |&x| p + x)).chain(pos.iter().copied()).collect();
    hv.sort_by(|a, b| a.partial_cmp(b).unwrap()); hv.dedup_by(|a, b| a == b);
    let hv = with_neighbours(&hv);
    let coldp: Vec<T> = if D == 2 || thorough { vec![z, T::lit(0.1), T::lit(0.1) + T::lit(0.2), one] } else { vec![T::lit(0.1), T::lit(0.1) + T::lit(0.2)] };
    let mut pts: Vec<([T; D], u64)> = Vec::new();
    for v in hot_points::<T, D>(&hv, &(0..hv.len() as u64).collect::<Vec<_>>(), &coldp) { pts.extend(v); }
    let coords: Vec<(T, u64)> = hv.iter().enumerate().map(|(k, &v)| (v, k as u64)).chain(coldp.iter().map(|&v| (v, 0))).collect();
    rect_first::<G, T, D>(s, alphabet, &rects, &pts, &coords);
    s.meta(&format!("{} {}", G::RECT, alphabet), json!({"positions": jd(&pos), "extents": jd(&ext), "cold (position,extent)": jd(&cold), "rects": rects.len(), "points": pts.len(), "split coordinates": coords.len()}));
}
fn rect_first_u8<G: Geo<D>, const D: usize>(s: &Section, alphabet: &'static str) {
    let (pos, ext): (Vec<u8>, Vec<u8>) = if D == 2 { (vec![0, 1, 100, 250], vec![0, 1, 2, 5]) } else { (vec![0, 250], vec![0, 1, 5]) };
    let mut rects: Vec<(TB<u8, D>, u64)> = Vec::new();
    let iv: Vec<(u8, u8)> = pos.iter().flat_map(|&p| ext.iter().map(move |&e| (p, e))).collect();
    for c in 0..iv.len().pow(D as u32) { let mut r = [[0u8; D]; 2]; let mut k = c; let mut w = 0; for a in 0..D { let (p, e) = iv[k % iv.len()]; w += (k % iv.len()) as u64; k /= iv.len(); r[0][a] = p; r[1][a] = e; } rects.push((r, w)); }
    let pc: Vec<u8> = if D == 2 { vec![0, 1, 2, 3, 6, 99, 100, 101, 105, 249, 250, 251, 255] } else { vec![0, 1, 5, 6, 249, 250, 255] };
    let mut pts: Vec<([u8; D], u64)> = Vec::new();
    for c in 0..pc.len().pow(D as u32) { let mut p = [0u8; D]; let mut k = c; let mut w = 0; for a in 0..D { p[a] = pc[k % pc.len()]; w += (k % pc.len()) as u64 + 1; k /= pc.len(); } pts.push((p, w)); }
    let coords: Vec<(u8, u64)> = pc.iter().enumerate().map(|(k, &v)| (v, k as u64)).collect();
    rect_first::<G, u8, D>(s, alphabet, &rects, &pts, &coords);
    s.meta(&format!("{} {}", G::RECT, alphabet), json!({"positions": jd(&pos), "extents": jd(&ext), "rects": rects.len(), "points": pts.len()}));
}

// ------------------------------------------------------------------------------------------------

fn main() {
    let rep = Report::start("C13", "exploration");
    // quick: the planned space (2D corners {0,2,4,6}, 3D corners {0,2,4}) and the same grids moved to straddle zero;
    // thorough: additionally a larger straddling grid in each dimension
    let (c2, c3): (Vec<(usize, i32)>, Vec<(usize, i32)>) = if rep.thorough() { (vec![(4, 0), (4, -4), (8, -8)], vec![(3, 0), (3, -2), (5, -4)]) } else { (vec![(4, 0), (4, -4)], vec![(3, 0), (3, -2)]) };
    let u2s: Vec<Uni<2>> = c2.iter().map(|&(g, sh)| Uni::<2>::new(g, sh)).collect();
    let u3s: Vec<Uni<3>> = c3.iter().map(|&(g, sh)| Uni::<3>::new(g, sh)).collect();
    // audit additions: dense integer corners (model corner 2k <-> i32 value k), extreme-magnitude tables (no margin: the outermost
    // corners are the least / greatest values of the type), a larger all-boxes universe for the thorough tier, a small 3D universe for triples
    let th = rep.thorough();
    let d2s: Vec<Uni<2>> = if th { vec![Uni::<2>::new(5, -4), Uni::<2>::new(7, -6)] } else { vec![Uni::<2>::new(5, -4)] };
    let d3s: Vec<Uni<3>> = if th { vec![Uni::<3>::new(3, -2), Uni::<3>::new(4, -4)] } else { vec![Uni::<3>::new(3, -2)] };
    let e2s: Vec<Uni<2>> = if th { vec![Uni::<2>::with_margin(4, 0, 0), Uni::<2>::with_margin(5, 0, 0)] } else { vec![Uni::<2>::with_margin(4, 0, 0)] };
    let e3s: Vec<Uni<3>> = if th { vec![Uni::<3>::with_margin(3, 0, 0), Uni::<3>::with_margin(4, 0, 0)] } else { vec![Uni::<3>::with_margin(3, 0, 0)] };
    let a2s: Vec<Uni<2>> = if th { vec![Uni::<2>::new(6, -6)] } else { vec![] };
    let a3s: Vec<Uni<3>> = if th { vec![Uni::<3>::new(4, -4)] } else { vec![] };
    let q3 = if th { Uni::<3>::new(3, -2) } else { Uni::<3>::new(2, -2) };
    let q2 = if th { Uni::<2>::new(5, -4) } else { Uni::<2>::new(4, -4) };
    rep.extra("universe", json!({"2D": u2s.iter().map(|u| u.describe()).collect::<Vec<_>>(), "3D": u3s.iter().map(|u| u.describe()).collect::<Vec<_>>(),
        "element_unit": {"i32": "1", "X": "1/2", "f64": "0.5"},
        "invalid_operands": "enumerated in the validity section only; pair/point laws are asserted for valid operands (the property fixes no denotation for invalid ones beyond is_valid, make_valid and emptiness)"}));
    let grids = |g: &Vec<(usize, i32)>| g.iter().map(|&(g, sh)| format!("{{{}..{}}}", sh, sh + 2 * g as i32 - 2)).collect::<Vec<_>>().join(", ");
    let scope = format!("model units: box corners on even grids, points = all integers from one below to one above the grid; 2D grids {} (squared), 3D grids {} (cubed); element types i32 (unit 1), X and f64 (unit 1/2)", grids(&c2), grids(&c3));

    macro_rules! all_types { ($s:expr, $f:ident) => {{
        for u in &u2s { $f::<D2, i32, 2>($s, u); $f::<D2, X, 2>($s, u); $f::<D2, f64, 2>($s, u); }
        for u in &u3s { $f::<D3, i32, 3>($s, u); $f::<D3, X, 3>($s, u); $f::<D3, f64, 3>($s, u); }
        $s.meta("scope", json!(scope));
    }} }

    rep.section("premise: point-set masks agree with the pointwise definition",
        "every box (valid and invalid) of both universes: the closed/open bit masks used by the oracles are rebuilt point by point from min<=p<=max / min<p<max; bounding box of a valid box's mask is the box; invalid boxes have the empty mask; non-trivial: valid boxes", true, false, |s| {
        s.require_classes(&["valid", "invalid-box"]);
        for u in &u2s { premise(s, u); } for u in &u3s { premise(s, u); }
        for u in d2s.iter().chain(&e2s).chain(&a2s).chain([&q2]) { premise(s, u); }
        for u in d3s.iter().chain(&e3s).chain(&a3s).chain([&q3]) { premise(s, u); }
        let u2 = &u2s[0];
        s.sample(json!({"box": jd(&u2.vboxes[u2.vboxes.len() / 2]), "points_in_mask": u2.closed[u2.vboxes.len() / 2].0.iter().map(|w| w.count_ones()).sum::<u32>()}));
        s.meta("scope", json!(scope));
    });
    rep.section("validity: is_valid, make_valid/made_valid, invalid boxes are empty",
        "every universe point p: new_empty(p) == [p,p], valid and containing p; every box, valid and invalid (all g^(2D) corner pairs): is_valid == (min<=max on every axis); made_valid/make_valid == per-axis sorted corners; for every invalid box and every universe point contains_point == false (box, and the rectangle with the corresponding negative extent) and expanded_to_contain_point / expand_to_contain_point of box and rectangle yield a result that contains the point (closed-interval membership on its public fields); non-trivial: is_valid always, repairs on invalid boxes, emptiness on points inside the repaired hull", true, false, |s| {
        s.require_classes(&["valid", "invalid-box", "invalid-on-one-axis", "invalid-on-every-axis", "valid-zero-extent", "new_empty"]);
        all_types!(s, validity);
        all_types!(s, new_empty_boxes);
    });
    rep.section("contains_point is closed-interval membership",
        "every valid box x every universe point: contains_point == (min<=p<=max on every axis); non-trivial: boundary points and points one step outside", true, false, |s| {
        s.require_classes(&["interior", "boundary", "outside-by-one-step", "outside"]);
        all_types!(s, contains_point);
    });
    rep.section("union and intersection as point sets",
        "every ordered pair of valid boxes: union / expand_to_contain == bounding box of the united point masks (contains all points of both; moving any face in by a step would lose one); intersection / intersect == the box of exactly the common points, and some axis has min>max when there are none; non-trivial: a != b", true, false, |s| {
        s.require_classes(&["equal", "disjoint", "contained", "colliding", "touching"]);
        all_types!(s, union_intersection);
    });
    rep.section("contains_aab* and collides_with_aab*",
        "every ordered pair of valid boxes: contains == no universe point of b lies outside a; collides (both boxes of positive extent only) == some universe point lies strictly inside both (corners are even, universe has the odd points, so a non-empty open intersection always holds one); non-trivial: the closed sets meet", true, false, |s| {
        s.require_classes(&["contains:equal", "contains:inside", "contains:partial-overlap", "contains:disjoint", "collides:nested", "collides:colliding", "collides:touching", "collides:disjoint", "collides:zero-extent-operand-not-asserted"]);
        all_types!(s, contains_collides);
    });
    rep.section("expanded_to_contain_point and projected_point",
        "every valid box x every universe point: expanded_to_contain_point / expand_to_contain_point == bounding box of mask(box) + the point; projected_point == the universe point of the box with the least squared distance to p (searched over all points of the mask, unique); non-trivial: p outside the box", true, false, |s| {
        s.require_classes(&["point-in-box", "moved-on-one-axis", "moved-on-every-axis"]);
        all_types!(s, point_ops);
    });
    rep.section("center, size, half_size, split_at_*",
        "every valid box: center == midpoint (oracle cross-checked: the mask is symmetric about it), size == max-min, half_size == size/2 (corners even in model units, so exact also for i32); split_at_<axis>(sp) for every axis and every integer sp with min<=sp<=max (the documented precondition): [low, high] == boxes of mask&{x<=sp}, mask&{x>=sp} (oracle cross-checked to tile the box and to meet exactly on the plane); non-trivial: positive extent / cut strictly inside", true, false, |s| {
        s.require_classes(&["positive-extent", "zero-extent-axis", "split:zero-extent-axis", "split:at-a-face", "split:interior-half-grid", "split:interior-grid"]);
        all_types!(s, shape_ops);
    });
    rep.section("distance_to_point",
        "every valid box x every universe point: distance == sqrt(least squared distance to a point of the mask); exact tier X on every case with a rational distance (zero, axis-aligned, Pythagorean), compared with ==; float tier f64 on every case with the derived bound 256*eps*max(distance, distance^2, 1) (inputs are small dyadics: only the square root rounds); i32 is not a Real type; non-trivial: p outside the box", true, false, |s| {
        s.require_classes(&["exact:zero", "exact:axis-aligned", "exact:pythagorean", "exact:irrational-distance-left-to-the-float-tier", "float:zero", "float:rational", "float:irrational", "float32:zero", "float32:rational", "float32:irrational"]);
        for u in &u2s { distance_exact::<D2, 2>(s, u); distance_float::<D2, 2>(s, u); distance_f32::<D2, 2>(s, u); }
        for u in &u3s { distance_exact::<D3, 3>(s, u); distance_float::<D3, 3>(s, u); distance_f32::<D3, 3>(s, u); }
        s.meta("f32 tier", json!("added by the audit: same cases with f32 boxes and points, bound 256*eps32*max(distance, distance^2, 1)"));
        s.meta("scope", json!(scope));
    });
    rep.section("collision_vector_with_aab*",
        "every ordered pair of valid boxes, every axis i: after translating self by -v[i] along axis i, self.max[i] == other.min[i] or self.min[i] == other.max[i] (a face of self lies on the opposite face of other); which of the two is not asserted; one evaluation per axis; non-trivial: both boxes of positive extent", true, false, |s| {
        s.require_classes(&["zero-extent-operand", "centres-tie-on-an-axis", "penetrating", "touching", "separated"]);
        all_types!(s, collision_vector);
    });
    rep.section("integer rectangles with odd extents and negative positions: Rect method == Aab method on the converted value",
        "every Rect<i32,i32> with position in {-3..2}^2 and extent in {0..3}^2 (576) and every Rect3 with position in {-3,-2,0,1}^3, extent in {0,1,2,3}^3 (4096): center, and for every point of {-4..6}^D contains_point / expanded_to_contain_point, against the REAL Aabr/Aabb method on the box built by the harness from position and position+extent (struct literal), converted back by the harness; the point universe of the other sections has even corners only, where integer division never truncates - here it does; non-trivial: odd extent on some axis", true, false, |s| {
        s.require_classes(&["odd-extent-negative-position", "even-extent", "point-on-max-edge"]);
        let (mut n_odd, mut n_even, mut n_edge) = (0u64, 0u64, 0u64);
        for x in -3i32..=2 { for y in -3i32..=2 { for w in 0i32..=3 { for h in 0i32..=3 {
            let r = Rect { x, y, w, h };
            let b = Aabr { min: Vec2 { x, y }, max: Vec2 { x: x + w, y: y + h } };
            let odd = w % 2 != 0 || h % 2 != 0;
            if odd && (x < 0 || y < 0) { n_odd += 1; } else if !odd { n_even += 1; }
            let inp = || json!({"rect[x,y,w,h]": [x, y, w, h]});
            s.eval(odd);
            if let Some((g, want)) = s.call("Rect::center<i32>", inp, || (r.center(), b.center())) { if (g.x, g.y) != (want.x, want.y) { s.violation_w("Rect::center<i32>", "differs-from-the-box-method-on-the-converted-value", json!({"input": inp(), "got": [g.x, g.y], "want": [want.x, want.y]}), (x.abs() + y.abs() + w + h) as u64); } }
            for px in -4i32..=6 { for py in -4i32..=6 {
                let p = Vec2 { x: px, y: py };
                if px == x + w || py == y + h { n_edge += 1; }
                s.eval(odd);
                if r.contains_point(p) != b.contains_point(p) { s.violation_w("Rect::contains_point<i32>", "differs-from-the-box-method-on-the-converted-value", json!({"input": inp(), "p": [px, py], "got": r.contains_point(p)}), (x.abs() + y.abs() + w + h) as u64); }
                let (e, eb) = (r.expanded_to_contain_point(p), b.expanded_to_contain_point(p));
                if (e.x, e.y, e.x + e.w, e.y + e.h) != (eb.min.x, eb.min.y, eb.max.x, eb.max.y) { s.violation_w("Rect::expanded_to_contain_point<i32>", "differs-from-the-box-method-on-the-converted-value", json!({"input": inp(), "p": [px, py], "got": [e.x, e.y, e.w, e.h]}), (x.abs() + y.abs() + w + h) as u64); }
            } }
            if odd && x < 0 && s.wants_sample() { s.sample(json!({"rect[x,y,w,h]": [x, y, w, h], "center must equal Aabr::center of": [[x, y], [x + w, y + h]]})); }
        } } } }
        let pos = [-3i32, -2, 0, 1];
        for &x in &pos { for &y in &pos { for &z in &pos { for w in 0i32..=3 { for h in 0i32..=3 { for d in 0i32..=3 {
            let r = Rect3 { x, y, z, w, h, d };
            let b = Aabb { min: Vec3 { x, y, z }, max: Vec3 { x: x + w, y: y + h, z: z + d } };
            let odd = w % 2 != 0 || h % 2 != 0 || d % 2 != 0;
            if odd && (x < 0 || y < 0 || z < 0) { n_odd += 1; } else if !odd { n_even += 1; }
            let inp = || json!({"rect3[x,y,z,w,h,d]": [x, y, z, w, h, d]});
            s.eval(odd);
            if let Some((g, want)) = s.call("Rect3::center<i32>", inp, || (r.center(), b.center())) { if (g.x, g.y, g.z) != (want.x, want.y, want.z) { s.violation_w("Rect3::center<i32>", "differs-from-the-box-method-on-the-converted-value", json!({"input": inp(), "got": [g.x, g.y, g.z], "want": [want.x, want.y, want.z]}), (x.abs() + y.abs() + z.abs() + w + h + d) as u64); } }
            for p in [Vec3 { x: x + w, y, z }, Vec3 { x, y: y + h, z: z + d }, Vec3 { x: x - 1, y, z }, Vec3 { x: x + w + 1, y: y + h, z: z + d }] {
                n_edge += 1; s.eval(odd);
                if r.contains_point(p) != b.contains_point(p) { s.violation_w("Rect3::contains_point<i32>", "differs-from-the-box-method-on-the-converted-value", json!({"input": inp(), "p": [p.x, p.y, p.z], "got": r.contains_point(p)}), (x.abs() + y.abs() + z.abs() + w + h + d) as u64); }
            }
        } } } } } }
        s.class_n("odd-extent-negative-position", n_odd); s.class_n("even-extent", n_even); s.class_n("point-on-max-edge", n_edge);
    });

    rep.section("Rect <-> Aab conversions and Rect plumbing",
        "every valid box and the rectangle (position=min, extent=max-min) written down by the harness: into_rect / Rect::from(Aab) give that rectangle, into_aab / Aab::from(Rect) give the box back, both round trips are the identity, Aab::size is the extent (previous section); Rect::new, position, extent, position_extent, From<(Vec,Extent)> read/write the named fields, set_position / set_extent change exactly their own fields; non-trivial: positive extent and a non-zero position", true, false, |s| {
        s.require_classes(&["positive-extent", "zero-extent-axis", "position-nonzero-on-every-axis"]);
        all_types!(s, rect_conversions);
    });
    rep.section("every Rect method equals the Aab method on the converted value",
        "every valid box a (and ordered pair a,b; and universe point; and admissible split coordinate): the Rect/Rect3 method run on the harness-converted rectangle(s) == the real Aab method run on the box(es), converted back by the harness (position=min, extent=max-min): contains_point, contains_rect*, collides_with_rect*, center, expanded_to_contain_point, expand_to_contain_point, union, intersection, expand_to_contain, intersect, collision_vector_with_rect*, split_at_*; non-trivial: closed sets meet and a != b (pairs), boundary/outside points, interior cuts, positive extent (center)", true, false, |s| {
        s.require_classes(&["box,point", "box,coordinate", "equal", "disjoint", "contained", "colliding", "touching"]);
        all_types!(s, rect_methods);
    });
    rep.section("map, as_ and Aabr::from(Aabb)",
        "every valid box: as_ (i32->f64, i32->i64, i32->X, X->f64, f64->f32) and map (i32->X scaling, identity, v->3v+1, f64->X exact) on Aab; as_ and map with different position/extent targets on Rect: result fields == the converted fields (all conversions are lossless and order preserving on the grid, so the denoted set is carried along); Aabr::from(Aabb) == (min.xy, max.xy), the xy shadow; non-trivial: positive extent / z interval differs from x and y", true, false, |s| {
        s.require_classes(&["positive-extent", "zero-extent-axis", "z-differs-from-xy"]);
        for u in &u2s { mapping::<D2, 2>(s, u); }
        for u in &u3s { mapping::<D3, 3>(s, u); flatten::<i32>(s, u); flatten::<X>(s, u); flatten::<f64>(s, u); }
        s.meta("scope", json!(scope));
    });

    // ---- sections added by the audit (out/AUDIT.md) ----
    rep.section("relabelling: comparison-only methods on dense-integer and extreme-magnitude alphabets",
        "is_valid, made_valid/make_valid, new_empty, contains_point, expanded_to_contain_point/expand_to_contain_point, projected_point, split_at_*, union/expand_to_contain, intersection/intersect, contains_aab*, collides_with_aab* use only <, <=, min, max, which commute with every strictly increasing relabelling of the coordinates: every box (valid and invalid), every labelled universe point, every admissible cut and every ordered pair of valid boxes, result == label of the mask oracle's result. Alphabets: i32 with corners on ALL integers of a small range (odd and even; half-integer points exist only in the oracle), and for i32, i64, u8, f64 (finite: +-MAX, +-1e300, subnormals), f64 and f32 with +-infinity a strictly increasing table whose corner values include the least and the greatest value of the type (so max-min, min+max overflow the type: an implementation that compares through a difference fails here). non-trivial: as in the corresponding base sections", true, false, |s| {
        s.require_classes(&["i32:all-integers", "i32:extreme", "i64:extreme", "u8:extreme", "f64:finite-extreme", "f64:infinite", "f32:infinite", "valid", "invalid-box", "interior", "boundary", "outside", "split:interior", "equal", "disjoint", "contained", "colliding", "touching"]);
        let half = |c: i32| if c % 2 == 0 { Some(c / 2) } else { None };
        for u in &d2s { ordered_ops::<D2, i32, 2>(s, u, "i32:all-integers", &half); }
        for u in &d3s { ordered_ops::<D3, i32, 3>(s, u, "i32:all-integers", &half); }
        macro_rules! tables { ($G:ident, $D:literal, $us:expr) => { for u in $us {
            let base = u.base;
            macro_rules! one { ($T:ty, $tab:expr, $name:literal) => {{ let tab: Vec<$T> = sub9(&$tab, u.nc); ordered_ops::<$G, $T, $D>(s, u, $name, &move |c: i32| tab.get((c - base) as usize).copied()); }} }
            one!(i32, T9_I32, "i32:extreme"); one!(i64, T9_I64, "i64:extreme"); one!(u8, T9_U8, "u8:extreme");
            one!(f64, T9_F64_FINITE, "f64:finite-extreme"); one!(f64, T9_F64_INF, "f64:infinite"); one!(f32, T9_F32, "f32:infinite");
        } } }
        tables!(D2, 2, &e2s); tables!(D3, 3, &e3s);
        // second audit: the other members of the scalar Clamp family (projected_point is per-type code) and float corners that are
        // ADJACENT floats (corner k <-> k-th value; the half-grid coordinates between them have no float and are left out)
        macro_rules! tables2 { ($G:ident, $D:literal, $us:expr) => { for u in $us {
            let base = u.base;
            macro_rules! one { ($T:ty, $tab:expr, $name:literal) => {{ let tab: Vec<$T> = sub9(&$tab, u.nc); ordered_ops::<$G, $T, $D>(s, u, $name, &move |c: i32| tab.get((c - base) as usize).copied()); }} }
            one!(i8, t9_signed!(i8), "i8:extreme"); one!(i16, t9_signed!(i16), "i16:extreme"); one!(isize, t9_signed!(isize), "isize:extreme");
            one!(u16, t9_unsigned!(u16), "u16:extreme"); one!(u32, t9_unsigned!(u32), "u32:extreme"); one!(u64, t9_unsigned!(u64), "u64:extreme"); one!(usize, t9_unsigned!(usize), "usize:extreme");
            one!(Wrapping<i8>, t9_signed!(i8).map(Wrapping), "Wrapping<i8>:extreme"); one!(Wrapping<i16>, t9_signed!(i16).map(Wrapping), "Wrapping<i16>:extreme"); one!(Wrapping<i32>, t9_signed!(i32).map(Wrapping), "Wrapping<i32>:extreme");
            one!(Wrapping<i64>, t9_signed!(i64).map(Wrapping), "Wrapping<i64>:extreme"); one!(Wrapping<isize>, t9_signed!(isize).map(Wrapping), "Wrapping<isize>:extreme");
            one!(Wrapping<u8>, t9_unsigned!(u8).map(Wrapping), "Wrapping<u8>:extreme"); one!(Wrapping<u16>, t9_unsigned!(u16).map(Wrapping), "Wrapping<u16>:extreme"); one!(Wrapping<u32>, t9_unsigned!(u32).map(Wrapping), "Wrapping<u32>:extreme");
            one!(Wrapping<u64>, t9_unsigned!(u64).map(Wrapping), "Wrapping<u64>:extreme"); one!(Wrapping<usize>, t9_unsigned!(usize).map(Wrapping), "Wrapping<usize>:extreme");
            macro_rules! adj { ($T:ty, $tab:expr, $name:literal) => {{ let tab: Vec<$T> = $tab.to_vec(); ordered_ops::<$G, $T, $D>(s, u, $name, &move |c: i32| if (c - base) % 2 == 0 { tab.get(((c - base) / 2) as usize).copied() } else { None }); }} }
            adj!(f64, [1.0 - f64::EPSILON / 2.0, 1.0, 1.0 + f64::EPSILON, 1.0 + 2.0 * f64::EPSILON, 1.0 + 3.0 * f64::EPSILON], "f64:adjacent-at-one");
            adj!(f64, [-5e-324, 0.0, 5e-324, 1e-323, 1.5e-323], "f64:adjacent-subnormals");
            adj!(f64, [9007199254740991.0, 9007199254740992.0, 9007199254740994.0, 9007199254740996.0, 9007199254740998.0], "f64:adjacent-at-2^53");
            adj!(f32, [1.0 - f32::EPSILON / 2.0, 1.0, 1.0 + f32::EPSILON, 1.0 + 2.0 * f32::EPSILON, 1.0 + 3.0 * f32::EPSILON], "f32:adjacent-at-one");
            adj!(f32, [-1e-45, 0.0, 1e-45, 3e-45, 4e-45], "f32:adjacent-subnormals");
            adj!(f32, [16777215.0, 16777216.0, 16777218.0, 16777220.0, 16777222.0], "f32:adjacent-at-2^24");
        } } }
        tables2!(D2, 2, &e2s); tables2!(D3, 3, &e3s);
        s.require_classes(&["i8:extreme", "i16:extreme", "isize:extreme", "u16:extreme", "u32:extreme", "u64:extreme", "usize:extreme", "Wrapping<i8>:extreme", "Wrapping<i16>:extreme", "Wrapping<i32>:extreme", "Wrapping<i64>:extreme", "Wrapping<isize>:extreme",
            "Wrapping<u8>:extreme", "Wrapping<u16>:extreme", "Wrapping<u32>:extreme", "Wrapping<u64>:extreme", "Wrapping<usize>:extreme", "f64:adjacent-at-one", "f64:adjacent-subnormals", "f64:adjacent-at-2^53", "f32:adjacent-at-one", "f32:adjacent-subnormals", "f32:adjacent-at-2^24"]);
        s.meta("second audit", json!("added: i8 i16 isize u16 u32 u64 usize and Wrapping<every primitive integer> extreme tables (same shape as the i32 / u8 tables), and float tables whose corner values are adjacent floats at 1, at 0 (subnormals) and at the end of the integer range"));
        s.meta("tables", json!({"i32": jd(&T9_I32), "i64": jd(&T9_I64), "u8": jd(&T9_U8), "f64 finite": jd(&T9_F64_FINITE), "f64 infinite": jd(&T9_F64_INF), "f32": jd(&T9_F32),
            "universes": {"dense 2D": d2s.iter().map(|u| u.describe()).collect::<Vec<_>>(), "dense 3D": d3s.iter().map(|u| u.describe()).collect::<Vec<_>>(), "extreme 2D": e2s.iter().map(|u| u.describe()).collect::<Vec<_>>(), "extreme 3D": e3s.iter().map(|u| u.describe()).collect::<Vec<_>>()},
            "not asserted": "center / size / half_size / collision vector / Rect conversions at these magnitudes: min+max and max-min leave the type (overflow of the element type, outside the property's small-grid quantifier)"}));
    });
    rep.section("integer boxes with corners on all integers: centre, size, half size, conversions, collision vector",
        "i32 boxes with corners on every integer of a small range (2D values -2..2, 3D -1..1; thorough also -3..3 / -2..1): every box, valid and invalid: into_rect / Rect::from / into_aab / Aab::from are field exact (position = min, extent = max - min, negative for invalid boxes); every valid box: size == max - min, centre lies in the box and 2*centre - (min+max) is 0 where the sum is even and within +-1 where it is odd (a nearest integer to the midpoint; rounding direction not asserted), likewise half_size against the extent; every ordered pair of valid boxes and every axis: self translated by -v[axis] has a face on the opposite face of other (centres are compared after integer division here). non-trivial: odd extent / odd sum / a non-integer centre", true, false, |s| {
        s.require_classes(&["negative-extent", "odd-extent", "even-extent", "centre:odd-sum", "centre:odd-negative-sum", "centre:even-sum", "cv:fractional-centre-penetrating", "cv:fractional-centre-apart", "cv:integer-centres"]);
        for u in &d2s { int_arith::<D2, 2>(s, u); }
        for u in &d3s { int_arith::<D3, 3>(s, u); }
    });
    rep.section("every Rect method equals the Aab method: negative extents and odd integer rectangles",
        "the differential of the section 'every Rect method equals the Aab method on the converted value' on the operands it leaves out: every box of the universe valid or INVALID (the rectangle then has a negative extent on the inverted axes) for i32, X, f64, and i32 rectangles with positions and extents on all integers (odd extents, odd positions, negative extents); all 12 method families; split only where min <= sp <= max holds on the cut axis; pairs in which both operands are already in the old section's alphabet are skipped. non-trivial: every evaluation", true, false, |s| {
        s.require_classes(&["i32:all-integers", "i32", "X", "f64", "rect,point", "rect,coordinate", "pair:both-valid", "pair:one-negative-extent", "pair:both-negative-extent"]);
        for u in &d2s { rma_dense::<D2, 2>(s, u, "i32:all-integers"); }
        for u in &d3s { rma_dense::<D3, 3>(s, u, "i32:all-integers"); }
        rma_linear::<D2, i32, 2>(s, &u2s[1], "i32"); rma_linear::<D2, X, 2>(s, &u2s[1], "X"); rma_linear::<D2, f64, 2>(s, &u2s[1], "f64");
        rma_linear::<D3, i32, 3>(s, &u3s[1], "i32"); rma_linear::<D3, X, 3>(s, &u3s[1], "X"); rma_linear::<D3, f64, 3>(s, &u3s[1], "f64");
        for u in &a2s { rma_linear::<D2, i32, 2>(s, u, "i32"); rma_linear::<D2, X, 2>(s, u, "X"); rma_linear::<D2, f64, 2>(s, u, "f64"); }
        for u in &a3s { rma_linear::<D3, i32, 3>(s, u, "i32"); rma_linear::<D3, f64, 3>(s, u, "f64"); }
        s.meta("universes", json!({"2D": [u2s[1].describe()], "3D": [u3s[1].describe()], "thorough 2D": a2s.iter().map(|u| u.describe()).collect::<Vec<_>>(), "thorough 3D (i32, f64)": a3s.iter().map(|u| u.describe()).collect::<Vec<_>>()}));
    });
    rep.section("invalid operands: what set semantics still fixes",
        "every ordered pair of boxes of the universe with at least one INVALID operand (an invalid box contains no point - validity section): intersection / intersect must be invalid (no point is common to the empty set and anything); with exactly one invalid operand union / expand_to_contain must contain every point of the valid operand (closed-interval test on the result's fields; minimality not asserted) and contains_aab*(invalid, valid) must be false (the valid box has points, the invalid one contains none); contains_aab*(valid, invalid) (vacuous truth) and collides are not asserted; every invalid box: made_valid is idempotent and make_valid yields a valid box; Rect<->Aab conversions (into_rect, Rect::from, into_aab, Aab::from, both round trips, Rect plumbing), map / as_ and Aabr::from(Aabb) on every invalid box are field exact. non-trivial: every evaluation", true, false, |s| {
        s.require_classes(&["invalid,invalid", "valid,invalid", "invalid,valid", "negative-extent", "invalid-box"]);
        // pairs: the two quick universes per dimension (the large thorough universes of the base sections would be 244M pairs in 3D); thorough adds a2s / a3s below
        for u in u2s.iter().take(2) { invalid_operands::<D2, i32, 2>(s, u); invalid_operands::<D2, X, 2>(s, u); invalid_operands::<D2, f64, 2>(s, u); }
        for u in u3s.iter().take(2) { invalid_operands::<D3, i32, 3>(s, u); invalid_operands::<D3, X, 3>(s, u); invalid_operands::<D3, f64, 3>(s, u); }
        all_types!(s, rect_conversions_invalid);
        for u in &u2s { mapping_invalid::<D2, 2>(s, u); }
        for u in &u3s { mapping_invalid::<D3, 3>(s, u); flatten_invalid::<i32>(s, u); flatten_invalid::<X>(s, u); flatten_invalid::<f64>(s, u); }
        for u in &a2s { invalid_operands::<D2, i32, 2>(s, u); invalid_operands::<D2, X, 2>(s, u); invalid_operands::<D2, f64, 2>(s, u); }
        for u in &a3s { invalid_operands::<D3, i32, 3>(s, u); invalid_operands::<D3, f64, 3>(s, u); }
    });
    rep.section("mechanism called directly: Vec partial_min / partial_max and the vector Clamp impls",
        "Vec2/Vec3::partial_min, partial_max on every ordered pair of universe points, operands passed as vectors and as arrays (the Into<Self> form): lanewise min / max of the model coordinates; <Vec as Clamp<Vec>>::clamped and the Clamp::clamp alias on every valid box (as lower/upper) x every universe point: the point of the box nearest to p (mask search, as projected_point); <Vec as Clamp<T>>::clamped with scalar bounds on every lo <= hi of the universe coordinates (grid and half-grid) x every point: the nearest point of the cube [lo,hi]^D. i32, X, f64. non-trivial: the lanes disagree on which operand is smaller / the point moves", true, false, |s| {
        s.require_classes(&["lanes-disagree", "lanes-agree", "cube:inside", "cube:moved-on-every-axis", "cube:moved-on-some-axes", "box:inside", "box:moved"]);
        all_types!(s, vec_mechanism);
    });
    rep.section("call sequences: split pieces fed back, in-place accumulation, three-box folds",
        "real outputs are the next call's inputs. (i) every valid box, axis and admissible cut: union(low, high) (both orders) == the box, intersection(low, high) == the flat box on the cutting plane, the box contains both pieces, and for a cut strictly inside a box of positive extent the pieces - which touch on a face - do not collide with each other while each collides with the box. (ii) every ordered triple of universe points: new_empty(p0) expanded in place by p1 then p2 == bounding box of the three points, for the box and for the rectangle twin started from into_rect(new_empty(p0)). (iii) every ordered triple of valid boxes: x=a; x.expand_to_contain(b); x.expand_to_contain(c) == bounding box of the three masks; x=a; x.intersect(b); x.intersect(c) == the box of the points common to all three, invalid when there are none (including through an invalid intermediate result). 2D universe and a smaller 3D universe (see meta); i32, X, f64. non-trivial: cut strictly inside / the box grew at both steps / three distinct boxes", true, false, |s| {
        s.require_classes(&["pieces:cut-strictly-inside", "pieces:cut-at-a-face", "pieces:touching-faces", "points:grew-at-both-steps", "points:some-step-idle", "fold:common-points", "fold:emptied-at-the-second-step", "fold:invalid-intermediate"]);
        sequences::<D2, i32, 2>(s, &q2); sequences::<D2, X, 2>(s, &q2); sequences::<D2, f64, 2>(s, &q2);
        sequences::<D3, i32, 3>(s, &q3); sequences::<D3, X, 3>(s, &q3); sequences::<D3, f64, 3>(s, &q3);
        s.meta("universes", json!({"2D": q2.describe(), "3D": q3.describe()}));
    });
    // ---- sections added by the second audit (out/AUDIT2.md) ----
    rep.section("floats off the exact grid: centre, size, half size, conversion to a rectangle, nearest point, distance, collision vector",
        "f64 and f32 boxes in a one-hot-axis design: for every axis h the h interval runs through every lo <= hi of a hot list (adjacent floats at 1, boxes nearly symmetric about 0, 0.1 / 0.3, tiny 2^-100 (f32 2^-30), the least subnormal, 2^40+{0,3,4} (f32 2^20), 2^53+{0,2,4} (f32 2^24), +-2^500 (f32 2^60), 3D quick: three values fewer) and the other axes through every interval of a short cold list; points: hot axis through every hot value and its two neighbouring floats, cold axes through a short list. Oracles are exact by construction from error-free transformations (two_sum) and comparisons: centre lies in [min,max] and is half of a faithful rounding of min+max (the exact midpoint when min+max is a float); size / Rect extent is a faithful rounding of max-min, position == min; half size is half of that; projected_point == lanewise nearest by comparisons; distance == 0 for points of the box, == |faithful(p - face)| when one axis moves (sqrt(fl(d*d)) == |d| in binary floating point), within 256 eps of sqrt(sum of squared faithful differences) when several move; every ordered pair of boxes with the same hot axis (quick: two cold combinations): each collision vector component is a faithful rounding of self.max-other.min or of self.min-other.max (exactly that offset when it is a float, which is what makes the translated box touch). Magnitude policy: the distance is asserted only when every non-zero lane difference d has 2^-HUGE <= |d| <= 2^(HUGE+1) (d*d a normal finite number), all inputs have representable squares. non-trivial: min+max / max-min rounds, the point is outside, an offset rounds", true, false, |s| {
        s.require_classes(&["box:min+max-exact", "box:min+max-rounds", "box:max-min-exact", "box:max-min-rounds", "distance:point-in-box", "distance:one-axis-exact-difference", "distance:one-axis-rounded-difference", "distance:several-axes", "distance:square-leaves-the-normal-range-not-asserted", "cv:exact-offsets", "cv:rounded-offsets"]);
        float_arith::<D2, f64, 2>(s, false, !th); float_arith::<D2, f32, 2>(s, false, !th);
        float_arith::<D3, f64, 3>(s, !th, !th); float_arith::<D3, f32, 3>(s, !th, !th);
    });
    rep.section("every Rect method equals the Aab method, from the rectangle side: float sums that round, unsigned integers",
        "the rectangle is the input; the box is (position, position + extent) computed by the harness in the element type, results go back through (min, max - min) in the element type: into_aab* / Aab::from(Rect) == that box; center, split_at_* (cut inside the converted box), contains_point, expanded_to_contain_point, expand_to_contain_point, contains_rect*, collides_with_rect*, union, expand_to_contain, intersection, intersect, collision_vector_with_rect* == the real Aab method on the converted value(s). f64 / f32: one-hot-axis rectangles, positions {-0.3, 0, 0.1, 1, 2^40 (2^20), 2^53 (2^24)} x extents {-0.1, 0, 0.75 ulp(1), 0.1, 0.2, 1, 2, 3}, points = every position, position+extent and their neighbouring floats; u8 (no Rect method ran on an unsigned type before): positions and extents next to 0 and 255, cases where the box side leaves the type (a panic under overflow checks) are skipped. non-trivial: every evaluation", true, false, |s| {
        s.require_classes(&["f64:inexact", "f32:inexact", "u8:edges", "rect:position+extent-rounds", "rect:position+extent-exact", "rect,point", "rect,coordinate", "rect,rect"]);
        // the reference side overflows (and panics) only when the binary is built with overflow checks; the release-semantics configuration wraps instead
        if cfg!(debug_assertions) { s.require_classes(&["box-side-panics:skipped"]); }
        rect_first_float::<D2, f64, 2>(s, "f64:inexact", th); rect_first_float::<D2, f32, 2>(s, "f32:inexact", th);
        rect_first_float::<D3, f64, 3>(s, "f64:inexact", th); rect_first_float::<D3, f32, 3>(s, "f32:inexact", th);
        rect_first_u8::<D2, 2>(s, "u8:edges"); rect_first_u8::<D3, 3>(s, "u8:edges");
    });
    rep.section("unordered and infinite lanes: contains_point is the conjunction of min <= p and p <= max on every axis",
        "f64 and f32; 2-D: every Aabr whose 4 bound lanes come from {-1, 0, 2, -inf, +inf, NaN} x every point over {-2, -1, 0.5, 2, 3, -inf, +inf, NaN}^2; 3-D: every Aabb with lanes from {0, 2, +inf, NaN} x points over {-1, 1, 2, +inf, NaN}^3; also Rect / Rect3 (position lanes {-1, 0, NaN}, extents {0, 2, +inf, NaN}) against the interval [position, position + extent] formed in the element type. Oracle: the IEEE comparisons of the definition, so a NaN lane in the point or in a bound is in no interval (a rewrite through negated strict comparisons is not equivalent on a partial order), while +-inf lanes behave as ordinary extended reals; non-trivial: some lane is NaN",
        true, false, |s| {
        s.require_classes(&["nan-lane:point", "nan-lane:bound", "no-nan:inside", "no-nan:outside", "infinite-lane"]);
        macro_rules! nanpts { ($T:ty, $tn:expr) => {{
            let (inf, nan) = (<$T>::INFINITY, <$T>::NAN);
            let b2: [$T; 6] = [-1.0, 0.0, 2.0, -inf, inf, nan]; let p2: [$T; 8] = [-2.0, -1.0, 0.5, 2.0, 3.0, -inf, inf, nan];
            let inn = |lo: $T, p: $T, hi: $T| lo <= p && p <= hi;
            let cls = |s: &Section, bn: bool, pn: bool, anyinf: bool, want: bool| { if pn { s.class("nan-lane:point"); } if bn { s.class("nan-lane:bound"); } if !pn && !bn { s.class(if want { "no-nan:inside" } else { "no-nan:outside" }); } if anyinf { s.class("infinite-lane"); } };
            for &x0 in &b2 { for &y0 in &b2 { for &x1 in &b2 { for &y1 in &b2 { for &px in &p2 { for &py in &p2 {
                let want = inn(x0, px, x1) && inn(y0, py, y1);
                let (bn, pn) = (x0.is_nan() || y0.is_nan() || x1.is_nan() || y1.is_nan(), px.is_nan() || py.is_nan());
                s.eval(bn || pn); cls(s, bn, pn, [x0, y0, x1, y1, px, py].iter().any(|v| v.is_infinite()), want);
                let got = Aabr { min: Vec2 { x: x0, y: y0 }, max: Vec2 { x: x1, y: y1 } }.contains_point(Vec2 { x: px, y: py });
                if got != want { s.violation_w(&format!("Aabr<{}>::contains_point", $tn), "not-closed-interval-membership-on-unordered-or-infinite-lanes", json!({"min": format!("{:?}", (x0, y0)), "max": format!("{:?}", (x1, y1)), "point": format!("{:?}", (px, py)), "got": got, "want": want}), (bn as u64) * 4 + (pn as u64) * 2 + 1); }
            }}}}}}
            let b3: [$T; 4] = [0.0, 2.0, inf, nan]; let p3: [$T; 5] = [-1.0, 1.0, 2.0, inf, nan];
            for &x0 in &b3 { for &y0 in &b3 { for &z0 in &b3 { for &x1 in &b3 { for &y1 in &b3 { for &z1 in &b3 { for &px in &p3 { for &py in &p3 { for &pz in &p3 {
                let want = inn(x0, px, x1) && inn(y0, py, y1) && inn(z0, pz, z1);
                let (bn, pn) = ([x0, y0, z0, x1, y1, z1].iter().any(|v| v.is_nan()), [px, py, pz].iter().any(|v| v.is_nan()));
                s.eval(bn || pn); cls(s, bn, pn, [x0, y0, z0, x1, y1, z1, px, py, pz].iter().any(|v| v.is_infinite()), want);
                let got = Aabb { min: Vec3 { x: x0, y: y0, z: z0 }, max: Vec3 { x: x1, y: y1, z: z1 } }.contains_point(Vec3 { x: px, y: py, z: pz });
                if got != want { s.violation_w(&format!("Aabb<{}>::contains_point", $tn), "not-closed-interval-membership-on-unordered-or-infinite-lanes", json!({"min": format!("{:?}", (x0, y0, z0)), "max": format!("{:?}", (x1, y1, z1)), "point": format!("{:?}", (px, py, pz)), "got": got, "want": want}), (bn as u64) * 4 + (pn as u64) * 2 + 1); }
            }}}}}}}}}
            let rp: [$T; 3] = [-1.0, 0.0, nan]; let re: [$T; 4] = [0.0, 2.0, inf, nan];
            for &x in &rp { for &y in &rp { for &w in &re { for &h in &re { for &px in &p2 { for &py in &p2 {
                let want = inn(x, px, x + w) && inn(y, py, y + h);
                let (bn, pn) = (x.is_nan() || y.is_nan() || w.is_nan() || h.is_nan(), px.is_nan() || py.is_nan());
                s.eval(bn || pn); cls(s, bn, pn, [w, h, px, py].iter().any(|v| v.is_infinite()), want);
                let got = Rect { x, y, w, h }.contains_point(Vec2 { x: px, y: py });
                if got != want { s.violation_w(&format!("Rect<{},{}>::contains_point", $tn, $tn), "not-closed-interval-membership-on-unordered-or-infinite-lanes", json!({"rect": format!("{:?}", (x, y, w, h)), "point": format!("{:?}", (px, py)), "got": got, "want": want}), (bn as u64) * 4 + (pn as u64) * 2 + 1); }
                for &z in &[0.0 as $T, nan] { for &d in &[2.0 as $T, nan] { for &pz in &[1.0 as $T, 3.0, nan] {
                    let want3 = want && inn(z, pz, z + d);
                    let (bn3, pn3) = (bn || z.is_nan() || d.is_nan(), pn || pz.is_nan());
                    s.eval(bn3 || pn3); cls(s, bn3, pn3, false, want3);
                    let got3 = Rect3 { x, y, z, w, h, d }.contains_point(Vec3 { x: px, y: py, z: pz });
                    if got3 != want3 { s.violation_w(&format!("Rect3<{},{}>::contains_point", $tn, $tn), "not-closed-interval-membership-on-unordered-or-infinite-lanes", json!({"rect3": format!("{:?}", (x, y, z, w, h, d)), "point": format!("{:?}", (px, py, pz)), "got": got3, "want": want3}), (bn3 as u64) * 4 + (pn3 as u64) * 2 + 1); }
                }}}
            }}}}}}
        }} }
        nanpts!(f64, "f64"); nanpts!(f32, "f32");
        s.sample(json!({"box": "Aabr { min: (0, 0), max: (2, 2) }", "point": "(1, NaN)", "contains_point": Aabr { min: Vec2 { x: 0.0f64, y: 0.0 }, max: Vec2 { x: 2.0, y: 2.0 } }.contains_point(Vec2 { x: 1.0, y: f64::NAN }), "want": false}));
    });
    std::process::exit(rep.finish());
}
