//! C13 — axis-aligned boxes (Aabr/Aabb) and rectangles (Rect/Rect3) behave as the point sets they denote.
//!
//! Model space ("u-units"): box corners lie on the even grid {0,2,..,2(g-1)}^D, the point universe is
//! the integer grid {-1..2g-1}^D (the half-grid of the corner grid, one step beyond it on every side).
//! A point set is a bit mask over the universe; every oracle below is a statement about such masks
//! (membership by closed-interval test on the raw coordinates, bounding box of a mask, open-box
//! mask).  The real vek structs are built by struct literal and decoded by field access only.
//! Element types: i32 (u-unit = 1), the exact rational X and f64 (u-unit = 1/2, so X and f64 really run
//! on half-integers).
use rayon::prelude::*;
use std::fmt::Debug;
use std::ops::*;
use vek::geom::repr_c::{Aabb, Aabr, Rect, Rect3};
use vek::num_traits::{real::Real, AsPrimitive, One};
use vek::ops::Clamp;
use vek::vec::repr_c::{Extent2, Extent3, Vec2, Vec3};
use vx::*;

// ------------------------------------------------------------------------------------------------
// element types

trait El: Copy + PartialOrd + Debug + Send + Sync + 'static + Add<Output = Self> + Sub<Output = Self> + Div<Output = Self> + One + Clamp {
    const NAME: &'static str;
    /// the value of model coordinate `u`
    fn from_u(u: i32) -> Self;
}
impl El for i32 { const NAME: &'static str = "i32"; fn from_u(u: i32) -> i32 { u } }
impl El for X { const NAME: &'static str = "X"; fn from_u(u: i32) -> X { q(u as i128, 2) } }
impl El for f64 { const NAME: &'static str = "f64"; fn from_u(u: i32) -> f64 { u as f64 * 0.5 } }

/// typed box `[min, max]` or typed rectangle `[position, extent]`
type TB<T, const D: usize> = [[T; D]; 2];
/// model box `[min, max]` in u-units
type UB<const D: usize> = [[i32; D]; 2];

fn tp<T: El, const D: usize>(p: &[i32; D]) -> [T; D] { let mut o = [T::from_u(0); D]; for i in 0..D { o[i] = T::from_u(p[i]); } o }
fn tb<T: El, const D: usize>(b: &UB<D>) -> TB<T, D> { [tp(&b[0]), tp(&b[1])] }
/// model rectangle (position, extent) denoting the same set as the model box
fn rect_of<const D: usize>(b: &UB<D>) -> UB<D> { let mut e = [0; D]; for i in 0..D { e[i] = b[1][i] - b[0][i]; } [b[0], e] }
fn valid<const D: usize>(b: &UB<D>) -> bool { (0..D).all(|i| b[0][i] <= b[1][i]) }
fn posext<const D: usize>(b: &UB<D>) -> bool { (0..D).all(|i| b[0][i] < b[1][i]) }
fn inside<const D: usize>(b: &UB<D>, p: &[i32; D]) -> bool { (0..D).all(|i| b[0][i] <= p[i] && p[i] <= b[1][i]) }
fn strictly_inside<const D: usize>(b: &UB<D>, p: &[i32; D]) -> bool { (0..D).all(|i| b[0][i] < p[i] && p[i] < b[1][i]) }
fn wb<const D: usize>(b: &UB<D>) -> u64 { b.iter().flatten().map(|v| v.unsigned_abs() as u64).sum() }
fn wp<const D: usize>(p: &[i32; D]) -> u64 { p.iter().map(|v| v.unsigned_abs() as u64 + 1).sum() }

// ------------------------------------------------------------------------------------------------
// point-set masks over the universe

const W: usize = 21; // 1344 bits >= 11^3
#[derive(Clone, Copy, PartialEq, Eq, Debug)]
struct Mask([u64; W]);
impl Mask {
    const ZERO: Mask = Mask([0; W]);
    fn bit(i: usize) -> Mask { let mut m = Mask::ZERO; m.0[i / 64] |= 1 << (i % 64); m }
    #[inline] fn get(&self, i: usize) -> bool { self.0[i / 64] >> (i % 64) & 1 == 1 }
    #[inline] fn or(mut self, o: Mask) -> Mask { for k in 0..W { self.0[k] |= o.0[k]; } self }
    #[inline] fn and(mut self, o: Mask) -> Mask { for k in 0..W { self.0[k] &= o.0[k]; } self }
    #[inline] fn minus(mut self, o: Mask) -> Mask { for k in 0..W { self.0[k] &= !o.0[k]; } self }
    #[inline] fn any(&self) -> bool { self.0.iter().any(|&w| w != 0) }
}

struct Uni<const D: usize> {
    g: usize,
    shift: i32, // corners on {shift, shift+2, ..}; shift is even
    base: i32,  // smallest point coordinate = shift - 1
    nc: usize,
    pts: Vec<[i32; D]>,
    all: Mask,
    slab: Vec<Vec<Mask>>, // [axis][k]: points with coordinate k-1 on that axis
    le: Vec<Vec<Mask>>,
    ge: Vec<Vec<Mask>>,
    boxes: Vec<UB<D>>,    // every box with corners on the even grid (valid and invalid)
    vboxes: Vec<UB<D>>,   // the valid ones
    closed: Vec<Mask>,    // per valid box: its points
    open: Vec<Mask>,      // per valid box: its interior points
}
impl<const D: usize> Uni<D> {
    fn new(g: usize, shift: i32) -> Self {
        assert!(shift % 2 == 0);
        let base = shift - 1;
        let nc = 2 * g + 1;
        let npts = nc.pow(D as u32);
        assert!(npts <= 64 * W);
        let mut pts = Vec::with_capacity(npts);
        for idx in 0..npts { let mut p = [0i32; D]; let mut r = idx; for i in 0..D { p[i] = (r % nc) as i32 + base; r /= nc; } pts.push(p); }
        let mut all = Mask::ZERO;
        let mut slab = vec![vec![Mask::ZERO; nc]; D];
        for (idx, p) in pts.iter().enumerate() { all = all.or(Mask::bit(idx)); for i in 0..D { let k = (p[i] - base) as usize; slab[i][k] = slab[i][k].or(Mask::bit(idx)); } }
        let mut le = slab.clone();
        let mut ge = slab.clone();
        for i in 0..D { for k in 1..nc { le[i][k] = le[i][k].or(le[i][k - 1]); } for k in (0..nc - 1).rev() { ge[i][k] = ge[i][k].or(ge[i][k + 1]); } }
        let nb = g.pow(2 * D as u32);
        let mut boxes = Vec::with_capacity(nb);
        for idx in 0..nb { let mut b = [[0i32; D]; 2]; let mut r = idx; for i in 0..D { b[0][i] = 2 * (r % g) as i32 + shift; r /= g; b[1][i] = 2 * (r % g) as i32 + shift; r /= g; } boxes.push(b); }
        let vboxes: Vec<UB<D>> = boxes.iter().filter(|b| valid(b)).copied().collect();
        let mut u = Uni { g, shift, base, nc, pts, all, slab, le, ge, boxes, vboxes, closed: Vec::new(), open: Vec::new() };
        u.closed = u.vboxes.iter().map(|b| u.closed_mask(b)).collect();
        u.open = u.vboxes.iter().map(|b| u.open_mask(b)).collect();
        u
    }
    fn pidx(&self, p: &[i32; D]) -> usize { let mut idx = 0; for i in (0..D).rev() { idx = idx * self.nc + (p[i] - self.base) as usize; } idx }
    fn le_mask(&self, axis: usize, c: i32) -> Mask { let k = c - self.base; if k < 0 { Mask::ZERO } else if k as usize >= self.nc { self.all } else { self.le[axis][k as usize] } }
    fn ge_mask(&self, axis: usize, c: i32) -> Mask { let k = c - self.base; if k <= 0 { self.all } else if k as usize >= self.nc { Mask::ZERO } else { self.ge[axis][k as usize] } }
    /// { p in universe : min <= p <= max on every axis }
    fn closed_mask(&self, b: &UB<D>) -> Mask { let mut m = self.all; for i in 0..D { m = m.and(self.ge_mask(i, b[0][i])).and(self.le_mask(i, b[1][i])); } m }
    /// { p in universe : min < p < max on every axis }
    fn open_mask(&self, b: &UB<D>) -> Mask { let mut m = self.all; for i in 0..D { m = m.and(self.ge_mask(i, b[0][i] + 1)).and(self.le_mask(i, b[1][i] - 1)); } m }
    /// smallest box containing every point of the mask (None for the empty set)
    fn bbox(&self, m: &Mask) -> Option<UB<D>> {
        if !m.any() { return None; }
        let mut b = [[0i32; D]; 2];
        for i in 0..D {
            let lo = (0..self.nc).find(|&k| m.and(self.slab[i][k]).any()).unwrap();
            let hi = (0..self.nc).rev().find(|&k| m.and(self.slab[i][k]).any()).unwrap();
            b[0][i] = lo as i32 + self.base; b[1][i] = hi as i32 + self.base;
        }
        Some(b)
    }
    /// the point(s) of the set nearest to p: (squared distance in u-units, the point, unique?)
    fn nearest(&self, m: &Mask, p: &[i32; D]) -> (i32, [i32; D], bool) {
        let (mut best, mut arg, mut uniq) = (i32::MAX, [0; D], true);
        for (idx, y) in self.pts.iter().enumerate() {
            if !m.get(idx) { continue; }
            let d2: i32 = (0..D).map(|i| (y[i] - p[i]) * (y[i] - p[i])).sum();
            if d2 < best { best = d2; arg = *y; uniq = true; } else if d2 == best { uniq = false; }
        }
        (best, arg, uniq)
    }
    fn describe(&self) -> Value {
        json!({"dim": D, "corner_grid": (0..self.g).map(|k| 2 * k as i32 + self.shift).collect::<Vec<_>>(), "point_coords": [self.base, self.base + self.nc as i32 - 1], "points": self.pts.len(),
               "boxes": self.boxes.len(), "valid_boxes": self.vboxes.len(), "ordered_pairs_all": self.boxes.len() * self.boxes.len(), "ordered_pairs_valid": self.vboxes.len() * self.vboxes.len()})
    }
}

// ------------------------------------------------------------------------------------------------
// local tallies (flushed once per outer-loop item to keep the hot loops off the section mutexes)

struct Tally { ev: u64, nt: u64, cls: Vec<(&'static str, u64)> }
impl Tally {
    fn new() -> Tally { Tally { ev: 0, nt: 0, cls: Vec::new() } }
    #[inline] fn eval(&mut self, nt: bool) { self.ev += 1; if nt { self.nt += 1; } }
    #[inline] fn class(&mut self, c: &'static str) { if let Some(e) = self.cls.iter_mut().find(|e| e.0 == c) { e.1 += 1; } else { self.cls.push((c, 1)); } }
    fn flush(self, s: &Section) { s.evals(self.ev, self.nt); for (c, n) in self.cls { s.class_n(c, n); } }
}

/// run the real call (panics -> violation "panic"), compare with the oracle value
fn run<V: PartialEq + Debug>(s: &Section, t: &mut Tally, nt: bool, site: &str, class: &str, inp: &dyn Fn() -> Value, w: u64, f: impl FnOnce() -> V, want: &V) {
    t.eval(nt);
    if let Some(g) = s.call(site, || inp(), f) {
        if &g != want { s.violation_w(site, class, json!({"input": inp(), "got": jd(&g), "want": jd(want)}), w); }
    }
}

// ------------------------------------------------------------------------------------------------
// binding of the vek API to arrays (struct literals in, field access out)

trait Geo<const D: usize>: 'static {
    const AAB: &'static str;
    const RECT: &'static str;
    const AX: [&'static str; D];
    const CONTAINS_AAB: &'static str; const COLLIDES_AAB: &'static str; const CV_AAB: &'static str;
    const CONTAINS_RECT: &'static str; const COLLIDES_RECT: &'static str; const CV_RECT: &'static str;
    const INTO_RECT: &'static str; const INTO_AAB: &'static str;
    fn is_valid<T: El>(b: TB<T, D>) -> bool;
    fn new_empty<T: El>(p: [T; D]) -> TB<T, D>;
    fn made_valid<T: El>(b: TB<T, D>) -> TB<T, D>;
    fn make_valid<T: El>(b: TB<T, D>) -> TB<T, D>;
    fn center<T: El>(b: TB<T, D>) -> [T; D];
    fn size<T: El>(b: TB<T, D>) -> [T; D];
    fn half_size<T: El>(b: TB<T, D>) -> [T; D];
    fn union<T: El>(a: TB<T, D>, b: TB<T, D>) -> TB<T, D>;
    fn intersection<T: El>(a: TB<T, D>, b: TB<T, D>) -> TB<T, D>;
    fn expand_to_contain<T: El>(a: TB<T, D>, b: TB<T, D>) -> TB<T, D>;
    fn intersect<T: El>(a: TB<T, D>, b: TB<T, D>) -> TB<T, D>;
    fn expanded_pt<T: El>(a: TB<T, D>, p: [T; D]) -> TB<T, D>;
    fn expand_pt<T: El>(a: TB<T, D>, p: [T; D]) -> TB<T, D>;
    fn contains_point<T: El>(a: TB<T, D>, p: [T; D]) -> bool;
    fn contains<T: El>(a: TB<T, D>, b: TB<T, D>) -> bool;
    fn collides<T: El>(a: TB<T, D>, b: TB<T, D>) -> bool;
    fn cv<T: El>(a: TB<T, D>, b: TB<T, D>) -> [T; D];
    fn proj<T: El>(a: TB<T, D>, p: [T; D]) -> [T; D];
    fn dist<T: El + Real + vek::approx::RelativeEq>(a: TB<T, D>, p: [T; D]) -> T;
    fn split<T: El>(a: TB<T, D>, axis: usize, sp: T) -> [TB<T, D>; 2];
    fn into_rect<T: El>(a: TB<T, D>) -> TB<T, D>;
    fn rect_from<T: El>(a: TB<T, D>) -> TB<T, D>;
    fn map<T: Copy, U: Copy>(a: TB<T, D>, f: impl FnMut(T) -> U) -> TB<U, D>;
    fn as_<T: Copy + AsPrimitive<U>, U: 'static + Copy>(a: TB<T, D>) -> TB<U, D>;
    // rectangles: r = [position, extent]
    fn r_into_aab<T: El>(r: TB<T, D>) -> TB<T, D>;
    fn aab_from<T: El>(r: TB<T, D>) -> TB<T, D>;
    fn r_contains_point<T: El>(r: TB<T, D>, p: [T; D]) -> bool;
    fn r_contains<T: El>(a: TB<T, D>, b: TB<T, D>) -> bool;
    fn r_collides<T: El>(a: TB<T, D>, b: TB<T, D>) -> bool;
    fn r_center<T: El>(r: TB<T, D>) -> [T; D];
    fn r_expanded_pt<T: El>(r: TB<T, D>, p: [T; D]) -> TB<T, D>;
    fn r_expand_pt<T: El>(r: TB<T, D>, p: [T; D]) -> TB<T, D>;
    fn r_union<T: El>(a: TB<T, D>, b: TB<T, D>) -> TB<T, D>;
    fn r_intersection<T: El>(a: TB<T, D>, b: TB<T, D>) -> TB<T, D>;
    fn r_expand_to_contain<T: El>(a: TB<T, D>, b: TB<T, D>) -> TB<T, D>;
    fn r_intersect<T: El>(a: TB<T, D>, b: TB<T, D>) -> TB<T, D>;
    fn r_cv<T: El>(a: TB<T, D>, b: TB<T, D>) -> [T; D];
    fn r_split<T: El>(r: TB<T, D>, axis: usize, sp: T) -> [TB<T, D>; 2];
    /// constructor / accessor plumbing: reading number `which` (named PLUMB[which]) of (position, extent), must equal `r`
    fn r_plumb<T: El>(r: TB<T, D>, which: usize) -> TB<T, D>;
    fn r_map<T: Copy, P: Copy, E: Copy>(r: TB<T, D>, pf: impl FnMut(T) -> P, ef: impl FnMut(T) -> E) -> ([P; D], [E; D]);
    fn r_as<T: Copy + AsPrimitive<P> + AsPrimitive<E>, P: 'static + Copy, E: 'static + Copy>(r: TB<T, D>) -> ([P; D], [E; D]);
}

macro_rules! geo_impl {
    ($M:ident, $D:literal, $Aab:ident, $Vec:ident, $Ext:ident, $Rect:ident,
     [$(($p:ident, $e:ident, $i:literal, $split:ident)),+],
     $contains_aab:ident, $collides_aab:ident, $cv_aab:ident, $contains_rect:ident, $collides_rect:ident, $cv_rect:ident, $into_rect:ident, $into_aab:ident) => {
        struct $M;
        #[allow(dead_code)]
        impl $M {
            #[inline] fn v<T: Copy>(a: [T; $D]) -> $Vec<T> { $Vec { $($p: a[$i]),+ } }
            #[inline] fn dv<T: Copy>(v: $Vec<T>) -> [T; $D] { [$(v.$p),+] }
            #[inline] fn ex<T: Copy>(a: [T; $D]) -> $Ext<T> { $Ext { $($e: a[$i]),+ } }
            #[inline] fn de<T: Copy>(v: $Ext<T>) -> [T; $D] { [$(v.$e),+] }
            #[inline] fn b<T: Copy>(b: TB<T, $D>) -> $Aab<T> { $Aab { min: Self::v(b[0]), max: Self::v(b[1]) } }
            #[inline] fn db<T: Copy>(b: $Aab<T>) -> TB<T, $D> { [Self::dv(b.min), Self::dv(b.max)] }
            #[inline] fn r<T: Copy>(r: TB<T, $D>) -> $Rect<T, T> { $Rect { $($p: r[0][$i],)+ $($e: r[1][$i]),+ } }
            #[inline] fn dr<P: Copy, E: Copy>(r: $Rect<P, E>) -> ([P; $D], [E; $D]) { ([$(r.$p),+], [$(r.$e),+]) }
            #[inline] fn drt<T: Copy>(r: $Rect<T, T>) -> TB<T, $D> { let (p, e) = Self::dr(r); [p, e] }
        }
        impl Geo<$D> for $M {
            const AAB: &'static str = stringify!($Aab);
            const RECT: &'static str = stringify!($Rect);
            const AX: [&'static str; $D] = [$(stringify!($p)),+];
            const CONTAINS_AAB: &'static str = stringify!($contains_aab); const COLLIDES_AAB: &'static str = stringify!($collides_aab); const CV_AAB: &'static str = stringify!($cv_aab);
            const CONTAINS_RECT: &'static str = stringify!($contains_rect); const COLLIDES_RECT: &'static str = stringify!($collides_rect); const CV_RECT: &'static str = stringify!($cv_rect);
            const INTO_RECT: &'static str = stringify!($into_rect); const INTO_AAB: &'static str = stringify!($into_aab);
            fn is_valid<T: El>(b: TB<T, $D>) -> bool { Self::b(b).is_valid() }
            fn new_empty<T: El>(p: [T; $D]) -> TB<T, $D> { Self::db($Aab::new_empty(Self::v(p))) }
            fn made_valid<T: El>(b: TB<T, $D>) -> TB<T, $D> { Self::db(Self::b(b).made_valid()) }
            fn make_valid<T: El>(b: TB<T, $D>) -> TB<T, $D> { let mut x = Self::b(b); x.make_valid(); Self::db(x) }
            fn center<T: El>(b: TB<T, $D>) -> [T; $D] { Self::dv(Self::b(b).center()) }
            fn size<T: El>(b: TB<T, $D>) -> [T; $D] { Self::de(Self::b(b).size()) }
            fn half_size<T: El>(b: TB<T, $D>) -> [T; $D] { Self::de(Self::b(b).half_size()) }
            fn union<T: El>(a: TB<T, $D>, b: TB<T, $D>) -> TB<T, $D> { Self::db(Self::b(a).union(Self::b(b))) }
            fn intersection<T: El>(a: TB<T, $D>, b: TB<T, $D>) -> TB<T, $D> { Self::db(Self::b(a).intersection(Self::b(b))) }
            fn expand_to_contain<T: El>(a: TB<T, $D>, b: TB<T, $D>) -> TB<T, $D> { let mut x = Self::b(a); x.expand_to_contain(Self::b(b)); Self::db(x) }
            fn intersect<T: El>(a: TB<T, $D>, b: TB<T, $D>) -> TB<T, $D> { let mut x = Self::b(a); x.intersect(Self::b(b)); Self::db(x) }
            fn expanded_pt<T: El>(a: TB<T, $D>, p: [T; $D]) -> TB<T, $D> { Self::db(Self::b(a).expanded_to_contain_point(Self::v(p))) }
            fn expand_pt<T: El>(a: TB<T, $D>, p: [T; $D]) -> TB<T, $D> { let mut x = Self::b(a); x.expand_to_contain_point(Self::v(p)); Self::db(x) }
            fn contains_point<T: El>(a: TB<T, $D>, p: [T; $D]) -> bool { Self::b(a).contains_point(Self::v(p)) }
            fn contains<T: El>(a: TB<T, $D>, b: TB<T, $D>) -> bool { Self::b(a).$contains_aab(Self::b(b)) }
            fn collides<T: El>(a: TB<T, $D>, b: TB<T, $D>) -> bool { Self::b(a).$collides_aab(Self::b(b)) }
            fn cv<T: El>(a: TB<T, $D>, b: TB<T, $D>) -> [T; $D] { Self::dv(Self::b(a).$cv_aab(Self::b(b))) }
            fn proj<T: El>(a: TB<T, $D>, p: [T; $D]) -> [T; $D] { Self::dv(Self::b(a).projected_point(Self::v(p))) }
            fn dist<T: El + Real + vek::approx::RelativeEq>(a: TB<T, $D>, p: [T; $D]) -> T { Self::b(a).distance_to_point(Self::v(p)) }
            fn split<T: El>(a: TB<T, $D>, axis: usize, sp: T) -> [TB<T, $D>; 2] {
                let r = match axis { $($i => Self::b(a).$split(sp),)+ _ => unreachable!() };
                [Self::db(r[0]), Self::db(r[1])]
            }
            fn into_rect<T: El>(a: TB<T, $D>) -> TB<T, $D> { Self::drt(Self::b(a).$into_rect()) }
            fn rect_from<T: El>(a: TB<T, $D>) -> TB<T, $D> { Self::drt($Rect::from(Self::b(a))) }
            fn map<T: Copy, U: Copy>(a: TB<T, $D>, f: impl FnMut(T) -> U) -> TB<U, $D> { Self::db(Self::b(a).map(f)) }
            fn as_<T: Copy + AsPrimitive<U>, U: 'static + Copy>(a: TB<T, $D>) -> TB<U, $D> { Self::db(Self::b(a).as_::<U>()) }

            fn r_into_aab<T: El>(r: TB<T, $D>) -> TB<T, $D> { Self::db(Self::r(r).$into_aab()) }
            fn aab_from<T: El>(r: TB<T, $D>) -> TB<T, $D> { Self::db($Aab::from(Self::r(r))) }
            fn r_contains_point<T: El>(r: TB<T, $D>, p: [T; $D]) -> bool { Self::r(r).contains_point(Self::v(p)) }
            fn r_contains<T: El>(a: TB<T, $D>, b: TB<T, $D>) -> bool { Self::r(a).$contains_rect(Self::r(b)) }
            fn r_collides<T: El>(a: TB<T, $D>, b: TB<T, $D>) -> bool { Self::r(a).$collides_rect(Self::r(b)) }
            fn r_center<T: El>(r: TB<T, $D>) -> [T; $D] { Self::dv(Self::r(r).center()) }
            fn r_expanded_pt<T: El>(r: TB<T, $D>, p: [T; $D]) -> TB<T, $D> { Self::drt(Self::r(r).expanded_to_contain_point(Self::v(p))) }
            fn r_expand_pt<T: El>(r: TB<T, $D>, p: [T; $D]) -> TB<T, $D> { let mut x = Self::r(r); x.expand_to_contain_point(Self::v(p)); Self::drt(x) }
            fn r_union<T: El>(a: TB<T, $D>, b: TB<T, $D>) -> TB<T, $D> { Self::drt(Self::r(a).union(Self::r(b))) }
            fn r_intersection<T: El>(a: TB<T, $D>, b: TB<T, $D>) -> TB<T, $D> { Self::drt(Self::r(a).intersection(Self::r(b))) }
            fn r_expand_to_contain<T: El>(a: TB<T, $D>, b: TB<T, $D>) -> TB<T, $D> { let mut x = Self::r(a); x.expand_to_contain(Self::r(b)); Self::drt(x) }
            fn r_intersect<T: El>(a: TB<T, $D>, b: TB<T, $D>) -> TB<T, $D> { let mut x = Self::r(a); x.intersect(Self::r(b)); Self::drt(x) }
            fn r_cv<T: El>(a: TB<T, $D>, b: TB<T, $D>) -> [T; $D] { Self::dv(Self::r(a).$cv_rect(Self::r(b))) }
            fn r_split<T: El>(r: TB<T, $D>, axis: usize, sp: T) -> [TB<T, $D>; 2] {
                let x = match axis { $($i => Self::r(r).$split(sp),)+ _ => unreachable!() };
                [Self::drt(x[0]), Self::drt(x[1])]
            }
            fn r_plumb<T: El>(r: TB<T, $D>, which: usize) -> TB<T, $D> {
                let rr = Self::r(r);
                match which {
                    0 => Self::drt($Rect::new($(r[0][$i],)+ $(r[1][$i]),+)),
                    1 => [Self::dv(rr.position()), Self::de(rr.extent())],
                    2 => { let (pp, ee) = rr.position_extent(); [Self::dv(pp), Self::de(ee)] }
                    3 => Self::drt($Rect::from((Self::v(r[0]), Self::ex(r[1])))),
                    // start from a rectangle with position and extent exchanged, then set both
                    4 => { let mut set = Self::r([r[1], r[0]]); set.set_position(Self::v(r[0])); Self::drt(set) }
                    _ => { let mut set = Self::r([r[1], r[0]]); set.set_extent(Self::ex(r[1])); Self::drt(set) }
                }
            }
            fn r_map<T: Copy, P: Copy, E: Copy>(r: TB<T, $D>, pf: impl FnMut(T) -> P, ef: impl FnMut(T) -> E) -> ([P; $D], [E; $D]) { Self::dr(Self::r(r).map(pf, ef)) }
            fn r_as<T: Copy + AsPrimitive<P> + AsPrimitive<E>, P: 'static + Copy, E: 'static + Copy>(r: TB<T, $D>) -> ([P; $D], [E; $D]) { Self::dr(Self::r(r).as_::<P, E>()) }
        }
    };
}
geo_impl!(D2, 2, Aabr, Vec2, Extent2, Rect, [(x, w, 0, split_at_x), (y, h, 1, split_at_y)],
    contains_aabr, collides_with_aabr, collision_vector_with_aabr, contains_rect, collides_with_rect, collision_vector_with_rect, into_rect, into_aabr);
geo_impl!(D3, 3, Aabb, Vec3, Extent3, Rect3, [(x, w, 0, split_at_x), (y, h, 1, split_at_y), (z, d, 2, split_at_z)],
    contains_aabb, collides_with_aabb, collision_vector_with_aabb, contains_rect3, collides_with_rect3, collision_vector_with_rect3, into_rect3, into_aabb);

const PLUMB: [&str; 6] = ["new", "position+extent", "position_extent", "from((position,extent))", "set_position", "set_extent"];
fn sa<G: Geo<D>, T: El, const D: usize>(m: &str) -> String { format!("{}::{}<{}>", G::AAB, m, T::NAME) }
fn sr<G: Geo<D>, T: El, const D: usize>(m: &str) -> String { format!("{}::{}<{}>", G::RECT, m, T::NAME) }

// ------------------------------------------------------------------------------------------------
// sections

/// mask machinery against the definition, point by point
fn premise<const D: usize>(s: &Section, u: &Uni<D>) {
    for b in &u.boxes {
        let (mut c, mut o) = (Mask::ZERO, Mask::ZERO);
        for (idx, p) in u.pts.iter().enumerate() { if inside(b, p) { c = c.or(Mask::bit(idx)); } if strictly_inside(b, p) { o = o.or(Mask::bit(idx)); } assert_eq!(u.pidx(p), idx); }
        s.eval(valid(b));
        let ok = c == u.closed_mask(b) && o == u.open_mask(b) && (!valid(b) || u.bbox(&c) == Some(*b)) && (valid(b) || !c.any()) && (!posext(b) || o.any());
        if !ok { s.rep.machinery_error(format!("mask machinery disagrees with the pointwise definition on {:?}", b)); }
    }
    s.class_n("valid", u.vboxes.len() as u64);
    s.class_n("invalid-box", (u.boxes.len() - u.vboxes.len()) as u64);
}

/// `new_empty(p)`: the box that contains exactly the point p (min = max = p)
fn new_empty_boxes<G: Geo<D>, T: El, const D: usize>(s: &Section, u: &Uni<D>) {
    let site = sa::<G, T, D>("new_empty");
    let mut t = Tally::new();
    for p in u.pts.iter() {
        let px = tp::<T, D>(p);
        let inp = || json!({"p": jd(&px)});
        let want: TB<T, D> = [px, px];
        run(s, &mut t, true, &site, "not-the-single-point-box", &inp, wp(p), || G::new_empty(px), &want);
        run(s, &mut t, true, &site, "single-point-box-does-not-contain-its-point", &inp, wp(p), || { let b = G::new_empty(px); G::is_valid(b) && G::contains_point(b, px) }, &true);
    }
    t.class("new_empty");
    t.flush(s);
}

fn validity<G: Geo<D>, T: El, const D: usize>(s: &Section, u: &Uni<D>) {
    let (st_iv, st_mdv, st_mkv, st_cp, st_rcp) = (sa::<G, T, D>("is_valid"), sa::<G, T, D>("made_valid"), sa::<G, T, D>("make_valid"), sa::<G, T, D>("contains_point"), sr::<G, T, D>("contains_point"));
    let (st_ep, st_mp, st_rep, st_rmp) = (sa::<G, T, D>("expanded_to_contain_point"), sa::<G, T, D>("expand_to_contain_point"), sr::<G, T, D>("expanded_to_contain_point"), sr::<G, T, D>("expand_to_contain_point"));
    u.boxes.par_iter().for_each(|b| {
        let mut t = Tally::new();
        let x = tb::<T, D>(b);
        let inp = || json!({"box[min,max]": jd(&x)});
        let (w, v) = (wb(b), valid(b));
        let bad_axes = (0..D).filter(|&i| b[0][i] > b[1][i]).count();
        t.class(if v { "valid" } else { "invalid-box" });
        if bad_axes == 1 { t.class("invalid-on-one-axis"); }
        if bad_axes == D { t.class("invalid-on-every-axis"); }
        if v && !posext(b) { t.class("valid-zero-extent"); }
        run(s, &mut t, true, &st_iv, "wrong-verdict", &inp, w, || G::is_valid(x), &v);
        let mut f = *b;
        for i in 0..D { if f[0][i] > f[1][i] { let (lo, hi) = (f[1][i], f[0][i]); f[0][i] = lo; f[1][i] = hi; } }
        let want = tb::<T, D>(&f);
        run(s, &mut t, !v, &st_mdv, "wrong-repair", &inp, w, || G::made_valid(x), &want);
        run(s, &mut t, !v, &st_mkv, "wrong-repair", &inp, w, || G::make_valid(x), &want);
        if !v {
            // an invalid box denotes the empty set
            let hull = u.closed_mask(&f);
            let rx = tb::<T, D>(&rect_of(b));
            for (idx, p) in u.pts.iter().enumerate() {
                let px = tp::<T, D>(p);
                let inp = || json!({"box[min,max]": jd(&x), "p": jd(&px)});
                run(s, &mut t, hull.get(idx), &st_cp, "invalid-box-contains-a-point", &inp, w + wp(p), || G::contains_point(x, px), &false);
                let inp = || json!({"rect[position,extent]": jd(&rx), "p": jd(&px)});
                run(s, &mut t, hull.get(idx), &st_rcp, "negative-extent-rect-contains-a-point", &inp, w + wp(p), || G::r_contains_point(rx, px), &false);
                // "expanding to contain a point": whatever the box was (the empty set here), the result contains the point
                // (the accumulate-from-an-inverted-box idiom); judged on the result's public fields by closed-interval membership
                let inp = || json!({"box[min,max]": jd(&x), "p": jd(&px)});
                for (site, got) in [(&st_ep, s.call(&st_ep, &inp, || G::expanded_pt(x, px))), (&st_mp, s.call(&st_mp, &inp, || G::expand_pt(x, px)))] {
                    t.eval(true);
                    if let Some(g) = got { if !(0..D).all(|i| g[0][i] <= px[i] && px[i] <= g[1][i]) { s.violation_w(site, "expanded-invalid-box-does-not-contain-the-point", json!({"input": inp(), "got": jd(&g)}), w + wp(p)); } }
                }
                let inp = || json!({"rect[position,extent]": jd(&rx), "p": jd(&px)});
                for (site, got) in [(&st_rep, s.call(&st_rep, &inp, || G::r_expanded_pt(rx, px))), (&st_rmp, s.call(&st_rmp, &inp, || G::r_expand_pt(rx, px)))] {
                    t.eval(true);
                    if let Some(g) = got { if !(0..D).all(|i| g[0][i] <= px[i] && px[i] <= g[0][i] + g[1][i]) { s.violation_w(site, "expanded-negative-extent-rect-does-not-contain-the-point", json!({"input": inp(), "got[position,extent]": jd(&g)}), w + wp(p)); } }
                }
            }
            if bad_axes == 1 && s.wants_sample() { s.sample(json!({"type": T::NAME, "invalid box[min,max]": jd(&x), "made_valid must be": jd(&want), "is_valid": false, "contains_point": "false on every universe point"})); }
        }
        t.flush(s);
    });
}

fn contains_point<G: Geo<D>, T: El, const D: usize>(s: &Section, u: &Uni<D>) {
    let st = sa::<G, T, D>("contains_point");
    u.vboxes.par_iter().for_each(|b| {
        let mut t = Tally::new();
        let x = tb::<T, D>(b);
        for p in &u.pts {
            let px = tp::<T, D>(p);
            let want = inside(b, p);
            let strict = strictly_inside(b, p);
            let near = !want && (0..D).all(|i| b[0][i] - 1 <= p[i] && p[i] <= b[1][i] + 1);
            t.class(if strict { "interior" } else if want { "boundary" } else if near { "outside-by-one-step" } else { "outside" });
            let inp = || json!({"box[min,max]": jd(&x), "p": jd(&px)});
            run(s, &mut t, want && !strict || near, &st, if want { "point-of-the-box-rejected" } else { "outside-point-accepted" }, &inp, wb(b) + wp(p), || G::contains_point(x, px), &want);
            if want && !strict && s.wants_sample() { s.sample(json!({"type": T::NAME, "box[min,max]": jd(&x), "p": jd(&px), "contains_point": true, "note": "boundary point"})); }
        }
        t.flush(s);
    });
}

fn pair_class<const D: usize>(u: &Uni<D>, ai: usize, bi: usize) -> &'static str {
    let (ma, mb) = (u.closed[ai], u.closed[bi]);
    if ai == bi { "equal" }
    else if !ma.and(mb).any() { "disjoint" }
    else if !mb.minus(ma).any() || !ma.minus(mb).any() { "contained" }
    else if u.open[ai].and(u.open[bi]).any() { "colliding" }
    else if posext(&u.vboxes[ai]) && posext(&u.vboxes[bi]) { "touching" }
    else { "meeting-with-a-flat-operand" }
}

fn union_intersection<G: Geo<D>, T: El, const D: usize>(s: &Section, u: &Uni<D>) {
    let (st_u, st_i, st_e, st_x) = (sa::<G, T, D>("union"), sa::<G, T, D>("intersection"), sa::<G, T, D>("expand_to_contain"), sa::<G, T, D>("intersect"));
    (0..u.vboxes.len()).into_par_iter().for_each(|ai| {
        let mut t = Tally::new();
        let a = &u.vboxes[ai];
        let xa = tb::<T, D>(a);
        for (bi, b) in u.vboxes.iter().enumerate() {
            let xb = tb::<T, D>(b);
            let (ma, mb) = (u.closed[ai], u.closed[bi]);
            let cls = pair_class(u, ai, bi);
            t.class(cls);
            let nt = cls != "equal";
            let w = wb(a) + wb(b);
            let inp = || json!({"a[min,max]": jd(&xa), "b[min,max]": jd(&xb)});
            // smallest box containing every point of both
            let want_u = tb::<T, D>(&u.bbox(&ma.or(mb)).unwrap());
            run(s, &mut t, nt, &st_u, "not-the-smallest-enclosing-box", &inp, w, || G::union(xa, xb), &want_u);
            run(s, &mut t, nt, &st_e, "not-the-smallest-enclosing-box", &inp, w, || G::expand_to_contain(xa, xb), &want_u);
            // exactly the common points; invalid when there are none
            let common = ma.and(mb);
            for (site, which) in [(&st_i, 0), (&st_x, 1)] {
                t.eval(nt);
                let got = s.call(site, || inp(), || if which == 0 { G::intersection(xa, xb) } else { G::intersect(xa, xb) });
                if let Some(g) = got {
                    match u.bbox(&common) {
                        Some(wi) => { let want = tb::<T, D>(&wi); if g != want { s.violation_w(site, "not-exactly-the-common-points", json!({"input": inp(), "got": jd(&g), "want": jd(&want)}), w); } }
                        None => { if !(0..D).any(|i| g[0][i] > g[1][i]) { s.violation_w(site, "valid-result-for-disjoint-boxes", json!({"input": inp(), "got": jd(&g), "want": "an invalid box (min > max on some axis)"}), w); } }
                    }
                }
            }
            if cls == "touching" && s.wants_sample() { s.sample(json!({"type": T::NAME, "a": jd(&xa), "b": jd(&xb), "class": cls, "union must be": jd(&want_u), "intersection must be": u.bbox(&common).map(|x| jd(&tb::<T, D>(&x)))})); }
        }
        t.flush(s);
    });
}

fn contains_collides<G: Geo<D>, T: El, const D: usize>(s: &Section, u: &Uni<D>) {
    let (st_c, st_k) = (sa::<G, T, D>(G::CONTAINS_AAB), sa::<G, T, D>(G::COLLIDES_AAB));
    (0..u.vboxes.len()).into_par_iter().for_each(|ai| {
        let mut t = Tally::new();
        let a = &u.vboxes[ai];
        let xa = tb::<T, D>(a);
        for (bi, b) in u.vboxes.iter().enumerate() {
            let xb = tb::<T, D>(b);
            let (ma, mb) = (u.closed[ai], u.closed[bi]);
            let w = wb(a) + wb(b);
            let inp = || json!({"a[min,max]": jd(&xa), "b[min,max]": jd(&xb)});
            let meet = ma.and(mb).any();
            // every point of b is a point of a
            let want_c = !mb.minus(ma).any();
            t.class(if ai == bi { "contains:equal" } else if want_c { "contains:inside" } else if meet { "contains:partial-overlap" } else { "contains:disjoint" });
            run(s, &mut t, meet, &st_c, if want_c { "contained-box-rejected" } else { "box-with-outside-points-accepted" }, &inp, w, || G::contains(xa, xb), &want_c);
            // interiors share a point (positive extent only)
            if posext(a) && posext(b) {
                let want_k = u.open[ai].and(u.open[bi]).any();
                let cls = if want_k { if want_c || !ma.minus(mb).any() { "collides:nested" } else { "collides:colliding" } } else if meet { "collides:touching" } else { "collides:disjoint" };
                t.class(cls);
                run(s, &mut t, meet, &st_k, if want_k { "overlap-missed" } else if meet { "touching-reported-as-collision" } else { "disjoint-reported-as-collision" }, &inp, w, || G::collides(xa, xb), &want_k);
                if cls == "collides:touching" && s.wants_sample() { s.sample(json!({"type": T::NAME, "a": jd(&xa), "b": jd(&xb), "class": "touching faces", "collides must be": false, "contains must be": want_c})); }
            } else { t.class("collides:zero-extent-operand-not-asserted"); }
        }
        t.flush(s);
    });
}

fn point_ops<G: Geo<D>, T: El, const D: usize>(s: &Section, u: &Uni<D>) {
    let (st_e, st_m, st_p) = (sa::<G, T, D>("expanded_to_contain_point"), sa::<G, T, D>("expand_to_contain_point"), sa::<G, T, D>("projected_point"));
    (0..u.vboxes.len()).into_par_iter().for_each(|ai| {
        let mut t = Tally::new();
        let a = &u.vboxes[ai];
        let xa = tb::<T, D>(a);
        let ma = u.closed[ai];
        for (idx, p) in u.pts.iter().enumerate() {
            let px = tp::<T, D>(p);
            let w = wb(a) + wp(p);
            let inp = || json!({"box[min,max]": jd(&xa), "p": jd(&px)});
            let isin = ma.get(idx);
            // smallest box containing the box and the point
            let want_e = tb::<T, D>(&u.bbox(&ma.or(Mask::bit(idx))).unwrap());
            run(s, &mut t, !isin, &st_e, "not-the-smallest-box-containing-box-and-point", &inp, w, || G::expanded_pt(xa, px), &want_e);
            run(s, &mut t, !isin, &st_m, "not-the-smallest-box-containing-box-and-point", &inp, w, || G::expand_pt(xa, px), &want_e);
            // the point of the box nearest to p (unique: the box is convex)
            let (_, arg, uniq) = u.nearest(&ma, p);
            if !uniq { s.rep.machinery_error(format!("nearest point of {:?} to {:?} is not unique", a, p)); }
            let moved = (0..D).filter(|&i| arg[i] != p[i]).count();
            t.class(if moved == 0 { "point-in-box" } else if moved == 1 { "moved-on-one-axis" } else if moved == D { "moved-on-every-axis" } else { "moved-on-two-axes" });
            let want_p = tp::<T, D>(&arg);
            run(s, &mut t, !isin, &st_p, "not-the-nearest-point-of-the-box", &inp, w, || G::proj(xa, px), &want_p);
            if moved == D && s.wants_sample() { s.sample(json!({"type": T::NAME, "box[min,max]": jd(&xa), "p": jd(&px), "projected_point must be": jd(&want_p), "expanded box must be": jd(&want_e)})); }
        }
        t.flush(s);
    });
}

fn shape_ops<G: Geo<D>, T: El, const D: usize>(s: &Section, u: &Uni<D>) {
    let (st_c, st_s, st_h) = (sa::<G, T, D>("center"), sa::<G, T, D>("size"), sa::<G, T, D>("half_size"));
    let st_split: Vec<String> = (0..D).map(|i| sa::<G, T, D>(&format!("split_at_{}", G::AX[i]))).collect();
    (0..u.vboxes.len()).into_par_iter().for_each(|ai| {
        let mut t = Tally::new();
        let a = &u.vboxes[ai];
        let xa = tb::<T, D>(a);
        let ma = u.closed[ai];
        let w = wb(a);
        let inp = || json!({"box[min,max]": jd(&xa)});
        let pe = posext(a);
        t.class(if pe { "positive-extent" } else { "zero-extent-axis" });
        // corners are even in u-units: midpoint and half extent are exact for every element type
        let (mut c, mut sz, mut hs) = ([0; D], [0; D], [0; D]);
        for i in 0..D { assert!((a[0][i] + a[1][i]) % 2 == 0 && (a[1][i] - a[0][i]) % 2 == 0); c[i] = (a[0][i] + a[1][i]) / 2; sz[i] = a[1][i] - a[0][i]; hs[i] = sz[i] / 2; }
        // the centre is the point about which the set is symmetric
        for (idx, p) in u.pts.iter().enumerate() { let mut m = [0; D]; for i in 0..D { m[i] = 2 * c[i] - p[i]; } if ma.get(idx) != inside(a, &m) { s.rep.machinery_error(format!("centre oracle: {:?} is not symmetric about {:?}", a, c)); } }
        // size in u-steps = T(size): the element unit scales both sides alike
        let szx = { let mut o = [T::from_u(0); D]; for i in 0..D { o[i] = T::from_u(sz[i]); } o };
        let hsx = { let mut o = [T::from_u(0); D]; for i in 0..D { o[i] = T::from_u(hs[i]); } o };
        run(s, &mut t, pe, &st_c, "not-the-midpoint", &inp, w, || G::center(xa), &tp::<T, D>(&c));
        run(s, &mut t, pe, &st_s, "wrong-extent", &inp, w, || G::size(xa), &szx);
        run(s, &mut t, pe, &st_h, "wrong-half-extent", &inp, w, || G::half_size(xa), &hsx);
        for axis in 0..D {
            for sp in a[0][axis]..=a[1][axis] {
                let spx = T::from_u(sp);
                let inp = || json!({"box[min,max]": jd(&xa), "axis": G::AX[axis], "sp": jd(&spx)});
                let lo = u.bbox(&ma.and(u.le_mask(axis, sp))).unwrap();
                let hi = u.bbox(&ma.and(u.ge_mask(axis, sp))).unwrap();
                let atface = sp == a[0][axis] || sp == a[1][axis];
                t.class(if a[0][axis] == a[1][axis] { "split:zero-extent-axis" } else if atface { "split:at-a-face" } else if sp % 2 != 0 { "split:interior-half-grid" } else { "split:interior-grid" });
                // tiling: the pieces cover the box and meet exactly on the plane
                if u.closed_mask(&lo).or(u.closed_mask(&hi)) != ma || u.closed_mask(&lo).and(u.closed_mask(&hi)) != ma.and(u.slab[axis][(sp - u.base) as usize]) { s.rep.machinery_error(format!("split oracle does not tile {:?} at {}={}", a, G::AX[axis], sp)); }
                let want = [tb::<T, D>(&lo), tb::<T, D>(&hi)];
                run(s, &mut t, !atface, &st_split[axis], "pieces-are-not-the-two-sides-of-the-plane", &inp, w + sp.unsigned_abs() as u64, || G::split(xa, axis, spx), &want);
                if !atface && sp % 2 != 0 && s.wants_sample() { s.sample(json!({"type": T::NAME, "box[min,max]": jd(&xa), "axis": G::AX[axis], "sp": jd(&spx), "[low,high] must be": jd(&want), "center must be": jd(&tp::<T, D>(&c))})); }
            }
        }
        t.flush(s);
    });
}

/// exact tier: X, on the cases whose distance is rational
fn distance_exact<G: Geo<D>, const D: usize>(s: &Section, u: &Uni<D>) {
    let st = sa::<G, X, D>("distance_to_point");
    (0..u.vboxes.len()).into_par_iter().for_each(|ai| {
        let mut t = Tally::new();
        let a = &u.vboxes[ai];
        let xa = tb::<X, D>(a);
        for p in &u.pts {
            let (d2, arg, _) = u.nearest(&u.closed[ai], p);
            let moved = (0..D).filter(|&i| arg[i] != p[i]).count();
            let Some(r) = Q::isqrt(d2 as i128) else { t.class("exact:irrational-distance-left-to-the-float-tier"); continue; };
            t.class(if moved == 0 { "exact:zero" } else if moved == 1 { "exact:axis-aligned" } else { "exact:pythagorean" });
            let px = tp::<X, D>(p);
            let inp = || json!({"box[min,max]": jd(&xa), "p": jd(&px)});
            run(s, &mut t, moved > 0, &st, "not-the-distance-to-the-nearest-point", &inp, wb(a) + wp(p), || G::dist(xa, px), &X::from_u(r as i32));
            if moved > 1 && s.wants_sample() { s.sample(json!({"type": "X", "box[min,max]": jd(&xa), "p": jd(&px), "distance must be": jx(X::from_u(r as i32))})); }
        }
        t.flush(s);
    });
}
/// float tier: f64 on every case; inputs are small dyadics, so differences, squares and their sum are exact
/// and only the final square root rounds: bound K*eps*scale with scale = max(distance, squared distance, 1)
fn distance_float<G: Geo<D>, const D: usize>(s: &Section, u: &Uni<D>) {
    let st = sa::<G, f64, D>("distance_to_point");
    (0..u.vboxes.len()).into_par_iter().for_each(|ai| {
        let mut t = Tally::new();
        let a = &u.vboxes[ai];
        let xa = tb::<f64, D>(a);
        for p in &u.pts {
            let (d2, arg, _) = u.nearest(&u.closed[ai], p);
            let moved = (0..D).filter(|&i| arg[i] != p[i]).count();
            t.class(if moved == 0 { "float:zero" } else if Q::isqrt(d2 as i128).is_some() { "float:rational" } else { "float:irrational" });
            let px = tp::<f64, D>(p);
            let d2r = d2 as f64 * 0.25;
            let want = d2r.sqrt();
            t.eval(moved > 0);
            let inp = || json!({"box[min,max]": jd(&xa), "p": jd(&px)});
            if let Some(g) = s.call(&st, || inp(), || G::dist(xa, px)) {
                if !fl::close64(g, want, want.max(d2r).max(1.0)) { s.violation_w(&st, "not-the-distance-to-the-nearest-point", json!({"input": inp(), "got": g, "want": want}), wb(a) + wp(p)); }
            }
            if moved > 1 && Q::isqrt(d2 as i128).is_none() && s.wants_sample() { s.sample(json!({"type": "f64", "box[min,max]": jd(&xa), "p": jd(&px), "distance must be": want})); }
        }
        t.flush(s);
    });
}

fn collision_vector<G: Geo<D>, T: El, const D: usize>(s: &Section, u: &Uni<D>) {
    let st = sa::<G, T, D>(G::CV_AAB);
    (0..u.vboxes.len()).into_par_iter().for_each(|ai| {
        let mut t = Tally::new();
        let a = &u.vboxes[ai];
        let xa = tb::<T, D>(a);
        for (bi, b) in u.vboxes.iter().enumerate() {
            let xb = tb::<T, D>(b);
            let inp = || json!({"self[min,max]": jd(&xa), "other[min,max]": jd(&xb)});
            let w = wb(a) + wb(b);
            let tie = (0..D).any(|i| a[0][i] + a[1][i] == b[0][i] + b[1][i]);
            let pe = posext(a) && posext(b);
            t.class(if !pe { "zero-extent-operand" } else if tie { "centres-tie-on-an-axis" } else if u.open[ai].and(u.open[bi]).any() { "penetrating" } else if u.closed[ai].and(u.closed[bi]).any() { "touching" } else { "separated" });
            let Some(v) = s.call(&st, || inp(), || G::cv(xa, xb)) else { t.eval(pe); continue; };
            for i in 0..D {
                t.eval(pe);
                // self moved by -v[i] along axis i: one of its faces must coincide with the opposite face of other
                let (lo, hi) = (xa[0][i] - v[i], xa[1][i] - v[i]);
                if !(hi == xb[0][i] || lo == xb[1][i]) {
                    s.violation_w(&st, "translated-box-does-not-touch-on-the-axis", json!({"input": inp(), "collision_vector": jd(&v), "axis": G::AX[i], "self interval after translation by -v[axis]": jd(&[lo, hi]), "other interval": jd(&[xb[0][i], xb[1][i]])}), w);
                }
            }
            if pe && !tie && u.open[ai].and(u.open[bi]).any() && ai != bi && s.wants_sample() { s.sample(json!({"type": T::NAME, "self": jd(&xa), "other": jd(&xb), "collision_vector": jd(&v), "law": "self - v[i]*e_i has a face on the opposite face of other, for each axis i"})); }
        }
        t.flush(s);
    });
}

fn rect_conversions<G: Geo<D>, T: El, const D: usize>(s: &Section, u: &Uni<D>) {
    let (st_ir, st_rf, st_ia, st_af) = (sa::<G, T, D>(G::INTO_RECT), format!("{}::from({})<{}>", G::RECT, G::AAB, T::NAME), sr::<G, T, D>(G::INTO_AAB), format!("{}::from({})<{}>", G::AAB, G::RECT, T::NAME));
    let st_pl: Vec<String> = PLUMB.iter().map(|m| sr::<G, T, D>(m)).collect();
    u.vboxes.par_iter().for_each(|a| {
        let mut t = Tally::new();
        let xa = tb::<T, D>(a);
        let xr = tb::<T, D>(&rect_of(a));
        let w = wb(a);
        let nt = a[0].iter().any(|&v| v != 0) && posext(a);
        t.class(if posext(a) { "positive-extent" } else { "zero-extent-axis" });
        if a[0].iter().all(|&v| v != 0) { t.class("position-nonzero-on-every-axis"); }
        let ib = || json!({"box[min,max]": jd(&xa)});
        let ir = || json!({"rect[position,extent]": jd(&xr)});
        // same point set: position = min corner, extent = max - min  /  min = position, max = position + extent
        run(s, &mut t, nt, &st_ir, "rect-denotes-a-different-set", &ib, w, || G::into_rect(xa), &xr);
        run(s, &mut t, nt, &st_rf, "rect-denotes-a-different-set", &ib, w, || G::rect_from(xa), &xr);
        run(s, &mut t, nt, &st_ia, "box-denotes-a-different-set", &ir, w, || G::r_into_aab(xr), &xa);
        run(s, &mut t, nt, &st_af, "box-denotes-a-different-set", &ir, w, || G::aab_from(xr), &xa);
        run(s, &mut t, nt, &st_ir, "round-trip-box-rect-box", &ib, w, || G::aab_from(G::rect_from(xa)), &xa);
        run(s, &mut t, nt, &st_ia, "round-trip-rect-box-rect", &ir, w, || G::rect_from(G::aab_from(xr)), &xr);
        for (k, name) in PLUMB.iter().enumerate() {
            // set_position alone must leave the (exchanged) extent alone and vice versa
            let want = match k { 4 => [xr[0], xr[0]], 5 => [xr[1], xr[1]], _ => xr };
            run(s, &mut t, nt, &st_pl[k], "wrong-field", &ir, w, || G::r_plumb(xr, k), &want);
            let _ = name;
        }
        if nt && s.wants_sample() { s.sample(json!({"type": T::NAME, "box[min,max]": jd(&xa), "rect[position,extent] must be": jd(&xr)})); }
        t.flush(s);
    });
}

/// model conversion of a typed box to the typed rectangle denoting the same set (harness arithmetic, not vek's)
fn to_rect<T: El, const D: usize>(b: &TB<T, D>) -> TB<T, D> { let mut e = b[1]; for i in 0..D { e[i] = b[1][i] - b[0][i]; } [b[0], e] }

fn rect_methods<G: Geo<D>, T: El, const D: usize>(s: &Section, u: &Uni<D>) {
    let n = |m: &str| sr::<G, T, D>(m);
    let (st_cp, st_c, st_k, st_ce, st_ep, st_mp, st_u, st_i, st_eu, st_ei, st_cv) = (n("contains_point"), n(G::CONTAINS_RECT), n(G::COLLIDES_RECT), n("center"), n("expanded_to_contain_point"), n("expand_to_contain_point"), n("union"), n("intersection"), n("expand_to_contain"), n("intersect"), n(G::CV_RECT));
    let st_split: Vec<String> = (0..D).map(|i| n(&format!("split_at_{}", G::AX[i]))).collect();
    const CL: &str = "differs-from-the-box-method-on-the-converted-value";
    (0..u.vboxes.len()).into_par_iter().for_each(|ai| {
        let mut t = Tally::new();
        let a = &u.vboxes[ai];
        let xa = tb::<T, D>(a);
        let ra = tb::<T, D>(&rect_of(a));
        let wa = wb(a);
        let pe = posext(a);
        // the right-hand sides are the real box methods (decided against set semantics in the other sections);
        // a panic there is reported there, here the case is skipped
        macro_rules! rhs { ($e:expr) => { match catch(|| $e) { Ok(v) => v, Err(_) => continue } } }
        for _once in 0..1 {
            let inp = || json!({"rect[position,extent]": jd(&ra)});
            let want = rhs!(G::center(xa));
            run(s, &mut t, pe, &st_ce, CL, &inp, wa, || G::r_center(ra), &want);
        }
        for axis in 0..D {
            for sp in a[0][axis]..=a[1][axis] {
                let spx = T::from_u(sp);
                let inp = || json!({"rect[position,extent]": jd(&ra), "axis": G::AX[axis], "sp": jd(&spx)});
                let bx = rhs!(G::split(xa, axis, spx));
                let want = [to_rect(&bx[0]), to_rect(&bx[1])];
                t.class("box,coordinate");
                run(s, &mut t, sp != a[0][axis] && sp != a[1][axis], &st_split[axis], CL, &inp, wa + sp.unsigned_abs() as u64, || G::r_split(ra, axis, spx), &want);
            }
        }
        for (idx, p) in u.pts.iter().enumerate() {
            let px = tp::<T, D>(p);
            let w = wa + wp(p);
            let inp = || json!({"rect[position,extent]": jd(&ra), "p": jd(&px)});
            let isin = u.closed[ai].get(idx);
            t.class("box,point");
            let want = rhs!(G::contains_point(xa, px));
            run(s, &mut t, isin && !u.open[ai].get(idx), &st_cp, CL, &inp, w, || G::r_contains_point(ra, px), &want);
            let want = to_rect(&rhs!(G::expanded_pt(xa, px)));
            run(s, &mut t, !isin, &st_ep, CL, &inp, w, || G::r_expanded_pt(ra, px), &want);
            run(s, &mut t, !isin, &st_mp, CL, &inp, w, || G::r_expand_pt(ra, px), &want);
        }
        for (bi, b) in u.vboxes.iter().enumerate() {
            let xb = tb::<T, D>(b);
            let rb = tb::<T, D>(&rect_of(b));
            let w = wa + wb(b);
            let inp = || json!({"a[position,extent]": jd(&ra), "b[position,extent]": jd(&rb)});
            let cls = pair_class(u, ai, bi);
            t.class(cls);
            let nt = cls != "equal" && cls != "disjoint";
            let want = rhs!(G::contains(xa, xb));
            run(s, &mut t, nt, &st_c, CL, &inp, w, || G::r_contains(ra, rb), &want);
            let want = rhs!(G::collides(xa, xb));
            run(s, &mut t, nt, &st_k, CL, &inp, w, || G::r_collides(ra, rb), &want);
            let want = to_rect(&rhs!(G::union(xa, xb)));
            run(s, &mut t, nt, &st_u, CL, &inp, w, || G::r_union(ra, rb), &want);
            run(s, &mut t, nt, &st_eu, CL, &inp, w, || G::r_expand_to_contain(ra, rb), &want);
            let want = to_rect(&rhs!(G::intersection(xa, xb)));
            run(s, &mut t, nt, &st_i, CL, &inp, w, || G::r_intersection(ra, rb), &want);
            run(s, &mut t, nt, &st_ei, CL, &inp, w, || G::r_intersect(ra, rb), &want);
            let want = rhs!(G::cv(xa, xb));
            run(s, &mut t, nt, &st_cv, CL, &inp, w, || G::r_cv(ra, rb), &want);
            if cls == "colliding" && s.wants_sample() { s.sample(json!({"type": T::NAME, "a[position,extent]": jd(&ra), "b[position,extent]": jd(&rb), "class": cls, "methods_compared": 7, "e.g. intersection must be": jd(&to_rect(&rhs!(G::intersection(xa, xb))))})); }
        }
        t.flush(s);
    });
}

/// map / as_ with order-preserving lossless conversions: the fields must be the converted fields
fn mapping<G: Geo<D>, const D: usize>(s: &Section, u: &Uni<D>) {
    fn cv<A: Copy, B: Copy, const D: usize>(b: &TB<A, D>, f: impl Fn(A) -> B) -> TB<B, D> { [b[0].map(&f), b[1].map(&f)] }
    let a = |m: &str, t: &str| format!("{}::{}<{}>", G::AAB, m, t);
    let r = |m: &str, t: &str| format!("{}::{}<{}>", G::RECT, m, t);
    const CL: &str = "fields-are-not-the-converted-fields";
    for b in &u.vboxes {
        let mut t = Tally::new();
        let bi: TB<i32, D> = *b;
        let (bx, bf) = (tb::<X, D>(b), tb::<f64, D>(b));
        let ri = rect_of(b);
        let (rx, rf) = (tb::<X, D>(&ri), tb::<f64, D>(&ri));
        let w = wb(b);
        let nt = posext(b);
        t.class(if nt { "positive-extent" } else { "zero-extent-axis" });
        let ii = || json!({"box[min,max]": jd(&bi)});
        let ix = || json!({"box[min,max]": jd(&bx)});
        let iff = || json!({"box[min,max]": jd(&bf)});
        let iri = || json!({"rect[position,extent]": jd(&ri)});
        let irx = || json!({"rect[position,extent]": jd(&rx)});
        run(s, &mut t, nt, &a("as_", "i32->f64"), CL, &ii, w, || G::as_::<i32, f64>(bi), &cv(&bi, |v| v as f64));
        run(s, &mut t, nt, &a("as_", "i32->i64"), CL, &ii, w, || G::as_::<i32, i64>(bi), &cv(&bi, |v| v as i64));
        run(s, &mut t, nt, &a("as_", "i32->X"), CL, &ii, w, || G::as_::<i32, X>(bi), &cv(&bi, |v| qi(v as i128)));
        run(s, &mut t, nt, &a("as_", "X->f64"), CL, &ix, w, || G::as_::<X, f64>(bx), &bf);
        run(s, &mut t, nt, &a("as_", "f64->f32"), CL, &iff, w, || G::as_::<f64, f32>(bf), &cv(&bf, |v| v as f32));
        run(s, &mut t, nt, &a("map", "i32->X"), CL, &ii, w, || G::map(bi, X::from_u), &bx);
        run(s, &mut t, nt, &a("map", "X->X identity"), CL, &ix, w, || G::map(bx, |v| v), &bx);
        run(s, &mut t, nt, &a("map", "i32 v->3v+1"), CL, &ii, w, || G::map(bi, |v| 3 * v + 1), &cv(&bi, |v| 3 * v + 1));
        run(s, &mut t, nt, &a("map", "f64->X exact"), CL, &iff, w, || G::map(bf, |v| X::R(fl::qf(v))), &bx);
        run(s, &mut t, nt, &r("as_", "i32->(f64,i64)"), CL, &iri, w, || G::r_as::<i32, f64, i64>(ri), &(ri[0].map(|v| v as f64), ri[1].map(|v| v as i64)));
        run(s, &mut t, nt, &r("as_", "X->(X,f64)"), CL, &irx, w, || G::r_as::<X, X, f64>(rx), &(rx[0], rf[1]));
        run(s, &mut t, nt, &r("map", "i32->(X,f64)"), CL, &iri, w, || G::r_map(ri, X::from_u, f64::from_u), &(rx[0], rf[1]));
        run(s, &mut t, nt, &r("map", "i32 (p->p+1, e->2e)"), CL, &iri, w, || G::r_map(ri, |p| p + 1, |e| 2 * e), &(ri[0].map(|v| v + 1), ri[1].map(|v| 2 * v)));
        if nt && b[0].iter().all(|&v| v != 0) && s.wants_sample() { s.sample(json!({"box<i32>": jd(&bi), "as_::<f64>() must be": jd(&cv(&bi, |v| v as f64)), "map(u -> u/2 as X) must be": jd(&bx)})); }
        t.flush(s);
    }
}

/// Aabr::from(Aabb): the shadow of the box on the xy plane
fn flatten<T: El>(s: &Section, u3: &Uni<3>) {
    let st = format!("Aabr::from(Aabb)<{}>", T::NAME);
    for b in &u3.vboxes {
        let mut t = Tally::new();
        let x = tb::<T, 3>(b);
        // { (x,y) : some (x,y,z) is in the box } has the bounding box (min.xy, max.xy) because the box is a product of intervals
        let want: TB<T, 2> = [[x[0][0], x[0][1]], [x[1][0], x[1][1]]];
        let nt = b[0][2] != b[0][0] || b[1][2] != b[1][1];
        t.class(if nt { "z-differs-from-xy" } else { "z-like-xy" });
        let inp = || json!({"box[min,max]": jd(&x)});
        run(s, &mut t, nt, &st, "not-the-xy-shadow", &inp, wb(b), || { let r: Aabr<T> = Aabb { min: Vec3 { x: x[0][0], y: x[0][1], z: x[0][2] }, max: Vec3 { x: x[1][0], y: x[1][1], z: x[1][2] } }.into(); [[r.min.x, r.min.y], [r.max.x, r.max.y]] }, &want);
        t.flush(s);
    }
}

// ------------------------------------------------------------------------------------------------

fn main() {
    let rep = Report::start("C13", "exploration");
    // quick: the planned space (2D corners {0,2,4,6}, 3D corners {0,2,4}) and the same grids moved to straddle zero;
    // thorough: additionally a larger straddling grid in each dimension
    let (c2, c3): (Vec<(usize, i32)>, Vec<(usize, i32)>) = if rep.thorough() { (vec![(4, 0), (4, -4), (8, -8)], vec![(3, 0), (3, -2), (5, -4)]) } else { (vec![(4, 0), (4, -4)], vec![(3, 0), (3, -2)]) };
    let u2s: Vec<Uni<2>> = c2.iter().map(|&(g, sh)| Uni::<2>::new(g, sh)).collect();
    let u3s: Vec<Uni<3>> = c3.iter().map(|&(g, sh)| Uni::<3>::new(g, sh)).collect();
    rep.extra("universe", json!({"2D": u2s.iter().map(|u| u.describe()).collect::<Vec<_>>(), "3D": u3s.iter().map(|u| u.describe()).collect::<Vec<_>>(),
        "element_unit": {"i32": "1", "X": "1/2", "f64": "0.5"},
        "invalid_operands": "enumerated in the validity section only; pair/point laws are asserted for valid operands (the property fixes no denotation for invalid ones beyond is_valid, make_valid and emptiness)"}));
    let grids = |g: &Vec<(usize, i32)>| g.iter().map(|&(g, sh)| format!("{{{}..{}}}", sh, sh + 2 * g as i32 - 2)).collect::<Vec<_>>().join(", ");
    let scope = format!("model units: box corners on even grids, points = all integers from one below to one above the grid; 2D grids {} (squared), 3D grids {} (cubed); element types i32 (unit 1), X and f64 (unit 1/2)", grids(&c2), grids(&c3));

    macro_rules! all_types { ($s:expr, $f:ident) => {{
        for u in &u2s { $f::<D2, i32, 2>($s, u); $f::<D2, X, 2>($s, u); $f::<D2, f64, 2>($s, u); }
        for u in &u3s { $f::<D3, i32, 3>($s, u); $f::<D3, X, 3>($s, u); $f::<D3, f64, 3>($s, u); }
        $s.meta("scope", json!(scope));
    }} }

    rep.section("premise: point-set masks agree with the pointwise definition",
        "every box (valid and invalid) of both universes: the closed/open bit masks used by the oracles are rebuilt point by point from min<=p<=max / min<p<max; bounding box of a valid box's mask is the box; invalid boxes have the empty mask; non-trivial: valid boxes", true, false, |s| {
        s.require_classes(&["valid", "invalid-box"]);
        for u in &u2s { premise(s, u); } for u in &u3s { premise(s, u); }
        let u2 = &u2s[0];
        s.sample(json!({"box": jd(&u2.vboxes[u2.vboxes.len() / 2]), "points_in_mask": u2.closed[u2.vboxes.len() / 2].0.iter().map(|w| w.count_ones()).sum::<u32>()}));
        s.meta("scope", json!(scope));
    });
    rep.section("validity: is_valid, make_valid/made_valid, invalid boxes are empty",
        "every universe point p: new_empty(p) == [p,p], valid and containing p; every box, valid and invalid (all g^(2D) corner pairs): is_valid == (min<=max on every axis); made_valid/make_valid == per-axis sorted corners; for every invalid box and every universe point contains_point == false (box, and the rectangle with the corresponding negative extent) and expanded_to_contain_point / expand_to_contain_point of box and rectangle yield a result that contains the point (closed-interval membership on its public fields); non-trivial: is_valid always, repairs on invalid boxes, emptiness on points inside the repaired hull", true, false, |s| {
        s.require_classes(&["valid", "invalid-box", "invalid-on-one-axis", "invalid-on-every-axis", "valid-zero-extent", "new_empty"]);
        all_types!(s, validity);
        all_types!(s, new_empty_boxes);
    });
    rep.section("contains_point is closed-interval membership",
        "every valid box x every universe point: contains_point == (min<=p<=max on every axis); non-trivial: boundary points and points one step outside", true, false, |s| {
        s.require_classes(&["interior", "boundary", "outside-by-one-step", "outside"]);
        all_types!(s, contains_point);
    });
    rep.section("union and intersection as point sets",
        "every ordered pair of valid boxes: union / expand_to_contain == bounding box of the united point masks (contains all points of both; moving any face in by a step would lose one); intersection / intersect == the box of exactly the common points, and some axis has min>max when there are none; non-trivial: a != b", true, false, |s| {
        s.require_classes(&["equal", "disjoint", "contained", "colliding", "touching"]);
        all_types!(s, union_intersection);
    });
    rep.section("contains_aab* and collides_with_aab*",
        "every ordered pair of valid boxes: contains == no universe point of b lies outside a; collides (both boxes of positive extent only) == some universe point lies strictly inside both (corners are even, universe has the odd points, so a non-empty open intersection always holds one); non-trivial: the closed sets meet", true, false, |s| {
        s.require_classes(&["contains:equal", "contains:inside", "contains:partial-overlap", "contains:disjoint", "collides:nested", "collides:colliding", "collides:touching", "collides:disjoint", "collides:zero-extent-operand-not-asserted"]);
        all_types!(s, contains_collides);
    });
    rep.section("expanded_to_contain_point and projected_point",
        "every valid box x every universe point: expanded_to_contain_point / expand_to_contain_point == bounding box of mask(box) + the point; projected_point == the universe point of the box with the least squared distance to p (searched over all points of the mask, unique); non-trivial: p outside the box", true, false, |s| {
        s.require_classes(&["point-in-box", "moved-on-one-axis", "moved-on-every-axis"]);
        all_types!(s, point_ops);
    });
    rep.section("center, size, half_size, split_at_*",
        "every valid box: center == midpoint (oracle cross-checked: the mask is symmetric about it), size == max-min, half_size == size/2 (corners even in model units, so exact also for i32); split_at_<axis>(sp) for every axis and every integer sp with min<=sp<=max (the documented precondition): [low, high] == boxes of mask&{x<=sp}, mask&{x>=sp} (oracle cross-checked to tile the box and to meet exactly on the plane); non-trivial: positive extent / cut strictly inside", true, false, |s| {
        s.require_classes(&["positive-extent", "zero-extent-axis", "split:zero-extent-axis", "split:at-a-face", "split:interior-half-grid", "split:interior-grid"]);
        all_types!(s, shape_ops);
    });
    rep.section("distance_to_point",
        "every valid box x every universe point: distance == sqrt(least squared distance to a point of the mask); exact tier X on every case with a rational distance (zero, axis-aligned, Pythagorean), compared with ==; float tier f64 on every case with the derived bound 256*eps*max(distance, distance^2, 1) (inputs are small dyadics: only the square root rounds); i32 is not a Real type; non-trivial: p outside the box", true, false, |s| {
        s.require_classes(&["exact:zero", "exact:axis-aligned", "exact:pythagorean", "exact:irrational-distance-left-to-the-float-tier", "float:zero", "float:rational", "float:irrational"]);
        for u in &u2s { distance_exact::<D2, 2>(s, u); distance_float::<D2, 2>(s, u); }
        for u in &u3s { distance_exact::<D3, 3>(s, u); distance_float::<D3, 3>(s, u); }
        s.meta("scope", json!(scope));
    });
    rep.section("collision_vector_with_aab*",
        "every ordered pair of valid boxes, every axis i: after translating self by -v[i] along axis i, self.max[i] == other.min[i] or self.min[i] == other.max[i] (a face of self lies on the opposite face of other); which of the two is not asserted; one evaluation per axis; non-trivial: both boxes of positive extent", true, false, |s| {
        s.require_classes(&["zero-extent-operand", "centres-tie-on-an-axis", "penetrating", "touching", "separated"]);
        all_types!(s, collision_vector);
    });
    rep.section("integer rectangles with odd extents and negative positions: Rect method == Aab method on the converted value",
        "every Rect<i32,i32> with position in {-3..2}^2 and extent in {0..3}^2 (576) and every Rect3 with position in {-3,-2,0,1}^3, extent in {0,1,2,3}^3 (4096): center, and for every point of {-4..6}^D contains_point / expanded_to_contain_point, against the REAL Aabr/Aabb method on the box built by the harness from position and position+extent (struct literal), converted back by the harness; the point universe of the other sections has even corners only, where integer division never truncates - here it does; non-trivial: odd extent on some axis", true, false, |s| {
        s.require_classes(&["odd-extent-negative-position", "even-extent", "point-on-max-edge"]);
        let (mut n_odd, mut n_even, mut n_edge) = (0u64, 0u64, 0u64);
        for x in -3i32..=2 { for y in -3i32..=2 { for w in 0i32..=3 { for h in 0i32..=3 {
            let r = Rect { x, y, w, h };
            let b = Aabr { min: Vec2 { x, y }, max: Vec2 { x: x + w, y: y + h } };
            let odd = w % 2 != 0 || h % 2 != 0;
            if odd && (x < 0 || y < 0) { n_odd += 1; } else if !odd { n_even += 1; }
            let inp = || json!({"rect[x,y,w,h]": [x, y, w, h]});
            s.eval(odd);
            if let Some((g, want)) = s.call("Rect::center<i32>", inp, || (r.center(), b.center())) { if (g.x, g.y) != (want.x, want.y) { s.violation_w("Rect::center<i32>", "differs-from-the-box-method-on-the-converted-value", json!({"input": inp(), "got": [g.x, g.y], "want": [want.x, want.y]}), (x.abs() + y.abs() + w + h) as u64); } }
            for px in -4i32..=6 { for py in -4i32..=6 {
                let p = Vec2 { x: px, y: py };
                if px == x + w || py == y + h { n_edge += 1; }
                s.eval(odd);
                if r.contains_point(p) != b.contains_point(p) { s.violation_w("Rect::contains_point<i32>", "differs-from-the-box-method-on-the-converted-value", json!({"input": inp(), "p": [px, py], "got": r.contains_point(p)}), (x.abs() + y.abs() + w + h) as u64); }
                let (e, eb) = (r.expanded_to_contain_point(p), b.expanded_to_contain_point(p));
                if (e.x, e.y, e.x + e.w, e.y + e.h) != (eb.min.x, eb.min.y, eb.max.x, eb.max.y) { s.violation_w("Rect::expanded_to_contain_point<i32>", "differs-from-the-box-method-on-the-converted-value", json!({"input": inp(), "p": [px, py], "got": [e.x, e.y, e.w, e.h]}), (x.abs() + y.abs() + w + h) as u64); }
            } }
            if odd && x < 0 && s.wants_sample() { s.sample(json!({"rect[x,y,w,h]": [x, y, w, h], "center must equal Aabr::center of": [[x, y], [x + w, y + h]]})); }
        } } } }
        let pos = [-3i32, -2, 0, 1];
        for &x in &pos { for &y in &pos { for &z in &pos { for w in 0i32..=3 { for h in 0i32..=3 { for d in 0i32..=3 {
            let r = Rect3 { x, y, z, w, h, d };
            let b = Aabb { min: Vec3 { x, y, z }, max: Vec3 { x: x + w, y: y + h, z: z + d } };
            let odd = w % 2 != 0 || h % 2 != 0 || d % 2 != 0;
            if odd && (x < 0 || y < 0 || z < 0) { n_odd += 1; } else if !odd { n_even += 1; }
            let inp = || json!({"rect3[x,y,z,w,h,d]": [x, y, z, w, h, d]});
            s.eval(odd);
            if let Some((g, want)) = s.call("Rect3::center<i32>", inp, || (r.center(), b.center())) { if (g.x, g.y, g.z) != (want.x, want.y, want.z) { s.violation_w("Rect3::center<i32>", "differs-from-the-box-method-on-the-converted-value", json!({"input": inp(), "got": [g.x, g.y, g.z], "want": [want.x, want.y, want.z]}), (x.abs() + y.abs() + z.abs() + w + h + d) as u64); } }
            for p in [Vec3 { x: x + w, y, z }, Vec3 { x, y: y + h, z: z + d }, Vec3 { x: x - 1, y, z }, Vec3 { x: x + w + 1, y: y + h, z: z + d }] {
                n_edge += 1; s.eval(odd);
                if r.contains_point(p) != b.contains_point(p) { s.violation_w("Rect3::contains_point<i32>", "differs-from-the-box-method-on-the-converted-value", json!({"input": inp(), "p": [p.x, p.y, p.z], "got": r.contains_point(p)}), (x.abs() + y.abs() + z.abs() + w + h + d) as u64); }
            }
        } } } } } }
        s.class_n("odd-extent-negative-position", n_odd); s.class_n("even-extent", n_even); s.class_n("point-on-max-edge", n_edge);
    });

    rep.section("Rect <-> Aab conversions and Rect plumbing",
        "every valid box and the rectangle (position=min, extent=max-min) written down by the harness: into_rect / Rect::from(Aab) give that rectangle, into_aab / Aab::from(Rect) give the box back, both round trips are the identity, Aab::size is the extent (previous section); Rect::new, position, extent, position_extent, From<(Vec,Extent)> read/write the named fields, set_position / set_extent change exactly their own fields; non-trivial: positive extent and a non-zero position", true, false, |s| {
        s.require_classes(&["positive-extent", "zero-extent-axis", "position-nonzero-on-every-axis"]);
        all_types!(s, rect_conversions);
    });
    rep.section("every Rect method equals the Aab method on the converted value",
        "every valid box a (and ordered pair a,b; and universe point; and admissible split coordinate): the Rect/Rect3 method run on the harness-converted rectangle(s) == the real Aab method run on the box(es), converted back by the harness (position=min, extent=max-min): contains_point, contains_rect*, collides_with_rect*, center, expanded_to_contain_point, expand_to_contain_point, union, intersection, expand_to_contain, intersect, collision_vector_with_rect*, split_at_*; non-trivial: closed sets meet and a != b (pairs), boundary/outside points, interior cuts, positive extent (center)", true, false, |s| {
        s.require_classes(&["box,point", "box,coordinate", "equal", "disjoint", "contained", "colliding", "touching"]);
        all_types!(s, rect_methods);
    });
    rep.section("map, as_ and Aabr::from(Aabb)",
        "every valid box: as_ (i32->f64, i32->i64, i32->X, X->f64, f64->f32) and map (i32->X scaling, identity, v->3v+1, f64->X exact) on Aab; as_ and map with different position/extent targets on Rect: result fields == the converted fields (all conversions are lossless and order preserving on the grid, so the denoted set is carried along); Aabr::from(Aabb) == (min.xy, max.xy), the xy shadow; non-trivial: positive extent / z interval differs from x and y", true, false, |s| {
        s.require_classes(&["positive-extent", "zero-extent-axis", "z-differs-from-xy"]);
        for u in &u2s { mapping::<D2, 2>(s, u); }
        for u in &u3s { mapping::<D3, 3>(s, u); flatten::<i32>(s, u); flatten::<X>(s, u); flatten::<f64>(s, u); }
        s.meta("scope", json!(scope));
    });
    std::process::exit(rep.finish());
}
