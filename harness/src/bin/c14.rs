//! C14 — Bézier evaluate, derivative, split and conversions obey the Bernstein identities.
//!
//! Every polynomial claim is decided by the identity engine: the real vek code is run on exact
//! rationals at every point of a simplex lattice L(n, D), n = number of free scalar inputs
//! (control coordinates, parameters t/u, matrix entries), D >= total degree of the identity, the
//! degree being *measured* by running the same real code (and the reference) once on tropical
//! `Deg` values (which also proves the code is branch-free ring arithmetic).
//!
//! Conventions: a point is `[T; 3]` (z padded with zero for 2-D), a control polygon `[[T; 3]; 4]`
//! (last row padded for quadratics).  Lattice coordinate `a` maps to control coordinate `a`, to a
//! matrix entry `a`, and to a parameter `(a-1)/2` (so t,u range over -1/2, 0, 1/2, 1, 3/2, ...:
//! an invertible affine image of the lattice, still unisolvent).
use std::collections::BTreeMap;
use std::fmt::Debug;
use std::marker::PhantomData;
use std::ops::Range;
use std::sync::atomic::{AtomicU64, Ordering::Relaxed};
use std::sync::Mutex;
use vek::bezier::repr_c::{CubicBezier2, CubicBezier3, QuadraticBezier2, QuadraticBezier3};
use vek::geom::repr_c::{LineSegment2, LineSegment3};
use vek::num_traits::real::Real;
use vek::num_traits::Zero;
use vek::ops::{Lerp, MulAdd};
use vx::fr::Deg;
use vx::lattice::*;
use vx::matx::*;
use vx::*;

// ---- scalar / point plumbing -------------------------------------------------------------------
trait Sc: Real + Lerp<Self, Output = Self> + MulAdd<Self, Self, Output = Self> + Debug + Send + Sync + 'static {}
impl Sc for X {}
impl Sc for Deg {}
impl Sc for f64 {}
impl Sc for f32 {}

type P3<T> = [T; 3];
type Pts<T> = [[T; 3]; 4];
type M4<T> = [[T; 4]; 4];

mod d2 {
    use super::*;
    pub fn mk<T: Sc>(p: &P3<T>) -> Vec2<T> { Vec2 { x: p[0], y: p[1] } }
    pub fn un<T: Sc>(v: &Vec2<T>) -> P3<T> { [v.x, v.y, T::zero()] }
}
mod d3 {
    use super::*;
    pub fn mk<T: Sc>(p: &P3<T>) -> Vec3<T> { Vec3 { x: p[0], y: p[1], z: p[2] } }
    pub fn un<T: Sc>(v: &Vec3<T>) -> P3<T> { [v.x, v.y, v.z] }
}
fn sub<T: Copy, const N: usize>(m: &M4<T>) -> A<T, N> { let mut o = [[m[0][0]; N]; N]; for i in 0..N { for j in 0..N { o[i][j] = m[i][j]; } } o }
fn pad<T: Sc, const N: usize>(a: &A<T, N>) -> M4<T> { let mut o = [[T::zero(); 4]; 4]; for i in 0..N { for j in 0..N { o[i][j] = a[i][j]; } } o }
fn zp<T: Sc>() -> P3<T> { [T::zero(); 3] }

/// Uniform access to the four curve types; every method is a thin call of the real vek API, inputs
/// built with struct literals, outputs decoded by field access.
trait Cv<T: Sc>: Copy + Send + Sync {
    fn build(p: &Pts<T>) -> Self;
    fn pts(&self) -> Pts<T>;
    fn ev(self, t: T) -> P3<T>;
    fn de(self, t: T) -> P3<T>;
    fn nt(self, t: T) -> P3<T>;
    fn sp(self, t: T) -> [Self; 2];
    /// `matrix()` decoded row by row (rows field), padded
    fn coef() -> M4<T>;
    fn rev(self, inplace: bool) -> Self;
    fn flip(self, axis: usize, inplace: bool) -> Self;
    /// 0: into_3d / into_2d, 1: `From` impl; then `evaluate(t)` of the converted curve
    fn redim_ev(self, form: usize, t: T) -> P3<T>;
    /// 0 into_vecK, 1 into_tuple, 2 into_array, 3 VecK::from(curve), 4 Curve::from(VecK) (round trip through a literal VecK)
    fn unpack(self, form: usize) -> Pts<T>;
    /// 0: From<LineSegment>, 1: From<Range>
    fn from_seg(a: &P3<T>, b: &P3<T>, form: usize) -> Self;
    /// quadratic only. 0: into_cubic, 1: Cubic::from; then `evaluate(t)` of the cubic
    fn elev_ev(self, _form: usize, _t: T) -> P3<T> { unreachable!("quadratic only") }
    /// DIMxDIM matrix (Mat2 for 2-D curves, Mat3 for 3-D curves) times curve
    fn mul_lin(self, m: &M4<T>, col: bool) -> Self;
    /// (DIM+1)x(DIM+1) matrix (Mat3 for 2-D, Mat4 for 3-D) times curve
    fn mul_hom(self, m: &M4<T>, col: bool) -> Self;
    /// cubic only
    fn quarter() -> Self { unreachable!("cubic only") }
    fn circle() -> [Self; 4] { unreachable!("cubic only") }
}

macro_rules! cv_common { ($B:ident, $d:ident, $Seg:ident) => {
    fn ev(self, t: T) -> P3<T> { $d::un(&self.evaluate(t)) }
    fn de(self, t: T) -> P3<T> { $d::un(&self.evaluate_derivative(t)) }
    fn nt(self, t: T) -> P3<T> { $d::un(&self.normalized_tangent(t)) }
    fn sp(self, t: T) -> [Self; 2] { self.split(t) }
    fn rev(self, inplace: bool) -> Self { if inplace { let mut c = self; c.reverse(); c } else { self.reversed() } }
    fn from_seg(a: &P3<T>, b: &P3<T>, form: usize) -> Self {
        if form == 0 { <$B<T>>::from($Seg { start: $d::mk(a), end: $d::mk(b) }) } else { <$B<T>>::from(Range { start: $d::mk(a), end: $d::mk(b) }) }
    }
} }
macro_rules! cv_dim {
    (d2, $Other:ident) => {
        fn flip(self, axis: usize, inplace: bool) -> Self {
            let mut c = self;
            match (axis, inplace) { (0, false) => self.flipped_x(), (0, true) => { c.flip_x(); c } (1, false) => self.flipped_y(), (1, true) => { c.flip_y(); c } _ => unreachable!() }
        }
        fn redim_ev(self, form: usize, t: T) -> P3<T> { let c: $Other<T> = if form == 0 { self.into_3d() } else { <$Other<T>>::from(self) }; d3::un(&c.evaluate(t)) }
        fn mul_lin(self, m: &M4<T>, col: bool) -> Self { let a: A<T, 2> = sub(m); if col { c2(&a) * self } else { r2(&a) * self } }
        fn mul_hom(self, m: &M4<T>, col: bool) -> Self { let a: A<T, 3> = sub(m); if col { c3(&a) * self } else { r3(&a) * self } }
    };
    (d3, $Other:ident) => {
        fn flip(self, axis: usize, inplace: bool) -> Self {
            let mut c = self;
            match (axis, inplace) { (0, false) => self.flipped_x(), (0, true) => { c.flip_x(); c } (1, false) => self.flipped_y(), (1, true) => { c.flip_y(); c }
                                    (2, false) => self.flipped_z(), (2, true) => { c.flip_z(); c } _ => unreachable!() }
        }
        fn redim_ev(self, form: usize, t: T) -> P3<T> { let c: $Other<T> = if form == 0 { self.into_2d() } else { <$Other<T>>::from(self) }; d2::un(&c.evaluate(t)) }
        fn mul_lin(self, m: &M4<T>, col: bool) -> Self { let a: A<T, 3> = sub(m); if col { c3(&a) * self } else { r3(&a) * self } }
        fn mul_hom(self, m: &M4<T>, col: bool) -> Self { let a: A<T, 4> = sub(m); if col { c4(&a) * self } else { r4(&a) * self } }
    };
}
macro_rules! impl_quad { ($B:ident, $Cub:ident, $Other:ident, $d:ident, $Seg:ident) => {
    impl<T: Sc> Cv<T> for $B<T> {
        fn build(p: &Pts<T>) -> Self { $B { start: $d::mk(&p[0]), ctrl: $d::mk(&p[1]), end: $d::mk(&p[2]) } }
        fn pts(&self) -> Pts<T> { [$d::un(&self.start), $d::un(&self.ctrl), $d::un(&self.end), zp()] }
        fn coef() -> M4<T> { pad(&dr3(&<$B<T>>::matrix())) }
        fn unpack(self, form: usize) -> Pts<T> {
            match form {
                0 => { let v = self.into_vec3(); [$d::un(&v.x), $d::un(&v.y), $d::un(&v.z), zp()] }
                1 => { let v = self.into_tuple(); [$d::un(&v.0), $d::un(&v.1), $d::un(&v.2), zp()] }
                2 => { let v = self.into_array(); [$d::un(&v[0]), $d::un(&v[1]), $d::un(&v[2]), zp()] }
                3 => { let v = Vec3::from(self); [$d::un(&v.x), $d::un(&v.y), $d::un(&v.z), zp()] }
                _ => { let p = self.pts(); <$B<T>>::from(Vec3 { x: $d::mk(&p[0]), y: $d::mk(&p[1]), z: $d::mk(&p[2]) }).pts() }
            }
        }
        fn elev_ev(self, form: usize, t: T) -> P3<T> { let c: $Cub<T> = if form == 0 { self.into_cubic() } else { <$Cub<T>>::from(self) }; $d::un(&c.evaluate(t)) }
        cv_common!($B, $d, $Seg);
        cv_dim!($d, $Other);
    }
} }
macro_rules! impl_cubic { ($B:ident, $Other:ident, $d:ident, $Seg:ident) => {
    impl<T: Sc> Cv<T> for $B<T> {
        fn build(p: &Pts<T>) -> Self { $B { start: $d::mk(&p[0]), ctrl0: $d::mk(&p[1]), ctrl1: $d::mk(&p[2]), end: $d::mk(&p[3]) } }
        fn pts(&self) -> Pts<T> { [$d::un(&self.start), $d::un(&self.ctrl0), $d::un(&self.ctrl1), $d::un(&self.end)] }
        fn coef() -> M4<T> { dr4(&<$B<T>>::matrix()) }
        fn unpack(self, form: usize) -> Pts<T> {
            match form {
                0 => { let v = self.into_vec4(); [$d::un(&v.x), $d::un(&v.y), $d::un(&v.z), $d::un(&v.w)] }
                1 => { let v = self.into_tuple(); [$d::un(&v.0), $d::un(&v.1), $d::un(&v.2), $d::un(&v.3)] }
                2 => { let v = self.into_array(); [$d::un(&v[0]), $d::un(&v[1]), $d::un(&v[2]), $d::un(&v[3])] }
                3 => { let v = Vec4::from(self); [$d::un(&v.x), $d::un(&v.y), $d::un(&v.z), $d::un(&v.w)] }
                _ => { let p = self.pts(); <$B<T>>::from(Vec4 { x: $d::mk(&p[0]), y: $d::mk(&p[1]), z: $d::mk(&p[2]), w: $d::mk(&p[3]) }).pts() }
            }
        }
        fn quarter() -> Self { <$B<T>>::unit_quarter_circle() }
        fn circle() -> [Self; 4] { <$B<T>>::unit_circle() }
        cv_common!($B, $d, $Seg);
        cv_dim!($d, $Other);
    }
} }
impl_quad!(QuadraticBezier2, CubicBezier2, QuadraticBezier3, d2, LineSegment2);
impl_quad!(QuadraticBezier3, CubicBezier3, QuadraticBezier2, d3, LineSegment3);
impl_cubic!(CubicBezier2, CubicBezier3, d2, LineSegment2);
impl_cubic!(CubicBezier3, CubicBezier2, d3, LineSegment3);

trait Kind: Sync + 'static {
    const K: usize; const DIM: usize; const NAME: &'static str; const OTHER: &'static str; const CUBIC: &'static str;
    type C<T: Sc>: Cv<T>;
}
struct Q2; struct Q3; struct C2; struct C3;
impl Kind for Q2 { const K: usize = 3; const DIM: usize = 2; const NAME: &'static str = "QuadraticBezier2"; const OTHER: &'static str = "QuadraticBezier3"; const CUBIC: &'static str = "CubicBezier2"; type C<T: Sc> = QuadraticBezier2<T>; }
impl Kind for Q3 { const K: usize = 3; const DIM: usize = 3; const NAME: &'static str = "QuadraticBezier3"; const OTHER: &'static str = "QuadraticBezier2"; const CUBIC: &'static str = "CubicBezier3"; type C<T: Sc> = QuadraticBezier3<T>; }
impl Kind for C2 { const K: usize = 4; const DIM: usize = 2; const NAME: &'static str = "CubicBezier2"; const OTHER: &'static str = "CubicBezier3"; const CUBIC: &'static str = ""; type C<T: Sc> = CubicBezier2<T>; }
impl Kind for C3 { const K: usize = 4; const DIM: usize = 3; const NAME: &'static str = "CubicBezier3"; const OTHER: &'static str = "CubicBezier2"; const CUBIC: &'static str = ""; type C<T: Sc> = CubicBezier3<T>; }

// ---- reference model: Bernstein polynomials from the definition, over plain arrays ---------------
fn binom_i(n: usize, k: usize) -> i64 { let mut r = 1i64; for i in 0..k { r = r * (n - i) as i64 / (i + 1) as i64; } r }
fn cst<T: Sc>(i: i64) -> T { let mut r = T::zero(); for _ in 0..i.unsigned_abs() { r = r + T::one(); } if i < 0 { -r } else { r } }
fn powi<T: Sc>(x: T, k: usize) -> T { let mut r = T::one(); for _ in 0..k { r = r * x; } r }
/// B(t) = sum_i C(n,i) t^i (1-t)^(n-i) P_i,  n = k-1
fn bern<T: Sc>(p: &Pts<T>, k: usize, t: T) -> P3<T> {
    let n = k - 1;
    let mut out = zp::<T>();
    for i in 0..k { let w = cst::<T>(binom_i(n, i)) * powi(t, i) * powi(T::one() - t, n - i); for c in 0..3 { out[c] = out[c] + w * p[i][c]; } }
    out
}
/// power-basis coefficient of t^j in the i-th Bernstein polynomial of degree n: C(n,i) C(n-i,j-i) (-1)^(j-i)
fn mono_coeff(n: usize, i: usize, j: usize) -> i64 { if j < i { 0 } else { binom_i(n, i) * binom_i(n - i, j - i) * if (j - i) % 2 == 0 { 1 } else { -1 } } }
/// d/dt of the Bernstein form, by expanding to the power basis and differentiating term by term
fn dbern<T: Sc>(p: &Pts<T>, k: usize, t: T) -> P3<T> {
    let n = k - 1;
    let mut out = zp::<T>();
    for j in 1..k {
        let mut cj = zp::<T>();
        for i in 0..=j { let m = cst::<T>(mono_coeff(n, i, j)); for c in 0..3 { cj[c] = cj[c] + m * p[i][c]; } }
        let f = cst::<T>(j as i64) * powi(t, j - 1);
        for c in 0..3 { out[c] = out[c] + f * cj[c]; }
    }
    out
}
fn pts_of<T: Sc>(v: &[T], npts: usize, dim: usize) -> Pts<T> { let mut p = [[T::zero(); 3]; 4]; for i in 0..npts { for c in 0..dim { p[i][c] = v[i * dim + c]; } } p }
fn mat_of<T: Sc>(v: &[T], m: usize) -> M4<T> { let mut o = [[T::zero(); 4]; 4]; for i in 0..m { for j in 0..m { o[i][j] = v[i * m + j]; } } o }
fn flat<T: Sc>(p: &Pts<T>) -> Vec<T> { p.iter().flatten().copied().collect() }
/// fixed, non-symmetric, non-commuting integer matrices of the call-sequence family (upper-left NxN block used; for the
/// (DIM+1)x(DIM+1) forms column DIM is the translation and row DIM is non-trivial and must be ignored)
const SEQ_A: [[i64; 4]; 4] = [[2, -1, 3, 5], [1, 4, -2, -7], [-3, 5, 1, 2], [4, -6, 7, 3]];
const SEQ_B: [[i64; 4]; 4] = [[1, 2, -1, 4], [0, -3, 4, 1], [5, 1, 2, -6], [-2, 3, -5, 1]];
fn seq_mat<T: Sc>(m: &[[i64; 4]; 4]) -> M4<T> { let mut o = [[T::zero(); 4]; 4]; for i in 0..4 { for j in 0..4 { o[i][j] = cst::<T>(m[i][j]); } } o }

// ---- identity families ---------------------------------------------------------------------------
#[derive(Clone, Copy, PartialEq, Debug)]
enum Id { Eval, Ends, Deriv, Split, Meet, Elev, Seg, Matrix, Rev, Flip, Redim, Unpack, MulLin, MulHom, Seq }
struct Fam<K: Kind> { id: Id, _k: PhantomData<K> }
const AX: [&str; 3] = ["x", "y", "z"];

impl<K: Kind> Fam<K> {
    fn new(id: Id) -> Self { Fam { id, _k: PhantomData } }
    /// (number of control points in the input, number of parameters, matrix size)
    fn shape(&self) -> (usize, usize, usize) {
        match self.id {
            Id::Ends | Id::Unpack => (K::K, 0, 0),
            Id::Split => (K::K, 2, 0),
            Id::Seg => (2, 1, 0),
            Id::Elev => (3, 1, 0),
            Id::MulLin => (K::K, 1, K::DIM),
            Id::MulHom => (K::K, 1, K::DIM + 1),
            _ => (K::K, 1, 0),
        }
    }
    fn n(&self) -> usize { let (p, t, m) = self.shape(); p * K::DIM + t + m * m }
    /// the degree I expect by hand (only used as a floor for the lattice order; the measured one decides)
    fn nominal(&self) -> u32 {
        let k = K::K as u32;
        match self.id { Id::Ends | Id::Unpack => 1, Id::Deriv => k - 1, Id::Split => 2 * (k - 1) + 1, Id::Elev => 4, Id::MulLin | Id::MulHom => k + 1, _ => k }
    }
    fn forms(&self) -> Vec<(String, &'static str)> {
        let n = K::NAME;
        let s = |m: &str| format!("{}::{}", n, m);
        match self.id {
            Id::Eval => vec![(s("evaluate"), "not-bernstein")],
            Id::Ends => vec![(s("evaluate"), "start-not-at-0"), (s("evaluate"), "end-not-at-1")],
            Id::Deriv => vec![(s("evaluate_derivative"), "not-derivative")],
            Id::Split => vec![(s("split"), "first-half-reparam"), (s("split"), "second-half-reparam")],
            Id::Meet => vec![(s("split"), "first-end-not-at-t"), (s("split"), "second-start-not-at-t")],
            Id::Elev => vec![(s("into_cubic"), "curve-changed"), (format!("{}::From<{}>", K::CUBIC, n), "curve-changed")],
            Id::Seg => vec![(s(&format!("From<LineSegment{}>", K::DIM)), "curve-changed"), (s("From<Range>"), "curve-changed")],
            Id::Matrix => vec![(s("matrix"), "not-bernstein-basis")],
            Id::Rev => vec![(s("reversed"), "not-evaluate-at-1-t"), (s("reverse"), "not-evaluate-at-1-t")],
            Id::Flip => (0..K::DIM).flat_map(|a| [(s(&format!("flipped_{}", AX[a])), "wrong-flip"), (s(&format!("flip_{}", AX[a])), "wrong-flip")]).collect(),
            Id::Redim => vec![(s(if K::DIM == 2 { "into_3d" } else { "into_2d" }), "curve-changed"), (format!("{}::From<{}>", K::OTHER, n), "curve-changed")],
            Id::Unpack => vec![(s(&format!("into_vec{}", K::K)), "wrong-order"), (s("into_tuple"), "wrong-order"), (s("into_array"), "wrong-order"),
                               (format!("Vec{}::From<{}>", K::K, n), "wrong-order"), (s(&format!("From<Vec{}>", K::K)), "wrong-order")],
            Id::MulLin => vec![(format!("row_major::Mat{} * {}", K::DIM, n), "not-equivariant"), (format!("column_major::Mat{} * {}", K::DIM, n), "not-equivariant")],
            Id::MulHom => vec![(format!("row_major::Mat{} * {}", K::DIM + 1, n), "not-equivariant"), (format!("column_major::Mat{} * {}", K::DIM + 1, n), "not-equivariant")],
            Id::Seq => (0..4).map(|f| {
                let m = K::DIM + (f >= 2) as usize;
                let (la, lb) = if f % 2 == 1 { ("column_major", "row_major") } else { ("row_major", "column_major") };
                (format!("{}: flip_x; {}::Mat{} *; reverse; {}::Mat{} *; flip_{}; evaluate+split", n, lb, m, la, m, AX[K::DIM - 1]), "sequence-broken")
            }).collect(),
        }
    }
    /// the REAL vek code (possibly a composition), flat outputs
    fn real<T: Sc>(&self, form: usize, v: &[T]) -> Vec<T> {
        let (k, d) = (K::K, K::DIM);
        let (np, _, m) = self.shape();
        let p = pts_of(v, np, d);
        let t = if self.shape().1 > 0 { v[np * d] } else { T::zero() };
        let cv = || -> K::C<T> { <K::C<T> as Cv<T>>::build(&p) };
        match self.id {
            Id::Eval => cv().ev(t).to_vec(),
            Id::Ends => cv().ev(if form == 0 { T::zero() } else { T::one() }).to_vec(),
            Id::Deriv => cv().de(t).to_vec(),
            Id::Split => cv().sp(t)[form].ev(v[np * d + 1]).to_vec(),
            Id::Meet => { let h = cv().sp(t); if form == 0 { h[0].pts()[k - 1].to_vec() } else { h[1].pts()[0].to_vec() } }
            Id::Elev => cv().elev_ev(form, t).to_vec(),
            Id::Seg => <K::C<T> as Cv<T>>::from_seg(&p[0], &p[1], form).ev(t).to_vec(),
            Id::Matrix => {
                // [1, t, t^2 (, t^3)] . M . P  with M = matrix() exactly as returned (rows field)
                let mm = <K::C<T> as Cv<T>>::coef();
                let mut out = zp::<T>();
                for i in 0..k { let mut w = T::zero(); for j in 0..k { w = w + powi(t, j) * mm[j][i]; } for c in 0..3 { out[c] = out[c] + w * p[i][c]; } }
                out.to_vec()
            }
            Id::Rev => cv().rev(form == 1).ev(t).to_vec(),
            Id::Flip => cv().flip(form / 2, form % 2 == 1).ev(t).to_vec(),
            Id::Redim => cv().redim_ev(form, t).to_vec(),
            Id::Unpack => flat(&cv().unpack(form)),
            Id::MulLin => cv().mul_lin(&mat_of(&v[np * d + 1..], m), form == 1).ev(t).to_vec(),
            Id::MulHom => cv().mul_hom(&mat_of(&v[np * d + 1..], m), form == 1).ev(t).to_vec(),
            Id::Seq => {
                // one object carried through in-place and by-value calls: every call starts from the state the previous one left
                let (hom, a_col) = (form >= 2, form % 2 == 1);
                let (ma, mb) = (seq_mat::<T>(&SEQ_A), seq_mat::<T>(&SEQ_B));
                let mut c = cv();
                c = c.flip(0, true);
                c = if hom { c.mul_hom(&mb, !a_col) } else { c.mul_lin(&mb, !a_col) };
                c = c.rev(true);
                c = if hom { c.mul_hom(&ma, a_col) } else { c.mul_lin(&ma, a_col) };
                c = c.flip(d - 1, true);
                let h = c.sp(t);
                let mut o = c.ev(t).to_vec();
                o.extend(h[0].pts()[k - 1]);
                o.extend(h[1].pts()[0]);
                o
            }
        }
    }
    /// the reference, from the definitions, over arrays
    fn refr<T: Sc>(&self, form: usize, v: &[T]) -> Vec<T> {
        let (k, d) = (K::K, K::DIM);
        let (np, _, m) = self.shape();
        let p = pts_of(v, np, d);
        let t = if self.shape().1 > 0 { v[np * d] } else { T::zero() };
        let one = T::one();
        match self.id {
            Id::Eval | Id::Matrix => bern(&p, k, t).to_vec(),
            Id::Ends => p[if form == 0 { 0 } else { k - 1 }].to_vec(),
            Id::Deriv => dbern(&p, k, t).to_vec(),
            Id::Split => { let u = v[np * d + 1]; bern(&p, k, if form == 0 { t * u } else { t + (one - t) * u }).to_vec() }
            Id::Meet => bern(&p, k, t).to_vec(),
            Id::Elev => bern(&p, 3, t).to_vec(),
            Id::Seg => (0..3).map(|c| p[0][c] * (one - t) + p[1][c] * t).collect(),
            Id::Rev => bern(&p, k, one - t).to_vec(),
            Id::Flip => { let mut b = bern(&p, k, t); b[form / 2] = -b[form / 2]; b.to_vec() }
            Id::Redim => { let b = bern(&p, k, t); vec![b[0], b[1], T::zero()] }
            Id::Unpack => flat(&p),
            Id::MulLin => { let mm = mat_of(&v[np * d + 1..], m); let b = bern(&p, k, t); let mut o = zp::<T>(); for i in 0..d { for j in 0..d { o[i] = o[i] + mm[i][j] * b[j]; } } o.to_vec() }
            Id::MulHom => { let mm = mat_of(&v[np * d + 1..], m); let b = bern(&p, k, t); let mut o = zp::<T>(); for i in 0..d { for j in 0..d { o[i] = o[i] + mm[i][j] * b[j]; } o[i] = o[i] + mm[i][d]; } o.to_vec() }
            Id::Seq => {
                let hom = form >= 2;
                let (ma, mb) = (seq_mat::<T>(&SEQ_A), seq_mat::<T>(&SEQ_B));
                let app = |mm: &M4<T>, x: &P3<T>| -> P3<T> { let mut o = zp::<T>(); for i in 0..d { for j in 0..d { o[i] = o[i] + mm[i][j] * x[j]; } if hom { o[i] = o[i] + mm[i][d]; } } o };
                let mut pp = p;
                for i in 0..k { pp[i][0] = -pp[i][0]; pp[i] = app(&mb, &pp[i]); }
                let mut r = pp;
                for i in 0..k { r[i] = pp[k - 1 - i]; }
                for i in 0..k { r[i] = app(&ma, &r[i]); r[i][d - 1] = -r[i][d - 1]; }
                let b = bern(&r, k, t);
                [b, b, b].concat()
            }
        }
    }
    fn to_x(&self, a: &[i64]) -> Vec<X> {
        let (np, nt, _) = self.shape();
        let lo = np * K::DIM;
        a.iter().enumerate().map(|(i, &c)| if i >= lo && i < lo + nt { q(c as i128 - 1, 2) } else { qi(c as i128) }).collect()
    }
    /// as `to_x`, every control coordinate multiplied by `sc` (parameters and matrix entries unchanged)
    fn to_x_scaled(&self, a: &[i64], sc: X) -> Vec<X> {
        let lo = self.shape().0 * K::DIM;
        let mut v = self.to_x(a);
        for c in v.iter_mut().take(lo) { *c = *c * sc; }
        v
    }
    /// as `to_x`, control coordinate `idx` (point i = idx / DIM, lane c = idx % DIM, lattice value a) mapped by `var`
    fn to_x_var(&self, a: &[i64], var: Var) -> Vec<X> {
        let lo = self.shape().0 * K::DIM;
        let mut v = self.to_x(a);
        let far = qi(1i128 << 40);
        for idx in 0..lo {
            let (i, c) = (idx / K::DIM, idx % K::DIM);
            v[idx] = match var {
                Var::Far => v[idx] + far,
                Var::FarLanes => v[idx] + [far, qi(-(1i128 << 41)), qi(1i128 << 39)][c],
                Var::Alt => if (i + c) % 2 == 0 { v[idx] + q(1, 2) } else { -(v[idx] + q(1, 2)) },
            };
        }
        v
    }
    fn describe(&self, v: &[X]) -> Value {
        let (np, nt, m) = self.shape();
        let d = K::DIM;
        let mut o = json!({"P": (0..np).map(|i| jxs(&v[i * d..(i + 1) * d])).collect::<Vec<_>>()});
        if nt >= 1 { o["t"] = jx(v[np * d]); }
        if nt >= 2 { o["u"] = jx(v[np * d + 1]); }
        if m > 0 { o["M"] = Value::Array((0..m).map(|i| jxs(&v[np * d + nt + i * m..np * d + nt + (i + 1) * m])).collect()); }
        o
    }
    /// non-trivial: control points not all equal, every parameter outside {0,1}, matrix non-zero
    fn nontrivial(&self, a: &[i64]) -> bool {
        let (np, nt, m) = self.shape();
        let d = K::DIM;
        let distinct = (1..np).any(|i| a[i * d..(i + 1) * d] != a[..d]);
        let params = a[np * d..np * d + nt].iter().all(|&c| c != 1 && c != 3);
        let mat = m == 0 || a[np * d + nt..].iter().any(|&c| c != 0);
        distinct && params && mat
    }
}

/// Buffer of the violations of one (site, class): keeps the 40 smallest inputs (by lattice weight, then text) and the
/// total count, and hands them to the report smallest first (the report stores only the first 40 of a kind).
struct Smallest { m: Mutex<(u64, Vec<(u64, String, Value)>)> }
impl Smallest {
    fn new() -> Self { Smallest { m: Mutex::new((0, Vec::new())) } }
    fn add(&self, w: u64, detail: Value) {
        let mut g = self.m.lock().unwrap();
        g.0 += 1;
        let key = detail.to_string();
        g.1.push((w, key, detail));
        if g.1.len() > 160 { g.1.sort_by(|a, b| (a.0, &a.1).cmp(&(b.0, &b.1))); g.1.truncate(40); }
    }
    fn flush(&self, s: &Section, site: &str, class: &str) {
        let mut g = self.m.lock().unwrap();
        g.1.sort_by(|a, b| (a.0, &a.1).cmp(&(b.0, &b.1)));
        g.1.truncate(40);
        let kept = g.1.len() as u64;
        for (w, _, d) in g.1.drain(..) { s.violation_w(site, class, d, w); }
        for _ in kept..g.0 { s.violation_w(site, class, Value::Null, u64::MAX); } // occurrences only (never stored: the first 40 are)
    }
}

/// control-coordinate maps of the second-audit passes (see `run_fam`)
#[derive(Clone, Copy, Debug)]
enum Var { Far, FarLanes, Alt }
/// (class, printable, value) of the special parameters: on both sides of 0 and of 1 at distance 2^-e, e = 56 for quadratics
/// (below X::epsilon() = 2^-52; squares stay inside i128) and 36 for cubics (cubes times u^3 stay inside i128), the same at
/// distance 2^-20, and far outside [0,1]
fn param_specials(k: usize) -> Vec<(&'static str, String, X)> {
    let e: u32 = if k == 3 { 56 } else { 36 };
    let tiny = q(1, 1i128 << e);
    let small = q(1, 1i128 << 20);
    let big = qi(1i128 << 20);
    vec![
        ("t-just-above-0", format!("2^-{}", e), tiny), ("t-just-below-0", format!("-2^-{}", e), -tiny),
        ("t-just-below-1", format!("1-2^-{}", e), qi(1) - tiny), ("t-just-above-1", format!("1+2^-{}", e), qi(1) + tiny),
        ("t-just-above-0", "2^-20".into(), small), ("t-just-below-1", "1-2^-20".into(), qi(1) - small),
        ("t-huge", "2^20".into(), big), ("t-huge", "-2^20".into(), -big),
    ]
}
const TCLASS: [&str; 5] = ["<0", "=0", "in(0,1)", "=1", ">1"];
type DegLog = Mutex<BTreeMap<String, Value>>;

/// Premise (Deg run of real code and reference) + complete lattice sweep of one family.
fn run_fam<K: Kind>(s: &Section, id: Id, degs: &DegLog) {
    let f = Fam::<K>::new(id);
    let n = f.n();
    let forms = f.forms();
    let (_, nt, _) = f.shape();
    // --- premise: branch-free, polynomial, degree
    let vd = vec![Deg::VAR; n];
    let mut measured = 0u32;
    let mut per_form = Vec::new();
    for (i, (site, class)) in forms.iter().enumerate() {
        let side = |r: Result<Vec<Deg>, Caught>, what: &str| -> u32 {
            match r {
                Ok(ds) => { let mut m = 0; for d in ds { if d.d != 0 { s.degrade(&format!("{} [{}] {}: division by a non-constant", site, class, what)); } m = m.max(d.n + d.d); } m }
                Err(e) => { s.degrade(&format!("{} [{}] {}: not branch-free ring arithmetic: {:?}", site, class, what, e)); 0 }
            }
        };
        let dr = side(catch(|| f.real::<Deg>(i, &vd)), "real code");
        let dw = side(catch(|| f.refr::<Deg>(i, &vd)), "reference");
        measured = measured.max(dr).max(dw);
        per_form.push(json!({"site": site, "class": class, "deg_real": dr, "deg_reference": dw}));
    }
    // --- lattice order: >= measured degree always; headroom within a point budget
    let base = measured.max(f.nominal());
    // (the call-sequence family is new: in the quick tier it gets one order of headroom only (enough to reach t > 1))
    let (emax, budget): (u32, u128) = if s.thorough() { (4, 3_000_000) } else if id == Id::Seq { (1, 400_000) } else { (2, 400_000) };
    let mut order = base;
    while order < base + emax && lattice_count(n, order + 1) <= budget { order += 1; }
    let tc: [[AtomicU64; 5]; 2] = Default::default();
    let bad: Vec<Smallest> = forms.iter().map(|_| Smallest::new()).collect();
    par_lattice(n, order, |a| {
        let v = f.to_x(a);
        let w = a.iter().sum::<i64>() as u64;
        let nz = f.nontrivial(a);
        let lo = f.shape().0 * K::DIM;
        for j in 0..nt { tc[j][(a[lo + j] as usize).min(4)].fetch_add(1, Relaxed); }
        for (i, (site, class)) in forms.iter().enumerate() {
            s.eval(nz);
            let want = f.refr::<X>(i, &v);
            if let Some(got) = s.call(site, || f.describe(&v), || f.real::<X>(i, &v)) {
                if got != want { bad[i].add(w, json!({"input": f.describe(&v), "got": jxs(&got), "want": jxs(&want)})); }
                else if nz && w == order as u64 && s.wants_sample() { s.sample(json!({"site": site, "identity": class, "input": f.describe(&v), "real == reference": jxs(&got)})); }
            }
        }
    });
    // --- extreme-magnitude pass (exact): the same identities with every control coordinate multiplied by -2^40 and by 2^-60.
    // The reference is recomputed on the scaled input, so nothing is assumed about homogeneity; what it exposes is code that
    // compares a length / squared length / difference of its inputs with a fixed threshold (X::epsilon() = 2^-52) or that
    // treats signs asymmetrically.  Quick: L(n, min(D0, 3)); thorough: L(n, D0) (D0 = degree floor), capped at 400 000 points.
    let so = if s.thorough() { let mut o = base; while o > 2 && lattice_count(n, o) > 400_000 { o -= 1; } o } else { base.min(3) };
    let scales: [(&str, X); 2] = [("control-points-times--2^40", qi(-(1i128 << 40))), ("control-points-times-2^-60", q(1, 1i128 << 60))];
    for (cname, sc) in scales.iter() {
        let cnt = AtomicU64::new(0);
        par_lattice(n, so, |a| {
            let v = f.to_x_scaled(a, *sc);
            let w = a.iter().sum::<i64>() as u64;
            let nz = f.nontrivial(a);
            cnt.fetch_add(1, Relaxed);
            for (i, (site, _)) in forms.iter().enumerate() {
                s.eval(nz);
                let want = f.refr::<X>(i, &v);
                if let Some(got) = s.call(site, || f.describe(&v), || f.real::<X>(i, &v)) {
                    if got != want { bad[i].add(w, json!({"input": f.describe(&v), "control_point_scale": cname, "got": jxs(&got), "want": jxs(&want)})); }
                }
            }
        });
        s.require_classes(&[cname]);
        s.class_n(cname, cnt.load(Relaxed));
    }
    s.meta(&format!("scaled lattice {:?}", id), json!({"n": n, "D": so, "points_per_scale": lattice_count(n, so).to_string(), "scales": ["-2^40", "2^-60"]}));
    // --- second audit, exact passes around the special values a guard / shortcut would key on (reference recomputed on the
    // mapped input, compared with ==).  (a) control polygons whose points are CLOSE TO EACH OTHER BUT FAR FROM THE ORIGIN (a guard
    // "difference negligible relative to the coordinates" fires on every one of them), with one offset for all lanes and with
    // per-lane offsets of both signs; (b) half-integer control coordinates of alternating sign (point index + lane parity:
    // sign-dependent branches; the plain lattice is >= 0 everywhere, the -2^40 pass <= 0 everywhere); (c) parameters next to the
    // special values 0 and 1 (both sides, below X::epsilon() = 2^-52 where i128 rationals allow it: quadratics 2^-56, cubics
    // 2^-36) and far outside [0,1] (+-2^20), the remaining coordinates running over L(n - #parameters, D2), u = 3/8.
    let so2 = if s.thorough() { let mut o = base; while o > 2 && lattice_count(n, o) > 100_000 { o -= 1; } o } else { base.min(3) };
    let vars: [(&str, Var); 3] = [("control-points-plus-2^40", Var::Far), ("control-points-per-lane-offsets-2^40,-2^41,2^39", Var::FarLanes), ("control-points-alternating-sign-half-integers", Var::Alt)];
    for (cname, var) in vars.iter() {
        let cnt = AtomicU64::new(0);
        par_lattice(n, so2, |a| {
            let v = f.to_x_var(a, *var);
            let w = a.iter().sum::<i64>() as u64;
            let nz = f.nontrivial(a);
            cnt.fetch_add(1, Relaxed);
            for (i, (site, _)) in forms.iter().enumerate() {
                s.eval(nz);
                let want = f.refr::<X>(i, &v);
                if let Some(got) = s.call(site, || f.describe(&v), || f.real::<X>(i, &v)) {
                    if got != want { bad[i].add(w, json!({"input": f.describe(&v), "control_point_map": cname, "got": jxs(&got), "want": jxs(&want)})); }
                }
            }
        });
        s.require_classes(&[cname]);
        s.class_n(cname, cnt.load(Relaxed));
    }
    if nt > 0 {
        let lo = f.shape().0 * K::DIM;
        let sp = param_specials(if id == Id::Elev { 4 } else { K::K }); // the elevated quadratic is evaluated as a cubic
        let cnt: Vec<AtomicU64> = sp.iter().map(|_| AtomicU64::new(0)).collect();
        par_lattice(n - nt, so2, |b| {
            let mut a: Vec<i64> = b[..lo].to_vec();
            a.extend(std::iter::repeat(0).take(nt));
            a.extend(&b[lo..]);
            let base_v = f.to_x(&a);
            let nz = f.nontrivial(&a);
            for (si, (_, tname, tv)) in sp.iter().enumerate() {
                let mut v = base_v.clone();
                v[lo] = *tv;
                if nt == 2 { v[lo + 1] = q(3, 8); }
                let w = a.iter().sum::<i64>() as u64 * 16 + si as u64;
                cnt[si].fetch_add(1, Relaxed);
                for (i, (site, _)) in forms.iter().enumerate() {
                    s.eval(nz);
                    let want = f.refr::<X>(i, &v);
                    if let Some(got) = s.call(site, || f.describe(&v), || f.real::<X>(i, &v)) {
                        if got != want { bad[i].add(w, json!({"input": f.describe(&v), "parameter": tname, "got": jxs(&got), "want": jxs(&want)})); }
                    }
                }
            }
        });
        for (si, (cname, _, _)) in sp.iter().enumerate() { s.require_classes(&[cname]); s.class_n(cname, cnt[si].load(Relaxed)); }
        s.meta(&format!("special parameters {:?}", id), json!({"n_other": n - nt, "D2": so2, "points_per_parameter": lattice_count(n - nt, so2).to_string(), "t": sp.iter().map(|x| x.1.clone()).collect::<Vec<_>>(), "u": "3/8"}));
    }
    s.meta(&format!("mapped lattice {:?}", id), json!({"n": n, "D2": so2, "points_per_map": lattice_count(n, so2).to_string(), "maps": vars.iter().map(|x| x.0).collect::<Vec<_>>()}));
    for (i, (site, class)) in forms.iter().enumerate() { bad[i].flush(s, site, class); }
    for j in 0..nt { for c in 0..5 { let name = format!("{}{}", if j == 0 { "t" } else { "u" }, TCLASS[c]); s.require_classes(&[&name]); s.class_n(&name, tc[j][c].load(Relaxed)); } }
    let info = json!({"n": n, "D": order, "points": lattice_count(n, order).to_string(), "measured_degree": measured, "hand_degree": f.nominal(), "forms": per_form});
    s.meta(&format!("lattice {:?}", id), info.clone());
    degs.lock().unwrap().insert(format!("{} {:?}", K::NAME, id), json!({"measured_degree": measured, "n": n, "D": order}));
    if order < measured { s.degrade("lattice order below the measured degree"); }
}

/// `matrix()` entry by entry against the power-basis coefficients of the Bernstein basis
fn matrix_entries<K: Kind>(s: &Section) {
    let site = format!("{}::matrix", K::NAME);
    if let Some(m) = s.call(&site, || json!("matrix()"), || <K::C<X> as Cv<X>>::coef()) {
        for j in 0..4 { for i in 0..4 {
            s.eval(true);
            let want = if j < K::K && i < K::K { qi(mono_coeff(K::K - 1, i, j) as i128) } else { qi(0) };
            if m[j][i] != want { s.violation(&site, "wrong-entry", json!({"row (power of t)": j, "column (control point)": i, "got": jx(m[j][i]), "want": jx(want)})); }
        } }
        s.sample(json!({"site": site, "rows": m.iter().take(K::K).map(|r| jxs(&r[..K::K])).collect::<Vec<_>>()}));
    }
}

/// normalized_tangent = derivative / |derivative| wherever the norm is a non-zero rational
fn tangent<K: Kind>(s: &Section) {
    let (k, d) = (K::K, K::DIM);
    let n = k * d + 1;
    let order = if s.thorough() { 8 } else { 6 };
    let site = format!("{}::normalized_tangent", K::NAME);
    s.require_classes(&["axis-aligned", "oblique"]);
    let cnt: [AtomicU64; 6] = Default::default(); // axis, oblique, skipped irrational, skipped zero, scaled down, scaled up and negated
    let f = Fam::<K>::new(Id::Deriv);
    let bad = Smallest::new();
    let cnt_t = AtomicU64::new(0);
    par_lattice(n, order, |a| {
        let v = f.to_x(a);
        let p = pts_of(&v, k, d);
        let t = v[k * d];
        let dr = dbern(&p, k, t);
        let n2 = (dr[0] * dr[0] + dr[1] * dr[1] + dr[2] * dr[2]).rat();
        if n2.n == 0 { cnt[3].fetch_add(1, Relaxed); return; }
        let Some(r) = n2.sqrt_exact() else { cnt[2].fetch_add(1, Relaxed); return; };
        let want = dr.map(|c| c / X::R(r));
        let nzc = dr.iter().filter(|c| !c.is_zero()).count();
        cnt[if nzc == 1 { 0 } else { 1 }].fetch_add(1, Relaxed);
        s.eval(true);
        if let Some(got) = s.call(&site, || f.describe(&v), || <K::C<X> as Cv<X>>::build(&p).nt(t)) {
            if got != want { bad.add(a.iter().sum::<i64>() as u64, json!({"input": f.describe(&v), "got": jxs(&got), "want": jxs(&want)})); }
            else if nzc > 1 && s.wants_sample() { s.sample(json!({"site": site, "input": f.describe(&v), "derivative": jxs(&dr), "norm": jx(X::R(r)), "normalized_tangent": jxs(&got)})); }
        }
        // the unit tangent does not depend on the size of the curve and flips with its orientation: control points times
        // 2^-54 (squared norm 2^-108 * n2, far below X::epsilon() = 2^-52) and times -2^40
        for (si, (sc, neg)) in [(q(1, 1i128 << 54), false), (qi(-(1i128 << 40)), true)].into_iter().enumerate() {
            let mut ps = p;
            for row in ps.iter_mut() { for c in row.iter_mut() { *c = *c * sc; } }
            let want_s = want.map(|c| if neg { -c } else { c });
            s.eval(true);
            cnt[4 + si].fetch_add(1, Relaxed);
            let inp = || { let mut j = f.describe(&v); j["control_points_multiplied_by"] = jx(sc); j };
            if let Some(got) = s.call(&site, inp, || <K::C<X> as Cv<X>>::build(&ps).nt(t)) {
                if got != want_s { bad.add(a.iter().sum::<i64>() as u64, json!({"input": inp(), "got": jxs(&got), "want": jxs(&want_s)})); }
            }
        }
        // (second audit) nor on where the curve is: the same polygon moved by (2^40, -2^41, 2^39): points close to each other
        // relative to their distance from the origin (|difference|^2 / |point|^2 <= 2^-70)
        {
            let off = [qi(1i128 << 40), qi(-(1i128 << 41)), qi(1i128 << 39)];
            let mut ps = p;
            for row in ps.iter_mut().take(k) { for c in 0..d { row[c] = row[c] + off[c]; } }
            s.eval(true);
            cnt_t.fetch_add(1, Relaxed);
            let inp = || { let mut j = f.describe(&v); j["control_points_translated_by"] = json!(jxs(&off[..d])); j };
            if let Some(got) = s.call(&site, inp, || <K::C<X> as Cv<X>>::build(&ps).nt(t)) {
                if got != want { bad.add(a.iter().sum::<i64>() as u64, json!({"input": inp(), "got": jxs(&got), "want": jxs(&want)})); }
            }
        }
    });
    s.require_classes(&["translated-far-from-origin"]);
    s.class_n("translated-far-from-origin", cnt_t.load(Relaxed));
    s.require_classes(&["scaled-2^-54", "scaled--2^40"]);
    s.class_n("scaled-2^-54", cnt[4].load(Relaxed));
    s.class_n("scaled--2^40", cnt[5].load(Relaxed));
    bad.flush(s, &site, "not-unit-derivative");
    s.class_n("axis-aligned", cnt[0].load(Relaxed));
    s.class_n("oblique", cnt[1].load(Relaxed));
    s.meta("lattice", json!({"n": n, "D": order, "points": lattice_count(n, order).to_string(), "skipped_irrational_norm": cnt[2].load(Relaxed), "skipped_zero_derivative": cnt[3].load(Relaxed)}));
}

/// (second audit) normalized_tangent where the derivative is ALREADY or NEARLY a unit vector: evenly spaced collinear polygons
/// P_i = P_0 + i * g * U / n (derivative = g * U for every t), U a rational unit vector (axis-aligned and oblique), g = 1 + e,
/// e in {0, +-2^-56, +-2^-30, +-2^-12} (|g*U|^2 - 1 below / around / well above X::epsilon() = 2^-52), P_0 at the origin, generic
/// and far from the origin, t in {-1/2, 0, 1/2, 1, 3/2}.  Oracle: derivative / |derivative| from the reference derivative (exact
/// rational square root), which here must be U itself.
fn tangent_unit<K: Kind>(s: &Section) {
    let (k, d) = (K::K, K::DIM);
    let site = format!("{}::normalized_tangent", K::NAME);
    s.require_classes(&["exactly-unit-derivative", "nearly-unit-derivative", "nearly-unit-axis-aligned", "nearly-unit-oblique"]);
    let f = Fam::<K>::new(Id::Deriv);
    let r = |a: i128, b: i128| q(a, b);
    let mut dirs: Vec<[X; 3]> = vec![[r(1, 1), r(0, 1), r(0, 1)], [r(0, 1), r(-1, 1), r(0, 1)], [r(3, 5), r(4, 5), r(0, 1)], [r(-5, 13), r(12, 13), r(0, 1)]];
    if d == 3 { dirs.extend([[r(0, 1), r(0, 1), r(1, 1)], [r(2, 3), r(-1, 3), r(2, 3)], [r(2, 7), r(3, 7), r(-6, 7)]]); }
    let es: Vec<X> = vec![qi(0), q(1, 1i128 << 56), q(-1, 1i128 << 56), q(1, 1i128 << 30), q(-1, 1i128 << 30), q(1, 1i128 << 12), q(-1, 1i128 << 12)];
    let origins: [[X; 3]; 3] = [[qi(0); 3], [qi(2), qi(-3), qi(5)], [qi(1i128 << 40), qi(-(1i128 << 41)), qi(1i128 << 39)]];
    let ts = [q(-1, 2), qi(0), q(1, 2), qi(1), q(3, 2)];
    let nn = qi(k as i128 - 1);
    for u in dirs.iter() { for e in es.iter() { for o in origins.iter() { for t in ts.iter() {
        let g = qi(1) + *e;
        let mut p = [[qi(0); 3]; 4];
        for i in 0..k { for c in 0..d { p[i][c] = o[c] + qi(i as i128) * g * u[c] / nn; } }
        let dr = dbern(&p, k, *t);
        let n2 = (dr[0] * dr[0] + dr[1] * dr[1] + dr[2] * dr[2]).rat();
        let Some(rt) = n2.sqrt_exact() else { s.violation(&site, "machinery: norm not rational", json!({"u": jxs(u), "e": jx(*e)})); continue };
        let want = dr.map(|c| c / X::R(rt));
        if want != *u { s.violation(&site, "machinery: reference tangent is not U", json!({"u": jxs(u), "want": jxs(&want)})); continue; }
        s.eval(true);
        s.class(if e.is_zero() { "exactly-unit-derivative" } else { "nearly-unit-derivative" });
        if !e.is_zero() { s.class(if u.iter().filter(|c| !c.is_zero()).count() == 1 { "nearly-unit-axis-aligned" } else { "nearly-unit-oblique" }); }
        let mut v: Vec<X> = Vec::new();
        for i in 0..k { v.extend(&p[i][..d]); }
        v.push(*t);
        if let Some(got) = s.call(&site, || f.describe(&v), || <K::C<X> as Cv<X>>::build(&p).nt(*t)) {
            if got != want { s.violation(&site, "not-unit-derivative", json!({"input": f.describe(&v), "derivative": jxs(&dr), "|derivative|": jx(X::R(rt)), "got": jxs(&got), "want": jxs(&want)})); }
        }
    } } } }
}

/// (second audit) the in-place forms against the by-value forms on a NON-TRIVIAL PRIOR STATE (the object has been flipped in
/// place, multiplied by a matrix and reversed in place before), and second calls (each of reverse / flip_* is an involution,
/// in every mix of the two forms).  The state is read through the public fields; the oracle is the permuted / negated array.
fn twins<K: Kind>(s: &Section) {
    let (k, d) = (K::K, K::DIM);
    s.require_classes(&["reverse-twin", "flip-twin", "second-call", "mixed-sign-polygon", "far-from-origin-polygon"]);
    let f = Fam::<K>::new(Id::Ends);
    let order = if s.thorough() { 5 } else { 3 };
    let n = K::NAME;
    let ma = seq_mat::<X>(&SEQ_A);
    par_lattice(k * d, order, |a| {
        let w = a.iter().sum::<i64>() as u64;
        let (mut n_rev, mut n_flip, mut n_second) = (0u64, 0u64, 0u64);
        for (var, vclass) in [(Var::Alt, "mixed-sign-polygon"), (Var::FarLanes, "far-from-origin-polygon")] {
            let v = f.to_x_var(a, var);
            let p = pts_of(&v, k, d);
            let inp = || json!({"P": f.describe(&v)["P"].clone(), "prior calls": format!("flip_{}() in place; column_major::Mat{} SEQ_A * curve; reverse() in place", AX[d - 1], d)});
            let Some(c) = s.call(&format!("{}::reverse", n), inp, || <K::C<X> as Cv<X>>::build(&p).flip(d - 1, true).mul_lin(&ma, true).rev(true)) else { continue };
            s.class(vclass);
            let st = c.pts();
            let mut want_rev = st;
            for i in 0..k { want_rev[i] = st[k - 1 - i]; }
            let det = |got: &Pts<X>, want: &Pts<X>| json!({"input": inp(), "state": jxs(&flat(&st)), "got": jxs(&flat(got)), "want": jxs(&flat(want))});
            for (inplace, nm) in [(true, "reverse"), (false, "reversed")] {
                n_rev += 1;
                let site = format!("{}::{}", n, nm);
                if let Some(got) = s.call(&site, inp, || c.rev(inplace).pts()) { if got != want_rev { s.violation_w(&site, "twin-differs-on-prior-state", det(&got, &want_rev), w); } }
                for (second, nm2) in [(true, "reverse"), (false, "reversed")] {
                    n_second += 1;
                    let site2 = format!("{}::{} after {}", n, nm2, nm);
                    if let Some(got) = s.call(&site2, inp, || c.rev(inplace).rev(second).pts()) { if got != st { s.violation_w(&site2, "second-call-not-involution", det(&got, &st), w); } }
                }
            }
            for ax in 0..d {
                let mut want_f = st;
                for i in 0..k { want_f[i][ax] = -st[i][ax]; }
                for (inplace, nm) in [(true, format!("flip_{}", AX[ax])), (false, format!("flipped_{}", AX[ax]))] {
                    n_flip += 1;
                    let site = format!("{}::{}", n, nm);
                    if let Some(got) = s.call(&site, inp, || c.flip(ax, inplace).pts()) { if got != want_f { s.violation_w(&site, "twin-differs-on-prior-state", det(&got, &want_f), w); } }
                    for second in [true, false] {
                        n_second += 1;
                        let site2 = format!("{}::{} after {}", n, if second { format!("flip_{}", AX[ax]) } else { format!("flipped_{}", AX[ax]) }, nm);
                        if let Some(got) = s.call(&site2, inp, || c.flip(ax, inplace).flip(ax, second).pts()) { if got != st { s.violation_w(&site2, "second-call-not-involution", det(&got, &st), w); } }
                    }
                }
            }
        }
        s.evals(n_rev + n_flip + n_second, if w > 0 { n_rev + n_flip + n_second } else { 0 });
        s.class_n("reverse-twin", n_rev);
        s.class_n("flip-twin", n_flip);
        s.class_n("second-call", n_second);
    });
    s.meta("lattice", json!({"n": k * d, "D": order, "points": lattice_count(k * d, order).to_string(), "maps": ["alternating-sign-half-integers", "per-lane-offsets-2^40,-2^41,2^39"]}));
}

// ---- circle approximation (floating point) ---------------------------------------------------------
trait Fl: Sc + Into<f64> {
    const NAME: &'static str;
    /// the extreme scales are 2^+-BIG (40 for f32, 400 for f64): squares of scaled values stay normal numbers, so the
    /// unchanged code neither overflows nor underflows there
    const BIG: i32;
    /// (second audit) offset of the "close to each other, far from the origin" polygons: FBASE + FAR is exactly representable
    /// (2 fractional bits) and (difference / coordinate)^2 is below the type's epsilon
    const FAR: f64;
    fn frac(k: u32, n: u32) -> Self;
    fn close(got: Self, want: f64, scale: f64) -> bool;
    /// rounding conversion (exact for every value of the float alphabets except the deliberately inexact 0.1, 0.3, 0.7)
    fn of(v: f64) -> Self;
}
impl Fl for f64 { const NAME: &'static str = "f64"; const BIG: i32 = 400; const FAR: f64 = 1099511627776.0; fn frac(k: u32, n: u32) -> f64 { k as f64 / n as f64 } fn close(g: f64, w: f64, sc: f64) -> bool { vx::fl::close64(g, w, sc) } fn of(v: f64) -> f64 { v } }
impl Fl for f32 { const NAME: &'static str = "f32"; const BIG: i32 = 40; const FAR: f64 = 262144.0; fn frac(k: u32, n: u32) -> f32 { k as f32 / n as f32 } fn close(g: f32, w: f64, sc: f64) -> bool { vx::fl::close32(g, w, sc) } fn of(v: f64) -> f32 { v as f32 } }

fn circle<K: Kind, F: Fl>(s: &Section) {
    let steps: u32 = if s.thorough() { 16384 } else { 4096 };
    const TOL: f64 = 3e-4;
    let sq = format!("{}::unit_quarter_circle<{}>", K::NAME, F::NAME);
    let sc = format!("{}::unit_circle<{}>", K::NAME, F::NAME);
    s.require_classes(&["interior-sample", "endpoint-sample", "shared-endpoint"]);
    let Some(quarter) = s.call(&sq, || json!("unit_quarter_circle()"), || <K::C<F> as Cv<F>>::quarter()) else { return };
    let Some(arcs) = s.call(&sc, || json!("unit_circle()"), || <K::C<F> as Cv<F>>::circle()) else { return };
    // documented order of unit_circle(): (north-east, north-west, south-west, south-east); the quarter circle is the north-east arc
    let items: [(&str, String, K::C<F>, (f64, f64)); 5] = [
        (&sq, "unit_quarter_circle".into(), quarter, (1.0, 1.0)),
        (&sc, "unit_circle[0] north-east".into(), arcs[0], (1.0, 1.0)), (&sc, "unit_circle[1] north-west".into(), arcs[1], (-1.0, 1.0)),
        (&sc, "unit_circle[2] south-west".into(), arcs[2], (-1.0, -1.0)), (&sc, "unit_circle[3] south-east".into(), arcs[3], (1.0, -1.0)),
    ];
    let mut max_dev = 0f64;
    for (site, label, cv, (sx, sy)) in items.iter() {
        let pf = cv.pts();
        let f64s = |p: &P3<F>| -> [f64; 3] { [p[0].into(), p[1].into(), p[2].into()] };
        let px: Pts<X> = { let mut o = [[qi(0); 3]; 4]; for i in 0..4 { let a = f64s(&pf[i]); for c in 0..3 { o[i][c] = X::R(vx::fl::qf(a[c])); } } o };
        // end points: on an axis, at distance exactly 1
        for (which, e) in [("start", f64s(&pf[0])), ("end", f64s(&pf[3]))] {
            s.eval(true);
            let on_axis = (e[0].abs() == 1.0 && e[1] == 0.0) || (e[0] == 0.0 && e[1].abs() == 1.0);
            if !on_axis || e[2] != 0.0 { s.violation(site, "endpoint-off-axis", json!({"arc": label, "which": which, "point": e})); }
        }
        for kk in 0..=steps {
            let t = F::frac(kk, steps);
            let interior = kk != 0 && kk != steps;
            s.eval(interior);
            s.class(if interior { "interior-sample" } else { "endpoint-sample" });
            let exact = bern(&px, 4, q(kk as i128, steps as i128)).map(|c| c.rat().to_f64());
            let Some(got) = s.call(site, || json!({"arc": label, "t": t.into()}), || cv.ev(t)) else { continue };
            let g = f64s(&got);
            let det = |r: f64| json!({"arc": label, "t": format!("{}/{}", kk, steps), "B(t) float": g, "B(t) exact": exact, "|B(t)|": r});
            for c in 0..3 { if !F::close(got[c], exact[c], 4.0) { s.violation(site, "evaluate-float-error", det(0.0)); } }
            for (pt, cls_r, cls_q) in [(&g, "radius-off", "outside-quadrant"), (&exact, "radius-off-exact-curve", "outside-quadrant-exact-curve")] {
                let r = (pt[0] * pt[0] + pt[1] * pt[1] + pt[2] * pt[2]).sqrt();
                max_dev = max_dev.max((r - 1.0).abs());
                if !((r - 1.0).abs() < TOL) { s.violation(site, cls_r, det(r)); }
                if !(pt[0] * sx >= 0.0 && pt[1] * sy >= 0.0 && pt[2] == 0.0) { s.violation(site, cls_q, det(r)); }
            }
            if kk == steps / 2 && s.wants_sample() { s.sample(det((g[0] * g[0] + g[1] * g[1]).sqrt())); }
        }
    }
    // consecutive arcs (cyclically) share exactly one end point, as sets
    for i in 0..4 {
        let e = |c: &K::C<F>| -> [[f64; 3]; 2] { let p = c.pts(); [[p[0][0].into(), p[0][1].into(), p[0][2].into()], [p[3][0].into(), p[3][1].into(), p[3][2].into()]] };
        let (a, b) = (e(&arcs[i]), e(&arcs[(i + 1) % 4]));
        let shared = a.iter().filter(|x| b.contains(x)).count();
        s.eval(true);
        s.class("shared-endpoint");
        if shared != 1 { s.violation(&sc, "arcs-do-not-meet", json!({"arc": i, "next": (i + 1) % 4, "ends": a, "next_ends": b})); }
    }
    s.meta("steps", json!(steps));
    s.meta("max_radial_error", json!(max_dev));
    s.meta("tolerance", json!(TOL));
}


// ---- floating point instantiation: end points, halves, scaling law, forward error ------------------
/// generic (no symmetry, no zero lane, negative and fractional values) control polygon; lattice value `a` of a coordinate
/// adds FPERT[a] to it
const FBASE: [[f64; 3]; 4] = [[1.0, -3.0, 2.5], [7.0, 0.75, -4.0], [-1.5, 6.0, 3.0], [4.0, -0.5, -7.0]];
const FPERT: [f64; 4] = [0.0, 1.0, -2.0, 3.5];
const TINY: f64 = 1.0 / 1048576.0; // 2^-20
/// parameters: extrapolation on both sides, both ends, next to both ends, interior; all with <= 20 significant bits so that
/// the exact reference stays inside i128 rationals
const FT: [f64; 11] = [-0.5, 0.0, TINY, 0.25, 0.375, 0.5, 0.8125, 1.0 - TINY, 1.0, 1.5, 3.0];
const FU: [f64; 5] = [-0.5, 0.0, 0.375, 1.0, 1.5];
/// non-symmetric matrix with negative and fractional entries; column DIM = translation, row DIM non-trivial (must be ignored)
const FMAT: [[f64; 4]; 4] = [[2.0, -1.0, 0.5, 3.0], [3.0, 1.0, -2.0, -0.25], [-0.25, 4.0, 1.5, -5.0], [0.5, -1.0, 2.0, 3.0]];

struct FlOp<F> { name: String, /* 1: output is homogeneous of degree 1 in the control points, 0: invariant up to the sign of the scale */ homog: bool, out: Vec<F> }

/// every operation of the property on the polygon `p * sc` at parameter t (real vek code on the float type F)
fn fl_ops<K: Kind, F: Fl>(p: &Pts<F>, sc: F, t: F, with_tangent: bool) -> Vec<FlOp<F>> {
    let (k, d) = (K::K, K::DIM);
    let mut ps = *p;
    for row in ps.iter_mut() { for c in row.iter_mut() { *c = *c * sc; } }
    let cv = <K::C<F> as Cv<F>>::build(&ps);
    let mut o: Vec<FlOp<F>> = Vec::new();
    let mut put = |name: &str, homog: bool, out: Vec<F>| o.push(FlOp { name: name.to_string(), homog, out });
    put("evaluate", true, cv.ev(t).to_vec());
    put("evaluate_derivative", true, cv.de(t).to_vec());
    let h = cv.sp(t);
    put("split", true, [flat(&h[0].pts()), flat(&h[1].pts())].concat());
    if with_tangent { put("normalized_tangent", false, cv.nt(t).to_vec()); }
    put("reverse", true, cv.rev(true).ev(t).to_vec());
    put(&format!("flip_{}", AX[d - 1]), true, cv.flip(d - 1, true).ev(t).to_vec());
    put(if d == 2 { "into_3d" } else { "into_2d" }, true, cv.redim_ev(0, t).to_vec());
    if k == 3 { put("into_cubic", true, cv.elev_ev(0, t).to_vec()); }
    put(&format!("From<LineSegment{}>", d), true, <K::C<F> as Cv<F>>::from_seg(&ps[0], &ps[k - 1], 0).ev(t).to_vec());
    put("From<Range>", true, <K::C<F> as Cv<F>>::from_seg(&ps[0], &ps[k - 1], 1).ev(t).to_vec());
    let mut m = [[F::zero(); 4]; 4];
    for i in 0..4 { for j in 0..4 { m[i][j] = F::of(FMAT[i][j]); } }
    put(&format!("row_major::Mat{} *", d), true, cv.mul_lin(&m, false).ev(t).to_vec());
    put(&format!("column_major::Mat{} *", d), true, cv.mul_lin(&m, true).ev(t).to_vec());
    let mut ms = m; // the translation column scales with the control points
    for i in 0..d { ms[i][d] = ms[i][d] * sc; }
    put(&format!("row_major::Mat{} *", d + 1), true, cv.mul_hom(&ms, false).ev(t).to_vec());
    put(&format!("column_major::Mat{} *", d + 1), true, cv.mul_hom(&ms, true).ev(t).to_vec());
    o
}

fn float_ops<K: Kind, F: Fl>(s: &Section) {
    let (k, d) = (K::K, K::DIM);
    let n = k - 1;
    let order = if s.thorough() { 3 } else { 2 };
    s.require_classes(&["generic", "all-points-equal", "repeated-point", "collinear", "axis-aligned", "mixed-magnitude", "scale-up", "scale-down", "negative-scale",
        "t<0", "t=0", "t-near-0", "t-interior", "t-near-1", "t=1", "t>1", "tangent-decided", "close-far-from-origin", "far-derivative-decided", "far-tangent-decided"]);
    // ---- polygons: (class, short mantissas => exact reference available, points)
    let mut polys: Vec<(&'static str, bool, Pts<f64>)> = Vec::new();
    lattice(k * d, order, |a| { let mut p = [[0f64; 3]; 4]; for i in 0..k { for c in 0..d { p[i][c] = FBASE[i][c] + FPERT[a[i * d + c] as usize]; } } polys.push(("generic", true, p)); });
    let mk = |f: &dyn Fn(usize, usize) -> f64| -> Pts<f64> { let mut p = [[0f64; 3]; 4]; for i in 0..k { for c in 0..d { p[i][c] = f(i, c); } } p };
    polys.push(("all-points-equal", true, mk(&|_, c| [2.5, -1.0, 3.0][c])));
    polys.push(("repeated-point", true, mk(&|i, c| FBASE[if i == 1 { 0 } else { i }][c])));
    polys.push(("repeated-point", true, mk(&|i, c| FBASE[if i == k - 1 { 0 } else { i }][c]))); // closed curve: end == start
    polys.push(("collinear", true, mk(&|i, c| [1.0, -2.0, 0.5][c] + (i * i) as f64 * [3.0, 1.5, -2.0][c]))); // unevenly spaced on a line
    polys.push(("axis-aligned", true, mk(&|i, c| if c == d - 1 { [3.0, -1.0, 4.0, -6.0][i] } else { 2.0 })));
    polys.push(("mixed-magnitude", false, mk(&|i, c| [[1048577.0, 0.1, -3.0], [0.1, -1048577.0, 0.7], [3.0, 0.3, 1048577.0], [-0.7, 5.0, 0.1]][i][c])));
    polys.push(("mixed-magnitude", false, mk(&|i, c| [[0.1, 4194305.0, 0.3], [-2097153.0, 0.7, 0.1], [0.3, -0.1, 0.7], [1.0, 0.3, -8388609.0]][i][c])));
    // (second audit) points close to each other but far from the origin (every lane; offsets of both signs)
    polys.push(("close-far-from-origin", true, mk(&|i, c| FBASE[i][c] + F::FAR * [1.0, -1.0, 1.0][c])));
    polys.push(("close-far-from-origin", true, mk(&|i, c| FBASE[k - 1 - i][c] + F::FAR * [-2.0, 1.0, 0.5][c])));
    let two = |e: i32| -> F { F::of(2f64.powi(e)) };
    let mut scales: Vec<(&'static str, F)> = vec![("scale-up", two(F::BIG)), ("scale-down", -two(-F::BIG))];
    if s.thorough() { scales.extend([("scale-up", -two(F::BIG)), ("scale-down", two(-F::BIG)), ("scale-up", two(F::BIG / 2)), ("scale-down", -two(-F::BIG / 2)), ("scale-up", F::of(-3.0)), ("scale-down", F::of(0.625))]); }
    // NB: -3 and 0.625 are not powers of two: the scaling law is not exact there, those two only feed the exactness assertions
    let site = |op: &str| format!("{}::{}<{}>", K::NAME, op, F::NAME);
    let f64s = |v: &[F]| -> Vec<f64> { v.iter().map(|&c| c.into()).collect() };
    let tclass = |t: f64| if t < 0.0 { "t<0" } else if t == 0.0 { "t=0" } else if t < 0.001 { "t-near-0" } else if t > 1.0 { "t>1" } else if t == 1.0 { "t=1" } else if t > 0.999 { "t-near-1" } else { "t-interior" };
    let mut worst = 0f64; // largest observed |error| / (eps * scale) over all forward-error assertions
    let epsf: f64 = if F::NAME == "f32" { f32::EPSILON as f64 } else { f64::EPSILON };
    for (pclass, short, p64) in polys.iter() {
        s.class(pclass);
        let mut pf = [[F::zero(); 3]; 4];
        for i in 0..4 { for c in 0..3 { pf[i][c] = F::of(p64[i][c]); } }
        let pv: Pts<f64> = pf.map(|r| r.map(|c| c.into())); // the values the float code really sees
        let jp = || json!((0..k).map(|i| pv[i][..d].to_vec()).collect::<Vec<_>>());
        let maxabs = pv.iter().flatten().fold(0f64, |m, c| m.max(c.abs()));
        // ---- exactness (all scales, one included): evaluate(0) = start, evaluate(1) = end; halves keep the outer ends and share the inner one
        let mut all_scales: Vec<(&'static str, F)> = vec![("unit", F::one())];
        all_scales.extend(scales.iter().copied());
        for (scn, sc) in all_scales.iter() {
            if *scn != "unit" { s.class(scn); if *sc < F::zero() { s.class("negative-scale"); } }
            let mut ps = pf;
            for row in ps.iter_mut() { for c in row.iter_mut() { *c = *c * *sc; } }
            let inp = |t: f64| json!({"P": jp(), "control_points_multiplied_by": Into::<f64>::into(*sc), "t": t});
            let Some((e0, e1)) = s.call(&site("evaluate"), || inp(0.0), || { let c = <K::C<F> as Cv<F>>::build(&ps); (c.ev(F::zero()), c.ev(F::one())) }) else { continue };
            s.evals(2, if *pclass == "all-points-equal" { 0 } else { 2 });
            if e0 != ps[0] { s.violation(&site("evaluate"), "start-not-at-0", json!({"input": inp(0.0), "got": f64s(&e0), "want": f64s(&ps[0])})); }
            if e1 != ps[k - 1] { s.violation(&site("evaluate"), "end-not-at-1", json!({"input": inp(1.0), "got": f64s(&e1), "want": f64s(&ps[k - 1])})); }
            for &t in FT.iter() {
                let Some(h) = s.call(&site("split"), || inp(t), || <K::C<F> as Cv<F>>::build(&ps).sp(F::of(t))) else { continue };
                s.eval(t != 0.0 && t != 1.0);
                let (a, b) = (h[0].pts(), h[1].pts());
                if a[0] != ps[0] || b[k - 1] != ps[k - 1] { s.violation(&site("split"), "outer-end-moved", json!({"input": inp(t), "first": f64s(&flat(&a)), "second": f64s(&flat(&b))})); }
                if a[k - 1] != b[0] { s.violation(&site("split"), "halves-do-not-meet", json!({"input": inp(t), "first.end": f64s(&a[k - 1]), "second.start": f64s(&b[0])})); }
            }
        }
        for &t64 in FT.iter() {
            let t = F::of(t64);
            s.class(tclass(t64));
            // ---- exact reference (only for polygons with short mantissas): derivative first, it decides whether the tangent is asserted
            let xr = |v: f64| X::R(vx::fl::qf(v));
            let px: Pts<X> = pv.map(|r| r.map(xr));
            let tx = xr(t64);
            let w = t64.abs() + (1.0 - t64).abs(); // sum_i |Bernstein weight_i(t)| = w^n
            let s_ev = maxabs * w.powi(n as i32);
            let s_de = 2.0 * n as f64 * maxabs * w.powi(n as i32 - 1);
            let dref: Option<[f64; 3]> = if *short { catch(|| dbern(&px, k, tx).map(|c| c.rat().to_f64())).ok() } else { None };
            let inp = || json!({"P": jp(), "t": t64});
            let Some(base) = s.call(&site("evaluate"), inp, || fl_ops::<K, F>(&pf, F::one(), t, true)) else { continue };
            let get = |ops: &[FlOp<F>], name: &str| -> Vec<F> { ops.iter().find(|o| o.name == name).map(|o| o.out.clone()).unwrap_or_default() };
            // tangent asserted only where it is well conditioned: every component of the derivative (exact and float) is zero or
            // at least 2^-10 of the derivative's forward-error scale (so neither a cancellation residue nor its square can
            // reach the subnormal range at the extreme scales)
            let de_f = f64s(&get(&base, "evaluate_derivative"));
            let tangent_ok = dref.map_or(false, |dr| dr.iter().any(|c| *c != 0.0) && dr.iter().chain(de_f.iter()).all(|c| *c == 0.0 || c.abs() >= s_de / 1024.0));
            // ---- scaling law: op(P * 2^e, t) == op(P, t) * 2^e exactly (the tangent: unchanged up to the sign of the scale)
            for (_, sc) in scales.iter() {
                let scf: f64 = (*sc).into();
                if scf.abs().log2().fract() != 0.0 { continue; }
                let inps = || json!({"P": jp(), "t": t64, "control_points_multiplied_by": scf});
                let Some(scaled) = s.call(&site("evaluate"), inps, || fl_ops::<K, F>(&pf, *sc, t, true)) else { continue };
                for (b, g) in base.iter().zip(scaled.iter()) {
                    if b.name == "normalized_tangent" && !tangent_ok { continue; }
                    s.eval(*pclass != "all-points-equal");
                    let want: Vec<F> = b.out.iter().map(|&c| if b.homog { c * *sc } else if *sc < F::zero() { -c } else { c }).collect();
                    if g.out != want { s.violation(&site(&b.name), "scale-dependent", json!({"input": inps(), "got": f64s(&g.out), "want (unit-scale result times the scale)": f64s(&want)})); }
                }
            }
            if !*short { continue; }
            // ---- forward error against the exact rational value of the same float inputs: |err| <= 256 eps * (sum of |terms|)
            let mut cmp_c = |op: &str, cls: &str, got: &[F], want: &dyn Fn() -> Vec<X>, scale: f64, detail: &dyn Fn() -> Value| {
                let Ok(wx) = catch(want) else { s.class("reference-unmodelled"); return };
                s.eval(true);
                for (g, wq) in got.iter().zip(wx.iter()) {
                    let wf = wq.rat().to_f64();
                    let gf: f64 = (*g).into();
                    if scale > 0.0 { worst = worst.max((gf - wf).abs() / (epsf * scale)); }
                    if !F::close(*g, wf, scale) { s.violation(&site(op), cls, json!({"input": detail(), "got": f64s(got), "want": wx.iter().map(|c| c.rat().to_f64()).collect::<Vec<_>>(), "scale": scale})); break; }
                }
            };
            let mut cmp = |op: &str, got: &[F], want: &dyn Fn() -> Vec<X>, scale: f64, detail: &dyn Fn() -> Value| cmp_c(op, "float-error", got, want, scale, detail);
            cmp("evaluate", &get(&base, "evaluate"), &|| bern(&px, k, tx).to_vec(), s_ev, &inp);
            cmp("evaluate_derivative", &get(&base, "evaluate_derivative"), &|| dbern(&px, k, tx).to_vec(), s_de, &inp);
            cmp("reverse", &get(&base, "reverse"), &|| bern(&px, k, qi(1) - tx).to_vec(), s_ev, &inp);
            let lastflip = format!("flip_{}", AX[d - 1]);
            cmp(&lastflip, &get(&base, &lastflip), &|| { let mut b = bern(&px, k, tx); b[d - 1] = -b[d - 1]; b.to_vec() }, s_ev, &inp);
            let redim = if d == 2 { "into_3d" } else { "into_2d" };
            cmp(redim, &get(&base, redim), &|| { let b = bern(&px, k, tx); vec![b[0], b[1], X::zero()] }, s_ev, &inp);
            if k == 3 { cmp("into_cubic", &get(&base, "into_cubic"), &|| bern(&px, 3, tx).to_vec(), maxabs * w.powi(3), &inp); }
            for nm in [format!("From<LineSegment{}>", d), "From<Range>".to_string()] {
                cmp(&nm, &get(&base, &nm), &|| (0..3).map(|c| px[0][c] * (qi(1) - tx) + px[k - 1][c] * tx).collect(), maxabs * w.powi(n as i32), &inp);
            }
            let mx: M4<X> = FMAT.map(|r| r.map(xr));
            for (lay, hom) in [("row_major", false), ("column_major", false), ("row_major", true), ("column_major", true)] {
                let nm = format!("{}::Mat{} *", lay, d + hom as usize);
                let rows = (0..d).map(|i| (0..d).map(|j| FMAT[i][j].abs()).sum::<f64>() + if hom { FMAT[i][d].abs() } else { 0.0 }).fold(0f64, f64::max);
                cmp(&nm, &get(&base, &nm), &|| { let b = bern(&px, k, tx); let mut o = zp::<X>(); for i in 0..d { for j in 0..d { o[i] = o[i] + mx[i][j] * b[j]; } if hom { o[i] = o[i] + mx[i][d]; } } o.to_vec() },
                    rows * maxabs.max(1.0) * w.powi(n as i32), &inp);
            }
            // split: both halves evaluated at every u of FU against B(t*u) resp. B(t + (1-t)u); inner end against B(t)
            if let Some(h) = s.call(&site("split"), inp, || <K::C<F> as Cv<F>>::build(&pf).sp(t)) {
                cmp("split", &h[0].pts()[k - 1], &|| bern(&px, k, tx).to_vec(), s_ev, &inp);
                for (hi, half) in h.iter().enumerate() {
                    for &u64_ in FU.iter() {
                        let (u, ux) = (F::of(u64_), xr(u64_));
                        let wu = u64_.abs() + (1.0 - u64_).abs();
                        let inpu = || json!({"P": jp(), "t": t64, "half": hi, "u": u64_});
                        let Some(got) = s.call(&site("split"), inpu, || half.ev(u)) else { continue };
                        cmp("split", &got, &|| bern(&px, k, if hi == 0 { tx * ux } else { tx + (qi(1) - tx) * ux }).to_vec(), s_ev * wu.powi(n as i32), &inpu);
                    }
                }
            }
            // unit tangent: direction of the exact derivative, within 256 eps * (condition of the normalisation)
            if let (true, Some(dr)) = (tangent_ok, dref) {
                s.class("tangent-decided");
                let nrm = (dr[0] * dr[0] + dr[1] * dr[1] + dr[2] * dr[2]).sqrt();
                let got = get(&base, "normalized_tangent");
                s.eval(true);
                for c in 0..3 {
                    if !F::close(got[c], dr[c] / nrm, s_de / nrm + 1.0) { s.violation(&site("normalized_tangent"), "not-unit-derivative", json!({"input": inp(), "got": f64s(&got), "exact derivative": dr, "norm": nrm})); break; }
                }
            }
            // (second audit) points close to each other but far from the origin: the derivative is a function of the DIFFERENCES
            // of consecutive control points, which are exactly representable here (premise checked below), so its forward error
            // is bounded relative to them, not to the coordinates: |err| <= 256 eps * n * max|P(i+1) - P(i)| * (|t| + |1-t|)^(n-1)
            // (sum of the absolute values of the terms of n * sum_i B(n-1,i)(t) dP_i); the unit tangent likewise.
            if *pclass == "close-far-from-origin" {
                let (mut dmax, mut exact) = (0f64, true);
                for i in 0..k - 1 { for c in 0..d {
                    let df = pv[i + 1][c] - pv[i][c]; // exact in f64: neighbours in one binade, 2 fractional bits
                    let dd: f64 = (pf[i + 1][c] - pf[i][c]).into();
                    if dd != df { exact = false; }
                    dmax = dmax.max(df.abs());
                } }
                if exact {
                    let s_dd = n as f64 * dmax * w.powi(n as i32 - 1);
                    s.class("far-derivative-decided");
                    cmp_c("evaluate_derivative", "float-error-relative-to-differences", &get(&base, "evaluate_derivative"), &|| dbern(&px, k, tx).to_vec(), s_dd, &inp);
                    if let Some(dr) = dref {
                        if dr.iter().any(|c| *c != 0.0) && dr.iter().chain(de_f.iter()).all(|c| *c == 0.0 || c.abs() >= s_dd / 1024.0) {
                            s.class("far-tangent-decided");
                            s.eval(true);
                            let nrm = (dr[0] * dr[0] + dr[1] * dr[1] + dr[2] * dr[2]).sqrt();
                            let got = get(&base, "normalized_tangent");
                            for c in 0..3 {
                                if !F::close(got[c], dr[c] / nrm, s_dd / nrm + 1.0) { s.violation(&site("normalized_tangent"), "not-unit-derivative-far-from-origin", json!({"input": inp(), "got": f64s(&got), "exact derivative": dr, "norm": nrm})); break; }
                            }
                        }
                    }
                }
            }
        }
    }
    s.meta("polygons", json!(polys.len()));
    s.meta("scales", json!(scales.iter().map(|(_, c)| Into::<f64>::into(*c)).collect::<Vec<_>>()));
    s.meta("parameters_t", json!(FT));
    s.meta("parameters_u", json!(FU));
    s.meta("worst_forward_error_in_units_of_eps_times_scale (bound 256)", json!(worst));
}

// ---- (second audit) float cases next to the special parameter values, componentwise ------------------
/// Exact dyadic number of any size, (-1)^neg * m * 2^e (m little endian).  Reference arithmetic for float cases whose exact
/// value does not fit an i128 rational (t = 2^-60 cubed).  Only ring operations; `to_f64` (used for error magnitudes and
/// scales only) rounds with a relative error below 2^-50.
#[derive(Clone, Debug)]
struct Dy { neg: bool, m: Vec<u32>, e: i64 }
impl Dy {
    fn zero() -> Dy { Dy { neg: false, m: Vec::new(), e: 0 } }
    fn norm(mut self) -> Dy { while self.m.last() == Some(&0) { self.m.pop(); } if self.m.is_empty() { self.neg = false; self.e = 0; } self }
    fn of(v: f64) -> Dy {
        assert!(v.is_finite());
        let bits = v.to_bits();
        let exp = ((bits >> 52) & 0x7ff) as i64;
        let frac = bits & ((1u64 << 52) - 1);
        let (mant, e) = if exp == 0 { (frac, -1074) } else { (frac | (1u64 << 52), exp - 1075) };
        Dy { neg: bits >> 63 == 1, m: vec![mant as u32, (mant >> 32) as u32], e }.norm()
    }
    fn is_zero(&self) -> bool { self.m.is_empty() }
    fn shl(m: &[u32], k: usize) -> Vec<u32> {
        assert!(k < 8192, "exponent gap too large for the dyadic reference");
        let (limbs, bits) = (k / 32, k % 32);
        let mut o = vec![0u32; limbs];
        let mut carry = 0u64;
        for &l in m { let v = ((l as u64) << bits) | carry; o.push(v as u32); carry = v >> 32; }
        if carry != 0 { o.push(carry as u32); }
        o
    }
    fn cmp_mag(a: &[u32], b: &[u32]) -> std::cmp::Ordering {
        let la = a.iter().rposition(|&x| x != 0).map_or(0, |i| i + 1);
        let lb = b.iter().rposition(|&x| x != 0).map_or(0, |i| i + 1);
        if la != lb { return la.cmp(&lb); }
        for i in (0..la).rev() { if a[i] != b[i] { return a[i].cmp(&b[i]); } }
        std::cmp::Ordering::Equal
    }
    fn add_mag(a: &[u32], b: &[u32]) -> Vec<u32> {
        let mut o = Vec::with_capacity(a.len().max(b.len()) + 1);
        let mut carry = 0u64;
        for i in 0..a.len().max(b.len()) { let v = *a.get(i).unwrap_or(&0) as u64 + *b.get(i).unwrap_or(&0) as u64 + carry; o.push(v as u32); carry = v >> 32; }
        if carry != 0 { o.push(carry as u32); }
        o
    }
    /// a - b, |a| >= |b|
    fn sub_mag(a: &[u32], b: &[u32]) -> Vec<u32> {
        let mut o = Vec::with_capacity(a.len());
        let mut borrow = 0i64;
        for i in 0..a.len() { let mut v = a[i] as i64 - *b.get(i).unwrap_or(&0) as i64 - borrow; if v < 0 { v += 1 << 32; borrow = 1; } else { borrow = 0; } o.push(v as u32); }
        assert!(borrow == 0);
        o
    }
    fn add(&self, o: &Dy) -> Dy {
        if self.is_zero() { return o.clone(); }
        if o.is_zero() { return self.clone(); }
        let e = self.e.min(o.e);
        let a = Dy::shl(&self.m, (self.e - e) as usize);
        let b = Dy::shl(&o.m, (o.e - e) as usize);
        if self.neg == o.neg { return Dy { neg: self.neg, m: Dy::add_mag(&a, &b), e }.norm(); }
        match Dy::cmp_mag(&a, &b) {
            std::cmp::Ordering::Equal => Dy::zero(),
            std::cmp::Ordering::Greater => Dy { neg: self.neg, m: Dy::sub_mag(&a, &b), e }.norm(),
            std::cmp::Ordering::Less => Dy { neg: o.neg, m: Dy::sub_mag(&b, &a), e }.norm(),
        }
    }
    fn negated(&self) -> Dy { Dy { neg: !self.neg && !self.is_zero(), m: self.m.clone(), e: self.e } }
    fn abs(&self) -> Dy { Dy { neg: false, m: self.m.clone(), e: self.e } }
    fn sub(&self, o: &Dy) -> Dy { self.add(&o.negated()) }
    fn mul(&self, o: &Dy) -> Dy {
        if self.is_zero() || o.is_zero() { return Dy::zero(); }
        let mut r = vec![0u32; self.m.len() + o.m.len()];
        for (i, &x) in self.m.iter().enumerate() {
            let mut carry = 0u64;
            for (j, &y) in o.m.iter().enumerate() { let v = r[i + j] as u64 + x as u64 * y as u64 + carry; r[i + j] = v as u32; carry = v >> 32; }
            let mut kx = i + o.m.len();
            while carry != 0 { let v = r[kx] as u64 + carry; r[kx] = v as u32; carry = v >> 32; kx += 1; }
        }
        Dy { neg: self.neg != o.neg, m: r, e: self.e + o.e }.norm()
    }
    fn to_f64(&self) -> f64 {
        if self.is_zero() { return 0.0; }
        let take = self.m.len().min(4);
        let mut x = 0f64;
        for &l in self.m.iter().rev().take(take) { x = x * 4294967296.0 + l as f64; }
        let mut e = self.e + 32 * (self.m.len() - take) as i64;
        while e > 900 { x *= 2f64.powi(900); e -= 900; }
        while e < -900 { x *= 2f64.powi(-900); e += 900; }
        let x = x * 2f64.powi(e as i32);
        if self.neg { -x } else { x }
    }
}
/// (value, sum of the absolute values of the terms) of sum_i C(m,i) t^i (1-t)^(m-i) c_i, m = c.len() - 1, exactly
fn dy_bern(c: &[Dy], t: &Dy) -> (Dy, Dy) {
    let m = c.len() - 1;
    let omt = Dy::of(1.0).sub(t);
    let (mut val, mut abs) = (Dy::zero(), Dy::zero());
    for i in 0..=m {
        let mut w = Dy::of(binom_i(m, i) as f64);
        for _ in 0..i { w = w.mul(t); }
        for _ in 0..m - i { w = w.mul(&omt); }
        let term = w.mul(&c[i]);
        abs = abs.add(&term.abs());
        val = val.add(&term);
    }
    (val, abs)
}

/// Componentwise forward error of evaluate, of all 2K control points of split(t) (de Casteljau points: first[j] = Bernstein
/// form of P_0..P_j, second[j] = of P_j..P_n, at t) and of evaluate_derivative (n times the Bernstein form of the exactly
/// representable differences): per lane, |got - exact| <= 256 eps * (sum of the absolute values of the terms of THAT lane).
/// This is what exposes a shortcut keyed on the parameter (t within epsilon of 0 or 1 answering with the end point, a
/// clamp): against the size of the whole polygon the dropped term n*t*(P1-P0) is rounding noise, on a lane whose end
/// coordinate is 0 it is the whole result.
fn float_edge<K: Kind, F: Fl>(s: &Section) {
    let (k, d) = (K::K, K::DIM);
    let n = k - 1;
    s.require_classes(&["single-non-zero-control-point", "zero-start", "zero-end", "zero-lanes", "generic", "close-far-from-origin",
        "t-within-eps-of-0", "t-within-eps-of-1", "t-small", "t-next-to-1", "t-ordinary", "t-huge", "lane-all-terms-zero", "derivative-decided"]);
    let eps: f64 = F::epsilon().into();
    let minpos: f64 = F::min_positive_value().into();
    let mk = |f: &dyn Fn(usize, usize) -> f64| -> Pts<f64> { let mut p = [[0f64; 3]; 4]; for i in 0..k { for c in 0..d { p[i][c] = f(i, c); } } p };
    let mut polys: Vec<(&'static str, Pts<f64>)> = Vec::new();
    for j in 0..k { polys.push(("single-non-zero-control-point", mk(&|i, c| if i == j { [3.0, -5.0, 7.0][c] } else { 0.0 }))); }
    polys.push(("zero-start", mk(&|i, c| if i == 0 { 0.0 } else { FBASE[i][c] })));
    polys.push(("zero-end", mk(&|i, c| if i == k - 1 { 0.0 } else { FBASE[i][c] })));
    polys.push(("zero-lanes", mk(&|i, c| [[0.0, 2.5, -1.0], [4.0, 0.0, 3.0], [-2.0, 1.5, 0.0], [0.0, 0.0, 6.0]][i][c])));
    polys.push(("zero-lanes", mk(&|i, c| [[0.0, 0.0, 6.0], [-2.0, 1.5, 0.0], [4.0, 0.0, 3.0], [0.0, 2.5, -1.0]][i + 4 - k][c])));
    polys.push(("generic", mk(&|i, c| FBASE[i][c])));
    polys.push(("close-far-from-origin", mk(&|i, c| FBASE[i][c] + F::FAR * [1.0, -1.0, 1.0][c])));
    let p2 = |e: i32| 2f64.powi(e);
    let ts: Vec<(&'static str, f64)> = vec![
        ("t-within-eps-of-0", eps / 256.0), ("t-within-eps-of-0", -eps / 256.0), ("t-within-eps-of-0", eps / 2.0), ("t-within-eps-of-0", eps), ("t-within-eps-of-0", -eps),
        (if p2(-40) <= eps { "t-within-eps-of-0" } else { "t-small" }, p2(-40)), (if p2(-40) <= eps { "t-within-eps-of-0" } else { "t-small" }, -p2(-40)),
        (if p2(-30) <= eps { "t-within-eps-of-0" } else { "t-small" }, p2(-30)), ("t-small", p2(-12)), ("t-small", -p2(-12)),
        ("t-within-eps-of-1", 1.0 - eps / 2.0), ("t-within-eps-of-1", 1.0 - eps), ("t-within-eps-of-1", 1.0 + eps), ("t-next-to-1", 1.0 + 2.0 * eps), ("t-next-to-1", 1.0 - p2(-12)), ("t-next-to-1", 1.0 + p2(-12)),
        ("t-ordinary", 0.0), ("t-ordinary", 1.0), ("t-ordinary", 0.375), ("t-ordinary", 0.5), ("t-ordinary", -0.5), ("t-ordinary", 1.5), ("t-ordinary", 3.0),
        ("t-huge", p2(20)), ("t-huge", -p2(20)),
    ];
    let site = |op: &str| format!("{}::{}<{}>", K::NAME, op, F::NAME);
    let mut worst = 0f64;
    for (pclass, p64) in polys.iter() {
        let mut pf = [[F::zero(); 3]; 4];
        for i in 0..4 { for c in 0..3 { pf[i][c] = F::of(p64[i][c]); } }
        let pv: Pts<f64> = pf.map(|r| r.map(|c| c.into()));
        let jp = || json!((0..k).map(|i| pv[i][..d].to_vec()).collect::<Vec<_>>());
        // lanes as exact numbers; differences (exact) and whether the float type represents each of them
        let lane: Vec<Vec<Dy>> = (0..d).map(|c| (0..k).map(|i| Dy::of(pv[i][c])).collect()).collect();
        let dlane: Vec<Vec<Dy>> = (0..d).map(|c| (0..n).map(|i| lane[c][i + 1].sub(&lane[c][i])).collect()).collect();
        let diffs_exact = (0..d).all(|c| (0..n).all(|i| { let df: f64 = (pf[i + 1][c] - pf[i][c]).into(); Dy::of(df).sub(&dlane[c][i]).is_zero() }));
        let cv = <K::C<F> as Cv<F>>::build(&pf);
        for (tclass, t64) in ts.iter() {
            let t = F::of(*t64);
            let tv: f64 = t.into();
            assert!(tv == *t64, "parameter alphabet must be exactly representable");
            let td = Dy::of(tv);
            s.class(pclass);
            s.class(tclass);
            let inp = || json!({"P": jp(), "t": tv});
            // got vs (exact value, sum of |terms|) per lane
            let mut check = |op: &str, cls: &str, what: String, got: F, val: &Dy, abs: &Dy| {
                s.eval(true);
                let g: f64 = got.into();
                if !g.is_finite() { s.violation(&site(op), cls, json!({"input": inp(), "which": what, "got": g, "want": val.to_f64()})); return; }
                let err = Dy::of(g).sub(val).abs().to_f64();
                let sc = abs.to_f64();
                if sc == 0.0 { s.class("lane-all-terms-zero"); }
                let bound = 256.0 * eps * sc.max(if sc == 0.0 { 0.0 } else { minpos });
                if sc > 0.0 { worst = worst.max(err / (eps * sc.max(minpos))); }
                if !(err <= bound) { s.violation(&site(op), cls, json!({"input": inp(), "which": what, "got": g, "want": val.to_f64(), "|error|": err, "sum of |terms| of this lane": sc, "bound": bound})); }
            };
            if let Some(got) = s.call(&site("evaluate"), inp, || cv.ev(t)) {
                for c in 0..d { let (v, a) = dy_bern(&lane[c], &td); check("evaluate", "float-error-componentwise", format!("lane {}", AX[c]), got[c], &v, &a); }
            }
            if let Some(h) = s.call(&site("split"), inp, || cv.sp(t)) {
                let (a, b) = (h[0].pts(), h[1].pts());
                for j in 0..k { for c in 0..d {
                    let (v, ab) = dy_bern(&lane[c][..=j], &td);
                    check("split", "control-point-float-error-componentwise", format!("first half, control point {}, lane {}", j, AX[c]), a[j][c], &v, &ab);
                    let (v, ab) = dy_bern(&lane[c][j..], &td);
                    check("split", "control-point-float-error-componentwise", format!("second half, control point {}, lane {}", j, AX[c]), b[j][c], &v, &ab);
                } }
            }
            if diffs_exact {
                s.class("derivative-decided");
                if let Some(got) = s.call(&site("evaluate_derivative"), inp, || cv.de(t)) {
                    let nn = Dy::of(n as f64);
                    for c in 0..d { let (v, a) = dy_bern(&dlane[c], &td); check("evaluate_derivative", "float-error-componentwise-on-differences", format!("lane {}", AX[c]), got[c], &v.mul(&nn), &a.mul(&nn)); }
                }
            }
        }
    }
    s.meta("polygons", json!(polys.len()));
    s.meta("parameters_t", json!(ts.iter().map(|x| x.1).collect::<Vec<_>>()));
    s.meta("worst_componentwise_error_in_units_of_eps_times_sum_of_|terms| (bound 256)", json!(worst));
}

/// normalized_tangent where the derivative has a SINGLE NON-ZERO LANE: all control points on a line parallel to an axis
/// (the other coordinates equal, so their differences are exactly 0), strictly monotone along it, t in [0,1].  Then the
/// derivative is (0, .., x, .., 0) with x of the sign of the direction, |x|/sqrt(x*x) is exactly 1 in IEEE arithmetic
/// (sqrt(fl(x^2)) = |x| barring over/underflow), so the unit tangent is EXACTLY +-e_axis, whatever the length - including
/// lengths next to 1 (fl(1/n) and its neighbours as the first step) and lengths x for which x * fl(1/x) != 1.
fn float_tangent_axis<K: Kind, F: Fl>(s: &Section) {
    let (k, d) = (K::K, K::DIM);
    let n = (k - 1) as f64;
    s.require_classes(&["single-lane-derivative", "derivative-next-to-unit-length", "negative-direction"]);
    let site = format!("{}::normalized_tangent<{}>", K::NAME, F::NAME);
    let eps: f64 = F::epsilon().into();
    let third: f64 = F::of(1.0 / n).into();
    // first step of the polygon along the axis: k/8, k = 1..=256, and the floats around 1/n (derivative at t = 0 is n * step)
    let mut steps: Vec<(bool, f64)> = (1..=256).map(|i| (false, i as f64 / 8.0)).collect();
    for j in -2i32..=2 { steps.push((true, third * (1.0 + j as f64 * eps))); }
    for ax in 0..d { for sign in [1.0f64, -1.0] { for (near_unit, st) in steps.iter() { for (base_pt, t64) in [([0.0, 0.0, 0.0], 0.0), ([2.0, -3.5, 0.75], 0.0), ([2.0, -3.5, 0.75], 0.25), ([0.0, 0.0, 0.0], 1.0)] {
        // axis coordinates: 0, st, st + 1.5, st + 2.25 (times the sign), strictly monotone
        let along = [0.0, *st, *st + 1.5, *st + 2.25];
        let mut pf = [[F::zero(); 3]; 4];
        for i in 0..k { for c in 0..d { pf[i][c] = F::of(if c == ax { sign * along[i] } else { base_pt[c] }); } }
        let t = F::of(t64);
        s.eval(true);
        s.class("single-lane-derivative");
        if *near_unit { s.class("derivative-next-to-unit-length"); }
        if sign < 0.0 { s.class("negative-direction"); }
        let inp = || json!({"P": (0..k).map(|i| (0..d).map(|c| Into::<f64>::into(pf[i][c])).collect::<Vec<f64>>()).collect::<Vec<_>>(), "t": t64});
        let Some(got) = s.call(&site, inp, || <K::C<F> as Cv<F>>::build(&pf).nt(t)) else { continue };
        let mut want = [0f64; 3];
        want[ax] = sign;
        let g: [f64; 3] = [got[0].into(), got[1].into(), got[2].into()];
        if g != want { s.violation(&site, "single-lane-derivative-not-exactly-unit", json!({"input": inp(), "got": g, "want": want})); }
    } } } }
    s.meta("first_steps", json!("k/8 for k = 1..=256, and fl(1/n) * (1 + j eps), j = -2..=2"));
}

// ---- unit circle: certificate for ALL real t in [0,1] (Bernstein enclosure, exact integers) ---------
/// r(t)^2 = x(t)^2 + y(t)^2 is a polynomial of degree 6.  Its Bernstein coefficients on an interval enclose its range there
/// (convex hull property); intervals are bisected (de Casteljau, exact integer arithmetic) until every coefficient lies in
/// [(1-TOL+delta)^2, (1+TOL-delta)^2], an end-point value (= a true curve point) leaves that band (violation with witness), or
/// depth 12 is reached (violation "not certified").  The control points are rounded to 20 fractional bits first; the rounded
/// curve is within delta = sqrt(2) * 2^-21 of the real one for every t in [0,1] (a Bezier point is a convex combination of the
/// control points), which is why the band is narrowed by delta.
fn circle_cert<K: Kind, F: Fl>(s: &Section) {
    const TOL: f64 = 3e-4;
    const FB: i32 = 20;
    const MAXD: u32 = 12;
    s.require_classes(&["certified-leaf", "bisected"]);
    let sq = format!("{}::unit_quarter_circle<{}>", K::NAME, F::NAME);
    let sc = format!("{}::unit_circle<{}>", K::NAME, F::NAME);
    let Some(quarter) = s.call(&sq, || json!("unit_quarter_circle()"), || <K::C<F> as Cv<F>>::quarter()) else { return };
    let Some(arcs) = s.call(&sc, || json!("unit_circle()"), || <K::C<F> as Cv<F>>::circle()) else { return };
    let delta = 2f64.sqrt() * 2f64.powi(-(FB + 1));
    let unit = 60.0 * 2f64.powi(2 * FB);
    let (lo, hi) = (1.0 - TOL + delta, 1.0 + TOL - delta);
    let lo_i = (lo * lo * (1.0 + 1e-12) * unit).ceil() as i128;
    let hi_i = (hi * hi * (1.0 - 1e-12) * unit).floor() as i128;
    let (mut rmin, mut rmax, mut leaves, mut deepest) = (f64::MAX, 0f64, 0u64, 0u32);
    let items: [(&str, String, K::C<F>); 5] = [(&sq, "unit_quarter_circle".into(), quarter), (&sc, "unit_circle[0]".into(), arcs[0]), (&sc, "unit_circle[1]".into(), arcs[1]), (&sc, "unit_circle[2]".into(), arcs[2]), (&sc, "unit_circle[3]".into(), arcs[3])];
    for (site, label, cv) in items.iter() {
        let pf = cv.pts();
        let mut xi = [[0i128; 2]; 4];
        let mut planar = true;
        for i in 0..4 {
            let z: f64 = pf[i][2].into();
            if z != 0.0 { planar = false; }
            for c in 0..2 { let v: f64 = pf[i][c].into(); xi[i][c] = (v * 2f64.powi(FB)).round() as i128; }
        }
        if !planar { s.eval(true); s.violation(site, "outside-quadrant-exact-curve", json!({"arc": label, "why": "a control point has z != 0"})); continue; }
        // Bernstein coefficients (degree 6) of 60 * 2^40 * r^2: product formula b_k = sum_{i+j=k} C(3,i) C(3,j) / C(6,k) (x_i x_j + y_i y_j)
        let mut h = [0i128; 7];
        for i in 0..4 { for j in 0..4 { h[i + j] += (binom_i(3, i) * binom_i(3, j)) as i128 * (60 / binom_i(6, i + j)) as i128 * (xi[i][0] * xi[j][0] + xi[i][1] * xi[j][1]); } }
        let mut stack: Vec<(u32, u64, [i128; 7])> = vec![(0, 0, h)];
        while let Some((depth, idx, b)) = stack.pop() {
            let (l, u) = (lo_i << (6 * depth), hi_i << (6 * depth));
            let rad = |c: i128| ((c as f64) / (unit * 2f64.powi(6 * depth as i32))).sqrt();
            let at = |end: u64| format!("{}/{}", idx + end, 1u64 << depth);
            if b.iter().all(|&c| c >= l && c <= u) {
                s.eval(depth > 0); s.class("certified-leaf");
                leaves += 1; deepest = deepest.max(depth);
                for &c in b.iter() { rmin = rmin.min(rad(c)); rmax = rmax.max(rad(c)); }
                continue;
            }
            // the first and last coefficient are values of the (rounded) curve itself
            let mut true_violation = false;
            for (end, c) in [(0u64, b[0]), (1, b[6])] {
                if c < l || c > u { true_violation = true; s.eval(true); s.violation(site, "radius-off-all-t-certificate", json!({"arc": label, "t": at(end), "|B(t)| of the control points rounded to 2^-20": rad(c), "allowed": [lo, hi], "rounding_allowance": delta})); }
            }
            if true_violation { continue; }
            if depth == MAXD { s.eval(true); s.violation(site, "radius-not-certified", json!({"arc": label, "t interval": [at(0), at(1)], "coefficient radii": b.iter().map(|&c| rad(c)).collect::<Vec<_>>(), "allowed": [lo, hi]})); continue; }
            // bisect: c^r_i = c^(r-1)_i + c^(r-1)_(i+1) (= 2^r times the de Casteljau point); both halves rescaled by 2^6
            s.class("bisected");
            let mut tri = vec![b.to_vec()];
            for r in 1..7 { let prev = &tri[r - 1]; tri.push((0..7 - r).map(|i| prev[i] + prev[i + 1]).collect()); }
            let (mut left, mut right) = ([0i128; 7], [0i128; 7]);
            for r in 0..7 { left[r] = tri[r][0] << (6 - r); right[r] = tri[6 - r][r] << r; }
            stack.push((depth + 1, idx * 2 + 1, right));
            stack.push((depth + 1, idx * 2, left));
        }
    }
    s.meta("tolerance", json!(TOL));
    s.meta("rounding_allowance_delta", json!(delta));
    s.meta("certified_leaves", json!(leaves));
    s.meta("deepest_leaf", json!(deepest));
    s.meta("enclosure_of_|B(t)|_over_all_t (rounded curve; add +-delta)", json!([rmin, rmax]));
}

// ---- sections per curve type -----------------------------------------------------------------------
const LAT: &str = "all points of the simplex lattice L(n, D): n = free scalars (control coordinates = lattice value a, matrix entries = a, parameters t,u = (a-1)/2), D = max(measured Deg-degree of real code and reference, hand degree) + headroom within a point budget (exact n, D, points, measured degree in meta); real code on exact rationals vs reference compared with ==; non-trivial: control points not all equal, t,u outside {0,1}, matrix non-zero; additional exact passes on L(n, min(D0,3)) (thorough: up to D0 within 400 000 / 100 000 points): control points times -2^40 and times 2^-60; (second audit) control points plus 2^40, plus per-lane offsets (2^40, -2^41, 2^39), half-integers of alternating sign; and, for families with a parameter, t in {+-2^-e, 1+-2^-e (e = 56 quadratic, 36 cubic evaluation), 2^-20, 1-2^-20, +-2^20} with u = 3/8, the other coordinates over L(n - #parameters, .)";

fn kind_sections<K: Kind>(rep: &Report, degs: &DegLog) {
    let nm = K::NAME;
    let sec = |title: &str, what: &str, ids: &[Id]| {
        rep.section(&format!("{}: {}", nm, title), &format!("{}; {}", what, LAT), true, true, |s| {
            for &id in ids { run_fam::<K>(s, id, degs); }
            if ids.contains(&Id::Matrix) { matrix_entries::<K>(s); }
        });
    };
    sec("evaluate", "evaluate(t) = sum_i C(n,i) t^i (1-t)^(n-i) P_i; evaluate(0) = start and evaluate(1) = end as separate assertions on L(K*DIM, .)", &[Id::Eval, Id::Ends]);
    sec("evaluate_derivative", "evaluate_derivative(t) = term-wise derivative of the power-basis expansion of the Bernstein form", &[Id::Deriv]);
    sec("split", "split(t)[0].evaluate(u) = B(t*u), split(t)[1].evaluate(u) = B(t+(1-t)u) (the composition itself is run and degree-measured), first.end = second.start = B(t)", &[Id::Split, Id::Meet]);
    if K::K == 3 {
        sec("conversions", "into_cubic()/Cubic::from(quadratic) evaluate to the quadratic's Bernstein form; From<LineSegment>/From<Range> evaluate to (1-t)*start + t*end", &[Id::Elev, Id::Seg]);
    } else {
        sec("conversions", "From<LineSegment>/From<Range> evaluate to (1-t)*start + t*end", &[Id::Seg]);
    }
    sec("matrix", "[1,t,..,t^n] . matrix() . P = B(t) with matrix() decoded from its rows field; plus every entry (4x4 padded) against C(n,i)C(n-i,j-i)(-1)^(j-i)", &[Id::Matrix]);
    sec("reverse, flips, 2D<->3D, unpacking", "reversed()/reverse(): evaluate(t) = B(1-t); flipped_*/flip_*: that coordinate of B(t) negated; into_3d/into_2d/From: (Bx, By, 0) resp. (Bx, By); into_vecK/into_tuple/into_array/From<VecK> keep the control points in order start..end", &[Id::Rev, Id::Flip, Id::Redim, Id::Unpack]);
    sec("Mat(DIM) * curve", "(M*curve).evaluate(t) = M . B(t), both layouts", &[Id::MulLin]);
    sec("Mat(DIM+1) * curve", "(M*curve).evaluate(t) = upper-left DIMxDIM block of M . B(t) + last column of M (w = 1, last coordinate dropped, no perspective divide), both layouts, all (DIM+1)^2 entries free", &[Id::MulHom]);
    sec("call sequences", "one curve object carried through flip_x() [in place]; B * curve; reverse() [in place]; A * curve; flip_<last axis>() [in place]; then evaluate(t) and the inner ends of split(t): all equal B_R(t), R = the control polygon transformed point by point and reversed on plain arrays; A, B fixed non-symmetric non-commuting integer matrices (SEQ_A, SEQ_B), 4 forms: DIMxDIM and (DIM+1)x(DIM+1), row-major A with column-major B and vice versa", &[Id::Seq]);
    rep.section(&format!("{}: twins and second calls", nm),
        "all points of L(K*DIM, 3 quick / 5 thorough), each as a mixed-sign half-integer polygon and as a polygon far from the origin; prior state: flip_<last axis>() in place, column_major::Mat(DIM) SEQ_A * curve, reverse() in place; on that state reverse() and reversed() give the control points in opposite order, flip_a() and flipped_a() negate lane a of every control point (all axes), and every second call in every mix of the two forms restores the state; compared with == on the public fields; non-trivial: polygon not the lattice origin",
        true, false, |s| twins::<K>(s));
    rep.section(&format!("{}: normalized_tangent", nm),
        "all points of L(K*DIM+1, 6 quick / 8 thorough) (coordinates = a, t = (a-1)/2); decided (and counted) only where the reference derivative has a non-zero rational norm: normalized_tangent(t) == derivative/norm exactly; every decided case again with the control points multiplied by 2^-54 (same tangent) and by -2^40 (negated tangent); zero derivative (property silent) and irrational norm (not representable) are skipped and counted in meta; non-trivial: all decided cases; (second audit) every decided case again with the polygon translated by (2^40, -2^41, 2^39) (same tangent); evenly spaced collinear polygons with derivative g*U, U rational unit vectors (axis-aligned and oblique), g = 1 + e, e in {0, +-2^-56, +-2^-30, +-2^-12}, three origins, t in {-1/2, 0, 1/2, 1, 3/2}: normalized_tangent == U exactly",
        true, false, |s| { tangent::<K>(s); tangent_unit::<K>(s); });
}

fn main() {
    let rep = Report::start("C14", "exploration");
    let degs: DegLog = Mutex::new(BTreeMap::new());
    kind_sections::<Q2>(&rep, &degs);
    kind_sections::<Q3>(&rep, &degs);
    kind_sections::<C2>(&rep, &degs);
    kind_sections::<C3>(&rep, &degs);
    let rule_c = "every t = k/4096 (thorough: k/16384), k = 0..=steps, on unit_quarter_circle() and each of the 4 arcs of unit_circle(): real float evaluate within 256 eps * 4 of the exact rational Bernstein value of the same (dyadic) control points; | |B(t)| - 1 | < 3e-4 for both the float result and the exact curve; samples in the closed quadrant documented for that arc (NE, NW, SW, SE), z = 0; arc end points exactly on the axes at distance 1; cyclically consecutive arcs share exactly one end point (as sets); non-trivial: interior samples";
    rep.section("CubicBezier2: unit circle f64", rule_c, true, false, |s| circle::<C2, f64>(s));
    rep.section("CubicBezier2: unit circle f32", rule_c, true, false, |s| circle::<C2, f32>(s));
    rep.section("CubicBezier3: unit circle f64", rule_c, true, false, |s| circle::<C3, f64>(s));
    rep.section("CubicBezier3: unit circle f32", rule_c, true, false, |s| circle::<C3, f32>(s));
    let rule_f = "real code on f32/f64. Polygons: FBASE + FPERT[a] for all a in L(K*DIM, 2 quick / 3 thorough) (generic: no zero lane, negative and fractional values) plus all-points-equal, repeated point (ctrl = start; end = start), unevenly spaced collinear, axis-aligned and two mixed-magnitude polygons (2^20+1 .. 2^23+1 next to 0.1, 0.3, 0.7); parameters t in FT (11 values: -1/2, 0, 2^-20, 1/4, 3/8, 1/2, 13/16, 1-2^-20, 1, 3/2, 3), u in FU; scales 2^BIG and -2^-BIG (BIG = 40 for f32, 400 for f64; thorough adds -2^BIG, 2^-BIG, 2^+-BIG/2, -3, 0.625). Asserted: (1) exactly, at every scale: evaluate(0) == start, evaluate(1) == end, split(t)[0].start == start, split(t)[1].end == end, split(t)[0].end == split(t)[1].start; (2) scaling law, exactly, for every power-of-two scale: evaluate, evaluate_derivative, the 2K control points of split, reverse/flip/into_2d|3d/into_cubic/From<LineSegment>/From<Range>/Mat*curve followed by evaluate are multiplied by the scale (translation column scaled along), normalized_tangent is unchanged up to the sign of the scale; (3) forward error, unit scale, polygons with short mantissas: each of those results, and both halves of split(t) evaluated at every u, within 256 eps * (sum of the absolute values of the terms of the exact expression) of the exact rational value computed from the same float inputs; normalized_tangent within 256 eps * (that sum / |derivative| + 1) of derivative/|derivative|, asserted only where every derivative component is 0 or >= 2^-10 of the sum; non-trivial: polygon not all-points-equal, t outside {0,1} for split";
    rep.section("QuadraticBezier2: float f32", rule_f, true, false, |s| float_ops::<Q2, f32>(s));
    rep.section("QuadraticBezier2: float f64", rule_f, true, false, |s| float_ops::<Q2, f64>(s));
    rep.section("QuadraticBezier3: float f32", rule_f, true, false, |s| float_ops::<Q3, f32>(s));
    rep.section("QuadraticBezier3: float f64", rule_f, true, false, |s| float_ops::<Q3, f64>(s));
    rep.section("CubicBezier2: float f32", rule_f, true, false, |s| float_ops::<C2, f32>(s));
    rep.section("CubicBezier2: float f64", rule_f, true, false, |s| float_ops::<C2, f64>(s));
    rep.section("CubicBezier3: float f32", rule_f, true, false, |s| float_ops::<C3, f32>(s));
    rep.section("CubicBezier3: float f64", rule_f, true, false, |s| float_ops::<C3, f64>(s));
    let rule_e = "(second audit) real code on f32/f64, exact reference in dyadic big-number arithmetic. (1) Polygons: each single control point non-zero, start = 0, end = 0, two polygons with a zero in every lane at different control points, the generic FBASE polygon, FBASE + FAR (2^40 f64 / 2^18 f32); parameters (25): +-eps/256, eps/2, +-eps, +-2^-40, 2^-30, +-2^-12, 1-eps/2, 1-eps, 1+eps, 1+2eps, 1+-2^-12, 0, 1, 3/8, 1/2, -1/2, 3/2, 3, +-2^20. Asserted per lane: evaluate, all 2K control points of split(t) (= Bernstein forms of the leading / trailing sub-polygons), evaluate_derivative (= n times the Bernstein form of the differences, asserted when every difference is exactly representable): |got - exact| <= 256 eps * (sum of the absolute values of the terms of that lane), exactly 0 where every term is 0. (2) normalized_tangent on polygons parallel to an axis (every axis, both directions, first step k/8 for k = 1..=256 and the floats around 1/n, t in {0, 1/4, 1}): exactly +-e_axis; non-trivial: all";
    rep.section("QuadraticBezier2: float componentwise f32", rule_e, true, false, |s| { float_edge::<Q2, f32>(s); float_tangent_axis::<Q2, f32>(s); });
    rep.section("QuadraticBezier2: float componentwise f64", rule_e, true, false, |s| { float_edge::<Q2, f64>(s); float_tangent_axis::<Q2, f64>(s); });
    rep.section("QuadraticBezier3: float componentwise f32", rule_e, true, false, |s| { float_edge::<Q3, f32>(s); float_tangent_axis::<Q3, f32>(s); });
    rep.section("QuadraticBezier3: float componentwise f64", rule_e, true, false, |s| { float_edge::<Q3, f64>(s); float_tangent_axis::<Q3, f64>(s); });
    rep.section("CubicBezier2: float componentwise f32", rule_e, true, false, |s| { float_edge::<C2, f32>(s); float_tangent_axis::<C2, f32>(s); });
    rep.section("CubicBezier2: float componentwise f64", rule_e, true, false, |s| { float_edge::<C2, f64>(s); float_tangent_axis::<C2, f64>(s); });
    rep.section("CubicBezier3: float componentwise f32", rule_e, true, false, |s| { float_edge::<C3, f32>(s); float_tangent_axis::<C3, f32>(s); });
    rep.section("CubicBezier3: float componentwise f64", rule_e, true, false, |s| { float_edge::<C3, f64>(s); float_tangent_axis::<C3, f64>(s); });
    let rule_cert = "unit_quarter_circle() and the 4 arcs of unit_circle(): for ALL real t in [0,1], | |B(t)| - 1 | < 3e-4 for the exact curve of the returned control points: Bernstein-coefficient enclosure of the degree-6 polynomial |B(t)|^2 with adaptive bisection in exact integer arithmetic (control points rounded to 2^-20, band narrowed by the rounding allowance sqrt(2)*2^-21); a leaf is certified when all 7 coefficients lie in the band; an end-point coefficient outside the band is a witness; non-trivial: leaves below the root";
    rep.section("CubicBezier2: unit circle all-t certificate f64", rule_cert, true, true, |s| circle_cert::<C2, f64>(s));
    rep.section("CubicBezier2: unit circle all-t certificate f32", rule_cert, true, true, |s| circle_cert::<C2, f32>(s));
    rep.section("CubicBezier3: unit circle all-t certificate f64", rule_cert, true, true, |s| circle_cert::<C3, f64>(s));
    rep.section("CubicBezier3: unit circle all-t certificate f32", rule_cert, true, true, |s| circle_cert::<C3, f32>(s));
    rep.extra("measured_degrees", json!(*degs.lock().unwrap()));
    std::process::exit(rep.finish());
}
