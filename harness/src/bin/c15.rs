//! C15 — Bezier extrema, bounding boxes, closest-point search and discretized length bound the curve.
//!
//! Everything is decided on the real generic code run on the exact rational `X` (and on `f64` where the
//! mathematics leaves the rationals).  Curves are built by struct literal, results are decoded by field
//! access; the reference model is de Casteljau's algorithm and the closed-form stationary points of the
//! per-axis polynomial over plain `Q` arrays (vek's `evaluate` is never part of an oracle).
//!
//! Per axis the functions only see that axis' control values, so the per-axis space is the set of all
//! control tuples over an integer alphabet {-R..R}: every tuple is placed on every axis of every curve
//! type (the other axes carry a *different* tuple, chosen by a bijection of the tuple list, so boxes see
//! independent axes).
//!
//! Second audit (sections after the wide-range one and at the end): the same tuples *just above the degeneracy thresholds* of the
//! per-axis code (x 2^-28 / 2^-51 on X and f64, x 2^-14 / 2^-22 on f32), *far from the origin* (+-2^26 / +2^12 added: extrema, boxes;
//! +2^26 / +2^8: length; +2^30: search), tiny curves at 1 (relative near-ties), *nearly quadratic cubics* (leading derivative
//! coefficient 3 * 2^-j above epsilon: fires on the unchanged tree, classes `nearly-quadratic:`), the general entry point of the search
//! on floats and the smallest admissible epsilon.
use rayon::prelude::*;
use std::collections::BTreeMap;
use std::cell::Cell;
use std::fmt::Debug;
use std::ops::{Add, Div, Mul, Neg, Rem, Sub};
use std::sync::atomic::{AtomicU64, Ordering::Relaxed};
use vek::num_traits::{Num, NumCast, One, ToPrimitive, Zero};
use vek::bezier::repr_c::{CubicBezier2, CubicBezier3, QuadraticBezier2, QuadraticBezier3};
use vek::num_traits::real::Real;
use vek::vec::repr_c::{Vec2, Vec3};
use vx::*;

// ------------------------------------------------------------------------------------------------
// element types

type P<T> = [T; 3]; // point padded to three lanes (2-D curves ignore lane 2)

trait El: Real + From<u16> + Debug + Send + Sync + 'static {
    const NAME: &'static str;
    const EXACT: bool;
    /// unit roundoff scale of the type (0 for the exact type); every float tolerance is a multiple of it
    const EPS: f64;
    fn of_q(q: Q) -> Self;
    fn to_q(self) -> Option<Q>;
    /// q * 2^k, exactly (floats: q must be a small dyadic and the product a normal number)
    fn of_q_scaled(q: Q, k: i32) -> Self;
    /// self * 2^-k, exactly (power-of-two scaling of a normal float / of a rational)
    fn unscaled(self, k: i32) -> Self;
    /// plain f64 shadow of the value (exact for f32/f64)
    fn as_f64(self) -> f64;
}
fn pow2q(k: i32) -> Q { if k >= 0 { Q::int(1i128 << k) } else { Q::new(1, 1i128 << (-k)) } }
fn pow2f(k: i32) -> f64 { assert!((-1022..=1023).contains(&k)); f64::from_bits(((1023 + k) as u64) << 52) }
impl El for X {
    const NAME: &'static str = "X";
    const EXACT: bool = true;
    const EPS: f64 = 0.0;
    fn of_q(q: Q) -> X { X::R(q) }
    fn to_q(self) -> Option<Q> { match self { X::R(q) => Some(q), _ => None } }
    fn of_q_scaled(q: Q, k: i32) -> X { X::R(q.mul(pow2q(k))) }
    fn unscaled(self, k: i32) -> X { self * X::R(pow2q(-k)) }
    fn as_f64(self) -> f64 { self.shadow() }
}
impl El for f64 {
    const NAME: &'static str = "f64";
    const EXACT: bool = false;
    const EPS: f64 = f64::EPSILON;
    fn of_q(q: Q) -> f64 { q.to_f64() }
    fn to_q(self) -> Option<Q> { Q::from_f64(self) }
    fn of_q_scaled(q: Q, k: i32) -> f64 { q.to_f64() * pow2f(k) }
    fn unscaled(self, k: i32) -> f64 { self * pow2f(-k) }
    fn as_f64(self) -> f64 { self }
}
impl El for f32 {
    const NAME: &'static str = "f32";
    const EXACT: bool = false;
    const EPS: f64 = f32::EPSILON as f64;
    fn of_q(q: Q) -> f32 { q.to_f64() as f32 }
    fn to_q(self) -> Option<Q> { Q::from_f64(self as f64) }
    fn of_q_scaled(q: Q, k: i32) -> f32 { (q.to_f64() * pow2f(k)) as f32 }
    fn unscaled(self, k: i32) -> f32 { (self as f64 * pow2f(-k)) as f32 }
    fn as_f64(self) -> f64 { self as f64 }
}

// ------------------------------------------------------------------------------------------------
// `Fx`: the exact rational with a multiplication budget.  The closest-point search contains a `while` loop whose exit
// depends on computed distances; running it on `Fx` turns non-termination into a deterministic verdict (the budget is
// a count of multiplications, not wall time): every evaluate() multiplies, so a loop that never exits exhausts it.

thread_local! { static FUEL: Cell<i64> = Cell::new(i64::MAX); }
const FUEL_MSG: &str = "multiplication budget exhausted";
#[inline] fn burn() { FUEL.with(|f| { let v = f.get() - 1; f.set(v); if v < 0 { f.set(i64::MAX); panic!("{}", FUEL_MSG); } }) }

#[derive(Clone, Copy, PartialEq, PartialOrd)]
struct Fx(X);
impl Debug for Fx { fn fmt(&self, f: &mut std::fmt::Formatter) -> std::fmt::Result { Debug::fmt(&self.0, f) } }
impl Add for Fx { type Output = Fx; fn add(self, o: Fx) -> Fx { Fx(self.0 + o.0) } }
impl Sub for Fx { type Output = Fx; fn sub(self, o: Fx) -> Fx { Fx(self.0 - o.0) } }
impl Mul for Fx { type Output = Fx; fn mul(self, o: Fx) -> Fx { burn(); Fx(self.0 * o.0) } }
impl Div for Fx { type Output = Fx; fn div(self, o: Fx) -> Fx { Fx(self.0 / o.0) } }
impl Rem for Fx { type Output = Fx; fn rem(self, o: Fx) -> Fx { Fx(self.0 % o.0) } }
impl Neg for Fx { type Output = Fx; fn neg(self) -> Fx { Fx(-self.0) } }
impl From<u16> for Fx { fn from(v: u16) -> Fx { Fx(<X as From<u16>>::from(v)) } }
impl Zero for Fx { fn zero() -> Fx { Fx(X::zero()) } fn is_zero(&self) -> bool { self.0.is_zero() } }
impl One for Fx { fn one() -> Fx { Fx(X::one()) } }
impl Num for Fx { type FromStrRadixErr = (); fn from_str_radix(_: &str, _: u32) -> Result<Fx, ()> { Err(()) } }
impl ToPrimitive for Fx { fn to_i64(&self) -> Option<i64> { self.0.to_i64() } fn to_u64(&self) -> Option<u64> { self.0.to_u64() } fn to_f64(&self) -> Option<f64> { self.0.to_f64() } }
impl NumCast for Fx { fn from<N: ToPrimitive>(n: N) -> Option<Fx> { <X as NumCast>::from(n).map(Fx) } }
macro_rules! fwd0 { ($($f:ident),*) => { $(fn $f() -> Fx { Fx(<X as Real>::$f()) })* } }
macro_rules! fwd1 { ($($f:ident),*) => { $(fn $f(self) -> Fx { Fx(<X as Real>::$f(self.0)) })* } }
macro_rules! fwd2 { ($($f:ident),*) => { $(fn $f(self, o: Fx) -> Fx { Fx(<X as Real>::$f(self.0, o.0)) })* } }
impl Real for Fx {
    fwd0!(min_value, min_positive_value, epsilon, max_value);
    fwd1!(floor, ceil, round, trunc, fract, abs, signum, recip, sqrt, exp, exp2, ln, log2, log10, to_degrees, to_radians, cbrt, sin, cos, tan, asin, acos, atan, exp_m1, ln_1p, sinh, cosh, tanh, asinh, acosh, atanh);
    fwd2!(powf, log, max, min, abs_sub, hypot, atan2);
    fn is_sign_positive(self) -> bool { <X as Real>::is_sign_positive(self.0) }
    fn is_sign_negative(self) -> bool { <X as Real>::is_sign_negative(self.0) }
    fn mul_add(self, a: Fx, b: Fx) -> Fx { burn(); Fx(<X as Real>::mul_add(self.0, a.0, b.0)) }
    fn powi(self, n: i32) -> Fx { Fx(<X as Real>::powi(self.0, n)) }
    fn sin_cos(self) -> (Fx, Fx) { let (a, b) = <X as Real>::sin_cos(self.0); (Fx(a), Fx(b)) }
}
impl El for Fx {
    const NAME: &'static str = "X";
    const EXACT: bool = true;
    const EPS: f64 = 0.0;
    fn of_q(q: Q) -> Fx { Fx(X::R(q)) }
    fn to_q(self) -> Option<Q> { self.0.to_q() }
    fn of_q_scaled(q: Q, k: i32) -> Fx { Fx(X::of_q_scaled(q, k)) }
    fn unscaled(self, k: i32) -> Fx { Fx(self.0.unscaled(k)) }
    fn as_f64(self) -> f64 { self.0.shadow() }
}

// fuel-carrying floats: the same multiplication budget around the native float types, so that a search loop that
// never exits on floats (h = inf, NaN distances) is a verdict as well
macro_rules! fuel_float {
    ($F:ident, $f:ty, $name:literal) => {
        #[derive(Clone, Copy, PartialEq, PartialOrd)]
        struct $F($f);
        impl Debug for $F { fn fmt(&self, f: &mut std::fmt::Formatter) -> std::fmt::Result { Debug::fmt(&self.0, f) } }
        impl Add for $F { type Output = $F; fn add(self, o: $F) -> $F { $F(self.0 + o.0) } }
        impl Sub for $F { type Output = $F; fn sub(self, o: $F) -> $F { $F(self.0 - o.0) } }
        impl Mul for $F { type Output = $F; fn mul(self, o: $F) -> $F { burn(); $F(self.0 * o.0) } }
        impl Div for $F { type Output = $F; fn div(self, o: $F) -> $F { $F(self.0 / o.0) } }
        impl Rem for $F { type Output = $F; fn rem(self, o: $F) -> $F { $F(self.0 % o.0) } }
        impl Neg for $F { type Output = $F; fn neg(self) -> $F { $F(-self.0) } }
        impl From<u16> for $F { fn from(v: u16) -> $F { $F(<$f as From<u16>>::from(v)) } }
        impl Zero for $F { fn zero() -> $F { $F(0.0) } fn is_zero(&self) -> bool { self.0 == 0.0 } }
        impl One for $F { fn one() -> $F { $F(1.0) } }
        impl Num for $F { type FromStrRadixErr = (); fn from_str_radix(_: &str, _: u32) -> Result<$F, ()> { Err(()) } }
        impl ToPrimitive for $F { fn to_i64(&self) -> Option<i64> { self.0.to_i64() } fn to_u64(&self) -> Option<u64> { self.0.to_u64() } fn to_f64(&self) -> Option<f64> { ToPrimitive::to_f64(&self.0) } }
        impl NumCast for $F { fn from<N: ToPrimitive>(n: N) -> Option<$F> { <$f as NumCast>::from(n).map($F) } }
        impl Real for $F {
            fn min_value() -> $F { $F(<$f as Real>::min_value()) }
            fn min_positive_value() -> $F { $F(<$f as Real>::min_positive_value()) }
            fn epsilon() -> $F { $F(<$f as Real>::epsilon()) }
            fn max_value() -> $F { $F(<$f as Real>::max_value()) }
            fn floor(self) -> $F { $F(self.0.floor()) } fn ceil(self) -> $F { $F(self.0.ceil()) } fn round(self) -> $F { $F(self.0.round()) } fn trunc(self) -> $F { $F(self.0.trunc()) }
            fn fract(self) -> $F { $F(self.0.fract()) } fn abs(self) -> $F { $F(self.0.abs()) } fn signum(self) -> $F { $F(self.0.signum()) } fn recip(self) -> $F { $F(self.0.recip()) }
            fn sqrt(self) -> $F { $F(self.0.sqrt()) } fn exp(self) -> $F { $F(self.0.exp()) } fn exp2(self) -> $F { $F(self.0.exp2()) } fn ln(self) -> $F { $F(self.0.ln()) }
            fn log2(self) -> $F { $F(self.0.log2()) } fn log10(self) -> $F { $F(self.0.log10()) } fn to_degrees(self) -> $F { $F(self.0.to_degrees()) } fn to_radians(self) -> $F { $F(self.0.to_radians()) }
            fn cbrt(self) -> $F { $F(self.0.cbrt()) } fn sin(self) -> $F { $F(self.0.sin()) } fn cos(self) -> $F { $F(self.0.cos()) } fn tan(self) -> $F { $F(self.0.tan()) }
            fn asin(self) -> $F { $F(self.0.asin()) } fn acos(self) -> $F { $F(self.0.acos()) } fn atan(self) -> $F { $F(self.0.atan()) } fn exp_m1(self) -> $F { $F(self.0.exp_m1()) }
            fn ln_1p(self) -> $F { $F(self.0.ln_1p()) } fn sinh(self) -> $F { $F(self.0.sinh()) } fn cosh(self) -> $F { $F(self.0.cosh()) } fn tanh(self) -> $F { $F(self.0.tanh()) }
            fn asinh(self) -> $F { $F(self.0.asinh()) } fn acosh(self) -> $F { $F(self.0.acosh()) } fn atanh(self) -> $F { $F(self.0.atanh()) }
            fn powf(self, o: $F) -> $F { $F(self.0.powf(o.0)) } fn log(self, o: $F) -> $F { $F(self.0.log(o.0)) } fn max(self, o: $F) -> $F { $F(self.0.max(o.0)) } fn min(self, o: $F) -> $F { $F(self.0.min(o.0)) }
            fn abs_sub(self, o: $F) -> $F { $F((self.0 - o.0).max(0.0)) } fn hypot(self, o: $F) -> $F { $F(self.0.hypot(o.0)) } fn atan2(self, o: $F) -> $F { $F(self.0.atan2(o.0)) }
            fn is_sign_positive(self) -> bool { self.0.is_sign_positive() }
            fn is_sign_negative(self) -> bool { self.0.is_sign_negative() }
            fn mul_add(self, a: $F, b: $F) -> $F { burn(); $F(self.0.mul_add(a.0, b.0)) }
            fn powi(self, n: i32) -> $F { $F(self.0.powi(n)) }
            fn sin_cos(self) -> ($F, $F) { let (a, b) = self.0.sin_cos(); ($F(a), $F(b)) }
        }
        impl El for $F {
            const NAME: &'static str = $name;
            const EXACT: bool = false;
            const EPS: f64 = <$f as El>::EPS;
            fn of_q(q: Q) -> $F { $F(<$f as El>::of_q(q)) }
            fn to_q(self) -> Option<Q> { <$f as El>::to_q(self.0) }
            fn of_q_scaled(q: Q, k: i32) -> $F { $F(<$f as El>::of_q_scaled(q, k)) }
            fn unscaled(self, k: i32) -> $F { $F(<$f as El>::unscaled(self.0, k)) }
            fn as_f64(self) -> f64 { self.0 as f64 }
        }
    };
}
fuel_float!(Fd, f64, "f64");
fuel_float!(Fs, f32, "f32");
/// multiplications allowed per search call (the largest count seen on the unchanged tree is recorded in the evidence)
const FUEL_PER_SEARCH: i64 = 100_000;
/// after this many non-terminating calls in one sweep the remaining cases are skipped (and counted)
const MAX_HUNG: u64 = 64;
struct Budget { hung: AtomicU64, max_used: AtomicU64, skipped: AtomicU64, fuel: i64 }
impl Budget {
    fn new() -> Budget { Budget::with_fuel(FUEL_PER_SEARCH) }
    fn with_fuel(fuel: i64) -> Budget { Budget { hung: AtomicU64::new(0), max_used: AtomicU64::new(0), skipped: AtomicU64::new(0), fuel } }
    fn abandoned(&self) -> bool { if self.hung.load(Relaxed) >= MAX_HUNG { self.skipped.fetch_add(1, Relaxed); true } else { false } }
    fn run<R>(&self, s: &Section, site: &str, inp: &dyn Fn() -> Value, w: u64, f: impl FnOnce() -> R) -> Option<R> { self.run_c(s, site, "", inp, w, f) }
    /// `pre` prefixes the classes of the verdicts produced here ("" for the sweeps that existed first)
    fn run_c<R>(&self, s: &Section, site: &str, pre: &str, inp: &dyn Fn() -> Value, w: u64, f: impl FnOnce() -> R) -> Option<R> {
        FUEL.with(|c| c.set(self.fuel));
        let r = catch(f);
        let left = FUEL.with(|c| c.replace(i64::MAX));
        match r {
            Ok(v) => { self.max_used.fetch_max((self.fuel - left) as u64, Relaxed); Some(v) }
            Err(Caught::Unmodelled(why)) => { s.unmodelled(why); None }
            Err(Caught::Panic(m)) if m.contains(FUEL_MSG) => {
                self.hung.fetch_add(1, Relaxed);
                s.violation_w(site, &format!("{}does-not-terminate", pre), json!({"input": inp(), "multiplications_allowed": self.fuel}), w);
                None
            }
            Err(Caught::Panic(m)) => { s.violation_w(site, &format!("{}panic", pre), json!({"input": inp(), "panic": m}), w); None }
        }
    }
    fn meta(&self) -> Value { json!({"largest_multiplication_count_of_one_search": self.max_used.load(Relaxed), "allowed": self.fuel, "non_terminating_calls": self.hung.load(Relaxed), "cases_skipped_after_the_limit_of_non_terminating_calls": self.skipped.load(Relaxed)}) }
}

// ------------------------------------------------------------------------------------------------
// uniform access to the four curve types (struct literals in, public fields out)

fn p2<T: Copy>(p: &P<T>) -> Vec2<T> { Vec2 { x: p[0], y: p[1] } }
fn p3<T: Copy>(p: &P<T>) -> Vec3<T> { Vec3 { x: p[0], y: p[1], z: p[2] } }
fn d2<T: El>(v: Vec2<T>) -> P<T> { [v.x, v.y, T::zero()] }
fn d3<T: El>(v: Vec3<T>) -> P<T> { [v.x, v.y, v.z] }
fn oq<T>(o: Option<T>) -> Vec<T> { o.into_iter().collect() }
fn oc<T>(o: Option<(T, Option<T>)>) -> Vec<T> { match o { None => vec![], Some((a, None)) => vec![a], Some((a, Some(b))) => vec![a, b] } }

trait Bz<T: El>: Copy + Send + Sync {
    const NAME: &'static str;
    const D: usize;
    const K: usize;
    fn build(c: &[P<T>]) -> Self;
    fn infl(self, a: usize) -> Vec<T>;
    fn tmin(self, a: usize) -> T;
    fn tmax(self, a: usize) -> T;
    fn tbounds(self, a: usize) -> (T, T);
    fn rect(self) -> [[T; 2]; 2];
    fn boxx(self) -> Option<[[T; 3]; 2]>;
    fn search_steps(self, p: P<T>, steps: u16, eps: T) -> (T, P<T>);
    fn search(self, p: P<T>, coarse: Vec<(T, P<T>)>, h: T, eps: T) -> (T, P<T>);
    fn length(self, n: u16) -> T;
}
macro_rules! ax {
    (2, $c:expr, $a:expr, $fx:ident, $fy:ident, $fz:ident) => { match $a { 0 => $c.$fx(), 1 => $c.$fy(), _ => unreachable!() } };
    (3, $c:expr, $a:expr, $fx:ident, $fy:ident, $fz:ident) => { match $a { 0 => $c.$fx(), 1 => $c.$fy(), 2 => $c.$fz(), _ => unreachable!() } };
}
macro_rules! bb {
    (2, $c:expr) => { None };
    (3, $c:expr) => {{ let b = $c.aabb(); Some([[b.min.x, b.min.y, b.min.z], [b.max.x, b.max.y, b.max.z]]) }};
}
macro_rules! impl_bz {
    ($Ty:ident, $name:literal, $D:tt, $K:literal, $pt:ident, $dpt:ident, {$($fld:ident: $idx:literal),*}, $conv:ident, $ix:ident, $iy:ident, $iz:ident) => {
        impl<T: El> Bz<T> for $Ty<T> {
            const NAME: &'static str = $name;
            const D: usize = $D;
            const K: usize = $K;
            fn build(c: &[P<T>]) -> Self { $Ty { $($fld: $pt(&c[$idx])),* } }
            fn infl(self, a: usize) -> Vec<T> { $conv(ax!($D, self, a, $ix, $iy, $iz)) }
            fn tmin(self, a: usize) -> T { ax!($D, self, a, min_x, min_y, min_z) }
            fn tmax(self, a: usize) -> T { ax!($D, self, a, max_x, max_y, max_z) }
            fn tbounds(self, a: usize) -> (T, T) { ax!($D, self, a, x_bounds, y_bounds, z_bounds) }
            fn rect(self) -> [[T; 2]; 2] { let r = self.aabr(); [[r.min.x, r.min.y], [r.max.x, r.max.y]] }
            fn boxx(self) -> Option<[[T; 3]; 2]> { bb!($D, self) }
            fn search_steps(self, p: P<T>, steps: u16, eps: T) -> (T, P<T>) { let (t, q) = self.binary_search_point_by_steps($pt(&p), steps, eps); (t, $dpt(q)) }
            fn search(self, p: P<T>, coarse: Vec<(T, P<T>)>, h: T, eps: T) -> (T, P<T>) {
                let (t, q) = self.binary_search_point($pt(&p), coarse.into_iter().map(|(t, q)| (t, $pt(&q))), h, eps);
                (t, $dpt(q))
            }
            fn length(self, n: u16) -> T { self.length_by_discretization(n) }
        }
    };
}
impl_bz!(QuadraticBezier2, "QuadraticBezier2", 2, 3, p2, d2, {start: 0, ctrl: 1, end: 2}, oq, x_inflection, y_inflection, z_inflection);
impl_bz!(QuadraticBezier3, "QuadraticBezier3", 3, 3, p3, d3, {start: 0, ctrl: 1, end: 2}, oq, x_inflection, y_inflection, z_inflection);
impl_bz!(CubicBezier2, "CubicBezier2", 2, 4, p2, d2, {start: 0, ctrl0: 1, ctrl1: 2, end: 3}, oc, x_inflections, y_inflections, z_inflections);
impl_bz!(CubicBezier3, "CubicBezier3", 3, 4, p3, d3, {start: 0, ctrl0: 1, ctrl1: 2, end: 3}, oc, x_inflections, y_inflections, z_inflections);

const AXN: [&str; 3] = ["x", "y", "z"];

// ------------------------------------------------------------------------------------------------
// reference model over Q

fn casteljau(c: &[Q], t: Q) -> Q {
    let mut w = [Q::ZERO; 4];
    let n = c.len();
    w[..n].copy_from_slice(c);
    let u = Q::ONE.sub(t);
    for r in 1..n { for i in 0..n - r { w[i] = w[i].mul(u).add(w[i + 1].mul(t)); } }
    w[0]
}
/// derivative of the Bezier polynomial: n * Bezier(forward differences)
fn dcasteljau(c: &[Q], t: Q) -> Q {
    let n = c.len() - 1;
    let mut d = [Q::ZERO; 3];
    for i in 0..n { d[i] = c[i + 1].sub(c[i]); }
    casteljau(&d[..n], t).mul(Q::int(n as i128))
}
fn qabs(q: Q) -> Q { q.abs() }
fn jq(q: Q) -> Value { Value::String(format!("{:?}", q)) }
fn jqs(c: &[Q]) -> Value { Value::Array(c.iter().map(|q| jq(*q)).collect()) }

const GRID: i128 = 240;

/// Everything the oracle knows about one axis polynomial.
struct AxisRef {
    c: Vec<Q>,
    branch: &'static str,
    extra: Option<&'static str>,
    /// all stationary points are rational (or there is none): extrema over [0,1] known exactly
    rational: bool,
    lo: Option<Q>,
    hi: Option<Q>,
    /// f64 reference of the extrema (closed form, numerically stable root formula + Horner)
    lo_f: f64,
    hi_f: f64,
    /// exact extrema over the dense grid k/240
    glo: Q,
    ghi: Q,
    mag: f64,
    nonconst: bool,
    weight: u64,
    /// second audit: `c` = `base` + delta on the last control, with an integer `base` and a delta whose denominator is too large
    /// for the i128 rationals to carry through a de Casteljau evaluation at a parameter rounded to 2^-38 (float tiers only)
    pert: Option<(Vec<Q>, Q)>,
}
/// curve value of the reference at t: exact, except for a perturbed tuple, where the integer base is evaluated exactly and the
/// term delta * t^3 is added in f64 (two roundings of <= 2^-53 relative to M, far below every tolerance of the float tiers)
fn ref_value(r: &AxisRef, t: Q) -> Q {
    match &r.pert {
        None => casteljau(&r.c, t),
        Some((base, d)) => { let tf = t.to_f64(); Q::from_f64(casteljau(base, t).to_f64() + d.to_f64() * tf * tf * tf).expect("finite reference value") }
    }
}
/// derivative of the reference at t (same construction; the last control enters x' with 3 t^2)
fn ref_deriv(r: &AxisRef, t: Q) -> Q {
    match &r.pert {
        None => dcasteljau(&r.c, t),
        Some((base, d)) => { let tf = t.to_f64(); Q::from_f64(dcasteljau(base, t).to_f64() + 3.0 * d.to_f64() * tf * tf).expect("finite reference derivative") }
    }
}

fn where01(t: Q) -> u8 { if t > Q::ZERO && t < Q::ONE { 0 } else if t == Q::ZERO || t == Q::ONE { 1 } else { 2 } }

fn axis_ref(c: &[Q]) -> AxisRef {
    let k = c.len();
    let two = Q::int(2);
    let mut stat: Vec<Q> = Vec::new(); // rational stationary points (anywhere on the line)
    let mut irr: Vec<f64> = Vec::new(); // irrational stationary points (f64 reference)
    let mut extra = None;
    let branch: &'static str;
    if k == 3 {
        // x'(t)/2 = (c - s) + t (s - 2c + e)
        let dd = c[0].sub(c[1].mul(two)).add(c[2]);
        let num = c[0].sub(c[1]);
        if dd == Q::ZERO {
            branch = if num == Q::ZERO { "constant" } else { "derivative-constant-nonzero" };
        } else {
            let t = num.div(dd);
            stat.push(t);
            branch = ["stationary-inside", "stationary-at-endpoint", "stationary-outside"][where01(t) as usize];
        }
    } else {
        // x'(t)/3 = A t^2 + B t + C
        let three = Q::int(3);
        let a = c[3].sub(c[2].mul(three)).add(c[1].mul(three)).sub(c[0]);
        let b = c[2].sub(c[1].mul(two)).add(c[0]).mul(two);
        let cc = c[1].sub(c[0]);
        if a == Q::ZERO {
            if b == Q::ZERO {
                branch = if cc == Q::ZERO { "constant" } else { "derivative-constant-nonzero" };
            } else {
                let t = cc.neg().div(b);
                stat.push(t);
                branch = ["derivative-linear:root-inside", "derivative-linear:root-at-endpoint", "derivative-linear:root-outside"][where01(t) as usize];
            }
        } else {
            let disc = b.mul(b).sub(Q::int(4).mul(a).mul(cc));
            if disc < Q::ZERO {
                branch = "no-real-root";
            } else if disc == Q::ZERO {
                let t = b.neg().div(a.mul(two));
                stat.push(t);
                branch = ["double-root:inside", "double-root:at-endpoint", "double-root:outside"][where01(t) as usize];
            } else if let Some(sq) = disc.sqrt_exact() {
                let (r1, r2) = (b.neg().sub(sq).div(a.mul(two)), b.neg().add(sq).div(a.mul(two)));
                stat.push(r1);
                stat.push(r2);
                let ins = [r1, r2].iter().filter(|r| where01(**r) == 0).count();
                if [r1, r2].iter().any(|r| where01(*r) == 1) { extra = Some("two-roots:one-at-endpoint"); }
                branch = ["two-roots:none-inside", "two-roots:one-inside", "two-roots:both-inside"][ins];
            } else {
                // irrational: stable closed form in f64 (q = -(B + sgn(B) sqrt(disc))/2, roots q/A and C/q)
                let (af, bf, cf, df) = (a.to_f64(), b.to_f64(), cc.to_f64(), disc.to_f64());
                let qq = -0.5 * (bf + if bf >= 0.0 { df.sqrt() } else { -df.sqrt() });
                irr.push(qq / af);
                if qq != 0.0 { irr.push(cf / qq); }
                let ins = irr.iter().filter(|r| **r > 0.0 && **r < 1.0).count();
                branch = ["irrational-roots:none-inside", "irrational-roots:one-inside", "irrational-roots:both-inside"][ins];
            }
        }
    }
    let rational = irr.is_empty();
    // exact extrema over [0,1]: end points and rational stationary points inside
    let mut cand: Vec<Q> = vec![c[0], c[k - 1]];
    for t in &stat { if *t >= Q::ZERO && *t <= Q::ONE { cand.push(casteljau(c, *t)); } }
    let (mut lo, mut hi) = (cand[0], cand[0]);
    for v in &cand { if *v < lo { lo = *v; } if *v > hi { hi = *v; } }
    // f64 reference (Horner on the power basis) for the irrational case
    let (mut lo_f, mut hi_f) = (lo.to_f64(), hi.to_f64());
    if !rational {
        let cf: Vec<f64> = c.iter().map(|q| q.to_f64()).collect();
        let (a0, a1, a2, a3) = (cf[0], 3.0 * (cf[1] - cf[0]), 3.0 * (cf[2] - 2.0 * cf[1] + cf[0]), cf[3] - 3.0 * cf[2] + 3.0 * cf[1] - cf[0]);
        for r in &irr { if *r > 0.0 && *r < 1.0 { let v = ((a3 * r + a2) * r + a1) * r + a0; lo_f = lo_f.min(v); hi_f = hi_f.max(v); } }
    }
    // dense grid
    let (mut glo, mut ghi) = (c[0], c[0]);
    for i in 0..=GRID { let v = casteljau(c, Q::new(i, GRID)); if v < glo { glo = v; } if v > ghi { ghi = v; } }
    // self-check of the reference model: the exact extrema bound the grid
    if rational { assert!(lo <= glo && hi >= ghi, "reference model inconsistent for {:?}", c); }
    let mag = c.iter().map(|q| q.abs().to_f64()).fold(0.0, f64::max);
    AxisRef {
        c: c.to_vec(), branch, extra, rational, lo: if rational { Some(lo) } else { None }, hi: if rational { Some(hi) } else { None }, lo_f, hi_f, glo, ghi, mag,
        nonconst: c.iter().any(|q| *q != c[0]), weight: 0, pert: None,
    }
}

/// constructed quadruples for branches the small alphabet cannot reach (double root of the derivative outside [0,1]:
/// x' = 3 (t+1)^2, 3 (t-2)^2 and mirror images)
const EXTRA_CUBIC: &[[i64; 4]] = &[[0, 1, 3, 7], [0, 4, 6, 7], [7, 6, 4, 0], [0, -1, -3, -7]];

/// all K-tuples over {-r..r} (lexicographic) plus the constructed extras
fn axis_refs(k: usize, r: i64) -> Vec<AxisRef> {
    let alph: Vec<i64> = (-r..=r).collect();
    axis_refs_over(k, &alph, r)
}
/// the same over any integer alphabet (`r`: constructed extras with an entry beyond it are appended)
fn axis_refs_over(k: usize, alph: &[i64], r: i64) -> Vec<AxisRef> {
    let mut tu: Vec<Vec<i64>> = Vec::new();
    vx::lattice::tuples(alph, k, |t| tu.push(t.to_vec()));
    if k == 4 { for e in EXTRA_CUBIC { if e.iter().any(|v| v.abs() > r) { tu.push(e.to_vec()); } } }
    tu.par_iter().map(|t| {
        let c: Vec<Q> = t.iter().map(|v| Q::int(*v as i128)).collect();
        let mut a = axis_ref(&c);
        a.weight = t.iter().map(|v| v.unsigned_abs()).sum();
        a
    }).collect()
}
fn gcd(a: usize, b: usize) -> usize { if b == 0 { a } else { gcd(b, a % b) } }
/// multiplier >= start that is coprime to n (so i -> (i*m + o) mod n is a bijection)
fn coprime(n: usize, start: usize) -> usize { let mut m = start; while gcd(m, n) != 1 { m += 1; } m }

/// tolerance of the f64 tier: 256 eps * (32 M) forward bound of the few dozen roundings in vek's root formula /
/// evaluate, plus the Lipschitz term of rounding the returned parameter to 2^-38 before the exact evaluation
/// (|x'| <= 6 M, |x''| <= 24 M on [0,1]).  Unused (exact comparisons) in the exact tier.
fn tol<T: El>(mag: f64, lips: f64) -> f64 {
    if T::EXACT { return 0.0; }
    256.0 * T::EPS * 32.0 * mag + lips * mag / (1u64 << 39) as f64
}
/// parameter used for the exact evaluation: itself (exact tier) or rounded to a multiple of 2^-38 (f64 tier)
fn evalt<T: El>(tq: Q) -> Q {
    if T::EXACT { return tq; }
    let s = 1i128 << 38;
    Q::new((tq.to_f64() * s as f64).round() as i128, s)
}
/// a > b (+ tol in the f64 tier, where both exact values are compared after conversion: 2 further roundings << tol)
fn exceeds<T: El>(a: Q, b: Q, tol: f64) -> bool { if T::EXACT { a > b } else { a.to_f64() - b.to_f64() > tol } }
/// -1: got < want - tol, +1: got > want + tol, 0 within
fn cmp_tol<T: El>(got: Q, want: Option<Q>, want_f: f64, tol: f64) -> i32 {
    match want {
        Some(w) => if exceeds::<T>(got, w, tol) { 1 } else if exceeds::<T>(w, got, tol) { -1 } else { 0 },
        None => { let d = got.to_f64() - want_f; if d > tol { 1 } else if d < -tol { -1 } else { 0 } }
    }
}

struct Sites { infl: String, min: String, max: String, bounds: String }
fn sites<T: El, B: Bz<T>>() -> Vec<Sites> {
    (0..B::D).map(|a| Sites {
        infl: format!("{}::{}_inflection{}", B::NAME, AXN[a], if B::K == 4 { "s" } else { "" }),
        min: format!("{}::min_{}", B::NAME, AXN[a]), max: format!("{}::max_{}", B::NAME, AXN[a]), bounds: format!("{}::{}_bounds", B::NAME, AXN[a]),
    }).collect()
}

type Cls = BTreeMap<&'static str, u64>;
fn bump(c: &mut Cls, k: &'static str) { *c.entry(k).or_insert(0) += 1; }
fn flush(s: &Section, c: Cls) { for (k, n) in c { s.class_n(k, n); } }

/// one extremum parameter against the reference.  `pre` prefixes the class ("" / "min-" / "small-scale:" ...)
/// `xt`: additional tolerance (0 everywhere except in the shifted float sweeps, where vek's own evaluate() carries the offset)
#[allow(clippy::too_many_arguments)]
fn check_extremum<T: El>(s: &Section, site: &str, func: &str, pre: &str, xt: f64, is_min: bool, t: T, r: &AxisRef, inp: &dyn Fn() -> Value, w: u64, cls: &mut Cls) {
    let what = if is_min { "minimum" } else { "maximum" };
    let Some(tq) = t.to_q() else { s.violation_w(site, &format!("{}non-finite-parameter", pre), json!({"input": inp(), "function": func, "t": jd(&t)}), w); return; };
    if tq < Q::ZERO || tq > Q::ONE {
        s.violation_w(site, &format!("{}parameter-outside-unit-interval", pre), json!({"input": inp(), "function": func, "axis_controls": jqs(&r.c), "returned_t": jq(tq), "branch": r.branch}), w);
        return;
    }
    bump(cls, if tq == Q::ZERO { if is_min { "min-at-start" } else { "max-at-start" } } else if tq == Q::ONE { if is_min { "min-at-end" } else { "max-at-end" } } else if is_min { "min-interior" } else { "max-interior" });
    let xq = ref_value(r, evalt::<T>(tq));
    let tl = tol::<T>(r.mag, 6.0) + xt;
    let (want, want_f, grid) = if is_min { (r.lo, r.lo_f, r.glo) } else { (r.hi, r.hi_f, r.ghi) };
    // (1) some point of the dense grid is smaller (larger) than the curve is at the returned parameter
    let beaten = if is_min { exceeds::<T>(xq, grid, tl) } else { exceeds::<T>(grid, xq, tl) };
    // (2) the value there is the extremum over [0,1]
    let off = cmp_tol::<T>(xq, want, want_f, tl) != 0;
    if beaten || off {
        if let Some((_, d)) = &r.pert { bump(cls, delta_label(*d, true)); }
        s.violation_w(site, &format!("{}not-the-{}", pre, what), json!({"input": inp(), "function": func, "axis_controls": jqs(&r.c), "returned_t": jq(tq), "curve_there": jq(xq),
            format!("{}_over_unit_interval", what): want.map(jq).unwrap_or(json!(want_f)), format!("grid_{}", what): jq(grid), "beaten_by_grid_point": beaten, "branch": r.branch}), w);
    }
}

/// how the reference tuples are handed to vek
#[derive(Clone, Copy)]
enum Mode {
    /// controls as they are; everything asserted
    Plain,
    /// controls multiplied by a tiny factor: the absolute-epsilon regime of the known finding.  The functions asserted here return
    /// parameters only, which do not change under scaling, so the oracle stays in unscaled units.
    Small(Q),
    /// controls multiplied by 2^k (exact in every element type); everything is asserted (classes prefixed `scaled:`): parameters are
    /// scale-invariant, box coordinates are multiplied by 2^-k (exact) before the comparison with the unscaled reference
    Scaled(i32),
    /// second audit: 2^k added to every control (exact in every element type): the curve keeps its shape far from the origin.  Parameters
    /// are translation-invariant; box coordinates have 2^k subtracted (exact) before the comparison.  Classes prefixed `shifted:`.
    /// `Shifted(k, negative)`: the offset is -2^k if `negative`.
    Shifted(i32, bool),
    /// second audit: controls multiplied by the tiny factor and moved to the offset (exact type only): values that are nearly equal
    /// *relative to their size*.  Asserted like `Small` (same sites and classes: same absolute-epsilon regime).
    SmallAt(Q, Q),
    /// second audit: controls as they are, sites per type (as in `Small`) and classes prefixed with the tag
    Tagged(&'static str),
}
impl Mode {
    fn tag(self) -> String {
        match self {
            Mode::Plain | Mode::Small(_) => String::new(), Mode::Scaled(k) => format!(" x 2^{}", k), Mode::Shifted(k, n) => format!(" {} 2^{}", if n { "-" } else { "+" }, k),
            Mode::SmallAt(f, o) => format!(" x {:?} + {:?}", f, o), Mode::Tagged(t) => format!(" [{}]", t),
        }
    }
}

/// all per-axis functions and the boxes of one curve
fn check_curve<T: El, B: Bz<T>>(s: &Section, st: &[Sites], refs: &[&AxisRef], mode: Mode, cls: &mut Cls) {
    let k = B::K;
    let small = matches!(mode, Mode::Small(_) | Mode::SmallAt(..));
    let per_type = small || matches!(mode, Mode::Tagged(_));
    let mut pts: Vec<P<T>> = vec![[T::zero(); 3]; k];
    for a in 0..B::D { for i in 0..k {
        pts[i][a] = match mode {
            Mode::Plain | Mode::Tagged(_) => T::of_q(refs[a].c[i]), Mode::Small(f) => T::of_q(refs[a].c[i].mul(f)), Mode::Scaled(e) => T::of_q_scaled(refs[a].c[i], e),
            Mode::Shifted(e, n) => T::of_q(refs[a].c[i].add(if n { pow2q(e).neg() } else { pow2q(e) })), Mode::SmallAt(f, o) => T::of_q(refs[a].c[i].mul(f).add(o)),
        };
    } }
    let unsc = |v: T| match mode {
        Mode::Scaled(e) => v.unscaled(e), Mode::Small(f) => v * T::of_q(f.recip()), Mode::Plain | Mode::Tagged(_) => v,
        Mode::Shifted(e, n) => v - T::of_q(if n { pow2q(e).neg() } else { pow2q(e) }), Mode::SmallAt(f, o) => (v - T::of_q(o)) * T::of_q(f.recip()),
    };
    // shifted float sweeps: vek decides min/max and fills the boxes with its own evaluate() at coordinates of size 2^e + M; one
    // evaluation is a sum of <= 4 products of <= 6 factors with weights summing to 1 on [0,1]: forward error <= 16 eps (2^e + M).
    // A decision between two such values can be off by twice that, a box coordinate once more: 3 * 16 eps (2^e + M) on top.
    let xt = |r: &AxisRef| -> f64 { match mode { Mode::Shifted(e, _) if !T::EXACT => 48.0 * T::EPS * (pow2f(e) + r.mag), _ => 0.0 } };
    let cur = B::build(&pts);
    let w: u64 = refs.iter().map(|r| r.weight).sum();
    let inp = || match mode {
        Mode::Small(f) => json!({"type": B::NAME, "elem": T::NAME, "controls_per_axis": refs.iter().map(|r| jqs(&r.c)).collect::<Vec<_>>(), "every_control_multiplied_by": jq(f)}),
        Mode::Scaled(e) => json!({"type": B::NAME, "elem": T::NAME, "controls_per_axis": refs.iter().map(|r| jqs(&r.c)).collect::<Vec<_>>(), "every_control_multiplied_by": format!("2^{}", e)}),
        Mode::Shifted(e, n) => json!({"type": B::NAME, "elem": T::NAME, "controls_per_axis": refs.iter().map(|r| jqs(&r.c)).collect::<Vec<_>>(), "every_control_increased_by": format!("{}2^{}", if n { "-" } else { "" }, e)}),
        Mode::SmallAt(f, o) => json!({"type": B::NAME, "elem": T::NAME, "controls_per_axis": refs.iter().map(|r| jqs(&r.c)).collect::<Vec<_>>(), "every_control_multiplied_by": jq(f), "then_increased_by": jq(o)}),
        Mode::Plain | Mode::Tagged(_) => json!({"type": B::NAME, "elem": T::NAME, "controls_per_axis": refs.iter().map(|r| jqs(&r.c)).collect::<Vec<_>>()}),
    };
    let pre = match mode { Mode::Plain => "", Mode::Small(_) | Mode::SmallAt(..) => "small-scale:", Mode::Scaled(_) => "scaled:", Mode::Shifted(..) => "shifted:", Mode::Tagged(t) => t };
    // axes whose extent over [0,1] is spanned by the two end points (no stationary point needed)
    let ends: Vec<bool> = refs.iter().map(|r| {
        let (e_lo, e_hi) = (r.c[0].min(r.c[k - 1]), r.c[0].max(r.c[k - 1]));
        (match r.lo { Some(l) => l == e_lo, None => r.lo_f == e_lo.to_f64() }) && (match r.hi { Some(h) => h == e_hi, None => r.hi_f == e_hi.to_f64() })
    }).collect();
    for a in 0..B::D {
        let r = refs[a];
        bump(cls, r.branch);
        if let Some(e) = r.extra { bump(cls, e); }
        // ---- inflections: reported parameters are zeros of the derivative inside [0,1]
        // (small-scale findings are keyed per type, not per axis: one absolute-epsilon cause)
        {
            let isite = if per_type { format!("{}::*_inflection{}", B::NAME, if B::K == 4 { "s" } else { "" }) } else { st[a].infl.clone() };
            s.eval(r.nonconst);
            if let Some(ts) = s.call(&st[a].infl, &inp, || cur.infl(a)) {
                bump(cls, ["reported-0-inflections", "reported-1-inflection", "reported-2-inflections"][ts.len()]);
                for t in ts {
                    let Some(tq) = t.to_q() else { s.violation_w(&isite, &format!("{}non-finite-parameter", pre), json!({"input": inp(), "function": st[a].infl, "t": jd(&t)}), w); continue; };
                    if tq < Q::ZERO || tq > Q::ONE {
                        s.violation_w(&isite, &format!("{}parameter-outside-unit-interval", pre), json!({"input": inp(), "function": st[a].infl, "axis_controls": jqs(&r.c), "reported_t": jq(tq), "branch": r.branch}), w);
                        continue;
                    }
                    let dq = ref_deriv(r, evalt::<T>(tq));
                    if exceeds::<T>(qabs(dq), Q::ZERO, tol::<T>(r.mag, 24.0)) {
                        s.violation_w(&isite, &format!("{}not-a-zero-of-the-derivative", pre), json!({"input": inp(), "function": st[a].infl, "axis_controls": jqs(&r.c), "reported_t": jq(tq), "derivative_there": jq(dq), "branch": r.branch}), w);
                    } else if small && r.nonconst { bump(cls, "small-scale:reported-inflection-is-a-zero"); }
                }
            }
        }
        // ---- min / max / bounds
        // (small-scale findings are keyed per type, not per axis: one absolute-epsilon cause; the function is in the detail.
        //  Where the extremum over [0,1] is attained at an end point no stationary point is needed to find it: those cases get
        //  their own class prefix, so that a failure there is not taken for the known interior-extremum finding.)
        let (smin, smax) = if per_type { (format!("{}::min_*", B::NAME), format!("{}::max_*", B::NAME)) } else { (st[a].min.clone(), st[a].max.clone()) };
        let sbounds = if per_type { format!("{}::*_bounds", B::NAME) } else { st[a].bounds.clone() };
        let (e_lo, e_hi) = (r.c[0].min(r.c[k - 1]), r.c[0].max(r.c[k - 1]));
        let min_at_end = match r.lo { Some(l) => l == e_lo, None => r.lo_f == e_lo.to_f64() };
        let max_at_end = match r.hi { Some(h) => h == e_hi, None => r.hi_f == e_hi.to_f64() };
        let pre_min = if small && min_at_end { "small-scale:end-point-extremum:" } else { pre };
        let pre_max = if small && max_at_end { "small-scale:end-point-extremum:" } else { pre };
        if small { bump(cls, if min_at_end { "small-scale:minimum-at-an-end-point" } else { "small-scale:minimum-interior" }); }
        s.eval(r.nonconst);
        if let Some(t) = s.call(&st[a].min, &inp, || cur.tmin(a)) { check_extremum(s, &smin, &st[a].min, pre_min, xt(r), true, t, r, &inp, w, cls); }
        s.eval(r.nonconst);
        if let Some(t) = s.call(&st[a].max, &inp, || cur.tmax(a)) { check_extremum(s, &smax, &st[a].max, pre_max, xt(r), false, t, r, &inp, w, cls); }
        if small { continue; }
        s.eval(r.nonconst);
        if let Some((t0, t1)) = s.call(&st[a].bounds, &inp, || cur.tbounds(a)) {
            let mut sink = Cls::new();
            check_extremum(s, &sbounds, &st[a].bounds, &format!("{}min-", pre), xt(r), true, t0, r, &inp, w, &mut sink);
            check_extremum(s, &sbounds, &st[a].bounds, &format!("{}max-", pre), xt(r), false, t1, r, &inp, w, &mut sink);
        }
    }
    // ---- boxes: in curve coordinates, contain the curve, touch it on each side
    // (small scale: only boxes all of whose sides are end-point coordinates, under the end-point class prefix; the others
    //  inherit the known interior-extremum finding of min_*/max_* and are not asserted)
    let bpre = if small { "small-scale:end-point-extremum:" } else { pre };
    let check_box = |site: &str, got: &[Vec<T>; 2], nax: usize, cls: &mut Cls| {
        if small { if (0..nax).all(|a| ends[a]) { bump(cls, "small-scale:box-spanned-by-end-points(asserted)"); } else { return; } }
        let pre = bpre;
        s.eval((0..nax).all(|a| refs[a].nonconst));
        let (mut outside, mut loose) = (Vec::new(), Vec::new());
        let mut bad = false;
        for a in 0..nax {
            let r = refs[a];
            let tl = tol::<T>(r.mag, 0.0) + xt(r);
            let (Some(gmin), Some(gmax)) = (unsc(got[0][a]).to_q(), unsc(got[1][a]).to_q()) else { bad = true; continue; };
            // contains every curve point: the extreme points (exact) and every grid point
            let cmin = cmp_tol::<T>(gmin, r.lo, r.lo_f, tl);
            let cmax = cmp_tol::<T>(gmax, r.hi, r.hi_f, tl);
            if cmin > 0 || exceeds::<T>(gmin, r.glo, tl) { outside.push(format!("min.{}", AXN[a])); } else if cmin < 0 { loose.push(format!("min.{}", AXN[a])); }
            if cmax < 0 || exceeds::<T>(r.ghi, gmax, tl) { outside.push(format!("max.{}", AXN[a])); } else if cmax > 0 { loose.push(format!("max.{}", AXN[a])); }
        }
        let det = |sides: &Vec<String>| json!({"input": inp(), "box": {"min": got[0].iter().map(|v| jd(v)).collect::<Vec<_>>(), "max": got[1].iter().map(|v| jd(v)).collect::<Vec<_>>()},
            "curve_extent": {"min": (0..nax).map(|a| refs[a].lo.map(jq).unwrap_or(json!(refs[a].lo_f))).collect::<Vec<_>>(), "max": (0..nax).map(|a| refs[a].hi.map(jq).unwrap_or(json!(refs[a].hi_f))).collect::<Vec<_>>()},
            "failing_sides": sides});
        if bad { s.violation_w(site, &format!("{}non-finite-box", pre), det(&Vec::new()), w); }
        if !outside.is_empty() { s.violation_w(site, &format!("{}curve-point-outside-box", pre), det(&outside), w); }
        if !loose.is_empty() { s.violation_w(site, &format!("{}box-side-not-touching-curve", pre), det(&loose), w); }
        if !bad && outside.is_empty() && loose.is_empty() { bump(cls, "box-is-the-curve-extent"); }
        let ext = (0..nax).filter(|&a| refs[a].lo != Some(refs[a].c[0].min(refs[a].c[k - 1])) || refs[a].hi != Some(refs[a].c[0].max(refs[a].c[k - 1]))).count();
        bump(cls, if ext > 0 { "box-extends-beyond-end-points" } else { "box-spanned-by-end-points" });
    };
    let site_r = format!("{}::aabr", B::NAME);
    if let Some(g) = s.call(&site_r, &inp, || cur.rect()) { check_box(&site_r, &[g[0].to_vec(), g[1].to_vec()], 2, cls); }
    if B::D == 3 {
        let site_b = format!("{}::aabb", B::NAME);
        if let Some(Some(g)) = s.call(&site_b, &inp, || cur.boxx()) { check_box(&site_b, &[g[0].to_vec(), g[1].to_vec()], 3, cls); }
    }
}

/// Every tuple of `pool` on every axis: curve i has pool[i] on x, pool[(i*m1+o1) mod n] on y, pool[(i*m2+o2) mod n] on z.
fn axis_sweep<T: El, B: Bz<T>>(s: &Section, pool: &[&AxisRef], scale: Mode) {
    let n = pool.len();
    let (m1, m2) = (coprime(n, 100), coprime(n, 1009));
    let st = sites::<T, B>();
    (0..n).into_par_iter().for_each(|i| {
        let refs: Vec<&AxisRef> = vec![pool[i], pool[(i * m1 + 3) % n], pool[(i * m2 + 7) % n]];
        let mut cls = Cls::new();
        check_curve::<T, B>(s, &st, &refs[..B::D], scale, &mut cls);
        if s.wants_sample() && refs[..B::D].iter().all(|r| r.nonconst && (r.branch.contains("inside"))) {
            s.sample(json!({"type": B::NAME, "elem": T::NAME, "controls_per_axis": refs[..B::D].iter().map(|r| jqs(&r.c)).collect::<Vec<_>>(),
                "exact_extent": refs[..B::D].iter().map(|r| json!([r.lo.map(jq).unwrap_or(json!(r.lo_f)), r.hi.map(jq).unwrap_or(json!(r.hi_f))])).collect::<Vec<_>>(),
                "branches": refs[..B::D].iter().map(|r| r.branch).collect::<Vec<_>>()}));
        }
        flush(s, cls);
    });
    s.meta(&format!("{}<{}>{}", B::NAME, T::NAME, scale.tag()), json!({"curves": n, "axis_bijections": format!("y: i*{}+3 mod {}, z: i*{}+7 mod {}", m1, n, m2, n)}));
}

const QUAD_BRANCHES: &[&str] = &["constant", "derivative-constant-nonzero", "stationary-inside", "stationary-at-endpoint", "stationary-outside"];
const CUBIC_RATIONAL_BRANCHES: &[&str] = &["constant", "derivative-constant-nonzero", "derivative-linear:root-inside", "derivative-linear:root-at-endpoint", "derivative-linear:root-outside",
    "no-real-root", "double-root:inside", "double-root:at-endpoint", "double-root:outside", "two-roots:none-inside", "two-roots:one-inside", "two-roots:both-inside", "two-roots:one-at-endpoint"];
const CUBIC_IRRATIONAL_BRANCHES: &[&str] = &["irrational-roots:none-inside", "irrational-roots:one-inside", "irrational-roots:both-inside"];
const VERDICTS: &[&str] = &["min-at-start", "min-at-end", "min-interior", "max-at-start", "max-at-end", "max-interior"];

// ------------------------------------------------------------------------------------------------
// closest-point search (exact tier; the search only multiplies, adds and compares)

fn dist2(a: &[Q; 3], b: &[Q; 3]) -> Q { let mut s = Q::ZERO; for i in 0..3 { let d = a[i].sub(b[i]); s = s.add(d.mul(d)); } s }

struct SearchCurve { ctrl: Vec<[i64; 3]> }
fn grid_points(d: usize, vals: &[i64]) -> Vec<[i64; 3]> {
    let mut out = Vec::new();
    vx::lattice::tuples(vals, d, |t| { let mut p = [0i64; 3]; p[..d].copy_from_slice(t); out.push(p); });
    out
}
/// all curves with K control points from `pts`
fn curves_from(k: usize, pts: &[[i64; 3]], fixed_start: bool, fixed_end: bool) -> Vec<SearchCurve> {
    let idx: Vec<usize> = (0..pts.len()).collect();
    let mut out = Vec::new();
    vx::lattice::tuples(&idx, k, |t| {
        if fixed_start && t[0] != 0 { return; }
        if fixed_end && t[k - 1] != pts.len() - 1 { return; }
        out.push(SearchCurve { ctrl: t.iter().map(|&i| pts[i]).collect() });
    });
    out
}

struct RefCurve { ax: Vec<Vec<Q>>, d: usize }
impl RefCurve {
    fn new(ctrl: &[[i64; 3]], d: usize) -> RefCurve { RefCurve { ax: (0..3).map(|a| ctrl.iter().map(|p| Q::int(p[a] as i128)).collect()).collect(), d } }
    fn at(&self, t: Q) -> [Q; 3] { let mut p = [Q::ZERO; 3]; for a in 0..self.d { p[a] = casteljau(&self.ax[a], t); } p }
    fn end(&self) -> [Q; 3] { let mut p = [Q::ZERO; 3]; for a in 0..self.d { p[a] = *self.ax[a].last().unwrap(); } p }
}
fn xp(p: &[Q; 3]) -> P<Fx> { [Fx(X::R(p[0])), Fx(X::R(p[1])), Fx(X::R(p[2]))] }
fn jpt(p: &[Q; 3], d: usize) -> Value { jqs(&p[..d]) }

fn check_search_result(s: &Section, site: &str, rc: &RefCurve, got: (Fx, P<Fx>), pq: &[Q; 3], best_coarse: Option<Q>, d_end: Q, inp: &dyn Fn() -> Value, w: u64, cls: &mut Cls) {
    let (t, pt) = got;
    let (Some(tq), Some(a), Some(b), Some(c)) = (t.to_q(), pt[0].to_q(), pt[1].to_q(), pt[2].to_q()) else { s.violation_w(site, "non-rational-result", json!({"input": inp()}), w); return; };
    let ptq = [a, b, c];
    let want = rc.at(tq);
    if ptq[..rc.d] != want[..rc.d] {
        s.violation_w(site, "point-is-not-the-curve-at-the-returned-parameter", json!({"input": inp(), "returned_t": jq(tq), "returned_point": jpt(&ptq, rc.d), "curve_at_t": jpt(&want, rc.d)}), w);
    }
    let d = dist2(&ptq, pq);
    if d > d_end { s.violation_w(site, "farther-than-the-end-point", json!({"input": inp(), "returned_t": jq(tq), "returned_point": jpt(&ptq, rc.d), "dist2": jq(d), "dist2_of_end": jq(d_end)}), w); }
    if let Some(bc) = best_coarse {
        if d > bc { s.violation_w(site, "farther-than-a-coarse-sample", json!({"input": inp(), "returned_t": jq(tq), "returned_point": jpt(&ptq, rc.d), "dist2": jq(d), "dist2_of_best_coarse_sample": jq(bc)}), w); }
    }
    let best0 = best_coarse.map_or(d_end, |b| b.min(d_end));
    bump(cls, if d < best0 { "refinement-improved" } else if best_coarse.map_or(true, |b| d_end <= b) { "stayed-at-end-point" } else { "stayed-at-coarse-sample" });
    if tq > Q::ONE || tq < Q::ZERO { bump(cls, "returned-parameter-outside-unit-interval(not-asserted)"); }
    if d == Q::ZERO { bump(cls, "query-on-curve-found-exactly"); }
}

fn search_sweep<B: Bz<Fx>>(s: &Section, curves: &[SearchCurve], queries: &[[i64; 3]], steps: &[u16], eps: Q) {
    let site = format!("{}::binary_search_point_by_steps", B::NAME);
    let bud = Budget::new();
    curves.par_iter().for_each(|cv| {
        let rc = RefCurve::new(&cv.ctrl, B::D);
        let pts: Vec<P<Fx>> = cv.ctrl.iter().map(|p| [Fx(qi(p[0] as i128)), Fx(qi(p[1] as i128)), Fx(qi(p[2] as i128))]).collect();
        let cur = B::build(&pts);
        let nontrivial = cv.ctrl.iter().any(|p| *p != cv.ctrl[0]);
        let coarse: Vec<Vec<[Q; 3]>> = steps.iter().map(|&st| (0..st).map(|i| rc.at(Q::new(i as i128, st as i128))).collect()).collect();
        let endp = rc.end();
        let wc: u64 = cv.ctrl.iter().flatten().map(|v| v.unsigned_abs()).sum();
        let mut cls = Cls::new();
        for p in queries {
            let pq = [Q::int(p[0] as i128), Q::int(p[1] as i128), Q::int(p[2] as i128)];
            let w = wc + p.iter().map(|v| v.unsigned_abs()).sum::<u64>();
            let d_end = dist2(&endp, &pq);
            for (si, &stp) in steps.iter().enumerate() {
                let inp = || json!({"type": B::NAME, "controls": cv.ctrl.iter().map(|c| c[..B::D].to_vec()).collect::<Vec<_>>(), "query": p[..B::D].to_vec(), "steps": stp, "epsilon": jq(eps)});
                if bud.abandoned() { continue; }
                s.eval(nontrivial);
                let best = coarse[si].iter().map(|c| dist2(c, &pq)).min();
                if let Some(got) = bud.run(s, &site, &inp, w, || cur.search_steps(xp(&pq), stp, Fx(X::R(eps)))) {
                    check_search_result(s, &site, &rc, got, &pq, best, d_end, &inp, w, &mut cls);
                    if nontrivial && s.wants_sample() && got.0 != Fx(qi(1)) && got.0 != Fx(qi(0)) { s.sample(json!({"input": inp(), "returned_t": jd(&got.0), "returned_point": jd(&&got.1[..B::D]), "dist2_end": jq(d_end), "dist2_best_coarse": best.map(jq)})); }
                }
            }
        }
        flush(s, cls);
    });
    s.meta(B::NAME, json!({"curves": curves.len(), "queries": queries.len(), "steps": steps, "epsilon": jq(eps), "budget": bud.meta()}));
}

/// the general entry point with caller-supplied coarse pairs (consistent with the curve) and half interval
fn search_direct<B: Bz<Fx>>(s: &Section, curves: &[SearchCurve], queries: &[[i64; 3]], eps: Q) {
    let site = format!("{}::binary_search_point", B::NAME);
    let coarse_ts: [(&'static str, Vec<Q>); 3] = [("coarse-empty", vec![]), ("coarse-single", vec![Q::new(1, 2)]), ("coarse-uneven", vec![Q::ZERO, Q::new(1, 3), Q::new(2, 3)])];
    let halves = [Q::new(1, 2), Q::new(1, 8)];
    let bud = Budget::new();
    curves.par_iter().for_each(|cv| {
        let rc = RefCurve::new(&cv.ctrl, B::D);
        let pts: Vec<P<Fx>> = cv.ctrl.iter().map(|p| [Fx(qi(p[0] as i128)), Fx(qi(p[1] as i128)), Fx(qi(p[2] as i128))]).collect();
        let cur = B::build(&pts);
        let nontrivial = cv.ctrl.iter().any(|p| *p != cv.ctrl[0]);
        let endp = rc.end();
        let wc: u64 = cv.ctrl.iter().flatten().map(|v| v.unsigned_abs()).sum();
        let mut cls = Cls::new();
        for p in queries {
            let pq = [Q::int(p[0] as i128), Q::int(p[1] as i128), Q::int(p[2] as i128)];
            let w = wc + p.iter().map(|v| v.unsigned_abs()).sum::<u64>();
            let d_end = dist2(&endp, &pq);
            for (cname, ts) in &coarse_ts {
                let cp: Vec<(Q, [Q; 3])> = ts.iter().map(|t| (*t, rc.at(*t))).collect();
                let best = cp.iter().map(|c| dist2(&c.1, &pq)).min();
                for h in halves {
                    let inp = || json!({"type": B::NAME, "controls": cv.ctrl.iter().map(|c| c[..B::D].to_vec()).collect::<Vec<_>>(), "query": p[..B::D].to_vec(),
                        "coarse_parameters": jqs(ts), "half_interval": jq(h), "epsilon": jq(eps)});
                    if bud.abandoned() { continue; }
                    s.eval(nontrivial);
                    bump(&mut cls, cname);
                    let cx: Vec<(Fx, P<Fx>)> = cp.iter().map(|(t, q)| (Fx(X::R(*t)), xp(q))).collect();
                    if let Some(got) = bud.run(s, &site, &inp, w, || cur.search(xp(&pq), cx, Fx(X::R(h)), Fx(X::R(eps)))) {
                        check_search_result(s, &site, &rc, got, &pq, best, d_end, &inp, w, &mut cls);
                    }
                }
            }
        }
        flush(s, cls);
    });
    s.meta(B::NAME, json!({"curves": curves.len(), "queries": queries.len(), "coarse_sets": 3, "half_intervals": ["1/2", "1/8"], "epsilon": jq(eps), "budget": bud.meta()}));
}

const SEARCH_CLASSES: &[&str] = &["refinement-improved", "stayed-at-end-point", "stayed-at-coarse-sample", "query-on-curve-found-exactly"];

// ------------------------------------------------------------------------------------------------
// discretized length

const CHAINS: &[&[u16]] = &[&[0, 1, 3, 7, 15], &[2, 5, 11], &[4, 9]];

/// exact tier: straight curves along directions of integer norm (every segment length is rational)
fn length_exact<B: Bz<X>>(s: &Section, r: i64, dirs: &[([i64; 3], i64)], chains: &[&[u16]]) {
    let site = format!("{}::length_by_discretization", B::NAME);
    let alph: Vec<i64> = (-r..=r).collect();
    let mut tu: Vec<Vec<i64>> = Vec::new();
    vx::lattice::tuples(&alph, B::K, |t| tu.push(t.to_vec()));
    let off = [1i64, -1, 2];
    tu.par_iter().for_each(|k| {
        let mut cls = Cls::new();
        for (v, nv) in dirs {
            let ctrl: Vec<[i64; 3]> = k.iter().map(|ki| { let mut p = [0i64; 3]; for a in 0..B::D { p[a] = off[a] + ki * v[a]; } p }).collect();
            let pts: Vec<P<X>> = ctrl.iter().map(|p| [qi(p[0] as i128), qi(p[1] as i128), qi(p[2] as i128)]).collect();
            let cur = B::build(&pts);
            let chord = Q::int(((k[B::K - 1] - k[0]).abs() * nv) as i128);
            let poly = Q::int((k.windows(2).map(|w| (w[1] - w[0]).abs()).sum::<i64>() * nv) as i128);
            let kind = if poly == Q::ZERO { "single-point" } else if chord == poly { "straight-monotone(chord=polygon)" } else if chord == Q::ZERO { "straight-closed(chord=0)" } else { "straight-overshooting(chord<polygon)" };
            let w: u64 = ctrl.iter().flatten().map(|v| v.unsigned_abs()).sum();
            for chain in chains {
                let mut prev: Option<(u16, Q)> = None;
                for &n in chain.iter() {
                    let inp = || json!({"type": B::NAME, "elem": "X", "controls": ctrl.iter().map(|c| c[..B::D].to_vec()).collect::<Vec<_>>(), "step_count": n});
                    s.eval(poly != Q::ZERO);
                    bump(&mut cls, kind);
                    let Some(l) = s.call(&site, &inp, || cur.length(n)) else { prev = None; continue; };
                    let Some(l) = l.to_q() else { continue; };
                    if l < chord { s.violation_w(&site, "shorter-than-the-chord", json!({"input": inp(), "length": jq(l), "chord": jq(chord)}), w + n as u64); }
                    if l > poly { s.violation_w(&site, "longer-than-the-control-polygon", json!({"input": inp(), "length": jq(l), "control_polygon": jq(poly)}), w + n as u64); }
                    bump(&mut cls, if l == chord && l == poly { "L=chord=polygon" } else if l == chord { "L=chord<polygon" } else if l == poly { "chord<L=polygon" } else { "chord<L<polygon" });
                    if let Some((pn, pl)) = prev {
                        if l < pl { s.violation_w(&site, "decreases-under-doubling", json!({"input": inp(), "step_count_before": pn, "length_before": jq(pl), "length_after": jq(l)}), w + n as u64); }
                        bump(&mut cls, if l > pl { "doubling-strictly-increases" } else { "doubling-keeps-length" });
                    }
                    prev = Some((n, l));
                    if kind == "straight-overshooting(chord<polygon)" && n == 3 && s.wants_sample() { s.sample(json!({"input": inp(), "length": jq(l), "chord": jq(chord), "control_polygon": jq(poly)})); }
                }
            }
        }
        flush(s, cls);
    });
    s.meta(B::NAME, json!({"scalar_tuples": tu.len(), "directions": dirs.iter().map(|d| d.0[..B::D].to_vec()).collect::<Vec<_>>(), "chains": chains}));
}

fn fnorm(v: &[f64]) -> f64 { v.iter().map(|x| x * x).sum::<f64>().sqrt() }

/// f64 tier: general curves; inequalities up to the forward error bound of the summation
fn length_f64<B: Bz<f64>>(s: &Section, curves: &[SearchCurve], chains: &[&[u16]]) {
    let site = format!("{}::length_by_discretization", B::NAME);
    curves.par_iter().for_each(|cv| {
        let mut cls = Cls::new();
        let pts: Vec<P<f64>> = cv.ctrl.iter().map(|p| [p[0] as f64, p[1] as f64, p[2] as f64]).collect();
        let cur = B::build(&pts);
        let seg = |a: &P<f64>, b: &P<f64>| fnorm(&[b[0] - a[0], b[1] - a[1], b[2] - a[2]]);
        let chord = seg(&pts[0], &pts[B::K - 1]);
        let poly: f64 = pts.windows(2).map(|w| seg(&w[0], &w[1])).sum();
        let mag = pts.iter().flatten().fold(0.0f64, |m, v| m.max(v.abs()));
        // forward bound: each of the n+1 segments carries <= ~140 eps M (two evaluations of <= ~40 eps M per lane, difference,
        // magnitude in <= 3 lanes) and the running sum adds (n+1) eps L
        let tolf = |n: u16| 512.0 * (n as f64 + 2.0) * f64::EPSILON * mag.max(poly).max(1.0);
        let collinear = (poly - chord).abs() <= tolf(0);
        let kind = if poly == 0.0 { "single-point" } else if collinear { "straight-monotone(chord=polygon)" } else { "bent-or-overshooting(chord<polygon)" };
        let w: u64 = cv.ctrl.iter().flatten().map(|v| v.unsigned_abs()).sum();
        for chain in chains {
            let mut prev: Option<(u16, f64)> = None;
            for &n in chain.iter() {
                let inp = || json!({"type": B::NAME, "elem": "f64", "controls": cv.ctrl.iter().map(|c| c[..B::D].to_vec()).collect::<Vec<_>>(), "step_count": n});
                s.eval(poly != 0.0);
                bump(&mut cls, kind);
                let Some(l) = s.call(&site, &inp, || cur.length(n)) else { prev = None; continue; };
                if !(l >= chord - tolf(n)) { s.violation_w(&site, "shorter-than-the-chord", json!({"input": inp(), "length": l, "chord": chord, "tolerance": tolf(n)}), w + n as u64); }
                if !(l <= poly + tolf(n)) { s.violation_w(&site, "longer-than-the-control-polygon", json!({"input": inp(), "length": l, "control_polygon": poly, "tolerance": tolf(n)}), w + n as u64); }
                if let Some((pn, pl)) = prev {
                    if !(l >= pl - tolf(n)) { s.violation_w(&site, "decreases-under-doubling", json!({"input": inp(), "step_count_before": pn, "length_before": pl, "length_after": l, "tolerance": tolf(n)}), w + n as u64); }
                    bump(&mut cls, if l > pl + tolf(n) { "doubling-strictly-increases" } else { "doubling-keeps-length" });
                }
                prev = Some((n, l));
                if kind.starts_with("bent") && n == 3 && s.wants_sample() { s.sample(json!({"input": inp(), "length": l, "chord": chord, "control_polygon": poly})); }
            }
        }
        flush(s, cls);
    });
    s.meta(B::NAME, json!({"curves": curves.len(), "chains": chains}));
}

/// the largest step counts (u16): doubling n = 32767 asks for 65535, the largest value the parameter type admits
/// Exact tier for floats: a straight, uniformly parametrised curve along one coordinate axis with control values in arithmetic
/// progression from 3 to 6 (or 6 to 3), all other lanes 0.  Every sample is a float in [3,6] (a multiple of ulp(3)), consecutive
/// samples are hundreds of ulps apart (so the computed sequence is monotone), every segment length |x_{k+1} - x_k| and every partial
/// sum x_k - x_0 < 4 is a multiple of ulp(3) below 2^24 ulps, hence exactly representable: whatever the sample positions and the
/// summation order, a polyline that starts at `start` and ends at `end` has computed length exactly 3.
fn length_exact_float<F: El, B: Bz<F>>(s: &Section, counts: &[u16]) {
    let site = format!("{}::length_by_discretization", B::NAME);
    for axis in 0..B::D { for rev in [false, true] {
        let pts: Vec<P<F>> = (0..B::K).map(|i| { let num = 3 * i as i128; let q = Q::int(3).add(Q::new(num, (B::K - 1) as i128)); let q = if rev { Q::int(9).sub(q) } else { q }; let mut p = [F::of_q(Q::ZERO), F::of_q(Q::ZERO), F::of_q(Q::ZERO)]; p[axis] = F::of_q(q); p }).collect();
        let cur = B::build(&pts);
        for &n in counts {
            let inp = || json!({"type": B::NAME, "elem": F::NAME, "axis": axis, "controls_on_that_axis": pts.iter().map(|c| c[axis].as_f64()).collect::<Vec<_>>(), "other_lanes": 0, "step_count": n});
            s.eval(true);
            s.class(if (n as u32 + 1).is_power_of_two() { "segment-count-power-of-two" } else { "segment-count-not-a-power-of-two" });
            s.class(F::NAME);
            if let Some(l) = s.call(&site, &inp, || cur.length(n)) {
                if l.as_f64() != 3.0 { s.violation_w(&site, "exactly-summable-straight-curve-has-not-length-3", json!({"input": inp(), "length": format!("{:?}", l), "want": 3.0, "why": "every sample, segment and partial sum is exactly representable: the polyline does not run from start to end"}), n as u64); }
            }
        }
    }}
}

fn length_boundary<B: Bz<f64>>(s: &Section) {
    let site = format!("{}::length_by_discretization", B::NAME);
    // straight curve from (0,0,0) along (2,3,6) (norm 7), control values 0,1,2(,3): chord = polygon = 7*(K-1)
    let pts: Vec<P<f64>> = (0..B::K).map(|i| { let k = i as f64; [2.0 * k, 3.0 * k, if B::D == 3 { 6.0 * k } else { 0.0 }] }).collect();
    let cur = B::build(&pts);
    let chord = fnorm(&[pts[B::K - 1][0], pts[B::K - 1][1], pts[B::K - 1][2]]);
    let mut lens: BTreeMap<u16, f64> = BTreeMap::new();
    for n in [16383u16, 32766, 32767, 65533, 65534, 65535] {
        let inp = || json!({"type": B::NAME, "elem": "f64", "controls": pts.iter().map(|c| c[..B::D].to_vec()).collect::<Vec<_>>(), "step_count": n});
        s.eval(true);
        s.class(if n >= 65534 { "step-count-at-u16-limit" } else { "step-count-large" });
        let tolf = 512.0 * (n as f64 + 2.0) * f64::EPSILON * chord;
        if let Some(l) = s.call(&site, &inp, || cur.length(n)) {
            lens.insert(n, l);
            if !(l >= chord - tolf) { s.violation_w(&site, "shorter-than-the-chord", json!({"input": inp(), "length": l, "chord": chord, "tolerance": tolf}), n as u64); }
            if !(l <= chord + tolf) { s.violation_w(&site, "longer-than-the-control-polygon", json!({"input": inp(), "length": l, "control_polygon": chord, "tolerance": tolf}), n as u64); }
        }
    }
    for (a, b) in [(16383u16, 32767u16), (32766, 65533), (32767, 65535)] {
        if let (Some(la), Some(lb)) = (lens.get(&a), lens.get(&b)) {
            let tolf = 512.0 * (b as f64 + 2.0) * f64::EPSILON * chord;
            if !(lb >= &(la - tolf)) { s.violation_w(&site, "decreases-under-doubling", json!({"type": B::NAME, "step_count_before": a, "step_count_after": b, "length_before": la, "length_after": lb}), b as u64); }
        }
    }
    s.sample(json!({"type": B::NAME, "controls": pts.iter().map(|c| c[..B::D].to_vec()).collect::<Vec<_>>(), "chord": chord, "lengths": lens.iter().map(|(n, l)| json!([n, l])).collect::<Vec<_>>()}));
}

// ------------------------------------------------------------------------------------------------
// added by the audit: asymmetric curves, rational queries, other step counts / epsilons, float element types
// (with the same multiplication budget), inputs scaled by powers of two

/// control points without any symmetry (not centred, no two control polygon legs parallel or of equal length)
const ASYM2: &[[i64; 3]] = &[[0, 0, 0], [1, 3, 0], [4, -1, 0], [5, 2, 0], [-3, 1, 0]];
const ASYM3: &[[i64; 3]] = &[[0, 0, 0], [1, 3, -2], [4, -1, 1], [5, 2, 3]];

fn queries_q(d: usize, vals: &[Q]) -> Vec<[Q; 3]> {
    let mut out = Vec::new();
    vx::lattice::tuples(vals, d, |t| { let mut p = [Q::ZERO; 3]; p[..d].copy_from_slice(t); out.push(p); });
    out
}
fn qw(p: &[Q; 3]) -> u64 { p.iter().map(|v| (v.n.unsigned_abs() + v.d.unsigned_abs() - 1) as u64).sum() }

/// binary_search_point_by_steps on the exact type: rational queries, any step counts, several epsilons
fn search_sweep_q<B: Bz<Fx>>(s: &Section, curves: &[SearchCurve], queries: &[[Q; 3]], steps: &[u16], epss: &[Q]) {
    let site = format!("{}::binary_search_point_by_steps", B::NAME);
    let bud = Budget::new();
    curves.par_iter().for_each(|cv| {
        let rc = RefCurve::new(&cv.ctrl, B::D);
        let pts: Vec<P<Fx>> = cv.ctrl.iter().map(|p| [Fx(qi(p[0] as i128)), Fx(qi(p[1] as i128)), Fx(qi(p[2] as i128))]).collect();
        let cur = B::build(&pts);
        let nontrivial = cv.ctrl.iter().any(|p| *p != cv.ctrl[0]);
        let coarse: Vec<Vec<[Q; 3]>> = steps.iter().map(|&st| (0..st).map(|i| rc.at(Q::new(i as i128, st as i128))).collect()).collect();
        let endp = rc.end();
        let wc: u64 = cv.ctrl.iter().flatten().map(|v| v.unsigned_abs()).sum();
        let mut cls = Cls::new();
        for pq in queries {
            let w = wc + qw(pq);
            let d_end = dist2(&endp, pq);
            for (si, &stp) in steps.iter().enumerate() {
                let best = coarse[si].iter().map(|c| dist2(c, pq)).min();
                for &eps in epss {
                    let inp = || json!({"type": B::NAME, "elem": "X", "controls": cv.ctrl.iter().map(|c| c[..B::D].to_vec()).collect::<Vec<_>>(), "query": jpt(pq, B::D), "steps": stp, "epsilon": jq(eps)});
                    if bud.abandoned() { continue; }
                    s.eval(nontrivial);
                    bump(&mut cls, if Q::new(1, 2 * stp as i128) < eps { "no-refinement(half-interval<epsilon)" } else { "refinement-runs" });
                    if !stp.is_power_of_two() { bump(&mut cls, "steps-not-a-power-of-two"); }
                    if let Some(got) = bud.run(s, &site, &inp, w, || cur.search_steps(xp(pq), stp, Fx(X::R(eps)))) {
                        check_search_result(s, &site, &rc, got, pq, best, d_end, &inp, w, &mut cls);
                        if nontrivial && s.wants_sample() && got.0 != Fx(qi(1)) && got.0 != Fx(qi(0)) { s.sample(json!({"input": inp(), "returned_t": jd(&got.0), "returned_point": jd(&&got.1[..B::D]), "dist2_end": jq(d_end), "dist2_best_coarse": best.map(jq)})); }
                    }
                }
            }
        }
        flush(s, cls);
    });
    s.meta(B::NAME, json!({"curves": curves.len(), "queries": queries.len(), "steps": steps, "epsilons": jqs(epss), "budget": bud.meta()}));
}

fn casteljau_f(c: &[f64], t: f64) -> f64 {
    let mut w = [0.0f64; 4];
    let n = c.len();
    w[..n].copy_from_slice(c);
    for r in 1..n { for i in 0..n - r { w[i] = w[i] * (1.0 - t) + w[i + 1] * t; } }
    w[0]
}

/// Verdict on one float search result (already divided by the input scale).
/// Error model: vek's evaluate at parameter t carries at most ~12 roundings relative to S(t) = M for t in [0,1] (convex combination),
/// M (1+2|t|)^n outside (M = largest control magnitude, n = degree; |1-t|+|t| <= 1+2|t|): the returned point may differ from the exact curve point by <= 64 eps S(t).  The search
/// compares *computed* squared distances, each off by <= 2 sqrt(d) * 64 eps S + 8 eps d, so the returned point may exceed the true
/// distance of a coarse sample / the end point by rounding only: allowed 256 eps (S + |query|)^2.
#[allow(clippy::too_many_arguments)]
fn check_search_float<F: El>(s: &Section, site: &str, pre: &str, rc: &RefCurve, got: (F, P<F>), k: i32, pq: &[Q; 3], best_coarse: Option<f64>, d_end: f64, mag: f64, inp: &dyn Fn() -> Value, w: u64, cls: &mut Cls) {
    check_search_float_at::<F>(s, site, pre, rc, got, k, 0.0, pq, best_coarse, d_end, mag, inp, w, cls)
}
/// The same with the curve and the query moved by `off` on every lane (second audit; `off` = 0: exactly the verdicts above).
/// `rc`, `pq`, `best_coarse`, `d_end`, `mag` are in unmoved units; the returned point has `off` subtracted (exact: it is a multiple
/// of the ulp of `off` and small).  With an offset every evaluation of vek carries S = (M + off) instead of M, but the differences
/// point - query are small and (nearly) exact, so the distance bound is derived from the point error e = 64 eps S instead of from the
/// squared magnitudes: vek returns a computed point R' whose computed squared distance is <= that of each computed coarse point C'
/// (|C' - C| <= e per lane), hence d(R') <= (sqrt(d(C)) + sqrt(D) e)^2 (1 + 8 eps) <= d(C) + 4 sqrt(D d(C)) e + 2 D e^2 + 32 eps d(C).
#[allow(clippy::too_many_arguments)]
fn check_search_float_at<F: El>(s: &Section, site: &str, pre: &str, rc: &RefCurve, got: (F, P<F>), k: i32, off: f64, pq: &[Q; 3], best_coarse: Option<f64>, d_end: f64, mag: f64, inp: &dyn Fn() -> Value, w: u64, cls: &mut Cls) {
    let mag = mag + off;
    let (t, pt) = got;
    let tf = t.as_f64();
    let pf: Vec<f64> = (0..rc.d).map(|a| pt[a].unscaled(k).as_f64() - off).collect();
    if !tf.is_finite() || pf.iter().any(|v| !v.is_finite()) {
        s.violation_w(site, &format!("{}non-finite-result", pre), json!({"input": inp(), "returned_t": tf, "returned_point_divided_by_scale": pf.iter().map(|v| format!("{:?}", v)).collect::<Vec<_>>()}), w);
        return;
    }
    let n = rc.ax[0].len() - 1;
    let ta = tf.abs();
    let st = if (0.0..=1.0).contains(&tf) { mag } else { mag * (1.0 + 2.0 * ta).powi(n as i32) };
    // exact curve point where the parameter is a small dyadic (power-of-two step counts), else f64 de Casteljau (<= 8 eps64 S)
    let want: Vec<f64> = match Q::from_f64(tf) {
        Some(tq) if tq.d <= (1 << 20) && tq.n.abs() <= (1 << 24) => { let p = rc.at(tq); (0..rc.d).map(|a| p[a].to_f64()).collect() }
        _ => (0..rc.d).map(|a| casteljau_f(&rc.ax[a].iter().map(|q| q.to_f64()).collect::<Vec<_>>(), tf)).collect(),
    };
    let tolp = 64.0 * F::EPS * st;
    if (0..rc.d).any(|a| !((pf[a] - want[a]).abs() <= tolp)) {
        s.violation_w(site, &format!("{}point-is-not-the-curve-at-the-returned-parameter", pre), json!({"input": inp(), "returned_t": tf, "returned_point_divided_by_scale": pf, "curve_at_t": want, "tolerance": tolp}), w);
    }
    let pqf: Vec<f64> = pq.iter().map(|q| q.to_f64()).collect();
    let d: f64 = (0..rc.d).map(|a| (pf[a] - pqf[a]) * (pf[a] - pqf[a])).sum();
    let r = st + pqf.iter().fold(0.0f64, |m, v| m.max(v.abs()));
    let told_of = |reference: f64| -> f64 {
        if off == 0.0 { return 256.0 * F::EPS * r * r; }
        let (e, dd) = (64.0 * F::EPS * mag, rc.d as f64);
        4.0 * (dd * reference).sqrt() * e + 2.0 * dd * e * e + 32.0 * F::EPS * reference
    };
    let told = told_of(d_end);
    if !(d <= d_end + told) { s.violation_w(site, &format!("{}farther-than-the-end-point", pre), json!({"input": inp(), "returned_t": tf, "returned_point_divided_by_scale": pf, "dist2": d, "dist2_of_end": d_end, "tolerance": told}), w); }
    if let Some(bc) = best_coarse {
        let told = told_of(bc);
        if !(d <= bc + told) { s.violation_w(site, &format!("{}farther-than-a-coarse-sample", pre), json!({"input": inp(), "returned_t": tf, "returned_point_divided_by_scale": pf, "dist2": d, "dist2_of_best_coarse_sample": bc, "tolerance": told}), w); }
    }
    let best0 = best_coarse.map_or(d_end, |b| b.min(d_end));
    bump(cls, if d < best0 - told { "refinement-improved" } else if best_coarse.map_or(true, |b| d_end <= b) { "stayed-at-end-point" } else { "stayed-at-coarse-sample" });
    if tf > 1.0 || tf < 0.0 { bump(cls, "returned-parameter-outside-unit-interval(not-asserted)"); }
    if d <= told { bump(cls, "query-on-curve-found-within-rounding"); }
}

/// binary_search_point_by_steps on a fuel-carrying float type, every control point and the query multiplied by 2^k
fn search_float<F: El, B: Bz<F>>(s: &Section, curves: &[SearchCurve], queries: &[[Q; 3]], steps: &[u16], eps: Q, k: i32, fuel: i64) {
    search_float_at::<F, B>(s, curves, queries, steps, eps, k, None, fuel)
}
/// the same, optionally with 2^sh added to every lane of every control point and of the query (then k = 0; classes `float:shifted:`)
#[allow(clippy::too_many_arguments)]
fn search_float_at<F: El, B: Bz<F>>(s: &Section, curves: &[SearchCurve], queries: &[[Q; 3]], steps: &[u16], eps: Q, k: i32, sh: Option<i32>, fuel: i64) {
    let site = format!("{}::binary_search_point_by_steps", B::NAME);
    let pre = if sh.is_some() { "float:shifted:" } else if k == 0 { "float:" } else { "float:scaled:" };
    assert!(sh.is_none() || k == 0);
    let offq = sh.map_or(Q::ZERO, pow2q);
    let off = offq.to_f64();
    let bud = Budget::with_fuel(fuel);
    curves.par_iter().for_each(|cv| {
        let rc = RefCurve::new(&cv.ctrl, B::D);
        let pts: Vec<P<F>> = cv.ctrl.iter().map(|p| [F::of_q_scaled(Q::int(p[0] as i128).add(offq), k), F::of_q_scaled(Q::int(p[1] as i128).add(offq), k), F::of_q_scaled(Q::int(p[2] as i128).add(offq), k)]).collect();
        let cur = B::build(&pts);
        let nontrivial = cv.ctrl.iter().any(|p| *p != cv.ctrl[0]);
        let axf: Vec<Vec<f64>> = rc.ax.iter().map(|a| a.iter().map(|q| q.to_f64()).collect()).collect();
        // reference coarse samples: exact for small step counts, f64 de Casteljau (error <= 8 eps64 M, far below the tolerance) for the large ones
        let coarse: Vec<Vec<[f64; 3]>> = steps.iter().map(|&st| (0..st).map(|i| {
            let mut o = [0.0f64; 3];
            if st <= 64 { let p = rc.at(Q::new(i as i128, st as i128)); for a in 0..B::D { o[a] = p[a].to_f64(); } }
            else { for a in 0..B::D { o[a] = casteljau_f(&axf[a], i as f64 / st as f64); } }
            o
        }).collect()).collect();
        let endp = rc.end();
        let mag = cv.ctrl.iter().flatten().fold(0.0f64, |m, v| m.max(v.unsigned_abs() as f64));
        let wc: u64 = cv.ctrl.iter().flatten().map(|v| v.unsigned_abs()).sum();
        let mut cls = Cls::new();
        for pq in queries {
            let w = wc + qw(pq);
            let pqf = [pq[0].to_f64(), pq[1].to_f64(), pq[2].to_f64()];
            let d2f = |c: &[f64; 3]| (0..B::D).map(|a| (c[a] - pqf[a]) * (c[a] - pqf[a])).sum::<f64>();
            let d_end = dist2(&endp, pq).to_f64();
            let px: P<F> = [F::of_q_scaled(pq[0].add(offq), k), F::of_q_scaled(pq[1].add(offq), k), F::of_q_scaled(pq[2].add(offq), k)];
            for (si, &stp) in steps.iter().enumerate() {
                let inp = || json!({"type": B::NAME, "elem": F::NAME, "controls": cv.ctrl.iter().map(|c| c[..B::D].to_vec()).collect::<Vec<_>>(), "query": jpt(pq, B::D), "controls_and_query_multiplied_by": format!("2^{}", k), "every_lane_of_controls_and_query_increased_by": jq(offq), "steps": stp, "epsilon": jq(eps)});
                if bud.abandoned() { continue; }
                s.eval(nontrivial);
                bump(&mut cls, if stp >= 32768 { "steps>=2^15" } else if stp.is_power_of_two() { "steps-power-of-two" } else { "steps-not-a-power-of-two" });
                let best = coarse[si].iter().map(|c| d2f(c)).fold(None, |m: Option<f64>, v| Some(m.map_or(v, |x| x.min(v))));
                if let Some(got) = bud.run_c(s, &site, pre, &inp, w, || cur.search_steps(px, stp, F::of_q(eps))) {
                    check_search_float_at::<F>(s, &site, pre, &rc, got, k, off, pq, best, d_end, mag, &inp, w, &mut cls);
                    if nontrivial && s.wants_sample() && got.0 != F::one() && got.0 != F::zero() { s.sample(json!({"input": inp(), "returned_t": got.0.as_f64(), "returned_point": (0..B::D).map(|a| format!("{:?}", got.1[a])).collect::<Vec<_>>(), "dist2_end": d_end, "dist2_best_coarse": best})); }
                }
            }
        }
        flush(s, cls);
    });
    s.meta(&format!("{}<{}> x 2^{}{}", B::NAME, F::NAME, k, sh.map_or(String::new(), |e| format!(" + 2^{}", e))), json!({"curves": curves.len(), "queries": queries.len(), "steps": steps, "epsilon": jq(eps), "budget": bud.meta()}));
}

/// second audit: the general entry point binary_search_point on a fuel-carrying float type: caller-supplied coarse pairs (points of the
/// reference curve rounded to the type), dyadic and non-dyadic half intervals; optionally every lane moved by 2^sh
fn search_direct_float<F: El, B: Bz<F>>(s: &Section, curves: &[SearchCurve], queries: &[[Q; 3]], eps: Q, sh: Option<i32>) {
    let site = format!("{}::binary_search_point", B::NAME);
    let pre = if sh.is_some() { "float:shifted:" } else { "float:" };
    let offq = sh.map_or(Q::ZERO, pow2q);
    let off = offq.to_f64();
    let coarse_ts: [(&'static str, Vec<Q>); 3] = [("coarse-empty", vec![]), ("coarse-single", vec![Q::new(1, 2)]), ("coarse-uneven", vec![Q::ZERO, Q::new(1, 4), Q::new(3, 4)])];
    let halves = [Q::new(1, 2), Q::new(1, 8), Q::new(1, 3)];
    let bud = Budget::new();
    curves.par_iter().for_each(|cv| {
        let rc = RefCurve::new(&cv.ctrl, B::D);
        let pts: Vec<P<F>> = cv.ctrl.iter().map(|p| [F::of_q(Q::int(p[0] as i128).add(offq)), F::of_q(Q::int(p[1] as i128).add(offq)), F::of_q(Q::int(p[2] as i128).add(offq))]).collect();
        let cur = B::build(&pts);
        let nontrivial = cv.ctrl.iter().any(|p| *p != cv.ctrl[0]);
        let endp = rc.end();
        let mag = cv.ctrl.iter().flatten().fold(0.0f64, |m, v| m.max(v.unsigned_abs() as f64));
        let wc: u64 = cv.ctrl.iter().flatten().map(|v| v.unsigned_abs()).sum();
        let mut cls = Cls::new();
        for pq in queries {
            let w = wc + qw(pq);
            let pqf = [pq[0].to_f64(), pq[1].to_f64(), pq[2].to_f64()];
            let d_end = dist2(&endp, pq).to_f64();
            let px: P<F> = [F::of_q(pq[0].add(offq)), F::of_q(pq[1].add(offq)), F::of_q(pq[2].add(offq))];
            for (cname, ts) in &coarse_ts {
                // coarse parameters are dyadic: the reference points k/64 (quadratic: k/16) are exact in f32 and f64 without the offset;
                // with it they are rounded to the type (<= 1 ulp of the offset, covered by the point error e of the bound)
                let cp: Vec<(Q, [Q; 3])> = ts.iter().map(|t| (*t, rc.at(*t))).collect();
                let best = cp.iter().map(|c| (0..B::D).map(|a| { let v = c.1[a].to_f64() - pqf[a]; v * v }).sum::<f64>()).fold(None, |m: Option<f64>, v| Some(m.map_or(v, |x| x.min(v))));
                for h in halves {
                    let inp = || json!({"type": B::NAME, "elem": F::NAME, "controls": cv.ctrl.iter().map(|c| c[..B::D].to_vec()).collect::<Vec<_>>(), "query": jpt(pq, B::D), "every_lane_of_controls_query_and_coarse_points_increased_by": jq(offq),
                        "coarse_parameters": jqs(ts), "half_interval": jq(h), "epsilon": jq(eps)});
                    if bud.abandoned() { continue; }
                    s.eval(nontrivial);
                    bump(&mut cls, cname);
                    let cx: Vec<(F, P<F>)> = cp.iter().map(|(t, q)| (F::of_q(*t), [F::of_q(q[0].add(offq)), F::of_q(q[1].add(offq)), F::of_q(q[2].add(offq))])).collect();
                    if let Some(got) = bud.run_c(s, &site, pre, &inp, w, || cur.search(px, cx, F::of_q(h), F::of_q(eps))) {
                        check_search_float_at::<F>(s, &site, pre, &rc, got, 0, off, pq, best, d_end, mag, &inp, w, &mut cls);
                    }
                }
            }
        }
        flush(s, cls);
    });
    s.meta(&format!("{}<{}>{}", B::NAME, F::NAME, sh.map_or(String::new(), |e| format!(" + 2^{}", e))), json!({"curves": curves.len(), "queries": queries.len(), "coarse_sets": 3, "half_intervals": ["1/2", "1/8", "1/3"], "epsilon": jq(eps), "budget": bud.meta()}));
}

/// steps = 0 on floats: no coarse sample, half interval 1/(0+0).  The statement still applies (the result has to be a curve point no
/// farther than the end point); a call that never returns is reported under its own class.
fn search_float_zero_steps<F: El, B: Bz<F>>(s: &Section, ctrl: &[[i64; 3]], query: [Q; 3]) {
    let site = format!("{}::binary_search_point_by_steps", B::NAME);
    let pre = "float:steps-0:";
    let bud = Budget::new();
    let rc = RefCurve::new(ctrl, B::D);
    let pts: Vec<P<F>> = ctrl.iter().map(|p| [F::of_q(Q::int(p[0] as i128)), F::of_q(Q::int(p[1] as i128)), F::of_q(Q::int(p[2] as i128))]).collect();
    let cur = B::build(&pts);
    let mag = ctrl.iter().flatten().fold(0.0f64, |m, v| m.max(v.unsigned_abs() as f64));
    let w: u64 = ctrl.iter().flatten().map(|v| v.unsigned_abs()).sum::<u64>() + qw(&query);
    let eps = Q::new(1, 64);
    let inp = || json!({"type": B::NAME, "elem": F::NAME, "controls": ctrl.iter().map(|c| c[..B::D].to_vec()).collect::<Vec<_>>(), "query": jpt(&query, B::D), "steps": 0, "epsilon": jq(eps)});
    s.eval(true);
    s.class("steps-0");
    let px: P<F> = [F::of_q(query[0]), F::of_q(query[1]), F::of_q(query[2])];
    let mut cls = Cls::new();
    if let Some(got) = bud.run_c(s, &site, pre, &inp, w, || cur.search_steps(px, 0, F::of_q(eps))) {
        check_search_float::<F>(s, &site, pre, &rc, got, 0, &query, None, dist2(&rc.end(), &query).to_f64(), mag, &inp, w, &mut cls);
    }
    s.meta(&format!("{}<{}>", B::NAME, F::NAME), json!({"budget": bud.meta()}));
}

fn chains(th: bool) -> &'static [&'static [u16]] {
    if th { &[&[0, 1, 3, 7, 15, 31, 63], &[2, 5, 11, 23], &[4, 9, 19], &[6, 13, 27], &[8, 17], &[10, 21], &[12, 25]] } else { CHAINS }
}

/// float tiers of the length: general curves, every control multiplied by 2^k; the result is multiplied by 2^-k (exact) and judged
/// in unscaled units against chord and control polygon computed in f64, tolerance 512 (n+2) eps_F max(M, polygon, 1)
fn length_float<F: El, B: Bz<F>>(s: &Section, curves: &[SearchCurve], k: i32, chains: &[&[u16]]) {
    length_float_at::<F, B>(s, curves, k, None, chains)
}
/// the same, optionally with 2^sh added to every lane of every control point (then k = 0; classes prefixed `shifted:`): chord and control
/// polygon do not change, every evaluation of vek carries the offset: tolerance 512 (n+2) eps_F max(M + 2^sh, polygon, 1)
fn length_float_at<F: El, B: Bz<F>>(s: &Section, curves: &[SearchCurve], k: i32, sh: Option<i32>, chains: &[&[u16]]) {
    let site = format!("{}::length_by_discretization", B::NAME);
    let pre = if sh.is_some() { "shifted:" } else if k == 0 { "" } else { "scaled:" };
    assert!(sh.is_none() || k == 0);
    let offq = sh.map_or(Q::ZERO, pow2q);
    curves.par_iter().for_each(|cv| {
        let mut cls = Cls::new();
        let pf: Vec<P<f64>> = cv.ctrl.iter().map(|p| [p[0] as f64, p[1] as f64, p[2] as f64]).collect();
        let pts: Vec<P<F>> = cv.ctrl.iter().map(|p| [F::of_q_scaled(Q::int(p[0] as i128).add(offq), k), F::of_q_scaled(Q::int(p[1] as i128).add(offq), k), F::of_q_scaled(Q::int(p[2] as i128).add(offq), k)]).collect();
        let cur = B::build(&pts);
        let seg = |a: &P<f64>, b: &P<f64>| fnorm(&[b[0] - a[0], b[1] - a[1], b[2] - a[2]]);
        let chord = seg(&pf[0], &pf[B::K - 1]);
        let poly: f64 = pf.windows(2).map(|w| seg(&w[0], &w[1])).sum();
        let mag = pf.iter().flatten().fold(0.0f64, |m, v| m.max(v.abs()));
        let tolf = |n: u16| 512.0 * (n as f64 + 2.0) * F::EPS * (mag + offq.to_f64()).max(poly).max(1.0);
        let collinear = (poly - chord).abs() <= 512.0 * 2.0 * f64::EPSILON * mag.max(poly).max(1.0);
        let kind = if poly == 0.0 { "single-point" } else if collinear { "straight-monotone(chord=polygon)" } else { "bent-or-overshooting(chord<polygon)" };
        let w: u64 = cv.ctrl.iter().flatten().map(|v| v.unsigned_abs()).sum();
        for chain in chains {
            let mut prev: Option<(u16, f64)> = None;
            for &n in chain.iter() {
                let inp = || json!({"type": B::NAME, "elem": F::NAME, "controls": cv.ctrl.iter().map(|c| c[..B::D].to_vec()).collect::<Vec<_>>(), "every_control_multiplied_by": format!("2^{}", k), "every_lane_increased_by": jq(offq), "step_count": n});
                s.eval(poly != 0.0);
                bump(&mut cls, kind);
                let Some(l) = s.call(&site, &inp, || cur.length(n)) else { prev = None; continue; };
                let l = l.unscaled(k).as_f64();
                if !(l >= chord - tolf(n)) { s.violation_w(&site, &format!("{}shorter-than-the-chord", pre), json!({"input": inp(), "length_divided_by_scale": format!("{:?}", l), "chord": chord, "tolerance": tolf(n)}), w + n as u64); }
                if !(l <= poly + tolf(n)) { s.violation_w(&site, &format!("{}longer-than-the-control-polygon", pre), json!({"input": inp(), "length_divided_by_scale": format!("{:?}", l), "control_polygon": poly, "tolerance": tolf(n)}), w + n as u64); }
                if let Some((pn, pl)) = prev {
                    if !(l >= pl - tolf(n)) { s.violation_w(&site, &format!("{}decreases-under-doubling", pre), json!({"input": inp(), "step_count_before": pn, "length_before": pl, "length_after": format!("{:?}", l), "tolerance": tolf(n)}), w + n as u64); }
                    bump(&mut cls, if l > pl + tolf(n) { "doubling-strictly-increases" } else { "doubling-keeps-length" });
                }
                prev = Some((n, l));
                if kind.starts_with("bent") && n == 3 && s.wants_sample() { s.sample(json!({"input": inp(), "length_divided_by_scale": l, "chord": chord, "control_polygon": poly})); }
            }
        }
        flush(s, cls);
    });
    s.meta(&format!("{}<{}> x 2^{}{}", B::NAME, F::NAME, k, sh.map_or(String::new(), |e| format!(" + 2^{}", e))), json!({"curves": curves.len(), "chains": chains}));
}

// ------------------------------------------------------------------------------------------------
// second audit: families around the special values of the per-axis code

/// cubic coefficient of the axis polynomial (x'/3 = lead t^2 + ...): zero iff the derivative is at most linear
fn lead(c: &[Q]) -> Q { c[3].sub(c[2].mul(Q::int(3))).add(c[1].mul(Q::int(3))).sub(c[0]) }
fn fits_f64(q: Q) -> bool { Q::from_f64(q.to_f64()) == Some(q) }
fn fits_f32(q: Q) -> bool { Q::from_f64((q.to_f64() as f32) as f64) == Some(q) }

/// Nearly quadratic cubics: every integer quadruple over {-r..r} whose cubic coefficient vanishes, with the last control moved by
/// +-2^-j, so that the leading coefficient of the derivative is 3 * 2^-j: non-zero, *above* the absolute epsilon of the degeneracy test,
/// and tiny against the other two coefficients.  Only tuples that the element type represents exactly (`fits`).
/// The reference (`axis_ref`) takes the stationary points from the cancellation-free form of the quadratic formula.
fn nearly_quadratic_refs(r: i64, js: &[i32], fits: fn(Q) -> bool) -> Vec<AxisRef> {
    let alph: Vec<i64> = (-r..=r).collect();
    let mut tu: Vec<(Vec<i64>, i32, i128)> = Vec::new();
    vx::lattice::tuples(&alph, 4, |t| {
        let c: Vec<Q> = t.iter().map(|v| Q::int(*v as i128)).collect();
        if lead(&c) != Q::ZERO { return; }
        for &j in js { for sg in [1i128, -1] { tu.push((t.to_vec(), j, sg)); } }
    });
    tu.par_iter().filter_map(|(t, j, sg)| {
        let base: Vec<Q> = t.iter().map(|v| Q::int(*v as i128)).collect();
        let delta = Q::new(*sg, 1i128 << *j);
        let mut c = base.clone();
        c[3] = c[3].add(delta);
        if !fits(c[3]) { return None; }
        let mut a = axis_ref_pert(&base, delta);
        // weight: size of the integers + rank of the delta in its list (so that f64 and f32 witnesses are ordered alike)
        a.weight = t.iter().map(|v| v.unsigned_abs()).sum::<u64>() + js.iter().position(|x| x == j).unwrap() as u64;
        Some(a)
    }).collect()
}
/// Reference of base + delta on the last control (integer base with vanishing cubic coefficient, delta a tiny power of two).  The i128
/// rationals cannot compare values with denominators 2^51 * 240^3, so everything beyond the coefficients is an f64 reference (as for the
/// irrational tuples of `axis_ref`): x'/3 = delta t^2 + B t + C with exact delta, B, C; roots by q = -(B + sgn(B) sqrt(disc))/2, q/delta
/// and C/q (no cancellation); values = exact integer part (de Casteljau over Q, then rounded once) + delta t^3.
fn delta_label(delta: Q, failing: bool) -> &'static str {
    const OK: [&str; 11] = ["delta=2^-14", "delta=2^-18", "delta=2^-20", "delta=2^-21", "delta=2^-22", "delta=2^-40", "delta=2^-44", "delta=2^-47", "delta=2^-49", "delta=2^-50", "delta=2^-51"];
    const BAD: [&str; 11] = ["delta=2^-14:extremum-wrong", "delta=2^-18:extremum-wrong", "delta=2^-20:extremum-wrong", "delta=2^-21:extremum-wrong", "delta=2^-22:extremum-wrong", "delta=2^-40:extremum-wrong", "delta=2^-44:extremum-wrong", "delta=2^-47:extremum-wrong", "delta=2^-49:extremum-wrong", "delta=2^-50:extremum-wrong", "delta=2^-51:extremum-wrong"];
    let j = delta.d.trailing_zeros();
    let i = [14u32, 18, 20, 21, 22, 40, 44, 47, 49, 50, 51].iter().position(|x| *x == j).expect("delta of the nearly quadratic family");
    if failing { BAD[i] } else { OK[i] }
}
fn axis_ref_pert(base: &[Q], delta: Q) -> AxisRef {
    assert!(base.len() == 4 && lead(base) == Q::ZERO && delta != Q::ZERO);
    let two = Q::int(2);
    let b = base[2].sub(base[1].mul(two)).add(base[0]).mul(two);
    let cc = base[1].sub(base[0]);
    let (af, bf, cf) = (delta.to_f64(), b.to_f64(), cc.to_f64());
    let disc = b.mul(b).sub(Q::int(4).mul(delta).mul(cc)); // exact: denominators <= 2^51
    let mut roots: Vec<f64> = Vec::new();
    let branch: &'static str;
    if disc < Q::ZERO { branch = "no-real-root"; } else {
        let df = disc.to_f64();
        let qq = -0.5 * (bf + if bf >= 0.0 { df.sqrt() } else { -df.sqrt() });
        roots.push(qq / af);
        if qq != 0.0 { roots.push(cf / qq); }
        let ins = roots.iter().filter(|r| **r > 0.0 && **r < 1.0).count();
        branch = ["irrational-roots:none-inside", "irrational-roots:one-inside", "irrational-roots:both-inside"][ins.min(2)];
    }
    let mut c = base.to_vec();
    c[3] = c[3].add(delta);
    let val = |t: Q| -> f64 { let tf = t.to_f64(); casteljau(base, t).to_f64() + af * tf * tf * tf };
    let valf = |t: f64| -> f64 {
        // power basis of the integer part (exact small integers) + delta t^3
        let bq: Vec<f64> = base.iter().map(|q| q.to_f64()).collect();
        let (a0, a1, a2) = (bq[0], 3.0 * (bq[1] - bq[0]), 3.0 * (bq[2] - 2.0 * bq[1] + bq[0]));
        ((af * t + a2) * t + a1) * t + a0
    };
    let (e0, e1) = (c[0].to_f64(), c[3].to_f64());
    let (mut lo_f, mut hi_f) = (e0.min(e1), e0.max(e1));
    for r in &roots { if *r > 0.0 && *r < 1.0 { let v = valf(*r); lo_f = lo_f.min(v); hi_f = hi_f.max(v); } }
    let (mut glo, mut ghi) = (e0, e0);
    for i in 0..=GRID { let v = if i == GRID { e1 } else { val(Q::new(i, GRID)) }; glo = glo.min(v); ghi = ghi.max(v); }
    let mag = c.iter().map(|q| q.abs().to_f64()).fold(0.0, f64::max);
    AxisRef {
        c: c.clone(), branch, extra: Some(delta_label(delta, false)), rational: false, lo: None, hi: None, lo_f, hi_f, glo: Q::from_f64(glo).unwrap(), ghi: Q::from_f64(ghi).unwrap(), mag,
        nonconst: c.iter().any(|q| *q != c[0]), weight: 0, pert: Some((base.to_vec(), delta)),
    }
}

// ------------------------------------------------------------------------------------------------

fn main() {
    let rep = Report::start("C15", "exploration");
    let th = rep.thorough();
    let r_axis: i64 = if th { 6 } else { 3 };
    let na = (2 * r_axis + 1) as usize;

    // per-axis reference tables (exact stationary points, exact extrema, dense grid), shared by the sections below
    let quad = axis_refs(3, r_axis);
    let cubic = axis_refs(4, r_axis);
    let cubic_rat: Vec<&AxisRef> = cubic.iter().filter(|r| r.rational).collect();
    let quad_all: Vec<&AxisRef> = quad.iter().collect();
    let cubic_all: Vec<&AxisRef> = cubic.iter().collect();
    let table_meta = json!({"alphabet": format!("{{-{0}..{0}}}", r_axis), "alphabet_size": na, "quadratic_tuples": quad.len(), "cubic_tuples": cubic.len(),
        "cubic_tuples_with_rational_stationary_points": cubic_rat.len(), "grid": format!("k/{}", GRID)});

    rep.section("quadratic per-axis extrema and boxes (exact)",
        "all control triples over the integer alphabet on every axis of QuadraticBezier2/3<X> (curve i carries triple i on x and the triples (i*m+o) mod N on y, z: bijections, so every axis sees every triple and boxes see unrelated axes); \
         *_inflection: reported t in [0,1] with x'(t) = 0; min_*/max_*/ *_bounds: t in [0,1], curve value there (de Casteljau on the returned t) = exact extremum over [0,1] (end points + stationary point) and no grid point k/240 beats it; \
         aabr/aabb: each side equals the exact extremum (contains + touches); non-trivial: the axis (all axes for boxes) is not constant",
        true, false, |s| {
        s.require_classes(QUAD_BRANCHES);
        s.require_classes(VERDICTS);
        s.require_classes(&["reported-0-inflections", "reported-1-inflection", "box-extends-beyond-end-points", "box-spanned-by-end-points"]);
        axis_sweep::<X, QuadraticBezier2<X>>(s, &quad_all, Mode::Plain);
        axis_sweep::<X, QuadraticBezier3<X>>(s, &quad_all, Mode::Plain);
        s.meta("tables", table_meta.clone());
    });

    rep.section("cubic per-axis extrema and boxes (exact)",
        "all control quadruples over the integer alphabet whose derivative has only rational roots (or none; discriminant a perfect square, zero or negative, or degree < 2), on every axis of CubicBezier2/3<X>, other axes by bijections of that list; \
         *_inflections: every reported t in [0,1] with x'(t) = 0; min_*/max_*/ *_bounds: t in [0,1], curve value there = exact extremum over [0,1] (end points + rational stationary points inside) and no grid point k/240 beats it; \
         aabr/aabb: each side equals the exact extremum; non-trivial: axis not constant",
        true, false, |s| {
        s.require_classes(CUBIC_RATIONAL_BRANCHES);
        s.require_classes(VERDICTS);
        s.require_classes(&["reported-0-inflections", "reported-1-inflection", "reported-2-inflections", "box-extends-beyond-end-points", "box-spanned-by-end-points"]);
        axis_sweep::<X, CubicBezier2<X>>(s, &cubic_rat, Mode::Plain);
        axis_sweep::<X, CubicBezier3<X>>(s, &cubic_rat, Mode::Plain);
        s.meta("tables", table_meta.clone());
    });

    rep.section("per-axis extrema and boxes (f64 against the dense grid)",
        "all control triples / quadruples over the integer alphabet (rational and irrational stationary points) on every axis of all four curve types on f64; returned parameters are converted exactly (range test exact), rounded to 2^-38 and the curve is evaluated exactly there; \
         compared with the exact extremum (rational case) or the closed-form f64 reference (irrational case) and with the exact grid minimum/maximum over k/240, tolerance 256 eps * 32 M + 6 M * 2^-39 (24 M for derivatives), M = largest control magnitude; non-trivial: axis not constant",
        true, false, |s| {
        s.require_classes(QUAD_BRANCHES);
        s.require_classes(CUBIC_RATIONAL_BRANCHES);
        s.require_classes(CUBIC_IRRATIONAL_BRANCHES);
        s.require_classes(VERDICTS);
        axis_sweep::<f64, QuadraticBezier2<f64>>(s, &quad_all, Mode::Plain);
        axis_sweep::<f64, QuadraticBezier3<f64>>(s, &quad_all, Mode::Plain);
        axis_sweep::<f64, CubicBezier2<f64>>(s, &cubic_all, Mode::Plain);
        axis_sweep::<f64, CubicBezier3<f64>>(s, &cubic_all, Mode::Plain);
        s.meta("tables", table_meta.clone());
    });

    rep.section("per-axis extrema of small curves (controls scaled by 2^-60, exact and f64)",
        "the same integer triples / quadruples multiplied by 2^-60 (exact in X and in f64; X: rational stationary points only), so every non-zero derivative coefficient is below the absolute epsilon 2^-52 used by the degeneracy tests; min_*/max_* on all four types and axes: the returned parameter (scale-invariant) is judged on the unscaled reference, against the exact extremum and the grid k/240 \
         (sites per type '<Type>::min_*' / '<Type>::max_*', classes prefixed small-scale:; where the extremum over [0,1] is an end-point value, which needs no stationary point, the prefix is small-scale:end-point-extremum:, so a failure there is not taken for the known interior-extremum finding); \
         reported inflections in [0,1] with x'(t) = 0 on the unscaled reference (site '<Type>::*_inflection(s)'); aabr/aabb only where every side is an end-point coordinate (multiplied back by 2^60, exact; prefix small-scale:end-point-extremum:); *_bounds are not asserted here; non-trivial: axis not constant",
        true, false, |s| {
        s.require_classes(&["stationary-inside", "derivative-linear:root-inside", "two-roots:both-inside", "double-root:inside"]);
        let sc = Q::new(1, 1i128 << 60);
        axis_sweep::<X, QuadraticBezier2<X>>(s, &quad_all, Mode::Small(sc));
        axis_sweep::<X, QuadraticBezier3<X>>(s, &quad_all, Mode::Small(sc));
        axis_sweep::<X, CubicBezier2<X>>(s, &cubic_rat, Mode::Small(sc));
        axis_sweep::<X, CubicBezier3<X>>(s, &cubic_rat, Mode::Small(sc));
        axis_sweep::<f64, QuadraticBezier2<f64>>(s, &quad_all, Mode::Small(sc));
        axis_sweep::<f64, QuadraticBezier3<f64>>(s, &quad_all, Mode::Small(sc));
        axis_sweep::<f64, CubicBezier2<f64>>(s, &cubic_all, Mode::Small(sc));
        axis_sweep::<f64, CubicBezier3<f64>>(s, &cubic_all, Mode::Small(sc));
        s.meta("scale", json!("2^-60"));
    });

    // ---- added by the audit: other magnitudes, f32, wide-range alphabet
    rep.section("per-axis extrema and boxes of scaled curves (exact, f64, f32)",
        "the same integer triples / quadruples multiplied by a power of two that is exact in the element type and keeps every quantity of the computation clear of the absolute epsilon and of over/underflow: X: 2^20 and 2^-25 (rational stationary points only; 2^20 is what the i128 rationals can carry through the comparison of the discriminant with 2^-52), f64: 2^400 and 2^-25, f32: 2^40 and 2^-9 \
         (smallest non-zero derivative coefficient 3 * 2^k, smallest non-zero discriminant 9 * 4^k: above the epsilon of the type); everything of the unscaled sections is asserted (classes prefixed scaled:): inflections, min_*/max_*/ *_bounds judged through the returned parameters on the unscaled reference, \
         aabr/aabb coordinates multiplied by 2^-k (exact) and compared with the exact extent; tolerances as in the f64 section with the epsilon of the type; non-trivial: axis not constant",
        true, false, |s| {
        s.require_classes(QUAD_BRANCHES);
        s.require_classes(CUBIC_RATIONAL_BRANCHES);
        s.require_classes(CUBIC_IRRATIONAL_BRANCHES);
        s.require_classes(VERDICTS);
        s.require_classes(&["reported-0-inflections", "reported-1-inflection", "reported-2-inflections", "box-extends-beyond-end-points", "box-spanned-by-end-points", "box-is-the-curve-extent"]);
        for k in [20, -25] {
            axis_sweep::<X, QuadraticBezier2<X>>(s, &quad_all, Mode::Scaled(k));
            axis_sweep::<X, QuadraticBezier3<X>>(s, &quad_all, Mode::Scaled(k));
            axis_sweep::<X, CubicBezier2<X>>(s, &cubic_rat, Mode::Scaled(k));
            axis_sweep::<X, CubicBezier3<X>>(s, &cubic_rat, Mode::Scaled(k));
        }
        for k in [400, -25] {
            axis_sweep::<f64, QuadraticBezier2<f64>>(s, &quad_all, Mode::Scaled(k));
            axis_sweep::<f64, QuadraticBezier3<f64>>(s, &quad_all, Mode::Scaled(k));
            axis_sweep::<f64, CubicBezier2<f64>>(s, &cubic_all, Mode::Scaled(k));
            axis_sweep::<f64, CubicBezier3<f64>>(s, &cubic_all, Mode::Scaled(k));
        }
        for k in [40, -9] {
            axis_sweep::<f32, QuadraticBezier2<f32>>(s, &quad_all, Mode::Scaled(k));
            axis_sweep::<f32, QuadraticBezier3<f32>>(s, &quad_all, Mode::Scaled(k));
            axis_sweep::<f32, CubicBezier2<f32>>(s, &cubic_all, Mode::Scaled(k));
            axis_sweep::<f32, CubicBezier3<f32>>(s, &cubic_all, Mode::Scaled(k));
        }
        s.meta("tables", table_meta.clone());
    });
    rep.section("per-axis extrema and boxes (f32 against the dense grid)",
        "the f64 section on f32: all control triples / quadruples over the integer alphabet on every axis of all four curve types; returned parameters converted exactly, rounded to 2^-38, curve evaluated exactly there; tolerance 256 eps_f32 * 32 M + 6 M * 2^-39 (24 M for derivatives); \
         then the same tuples multiplied by 2^-40 (the absolute-epsilon regime of the known finding on f32: sites '<Type>::min_*' / '<Type>::max_*' / '<Type>::*_inflection(s)', classes prefixed small-scale:); non-trivial: axis not constant",
        true, false, |s| {
        s.require_classes(QUAD_BRANCHES);
        s.require_classes(CUBIC_RATIONAL_BRANCHES);
        s.require_classes(CUBIC_IRRATIONAL_BRANCHES);
        s.require_classes(VERDICTS);
        axis_sweep::<f32, QuadraticBezier2<f32>>(s, &quad_all, Mode::Plain);
        axis_sweep::<f32, QuadraticBezier3<f32>>(s, &quad_all, Mode::Plain);
        axis_sweep::<f32, CubicBezier2<f32>>(s, &cubic_all, Mode::Plain);
        axis_sweep::<f32, CubicBezier3<f32>>(s, &cubic_all, Mode::Plain);
        let sc = Q::new(1, 1i128 << 40);
        axis_sweep::<f32, QuadraticBezier2<f32>>(s, &quad_all, Mode::Small(sc));
        axis_sweep::<f32, QuadraticBezier3<f32>>(s, &quad_all, Mode::Small(sc));
        axis_sweep::<f32, CubicBezier2<f32>>(s, &cubic_all, Mode::Small(sc));
        axis_sweep::<f32, CubicBezier3<f32>>(s, &cubic_all, Mode::Small(sc));
        s.meta("tables", table_meta.clone());
    });
    {
        // values of very different size inside one curve (the lattice {-R..R} keeps all coefficients within one decade)
        let wide: &[i64] = if th { &[-50, -7, -2, -1, 0, 1, 2, 7, 50] } else { &[-50, -7, -1, 0, 1, 7, 50] };
        let wquad = axis_refs_over(3, wide, 50);
        let wcubic = axis_refs_over(4, wide, 50);
        let wquad_all: Vec<&AxisRef> = wquad.iter().collect();
        let wcubic_all: Vec<&AxisRef> = wcubic.iter().collect();
        let wcubic_rat: Vec<&AxisRef> = wcubic.iter().filter(|r| r.rational).collect();
        rep.section("per-axis extrema and boxes over a wide-range alphabet (exact, f64)",
            "all control triples / quadruples over {0, +-1, +-7, +-50} (thorough: also +-2), i.e. curves whose control values differ by two orders of magnitude on one axis, on every axis of all four types; X (cubics: rational stationary points only) exact as in the first two sections, f64 as in the f64 section; non-trivial: axis not constant",
            true, false, |s| {
            s.require_classes(QUAD_BRANCHES);
            s.require_classes(&["constant", "derivative-constant-nonzero", "derivative-linear:root-inside", "no-real-root", "two-roots:none-inside", "two-roots:one-inside", "two-roots:both-inside"]);
            s.require_classes(CUBIC_IRRATIONAL_BRANCHES);
            s.require_classes(VERDICTS);
            axis_sweep::<X, QuadraticBezier2<X>>(s, &wquad_all, Mode::Plain);
            axis_sweep::<X, QuadraticBezier3<X>>(s, &wquad_all, Mode::Plain);
            axis_sweep::<X, CubicBezier2<X>>(s, &wcubic_rat, Mode::Plain);
            axis_sweep::<X, CubicBezier3<X>>(s, &wcubic_rat, Mode::Plain);
            axis_sweep::<f64, QuadraticBezier2<f64>>(s, &wquad_all, Mode::Plain);
            axis_sweep::<f64, QuadraticBezier3<f64>>(s, &wquad_all, Mode::Plain);
            axis_sweep::<f64, CubicBezier2<f64>>(s, &wcubic_all, Mode::Plain);
            axis_sweep::<f64, CubicBezier3<f64>>(s, &wcubic_all, Mode::Plain);
            s.meta("alphabet", json!(wide));
            s.meta("tuples", json!({"quadratic": wquad.len(), "cubic": wcubic.len(), "cubic_rational": wcubic_rat.len()}));
        });
    }

    // ---- second audit: next to the thresholds, far from the origin, nearly degenerate leading coefficient
    let cubic_lin: Vec<&AxisRef> = cubic.iter().filter(|r| lead(&r.c) == Q::ZERO).collect();
    rep.section("per-axis extrema and boxes just above the degeneracy thresholds (exact, f64, f32)",
        "the integer triples / quadruples multiplied by the smallest power of two that keeps every non-zero quantity compared with the absolute epsilon above it: quadruples in general 2^-28 (X, f64; smallest non-zero discriminant 36 * 2^-56 = 2.25 eps, smallest leading coefficient 3 * 2^-28) and 2^-14 (f32: 36 * 2^-28 = 1.125 eps);          triples and the quadruples whose derivative is at most linear (no discriminant) 2^-51 (X, f64: smallest divisor 2^-51 = 2 eps, smallest linear coefficient 6 * 2^-51) and 2^-22 (f32: 2 eps); X cubics: rational stationary points only.          Everything of the scaled section is asserted with the same oracles (classes prefixed scaled:): a guard that is any wider than the epsilon of the type loses an interior extremum here; non-trivial: axis not constant",
        true, false, |s| {
        s.require_classes(QUAD_BRANCHES);
        s.require_classes(CUBIC_RATIONAL_BRANCHES);
        s.require_classes(CUBIC_IRRATIONAL_BRANCHES);
        s.require_classes(VERDICTS);
        s.require_classes(&["reported-0-inflections", "reported-1-inflection", "reported-2-inflections", "box-extends-beyond-end-points", "box-spanned-by-end-points", "box-is-the-curve-extent"]);
        axis_sweep::<X, CubicBezier2<X>>(s, &cubic_rat, Mode::Scaled(-28));
        axis_sweep::<X, CubicBezier3<X>>(s, &cubic_rat, Mode::Scaled(-28));
        axis_sweep::<f64, CubicBezier2<f64>>(s, &cubic_all, Mode::Scaled(-28));
        axis_sweep::<f64, CubicBezier3<f64>>(s, &cubic_all, Mode::Scaled(-28));
        axis_sweep::<f32, CubicBezier2<f32>>(s, &cubic_all, Mode::Scaled(-14));
        axis_sweep::<f32, CubicBezier3<f32>>(s, &cubic_all, Mode::Scaled(-14));
        axis_sweep::<X, QuadraticBezier2<X>>(s, &quad_all, Mode::Scaled(-51));
        axis_sweep::<X, QuadraticBezier3<X>>(s, &quad_all, Mode::Scaled(-51));
        axis_sweep::<X, CubicBezier2<X>>(s, &cubic_lin, Mode::Scaled(-51));
        axis_sweep::<X, CubicBezier3<X>>(s, &cubic_lin, Mode::Scaled(-51));
        axis_sweep::<f64, QuadraticBezier2<f64>>(s, &quad_all, Mode::Scaled(-51));
        axis_sweep::<f64, QuadraticBezier3<f64>>(s, &quad_all, Mode::Scaled(-51));
        axis_sweep::<f64, CubicBezier2<f64>>(s, &cubic_lin, Mode::Scaled(-51));
        axis_sweep::<f64, CubicBezier3<f64>>(s, &cubic_lin, Mode::Scaled(-51));
        axis_sweep::<f32, QuadraticBezier2<f32>>(s, &quad_all, Mode::Scaled(-22));
        axis_sweep::<f32, QuadraticBezier3<f32>>(s, &quad_all, Mode::Scaled(-22));
        axis_sweep::<f32, CubicBezier2<f32>>(s, &cubic_lin, Mode::Scaled(-22));
        axis_sweep::<f32, CubicBezier3<f32>>(s, &cubic_lin, Mode::Scaled(-22));
        s.meta("tables", table_meta.clone());
        s.meta("quadruples_with_at_most_linear_derivative", json!(cubic_lin.len()));
    });
    rep.section("per-axis extrema and boxes of curves far from the origin (exact, f64, f32)",
        "the integer triples / quadruples with 2^26 (X, f64; f64 also -2^26) resp. 2^12 (f32) added to every control (exact in the type; every coefficient of the derivative is still computed exactly, so the parameters are those of the unshifted curve; eps * offset^2 >= 1: any guard or rewrite that measures a difference of controls against their squared size degenerates here), on every axis of all four types;          inflections, min_*/max_*/ *_bounds judged through the returned parameters on the unshifted reference, aabr/aabb with the offset subtracted (exact); classes prefixed shifted:; float tolerance: that of the f64 section + 48 eps (offset + M)          (vek decides and fills boxes with its own evaluate(): forward error <= 16 eps (offset + M) per evaluation, twice for a decision, once more for the coordinate); X cubics: rational stationary points only; non-trivial: axis not constant",
        true, false, |s| {
        s.require_classes(QUAD_BRANCHES);
        s.require_classes(CUBIC_RATIONAL_BRANCHES);
        s.require_classes(CUBIC_IRRATIONAL_BRANCHES);
        s.require_classes(VERDICTS);
        s.require_classes(&["reported-0-inflections", "reported-1-inflection", "reported-2-inflections", "box-extends-beyond-end-points", "box-spanned-by-end-points", "box-is-the-curve-extent"]);
        axis_sweep::<X, QuadraticBezier2<X>>(s, &quad_all, Mode::Shifted(26, false));
        axis_sweep::<X, QuadraticBezier3<X>>(s, &quad_all, Mode::Shifted(26, false));
        axis_sweep::<X, CubicBezier2<X>>(s, &cubic_rat, Mode::Shifted(26, false));
        axis_sweep::<X, CubicBezier3<X>>(s, &cubic_rat, Mode::Shifted(26, false));
        axis_sweep::<f64, QuadraticBezier2<f64>>(s, &quad_all, Mode::Shifted(26, false));
        axis_sweep::<f64, QuadraticBezier3<f64>>(s, &quad_all, Mode::Shifted(26, false));
        axis_sweep::<f64, CubicBezier2<f64>>(s, &cubic_all, Mode::Shifted(26, false));
        axis_sweep::<f64, CubicBezier3<f64>>(s, &cubic_all, Mode::Shifted(26, false));
        // the offset with the other sign (a guard that forgets an absolute value, a sign-dependent shortcut)
        axis_sweep::<f64, QuadraticBezier2<f64>>(s, &quad_all, Mode::Shifted(26, true));
        axis_sweep::<f64, QuadraticBezier3<f64>>(s, &quad_all, Mode::Shifted(26, true));
        axis_sweep::<f64, CubicBezier2<f64>>(s, &cubic_all, Mode::Shifted(26, true));
        axis_sweep::<f64, CubicBezier3<f64>>(s, &cubic_all, Mode::Shifted(26, true));
        axis_sweep::<f32, QuadraticBezier2<f32>>(s, &quad_all, Mode::Shifted(12, false));
        axis_sweep::<f32, QuadraticBezier3<f32>>(s, &quad_all, Mode::Shifted(12, false));
        axis_sweep::<f32, CubicBezier2<f32>>(s, &cubic_all, Mode::Shifted(12, false));
        axis_sweep::<f32, CubicBezier3<f32>>(s, &cubic_all, Mode::Shifted(12, false));
        s.meta("tables", table_meta.clone());
    });
    rep.section("per-axis extrema of small curves away from the origin (exact)",
        "the small-curve section with the tiny curve moved to 1: controls 1 + n * 2^-60 (exact type only), i.e. values that are nearly equal relative to their size; same sites, classes and assertions as there (end-point extrema and boxes spanned by end points under small-scale:end-point-extremum:, interior ones under the keys of the known absolute-epsilon finding),          on QuadraticBezier2<X> and CubicBezier3<X> (rational stationary points); non-trivial: axis not constant",
        true, false, |s| {
        s.require_classes(&["small-scale:minimum-at-an-end-point", "small-scale:minimum-interior", "small-scale:box-spanned-by-end-points(asserted)"]);
        let sc = Q::new(1, 1i128 << 60);
        axis_sweep::<X, QuadraticBezier2<X>>(s, &quad_all, Mode::SmallAt(sc, Q::ONE));
        axis_sweep::<X, CubicBezier3<X>>(s, &cubic_rat, Mode::SmallAt(sc, Q::ONE));
    });
    {
        let r_nq = if th { 4 } else { 3 };
        let nq64 = nearly_quadratic_refs(r_nq, &[40, 44, 47, 49, 50, 51], fits_f64);
        let nq32 = nearly_quadratic_refs(r_nq, &[14, 18, 20, 21, 22], fits_f32);
        let nq64r: Vec<&AxisRef> = nq64.iter().collect();
        let nq32r: Vec<&AxisRef> = nq32.iter().collect();
        rep.section("per-axis extrema and boxes of nearly quadratic cubics (f64, f32)",
            "every integer quadruple over {-3..3} (thorough {-4..4}) whose cubic coefficient vanishes (derivative at most linear), with the last control moved by +-2^-j, j in {40,44,47,49,50,51} (f64) / {14,18,20,21,22} (f32), where the type represents it exactly: the leading coefficient of the derivative is 3 * 2^-j, above the absolute epsilon of the degeneracy test and tiny against the other coefficients              (the shape of a degree-elevated quadratic whose control points were rounded); on every axis of CubicBezier2/3; reference: exact controls, stationary points from the cancellation-free quadratic formula, grid k/240 exact, value at the returned parameter = exact integer part + delta t^3;              assertions and tolerances of the f64/f32 sections; sites per type ('<Type>::*_inflections', '::min_*', '::max_*', '::*_bounds', '::aabr', '::aabb'), classes prefixed nearly-quadratic:; non-trivial: axis not constant",
            true, false, |s| {
            s.require_classes(&["irrational-roots:one-inside", "irrational-roots:none-inside", "min-interior", "max-interior", "reported-1-inflection"]);
            axis_sweep::<f64, CubicBezier2<f64>>(s, &nq64r, Mode::Tagged("nearly-quadratic:"));
            axis_sweep::<f64, CubicBezier3<f64>>(s, &nq64r, Mode::Tagged("nearly-quadratic:"));
            axis_sweep::<f32, CubicBezier2<f32>>(s, &nq32r, Mode::Tagged("nearly-quadratic:"));
            axis_sweep::<f32, CubicBezier3<f32>>(s, &nq32r, Mode::Tagged("nearly-quadratic:"));
            s.meta("tuples", json!({"f64": nq64.len(), "f32": nq32.len()}));
        });
    }

    // ---- closest-point search
    let eps = Q::new(1, 64);
    let steps: &[u16] = &[1, 2, 4, 16];
    let q2 = grid_points(2, &[-4, -3, -2, -1, 0, 1, 2, 3, 4]);
    let q3 = if th { grid_points(3, &[-4, -3, -2, -1, 0, 1, 2, 3, 4]) } else { grid_points(3, &[-4, -3, 0, 1, 4]) };
    let pts2_9 = grid_points(2, &[-2, 0, 2]);
    let pts2_4 = grid_points(2, &[-2, 2]);
    let pts3_8 = grid_points(3, &[-2, 2]);
    rep.section("closest-point search by steps (exact)",
        "binary_search_point_by_steps on X (wrapped in a multiplication budget of 100000 per call: non-termination is a verdict, not a hang) for every curve with control points from a small point set (2-D: {-2,0,2}^2 quadratic, {-2,2}^2 cubic (thorough {-2,0,2}^2); 3-D: {-2,2}^3 with fixed start (and fixed end for cubics) in the quick tier), every query on {-4..4}^D (3-D quick tier: {-4,-3,0,1,4}^3), steps in {1,2,4,16}, epsilon 1/64; \
         returned point = curve at the returned parameter (de Casteljau), squared distance to the query <= that of the end point and of every coarse sample i/steps; the returned parameter may leave [0,1] (counted, not asserted: the property does not state it); non-trivial: control points not all equal",
        true, false, |s| {
        s.require_classes(SEARCH_CLASSES);
        search_sweep::<QuadraticBezier2<Fx>>(s, &curves_from(3, &pts2_9, false, false), &q2, steps, eps);
        search_sweep::<CubicBezier2<Fx>>(s, &curves_from(4, if th { &pts2_9 } else { &pts2_4 }, false, false), &q2, steps, eps);
        search_sweep::<QuadraticBezier3<Fx>>(s, &curves_from(3, &pts3_8, !th, false), &q3, steps, eps);
        search_sweep::<CubicBezier3<Fx>>(s, &curves_from(4, &pts3_8, true, !th), &q3, steps, eps);
    });
    rep.section("closest-point search with caller-supplied coarse pairs (exact)",
        "binary_search_point on X (same multiplication budget): coarse = empty / one pair at 1/2 / pairs at 0, 1/3, 2/3 (points taken from the reference curve), half_interval in {1/2, 1/8}, epsilon 1/64; curves: control points from {-2,2}^D (2-D quadratic thorough: {-2,0,2}^2; quick tier: fixed start for 2-D cubics and 3-D quadratics, fixed start and end for 3-D cubics), queries as above; same three assertions; non-trivial: control points not all equal",
        true, false, |s| {
        s.require_classes(SEARCH_CLASSES);
        s.require_classes(&["coarse-empty", "coarse-single", "coarse-uneven"]);
        search_direct::<QuadraticBezier2<Fx>>(s, &curves_from(3, if th { &pts2_9 } else { &pts2_4 }, false, false), &q2, eps);
        search_direct::<CubicBezier2<Fx>>(s, &curves_from(4, &pts2_4, !th, false), &q2, eps);
        search_direct::<QuadraticBezier3<Fx>>(s, &curves_from(3, &pts3_8, !th, false), &q3, eps);
        search_direct::<CubicBezier3<Fx>>(s, &curves_from(4, &pts3_8, true, !th), &q3, eps);
    });

    // ---- length
    let dirs2: &[([i64; 3], i64)] = &[([1, 0, 0], 1), ([0, 1, 0], 1), ([3, 4, 0], 5), ([-4, 3, 0], 5)];
    let dirs3: &[([i64; 3], i64)] = &[([1, 0, 0], 1), ([0, 1, 0], 1), ([0, 0, 1], 1), ([1, 2, 2], 3), ([2, -3, 6], 7)];
    let r_len = if th { 5 } else { 3 };
    rep.section("discretized length of straight curves (exact)",
        "length_by_discretization on X for control points offset + k_i * v, all scalar tuples (k_i) over {-3..3} (thorough {-5..5}), v among axis directions and directions of integer norm ((3,4), (-4,3); (1,2,2), (2,-3,6)), so every segment length is rational; \
         step counts along the doubling chains 0,1,3,7,15 / 2,5,11 / 4,9 (thorough: 0..63 / 2..23 / 4..19 / 6,13,27 / 8,17 / 10,21 / 12,25): chord <= L(n) <= control polygon and L(2n+1) >= L(n), all exact; non-trivial: not a single point",
        true, false, |s| {
        s.require_classes(&["single-point", "straight-monotone(chord=polygon)", "straight-closed(chord=0)", "straight-overshooting(chord<polygon)", "L=chord=polygon", "chord<L<polygon", "doubling-strictly-increases", "doubling-keeps-length"]);
        length_exact::<QuadraticBezier2<X>>(s, r_len, dirs2, chains(th));
        length_exact::<QuadraticBezier3<X>>(s, r_len, dirs3, chains(th));
        length_exact::<CubicBezier2<X>>(s, r_len, dirs2, chains(th));
        length_exact::<CubicBezier3<X>>(s, r_len, dirs3, chains(th));
    });
    let pts2_len = grid_points(2, &[-1, 0, 1]);
    let pts3_len = grid_points(3, &[-1, 1]);
    rep.section("discretized length of general curves (f64)",
        "length_by_discretization on f64 for every curve with control points from {-1,0,1}^2 (2-D cubic: quick {-2,2}^2) resp. {-1,1}^3, step counts along the doubling chains 0,1,3,7,15 / 2,5,11 / 4,9 (thorough: the longer chains of the exact section): \
         chord - tol <= L(n) <= control polygon + tol, L(2n+1) >= L(n) - tol with the forward bound tol = 512 (n+2) eps max(M, polygon, 1); non-trivial: not a single point",
        true, false, |s| {
        s.require_classes(&["single-point", "straight-monotone(chord=polygon)", "bent-or-overshooting(chord<polygon)", "doubling-strictly-increases", "doubling-keeps-length"]);
        length_f64::<QuadraticBezier2<f64>>(s, &curves_from(3, &pts2_len, false, false), chains(th));
        length_f64::<CubicBezier2<f64>>(s, &curves_from(4, if th { &pts2_len } else { &pts2_4 }, false, false), chains(th));
        length_f64::<QuadraticBezier3<f64>>(s, &curves_from(3, &pts3_len, false, false), chains(th));
        length_f64::<CubicBezier3<f64>>(s, &curves_from(4, &pts3_len, false, false), chains(th));
    });
    rep.section("discretized length of exactly summable straight curves (f32 and f64, any step count)",
        "length_by_discretization on f32 and f64 for the straight uniformly parametrised curve along each coordinate axis with control values 3 .. 6 in arithmetic progression (and reversed, 6 .. 3), other lanes 0, at step counts 0, 1, 2, 3, 4, 6, 9, 99, 127, 999, 1023, 9999, 24999, 32767, 49999, 65534, 65535: all samples lie in [3,6], are hundreds of ulps apart, and every segment length and partial sum is a multiple of ulp(3) below 4, hence exact in the element type - so the result is exactly 3 for any polyline that starts at start and ends at end, whatever its sample positions and summation order; a parameter that drifts (accumulated increments) or a last sample short of 1 shows as a result != 3, far below the general sections' forward error bound; non-trivial: all",
        true, false, |s| {
        s.require_classes(&["segment-count-power-of-two", "segment-count-not-a-power-of-two", "f32", "f64"]);
        let counts: [u16; 17] = [0, 1, 2, 3, 4, 6, 9, 99, 127, 999, 1023, 9999, 24999, 32767, 49999, 65534, 65535];
        length_exact_float::<f32, QuadraticBezier2<f32>>(s, &counts); length_exact_float::<f64, QuadraticBezier2<f64>>(s, &counts);
        length_exact_float::<f32, QuadraticBezier3<f32>>(s, &counts); length_exact_float::<f64, QuadraticBezier3<f64>>(s, &counts);
        length_exact_float::<f32, CubicBezier2<f32>>(s, &counts); length_exact_float::<f64, CubicBezier2<f64>>(s, &counts);
        length_exact_float::<f32, CubicBezier3<f32>>(s, &counts); length_exact_float::<f64, CubicBezier3<f64>>(s, &counts);
    });
    rep.section("discretized length at the largest step counts (f64)",
        "length_by_discretization on f64 for one straight curve per type (direction (2,3,6), chord = control polygon) at step counts 16383, 32766, 32767, 65533, 65534, 65535 (refinement by doubling of 32767 asks for 65535, the largest u16): \
         the call returns, chord - tol <= L <= polygon + tol, and the doubling pairs do not decrease; non-trivial: all",
        true, false, |s| {
        s.require_classes(&["step-count-at-u16-limit", "step-count-large"]);
        length_boundary::<QuadraticBezier2<f64>>(s);
        length_boundary::<QuadraticBezier3<f64>>(s);
        length_boundary::<CubicBezier2<f64>>(s);
        length_boundary::<CubicBezier3<f64>>(s);
    });

    // ---- added by the audit: closest-point search beyond the symmetric lattice curves
    let half = |n: i128| Q::new(n, 2);
    let qq2 = queries_q(2, &[half(-7), half(-1), half(3), half(9)]);
    let qq3 = if th { queries_q(3, &[half(-7), half(-1), half(3), half(9)]) } else { queries_q(3, &[half(-7), half(3), half(9)]) };
    rep.section("closest-point search by steps on asymmetric curves (exact)",
        "binary_search_point_by_steps on X (same multiplication budget) for every curve with control points from the asymmetric sets {(0,0),(1,3),(4,-1),(5,2),(-3,1)} (2-D) and {(0,0,0),(1,3,-2),(4,-1,1),(5,2,3)} (3-D) (quick tier: cubics with fixed start), \
         queries off the lattice ({-7/2,-1/2,3/2,9/2}^2; 3-D quick {-7/2,3/2,9/2}^3), steps in {3,5} (thorough also 7: coarse parameters that are not dyadic), epsilon in {1/50, 1/3} (1/3 exceeds every half interval: no refinement round at all); same three assertions as above; non-trivial: control points not all equal",
        true, false, |s| {
        s.require_classes(&["refinement-improved", "stayed-at-end-point", "stayed-at-coarse-sample", "no-refinement(half-interval<epsilon)", "refinement-runs", "steps-not-a-power-of-two"]);
        let steps: &[u16] = if th { &[3, 5, 7] } else { &[3, 5] };
        let epss = [Q::new(1, 50), Q::new(1, 3)];
        search_sweep_q::<QuadraticBezier2<Fx>>(s, &curves_from(3, ASYM2, false, false), &qq2, steps, &epss);
        search_sweep_q::<CubicBezier2<Fx>>(s, &curves_from(4, ASYM2, !th, false), &qq2, steps, &epss);
        search_sweep_q::<QuadraticBezier3<Fx>>(s, &curves_from(3, ASYM3, false, false), &qq3, steps, &epss);
        search_sweep_q::<CubicBezier3<Fx>>(s, &curves_from(4, ASYM3, !th, false), &qq3, steps, &epss);
    });
    rep.section("closest-point search by steps on floats (f64, f32; inputs scaled by powers of two)",
        "binary_search_point_by_steps on f64 and f32 wrapped in the same multiplication budget (a loop that never exits is a verdict), control points and query multiplied by 2^k, k in {0, 400, -400} (f64) / {0, 40, -40} (f32) (squared distances stay finite and normal); curves: the asymmetric sets and {-2,2}^D (quick tier: cubics with fixed start; thorough 2-D: {-2,0,2}^2), \
         queries {-7/2,-1/2,3/2,9/2}^D (3-D quick: three values), steps in {1,2,4,16,3}, epsilon 1/64; results are multiplied by 2^-k (exact) and judged in unscaled units: returned point = exact curve point at the returned parameter within 64 eps S, squared distance <= that of the end point and of every coarse sample i/steps + 256 eps (S+|query|)^2 \
         (S = M on [0,1], M (1+2|t|)^n outside; classes prefixed float: / float:scaled:); plus steps in {32768, 65535} (u16 boundary of 2*steps) on two curves per type (budget 2*10^7); non-trivial: control points not all equal",
        true, false, |s| {
        s.require_classes(&["refinement-improved", "stayed-at-end-point", "stayed-at-coarse-sample", "steps-power-of-two", "steps-not-a-power-of-two", "steps>=2^15"]);
        let steps: &[u16] = &[1, 2, 4, 16, 3];
        let eps = Q::new(1, 64);
        let c2q = [curves_from(3, ASYM2, false, false), curves_from(3, if th { &pts2_9 } else { &pts2_4 }, false, false)].into_iter().flatten().collect::<Vec<_>>();
        let c2c = [curves_from(4, ASYM2, !th, false), curves_from(4, if th { &pts2_9 } else { &pts2_4 }, !th, false)].into_iter().flatten().collect::<Vec<_>>();
        let c3q = [curves_from(3, ASYM3, false, false), curves_from(3, &pts3_8, !th, false)].into_iter().flatten().collect::<Vec<_>>();
        let c3c = [curves_from(4, ASYM3, !th, false), curves_from(4, &pts3_8, true, !th)].into_iter().flatten().collect::<Vec<_>>();
        for k in [0, 400, -400] {
            search_float::<Fd, QuadraticBezier2<Fd>>(s, &c2q, &qq2, steps, eps, k, FUEL_PER_SEARCH);
            search_float::<Fd, CubicBezier2<Fd>>(s, &c2c, &qq2, steps, eps, k, FUEL_PER_SEARCH);
            search_float::<Fd, QuadraticBezier3<Fd>>(s, &c3q, &qq3, steps, eps, k, FUEL_PER_SEARCH);
            search_float::<Fd, CubicBezier3<Fd>>(s, &c3c, &qq3, steps, eps, k, FUEL_PER_SEARCH);
        }
        for k in [0, 40, -40] {
            search_float::<Fs, QuadraticBezier2<Fs>>(s, &c2q, &qq2, steps, eps, k, FUEL_PER_SEARCH);
            search_float::<Fs, CubicBezier2<Fs>>(s, &c2c, &qq2, steps, eps, k, FUEL_PER_SEARCH);
            search_float::<Fs, QuadraticBezier3<Fs>>(s, &c3q, &qq3, steps, eps, k, FUEL_PER_SEARCH);
            search_float::<Fs, CubicBezier3<Fs>>(s, &c3c, &qq3, steps, eps, k, FUEL_PER_SEARCH);
        }
        // the largest step counts: 2*steps does not fit u16
        let big: &[u16] = &[32768, 65535];
        let bq2 = [half(-1), half(3), Q::ZERO];
        let bq = [bq2, [half(9), half(-7), half(3)]];
        // two bent curves per type: the first K points of the asymmetric set, and its last K points in reverse order
        let two = |k: usize, set: &[[i64; 3]]| -> Vec<SearchCurve> { vec![SearchCurve { ctrl: set[..k].to_vec() }, SearchCurve { ctrl: set[set.len() - k..].iter().rev().cloned().collect() }] };
        search_float::<Fd, QuadraticBezier2<Fd>>(s, &two(3, ASYM2), &bq, big, eps, 0, 20_000_000);
        search_float::<Fd, CubicBezier2<Fd>>(s, &two(4, ASYM2), &bq, big, eps, 0, 20_000_000);
        search_float::<Fd, QuadraticBezier3<Fd>>(s, &two(3, ASYM3), &bq, big, eps, 0, 20_000_000);
        search_float::<Fd, CubicBezier3<Fd>>(s, &two(4, ASYM3), &bq, big, eps, 0, 20_000_000);
        search_float::<Fs, QuadraticBezier2<Fs>>(s, &two(3, ASYM2), &bq, big, eps, 0, 20_000_000);
        search_float::<Fs, CubicBezier2<Fs>>(s, &two(4, ASYM2), &bq, big, eps, 0, 20_000_000);
        search_float::<Fs, QuadraticBezier3<Fs>>(s, &two(3, ASYM3), &bq, big, eps, 0, 20_000_000);
        search_float::<Fs, CubicBezier3<Fs>>(s, &two(4, ASYM3), &bq, big, eps, 0, 20_000_000);
    });
    rep.section("closest-point search by steps with zero steps (f64, f32)",
        "binary_search_point_by_steps(p, 0, 1/64) on f64 and f32 (multiplication budget 100000) for one asymmetric curve per type and one query: no coarse sample, so the result has to be a curve point no farther from the query than the end point (the general entry point documents an empty coarse iterator as allowed); \
         a call that does not come back within the budget is reported as float:steps-0:does-not-terminate; non-trivial: all",
        true, false, |s| {
        s.require_classes(&["steps-0"]);
        let q = [half(3), half(-1), half(9)];
        search_float_zero_steps::<Fd, QuadraticBezier2<Fd>>(s, &ASYM2[1..4], q);
        search_float_zero_steps::<Fd, QuadraticBezier3<Fd>>(s, &ASYM3[1..4], q);
        search_float_zero_steps::<Fd, CubicBezier2<Fd>>(s, &ASYM2[0..4], q);
        search_float_zero_steps::<Fd, CubicBezier3<Fd>>(s, &ASYM3[0..4], q);
        search_float_zero_steps::<Fs, QuadraticBezier2<Fs>>(s, &ASYM2[1..4], q);
        search_float_zero_steps::<Fs, QuadraticBezier3<Fs>>(s, &ASYM3[1..4], q);
        search_float_zero_steps::<Fs, CubicBezier2<Fs>>(s, &ASYM2[0..4], q);
        search_float_zero_steps::<Fs, CubicBezier3<Fs>>(s, &ASYM3[0..4], q);
    });

    // ---- added by the audit: length on asymmetric curves, on f32 and on scaled inputs
    rep.section("discretized length of asymmetric and scaled curves (f64, f32)",
        "length_by_discretization on f64 and f32 for every curve with control points from the asymmetric sets and from the lattice sets of the f64 section (thorough: 2-D quadratics over {-2..2}^2), every control multiplied by 2^k, k in {0, 400, -400} (f64) / {0, 40, -40} (f32); the result is multiplied by 2^-k (exact) and judged in unscaled units: \
         chord - tol <= L(n) <= control polygon + tol, L(2n+1) >= L(n) - tol, tol = 512 (n+2) eps_F max(M, polygon, 1), along the doubling chains (thorough: longer and more chains); classes of the scaled runs prefixed scaled:; non-trivial: not a single point",
        true, false, |s| {
        s.require_classes(&["single-point", "straight-monotone(chord=polygon)", "bent-or-overshooting(chord<polygon)", "doubling-strictly-increases", "doubling-keeps-length"]);
        let pts2_wide = grid_points(2, &[-2, -1, 0, 1, 2]);
        let l2q = [curves_from(3, ASYM2, false, false), curves_from(3, if th { &pts2_wide } else { &pts2_len }, false, false)].into_iter().flatten().collect::<Vec<_>>();
        let l2c = [curves_from(4, ASYM2, false, false), curves_from(4, if th { &pts2_len } else { &pts2_4 }, false, false)].into_iter().flatten().collect::<Vec<_>>();
        let l3q = [curves_from(3, ASYM3, false, false), curves_from(3, &pts3_len, false, false)].into_iter().flatten().collect::<Vec<_>>();
        let l3c = [curves_from(4, ASYM3, false, false), curves_from(4, &pts3_len, false, false)].into_iter().flatten().collect::<Vec<_>>();
        for k in [0, 400, -400] {
            length_float::<f64, QuadraticBezier2<f64>>(s, &l2q, k, chains(th));
            length_float::<f64, CubicBezier2<f64>>(s, &l2c, k, chains(th));
            length_float::<f64, QuadraticBezier3<f64>>(s, &l3q, k, chains(th));
            length_float::<f64, CubicBezier3<f64>>(s, &l3c, k, chains(th));
        }
        for k in [0, 40, -40] {
            length_float::<f32, QuadraticBezier2<f32>>(s, &l2q, k, chains(th));
            length_float::<f32, CubicBezier2<f32>>(s, &l2c, k, chains(th));
            length_float::<f32, QuadraticBezier3<f32>>(s, &l3q, k, chains(th));
            length_float::<f32, CubicBezier3<f32>>(s, &l3c, k, chains(th));
        }
    });

    // ---- second audit: length and search far from the origin, general entry point of the search on floats
    rep.section("discretized length of curves far from the origin (f64, f32)",
        "length_by_discretization on f64 and f32 for the curves of the previous section with 2^26 (f64) resp. 2^8 (f32) added to every lane of every control point (exact): chord and control polygon are those of the unshifted curve, the segments are short against the coordinates (eps * |point|^2 is about 1 on f64: a segment length taken from expanded squares, or a degenerate-segment guard relative to the squared coordinates, is wrong here);          chord - tol <= L(n) <= control polygon + tol, L(2n+1) >= L(n) - tol, tol = 512 (n+2) eps_F max(M + offset, polygon, 1); classes prefixed shifted:; non-trivial: not a single point",
        true, false, |s| {
        s.require_classes(&["single-point", "straight-monotone(chord=polygon)", "bent-or-overshooting(chord<polygon)", "doubling-strictly-increases", "doubling-keeps-length"]);
        let l2q = [curves_from(3, ASYM2, false, false), curves_from(3, &pts2_len, false, false)].into_iter().flatten().collect::<Vec<_>>();
        let l2c = [curves_from(4, ASYM2, false, false), curves_from(4, if th { &pts2_len } else { &pts2_4 }, false, false)].into_iter().flatten().collect::<Vec<_>>();
        let l3q = [curves_from(3, ASYM3, false, false), curves_from(3, &pts3_len, false, false)].into_iter().flatten().collect::<Vec<_>>();
        let l3c = [curves_from(4, ASYM3, false, false), curves_from(4, &pts3_len, false, false)].into_iter().flatten().collect::<Vec<_>>();
        length_float_at::<f64, QuadraticBezier2<f64>>(s, &l2q, 0, Some(26), chains(th));
        length_float_at::<f64, CubicBezier2<f64>>(s, &l2c, 0, Some(26), chains(th));
        length_float_at::<f64, QuadraticBezier3<f64>>(s, &l3q, 0, Some(26), chains(th));
        length_float_at::<f64, CubicBezier3<f64>>(s, &l3c, 0, Some(26), chains(th));
        length_float_at::<f32, QuadraticBezier2<f32>>(s, &l2q, 0, Some(8), chains(th));
        length_float_at::<f32, CubicBezier2<f32>>(s, &l2c, 0, Some(8), chains(th));
        length_float_at::<f32, QuadraticBezier3<f32>>(s, &l3q, 0, Some(8), chains(th));
        length_float_at::<f32, CubicBezier3<f32>>(s, &l3c, 0, Some(8), chains(th));
    });
    rep.section("closest-point search far from the origin and through the general entry point (f64, f32)",
        "(a) binary_search_point_by_steps on f64 (multiplication budget) with 2^30 added to every lane of every control point and of the query (exact): curve, query and all distances are those of the unshifted case, but eps * |point|^2 = 2^8, so squared distances must come from the differences; asymmetric sets and {-2,2}^D (cubics with fixed start in the quick tier), queries {-7/2,-1/2,3/2,9/2}^D (3-D quick: three values), steps {1,2,4,16,3}, epsilon 1/64;          (b) binary_search_point (caller-supplied coarse pairs: none / one at 1/2 / at 0, 1/4, 3/4, taken from the reference curve; half interval 1/2, 1/8, 1/3) on f64 and f32 unshifted and on f64 shifted by 2^30, asymmetric sets; (c) binary_search_point_by_steps on f64 / f32 with the smallest admissible epsilon 2 T::epsilon() (2^-51 / 2^-22: about 50 / 20 halvings of the interval), asymmetric sets, steps {1,4,3};          returned point (offset subtracted, exact) = curve point at the returned parameter within 64 eps S, S = (M + offset)(1+2|t|)^n outside [0,1]; squared distance <= that of the end point and of every coarse sample + the bound derived from the point error e = 64 eps (M + offset): 4 sqrt(D d) e + 2 D e^2 + 32 eps d (unshifted: the bound of the float section);          classes prefixed float:shifted: / float:; non-trivial: control points not all equal",
        true, false, |s| {
        s.require_classes(&["refinement-improved", "stayed-at-end-point", "stayed-at-coarse-sample", "coarse-empty", "coarse-single", "coarse-uneven", "steps-not-a-power-of-two"]);
        let steps: &[u16] = &[1, 2, 4, 16, 3];
        let eps = Q::new(1, 64);
        let c2q = [curves_from(3, ASYM2, false, false), curves_from(3, &pts2_4, false, false)].into_iter().flatten().collect::<Vec<_>>();
        let c2c = [curves_from(4, ASYM2, !th, false), curves_from(4, &pts2_4, !th, false)].into_iter().flatten().collect::<Vec<_>>();
        let c3q = [curves_from(3, ASYM3, false, false), curves_from(3, &pts3_8, !th, false)].into_iter().flatten().collect::<Vec<_>>();
        let c3c = [curves_from(4, ASYM3, !th, false), curves_from(4, &pts3_8, true, !th)].into_iter().flatten().collect::<Vec<_>>();
        search_float_at::<Fd, QuadraticBezier2<Fd>>(s, &c2q, &qq2, steps, eps, 0, Some(30), FUEL_PER_SEARCH);
        search_float_at::<Fd, CubicBezier2<Fd>>(s, &c2c, &qq2, steps, eps, 0, Some(30), FUEL_PER_SEARCH);
        search_float_at::<Fd, QuadraticBezier3<Fd>>(s, &c3q, &qq3, steps, eps, 0, Some(30), FUEL_PER_SEARCH);
        search_float_at::<Fd, CubicBezier3<Fd>>(s, &c3c, &qq3, steps, eps, 0, Some(30), FUEL_PER_SEARCH);
        let a2q = curves_from(3, ASYM2, false, false);
        let a2c = curves_from(4, ASYM2, !th, false);
        let a3q = curves_from(3, ASYM3, false, false);
        let a3c = curves_from(4, ASYM3, !th, false);
        for sh in [None, Some(30)] {
            search_direct_float::<Fd, QuadraticBezier2<Fd>>(s, &a2q, &qq2, eps, sh);
            search_direct_float::<Fd, CubicBezier2<Fd>>(s, &a2c, &qq2, eps, sh);
            search_direct_float::<Fd, QuadraticBezier3<Fd>>(s, &a3q, &qq3, eps, sh);
            search_direct_float::<Fd, CubicBezier3<Fd>>(s, &a3c, &qq3, eps, sh);
        }
        search_direct_float::<Fs, QuadraticBezier2<Fs>>(s, &a2q, &qq2, eps, None);
        search_direct_float::<Fs, CubicBezier2<Fs>>(s, &a2c, &qq2, eps, None);
        search_direct_float::<Fs, QuadraticBezier3<Fs>>(s, &a3q, &qq3, eps, None);
        search_direct_float::<Fs, CubicBezier3<Fs>>(s, &a3c, &qq3, eps, None);
        // (c) the smallest admissible epsilon (the documented precondition is epsilon > T::epsilon()): 2 T::epsilon()
        let st3: &[u16] = &[1, 4, 3];
        let (e64, e32) = (Q::new(1, 1i128 << 51), Q::new(1, 1i128 << 22));
        search_float_at::<Fd, QuadraticBezier2<Fd>>(s, &a2q, &qq2, st3, e64, 0, None, FUEL_PER_SEARCH);
        search_float_at::<Fd, CubicBezier2<Fd>>(s, &a2c, &qq2, st3, e64, 0, None, FUEL_PER_SEARCH);
        search_float_at::<Fd, QuadraticBezier3<Fd>>(s, &a3q, &qq3, st3, e64, 0, None, FUEL_PER_SEARCH);
        search_float_at::<Fd, CubicBezier3<Fd>>(s, &a3c, &qq3, st3, e64, 0, None, FUEL_PER_SEARCH);
        search_float_at::<Fs, QuadraticBezier2<Fs>>(s, &a2q, &qq2, st3, e32, 0, None, FUEL_PER_SEARCH);
        search_float_at::<Fs, CubicBezier2<Fs>>(s, &a2c, &qq2, st3, e32, 0, None, FUEL_PER_SEARCH);
        search_float_at::<Fs, QuadraticBezier3<Fs>>(s, &a3q, &qq3, st3, e32, 0, None, FUEL_PER_SEARCH);
        search_float_at::<Fs, CubicBezier3<Fs>>(s, &a3c, &qq3, st3, e32, 0, None, FUEL_PER_SEARCH);
    });

    std::process::exit(rep.finish());
}
