//! C16 — disks, spheres, segments, rays: containment, distance and hit queries are exact.
//!
//! Every oracle works on plain integers / `Q` rationals read from and written to public fields; no vek
//! function sits in an oracle.  Coordinates of the disk/sphere sections are given in HALF units
//! (the integer n stands for n/2), so that radius 1/2 and half-integer tangencies are on the grid.
use num_traits::real::Real;
use num_traits::FloatConst;
use rayon::prelude::*;
use std::collections::BTreeMap;
use std::fmt::Debug;
use std::ops::{Add, Range};
use vek::geom::repr_c::{Aabb, Aabr, Disk, LineSegment2, LineSegment3, Ray, Rect, Rect3, Sphere};
use vx::fl::{close32, close64};
use vx::matx::*;
use vx::*;

type P3 = [i64; 3];

// ---------------------------------------------------------------------------------------------
// element tiers

trait El: Real + FloatConst + approx::RelativeEq + Add<Output = Self> + Debug + Send + Sync + 'static {
    const NAME: &'static str;
    const EXACT: bool;
    /// the value n/d (callers only pass values that are exactly representable in the tier)
    fn frac(n: i64, d: i64) -> Self;
    /// exact rational value of a result (None: NaN / infinity)
    fn exact(self) -> Option<Q>;
    fn f(self) -> f64;
    /// the harness' derived forward-error bound of the tier (never used for X)
    fn close(got: f64, want: f64, scale: f64) -> bool;
    /// machine epsilon of the tier is 2^-EPS_BITS
    const EPS_BITS: u32;
    fn eps() -> Q { Q::new(1, 1i128 << Self::EPS_BITS) }
    /// X only: is the value, structurally, the angle token coef*pi (or any zero when coef = 0)?
    fn is_pi_times(self, _coef: Q) -> bool { false }
}
impl El for f64 {
    const NAME: &'static str = "f64";
    const EXACT: bool = false;
    fn frac(n: i64, d: i64) -> f64 { n as f64 / d as f64 }
    fn exact(self) -> Option<Q> { Q::from_f64(self) }
    fn f(self) -> f64 { self }
    fn close(got: f64, want: f64, scale: f64) -> bool { close64(got, want, scale) }
    const EPS_BITS: u32 = 52;
}
impl El for f32 {
    const NAME: &'static str = "f32";
    const EXACT: bool = false;
    fn frac(n: i64, d: i64) -> f32 { n as f32 / d as f32 }
    fn exact(self) -> Option<Q> { Q::from_f64(self as f64) }
    fn f(self) -> f64 { self as f64 }
    fn close(got: f64, want: f64, scale: f64) -> bool { close32(got as f32, want, scale) }
    const EPS_BITS: u32 = 23;
}
impl El for X {
    const NAME: &'static str = "X";
    const EXACT: bool = true;
    fn frac(n: i64, d: i64) -> X { q(n as i128, d as i128) }
    fn exact(self) -> Option<Q> { match self { X::R(v) => Some(v), _ => None } }
    fn f(self) -> f64 { self.shadow() }
    fn close(_: f64, _: f64, _: f64) -> bool { false }
    const EPS_BITS: u32 = 100;
    fn is_pi_times(self, coef: Q) -> bool { self == X::pi() * X::R(coef) || (coef == Q::ZERO && num_traits::Zero::is_zero(&self)) }
}

// ---------------------------------------------------------------------------------------------
// binding of Disk / Sphere through public fields

fn circ_coef(r: Q) -> Q { Q::int(2).mul(r) }
fn area_coef(r: Q) -> Q { r.mul(r) }
fn surf_coef(r: Q) -> Q { Q::int(4).mul(r).mul(r) }
fn vol_coef(r: Q) -> Q { Q::new(4, 3).mul(r).mul(r).mul(r) }

trait Ball<T: El>: Copy + Send + Sync {
    const D: usize;
    const NAME: &'static str;
    const COLLIDES: &'static str;
    const CV: &'static str;
    const RECT: &'static str;
    const AAB: &'static str;
    /// (method name, coefficient of pi as a function of the radius)
    const MEASURES: [(&'static str, fn(Q) -> Q); 2];
    fn make(c: &[T; 3], r: T) -> Self;
    fn contains(self, p: &[T; 3]) -> bool;
    fn collides(self, o: Self) -> bool;
    fn cv(self, o: Self) -> [T; 3];
    fn diam(self) -> T;
    /// (position, extent)
    fn rect_(self) -> ([T; 3], [T; 3]);
    /// (min, max)
    fn aab_(self) -> ([T; 3], [T; 3]);
    fn measure(self, i: usize) -> T;
}
impl<T: El> Ball<T> for Disk<T, T> {
    const D: usize = 2;
    const NAME: &'static str = "Disk";
    const COLLIDES: &'static str = "collides_with_disk";
    const CV: &'static str = "collision_vector_with_disk";
    const RECT: &'static str = "rect";
    const AAB: &'static str = "aabr";
    const MEASURES: [(&'static str, fn(Q) -> Q); 2] = [("circumference", circ_coef), ("area", area_coef)];
    fn make(c: &[T; 3], r: T) -> Self { Disk { center: Vec2 { x: c[0], y: c[1] }, radius: r } }
    fn contains(self, p: &[T; 3]) -> bool { self.contains_point(Vec2 { x: p[0], y: p[1] }) }
    fn collides(self, o: Self) -> bool { self.collides_with_disk(o) }
    fn cv(self, o: Self) -> [T; 3] { let v = self.collision_vector_with_disk(o); [v.x, v.y, T::zero()] }
    fn diam(self) -> T { self.diameter() }
    fn rect_(self) -> ([T; 3], [T; 3]) { let r: Rect<T, T> = self.rect(); ([r.x, r.y, T::zero()], [r.w, r.h, T::zero()]) }
    fn aab_(self) -> ([T; 3], [T; 3]) { let a: Aabr<T> = self.aabr(); ([a.min.x, a.min.y, T::zero()], [a.max.x, a.max.y, T::zero()]) }
    fn measure(self, i: usize) -> T { if i == 0 { self.circumference() } else { self.area() } }
}
impl<T: El> Ball<T> for Sphere<T, T> {
    const D: usize = 3;
    const NAME: &'static str = "Sphere";
    const COLLIDES: &'static str = "collides_with_sphere";
    const CV: &'static str = "collision_vector_with_sphere";
    const RECT: &'static str = "rect3";
    const AAB: &'static str = "aabb";
    const MEASURES: [(&'static str, fn(Q) -> Q); 2] = [("surface_area", surf_coef), ("volume", vol_coef)];
    fn make(c: &[T; 3], r: T) -> Self { Sphere { center: Vec3 { x: c[0], y: c[1], z: c[2] }, radius: r } }
    fn contains(self, p: &[T; 3]) -> bool { self.contains_point(Vec3 { x: p[0], y: p[1], z: p[2] }) }
    fn collides(self, o: Self) -> bool { self.collides_with_sphere(o) }
    fn cv(self, o: Self) -> [T; 3] { let v = self.collision_vector_with_sphere(o); [v.x, v.y, v.z] }
    fn diam(self) -> T { self.diameter() }
    fn rect_(self) -> ([T; 3], [T; 3]) { let r: Rect3<T, T> = self.rect3(); ([r.x, r.y, r.z], [r.w, r.h, r.d]) }
    fn aab_(self) -> ([T; 3], [T; 3]) { let a: Aabb<T> = self.aabb(); ([a.min.x, a.min.y, a.min.z], [a.max.x, a.max.y, a.max.z]) }
    fn measure(self, i: usize) -> T { if i == 0 { self.surface_area() } else { self.volume() } }
}

// ---------------------------------------------------------------------------------------------
// small helpers

/// all points of vals^d (remaining coordinates 0)
fn cube(vals: &[i64], d: usize) -> Vec<P3> {
    let mut out = Vec::new();
    let z: &[i64] = &[0];
    let (a, b, c) = (vals, if d >= 2 { vals } else { z }, if d >= 3 { vals } else { z });
    for &x in a { for &y in b { for &w in c { out.push([x, y, w]); } } }
    out
}
fn range(lo: i64, hi: i64, step: i64) -> Vec<i64> { (lo..=hi).step_by(step as usize).collect() }
fn d2(a: &P3, b: &P3) -> i64 { (0..3).map(|i| (a[i] - b[i]) * (a[i] - b[i])).sum() }
fn l1(a: &P3) -> u64 { a.iter().map(|v| v.unsigned_abs()).sum() }
fn tv<T: El>(v: &P3, den: i64) -> [T; 3] { [T::frac(v[0], den), T::frac(v[1], den), T::frac(v[2], den)] }
fn is_square(v: i64) -> bool { Q::isqrt(v as i128).is_some() }
/// JSON of coordinates given in units of 1/den
fn jp(v: &P3, d: usize, den: i64) -> Value { json!(v[..d].iter().map(|&n| format!("{:?}", Q::new(n as i128, den as i128))).collect::<Vec<_>>()) }
fn jn(n: i64, den: i64) -> Value { json!(format!("{:?}", Q::new(n as i128, den as i128))) }
fn jt<T: Debug>(v: &[T; 3], d: usize) -> Value { json!(v[..d].iter().map(|x| format!("{:?}", x)).collect::<Vec<_>>()) }

/// per-task class counter, flushed once (the section's class map is behind a mutex)
#[derive(Default)]
struct Cls(BTreeMap<(&'static str, &'static str), u64>);
impl Cls {
    fn hit(&mut self, tier: &'static str, c: &'static str) { *self.0.entry((tier, c)).or_insert(0) += 1; }
    fn flush(self, s: &Section) { for ((t, c), n) in self.0 { if t.is_empty() { s.class_n(c, n) } else { s.class_n(&format!("{}/{}", t, c), n) } } }
}
fn require_tiers(s: &Section, tiers: &[&str], classes: &[&str]) {
    for t in tiers { for c in classes { s.require_classes(&[format!("{}/{}", t, c).as_str()]); } }
}

// ---------------------------------------------------------------------------------------------
// 1. contains_point

fn contains_tier<T: El, B: Ball<T>>(s: &Section, centres: &[P3], radii: &[i64], points: &[P3]) {
    let site = format!("{}::contains_point<{}>", B::NAME, T::NAME);
    centres.par_iter().for_each(|c| {
        let mut cls = Cls::default();
        let (mut n, mut nt) = (0u64, 0u64);
        for &r in radii {
            let ball = B::make(&tv::<T>(c, 2), T::frac(r, 2));
            for p in points {
                let dd = d2(c, p); // (2d)^2, an integer
                let want = dd <= r * r;
                let kind = if dd < r * r { "inside" } else if dd == r * r { "boundary" } else { "outside" };
                n += 1;
                if dd != 0 { nt += 1; }
                let pt = tv::<T>(p, 2);
                let inp = || json!({"center": jp(c, B::D, 2), "radius": jn(r, 2), "p": jp(p, B::D, 2)});
                match s.call(&site, inp, || ball.contains(&pt)) {
                    Some(got) => {
                        cls.hit(T::NAME, kind);
                        if got != want {
                            s.violation_w(&site, "wrong-verdict", json!({"input": inp(), "distance_squared": jn(dd, 4), "radius_squared": jn(r * r, 4), "got": got, "want": want}), l1(c) + l1(p) + r as u64);
                        }
                        if kind == "boundary" && dd != 0 && s.wants_sample() { s.sample(json!({"site": site, "input": inp(), "distance_squared": jn(dd, 4), "got": got, "want": want})); }
                    }
                    None => cls.hit(T::NAME, if is_square(dd) { "unmodelled-on-rational-distance" } else { "unmodelled-irrational-distance" }),
                }
            }
        }
        s.evals(n, nt);
        cls.flush(s);
    });
}

// ---------------------------------------------------------------------------------------------
// 2. collides_with_*

fn collides_tier<T: El, B: Ball<T>>(s: &Section, centres: &[P3], radii: &[i64]) {
    let site = format!("{}::{}<{}>", B::NAME, B::COLLIDES, T::NAME);
    centres.par_iter().for_each(|c1| {
        let mut cls = Cls::default();
        let (mut n, mut nt) = (0u64, 0u64);
        for c2 in centres {
            let dd = d2(c1, c2);
            for &r1 in radii { for &r2 in radii {
                let (a, b) = (B::make(&tv::<T>(c1, 2), T::frac(r1, 2)), B::make(&tv::<T>(c2, 2), T::frac(r2, 2)));
                let rr = (r1 + r2) * (r1 + r2);
                let want = dd <= rr;
                let kind = if dd < rr { "overlapping" } else if dd == rr { "tangent" } else { "disjoint" };
                n += 1;
                if dd != 0 { nt += 1; }
                let inp = || json!({"self": {"center": jp(c1, B::D, 2), "radius": jn(r1, 2)}, "other": {"center": jp(c2, B::D, 2), "radius": jn(r2, 2)}});
                match s.call(&site, inp, || a.collides(b)) {
                    Some(got) => {
                        cls.hit(T::NAME, kind);
                        if got != want {
                            s.violation_w(&site, "wrong-verdict", json!({"input": inp(), "centre_distance_squared": jn(dd, 4), "radius_sum_squared": jn(rr, 4), "got": got, "want": want}), l1(c1) + l1(c2) + (r1 + r2) as u64);
                        }
                        if kind == "tangent" && dd != 0 && r1 != r2 && s.wants_sample() { s.sample(json!({"site": site, "input": inp(), "centre_distance_squared": jn(dd, 4), "got": got, "want": want})); }
                    }
                    None => cls.hit(T::NAME, if is_square(dd) { "unmodelled-on-rational-distance" } else { "unmodelled-irrational-distance" }),
                }
            } }
        }
        s.evals(n, nt);
        cls.flush(s);
    });
}

// ---------------------------------------------------------------------------------------------
// 3. collision_vector_with_*:   other.center + cv   must be at distance r1+r2 from self.center

fn cv_tier<T: El, B: Ball<T>>(s: &Section, centres: &[P3], radii: &[i64]) {
    let site = format!("{}::{}<{}>", B::NAME, B::CV, T::NAME);
    centres.par_iter().for_each(|c1| {
        let mut cls = Cls::default();
        let (mut n, mut nt) = (0u64, 0u64);
        for c2 in centres {
            let dd = d2(c1, c2);
            if dd == 0 { cls.hit(T::NAME, "coincident-centres-excluded"); continue; }
            for &r1 in radii { for &r2 in radii {
                let (a, b) = (B::make(&tv::<T>(c1, 2), T::frac(r1, 2)), B::make(&tv::<T>(c2, 2), T::frac(r2, 2)));
                let rsum = r1 + r2;
                let kind = if dd < rsum * rsum { "penetrating" } else if dd == rsum * rsum { "already-tangent" } else { "separated" };
                n += 1;
                if dd != rsum * rsum { nt += 1; }
                let inp = || json!({"self": {"center": jp(c1, B::D, 2), "radius": jn(r1, 2)}, "other": {"center": jp(c2, B::D, 2), "radius": jn(r2, 2)}});
                let w = l1(c1) + l1(c2) + rsum as u64;
                let Some(cv) = s.call(&site, inp, || a.cv(b)) else {
                    cls.hit(T::NAME, if is_square(dd) { "unmodelled-on-rational-distance" } else { "unmodelled-irrational-distance" });
                    continue;
                };
                cls.hit(T::NAME, kind);
                if T::EXACT {
                    // exact: | (c2 + cv) - c1 |^2 == (r1+r2)^2
                    let mut nd = Q::ZERO;
                    let mut ok = true;
                    for i in 0..B::D {
                        match cv[i].exact() { Some(v) => { let t = Q::new((c2[i] - c1[i]) as i128, 2).add(v); nd = nd.add(t.mul(t)); } None => ok = false }
                    }
                    let want = Q::new((rsum * rsum) as i128, 4);
                    if !ok || nd != want {
                        s.violation_w(&site, "not-tangent-after-move", json!({"input": inp(), "collision_vector": jt(&cv, B::D), "new_centre_distance_squared": format!("{:?}", nd), "want_(r1+r2)^2": format!("{:?}", want)}), w);
                    }
                    if kind == "penetrating" && s.wants_sample() { s.sample(json!({"site": site, "input": inp(), "collision_vector": jt(&cv, B::D), "new_centre_distance_squared": format!("{:?}", nd), "(r1+r2)^2": format!("{:?}", want)})); }
                } else {
                    // float: new centre distance computed in f64 from the returned components, bound 256 eps * scale
                    let mut sq = 0f64;
                    for i in 0..B::D { let t = (c2[i] as f64 / 2.0 + cv[i].f()) - c1[i] as f64 / 2.0; sq += t * t; }
                    let (nd, want) = (sq.sqrt(), rsum as f64 / 2.0);
                    let scale = want + (dd as f64).sqrt() / 2.0 + 1.0;
                    if !T::close(nd, want, scale) {
                        s.violation_w(&site, "not-tangent-after-move", json!({"input": inp(), "collision_vector": jt(&cv, B::D), "new_centre_distance": nd, "want_r1+r2": want}), w);
                    }
                }
            } }
        }
        s.evals(n, nt);
        cls.flush(s);
    });
}

// ---------------------------------------------------------------------------------------------
// 4. bounds, diameter

fn bounds_tier<T: El, B: Ball<T>>(s: &Section, centres: &[P3], radii: &[i64]) {
    let sites = [format!("{}::{}<{}>", B::NAME, B::RECT, T::NAME), format!("{}::{}<{}>", B::NAME, B::AAB, T::NAME), format!("{}::diameter<{}>", B::NAME, T::NAME)];
    centres.par_iter().for_each(|c| {
        let mut cls = Cls::default();
        for &r in radii {
            let ball = B::make(&tv::<T>(c, 2), T::frac(r, 2));
            let inp = || json!({"center": jp(c, B::D, 2), "radius": jn(r, 2)});
            let lo: [T; 3] = [T::frac(c[0] - r, 2), T::frac(c[1] - r, 2), T::frac(c[2] - r, 2)];
            let hi: [T; 3] = [T::frac(c[0] + r, 2), T::frac(c[1] + r, 2), T::frac(c[2] + r, 2)];
            let ext = T::frac(r, 1);
            let w = l1(c) + r as u64;
            cls.hit(T::NAME, if r == 0 { "radius-zero" } else { "radius-positive" });
            s.eval(r != 0);
            if let Some((pos, e)) = s.call(&sites[0], inp, || ball.rect_()) {
                for i in 0..B::D {
                    if pos[i] != lo[i] || e[i] != ext || pos[i] + e[i] != hi[i] {
                        s.violation_w(&sites[0], "wrong-bounds", json!({"input": inp(), "axis": i, "got_position": jt(&pos, B::D), "got_extent": jt(&e, B::D), "want_min": jt(&lo, B::D), "want_max": jt(&hi, B::D)}), w);
                    }
                }
            }
            s.eval(r != 0);
            if let Some((mn, mx)) = s.call(&sites[1], inp, || ball.aab_()) {
                for i in 0..B::D {
                    if mn[i] != lo[i] || mx[i] != hi[i] {
                        s.violation_w(&sites[1], "wrong-bounds", json!({"input": inp(), "axis": i, "got_min": jt(&mn, B::D), "got_max": jt(&mx, B::D), "want_min": jt(&lo, B::D), "want_max": jt(&hi, B::D)}), w);
                    }
                }
                if r != 0 && c[0] != 0 && s.wants_sample() { s.sample(json!({"site": sites[1], "input": inp(), "got_min": jt(&mn, B::D), "got_max": jt(&mx, B::D)})); }
            }
            s.eval(r != 0);
            if let Some(dm) = s.call(&sites[2], inp, || ball.diam()) {
                if dm != ext { s.violation_w(&sites[2], "wrong-value", json!({"input": inp(), "got": format!("{:?}", dm), "want": format!("{:?}", ext)}), w); }
            }
        }
        cls.flush(s);
    });
}

/// integer shapes (Disk<i32,i32>, Sphere<i32,i32>): same claims, integer centres and radii (units, not halves)
fn bounds_i32(s: &Section, vals: &[i64], radii: &[i64]) {
    for c in cube(vals, 3) {
        for &r in radii {
            let (cx, cy, cz, ri) = (c[0] as i32, c[1] as i32, c[2] as i32, r as i32);
            let inp = || json!({"center": [cx, cy, cz], "radius": ri});
            let w = l1(&c) + r as u64;
            if c[2] == 0 {
                let dk = Disk { center: Vec2 { x: cx, y: cy }, radius: ri };
                s.eval(r != 0);
                if let Some(rc) = s.call("Disk::rect<i32>", inp, || dk.rect()) {
                    if (rc.x, rc.y, rc.w, rc.h) != (cx - ri, cy - ri, 2 * ri, 2 * ri) { s.violation_w("Disk::rect<i32>", "wrong-bounds", json!({"input": inp(), "got": jd(&rc)}), w); }
                }
                s.eval(r != 0);
                if let Some(a) = s.call("Disk::aabr<i32>", inp, || dk.aabr()) {
                    if (a.min.x, a.min.y, a.max.x, a.max.y) != (cx - ri, cy - ri, cx + ri, cy + ri) { s.violation_w("Disk::aabr<i32>", "wrong-bounds", json!({"input": inp(), "got": jd(&a)}), w); }
                }
                s.eval(r != 0);
                if let Some(dm) = s.call("Disk::diameter<i32>", inp, || dk.diameter()) {
                    if dm != 2 * ri { s.violation_w("Disk::diameter<i32>", "wrong-value", json!({"input": inp(), "got": dm}), w); }
                }
            }
            let sp = Sphere { center: Vec3 { x: cx, y: cy, z: cz }, radius: ri };
            s.eval(r != 0);
            if let Some(rc) = s.call("Sphere::rect3<i32>", inp, || sp.rect3()) {
                if (rc.x, rc.y, rc.z, rc.w, rc.h, rc.d) != (cx - ri, cy - ri, cz - ri, 2 * ri, 2 * ri, 2 * ri) { s.violation_w("Sphere::rect3<i32>", "wrong-bounds", json!({"input": inp(), "got": jd(&rc)}), w); }
            }
            s.eval(r != 0);
            if let Some(a) = s.call("Sphere::aabb<i32>", inp, || sp.aabb()) {
                if (a.min.x, a.min.y, a.min.z, a.max.x, a.max.y, a.max.z) != (cx - ri, cy - ri, cz - ri, cx + ri, cy + ri, cz + ri) { s.violation_w("Sphere::aabb<i32>", "wrong-bounds", json!({"input": inp(), "got": jd(&a)}), w); }
            }
            s.eval(r != 0);
            if let Some(dm) = s.call("Sphere::diameter<i32>", inp, || sp.diameter()) {
                if dm != 2 * ri { s.violation_w("Sphere::diameter<i32>", "wrong-value", json!({"input": inp(), "got": dm}), w); }
            }
            s.class(if r == 0 { "i32/radius-zero" } else { "i32/radius-positive" });
        }
    }
}

// ---------------------------------------------------------------------------------------------
// 5. circumference / area / surface_area / volume

/// pi to 18 significant digits as PI_NUM / 10^17 (relative error 1.2e-18, i.e. 0.005 f64-epsilon)
const PI_NUM: i128 = 314159265358979324;
const PI_DEN: i128 = 100_000_000_000_000_000;

/// |got - (a/b) pi| <= 4 * 2^-eps_bits * (a/b) pi, decided in checked integer arithmetic:
/// with got = n/d (d a power of two) this is |b n PI_DEN - a PI_NUM d| <= (a PI_NUM d) >> (eps_bits - 2).
/// None: i128 overflow (reported as unmodelled, never as a verdict).
fn within_4eps(got: Q, coef: Q, eps_bits: u32) -> Option<(bool, f64)> {
    let (a, b) = (coef.n, coef.d);
    let lhs = b.checked_mul(got.n)?.checked_mul(PI_DEN)?;
    let rhs = a.checked_mul(PI_NUM)?.checked_mul(got.d)?;
    let diff = lhs.checked_sub(rhs)?.abs();
    let tol = rhs.abs() >> (eps_bits - 2);
    Some((diff <= tol, if rhs == 0 { 0.0 } else { diff as f64 / rhs.abs() as f64 }))
}

/// radii: (numerator, denominator)
fn measures_tier<T: El, B: Ball<T>>(s: &Section, radii: &[(i64, i64)]) {
    for &(rn, rd) in radii {
        let ball = B::make(&tv::<T>(&[0, 0, 0], 1), T::frac(rn, rd));
        let rq = Q::new(rn as i128, rd as i128);
        for (i, (name, coef)) in B::MEASURES.iter().enumerate() {
            let site = format!("{}::{}<{}>", B::NAME, name, T::NAME);
            let inp = || json!({"radius": jn(rn, rd)});
            let cq = coef(rq);
            s.eval(rn != 0);
            let Some(got) = s.call(&site, inp, || ball.measure(i)) else { continue };
            if T::EXACT {
                // structural: the angle token  coef * pi
                let g = format!("{:?}", got);
                let wn = format!("{:?}", X::pi() * X::R(cq));
                if !got.is_pi_times(cq) { s.violation_w(&site, "wrong-value", json!({"input": inp(), "got": g, "want_token": wn, "coefficient_of_pi": format!("{:?}", cq)}), (rn + rd) as u64); }
                s.class(&format!("X/{}", if rn == 0 { "radius-zero" } else { "radius-positive" }));
                if rn != 0 && rd != 1 && s.wants_sample() { s.sample(json!({"site": site, "input": inp(), "got": g, "want_token (k * pi/2)": wn})); }
            } else {
                s.class(&format!("{}/{}", T::NAME, if rn == 0 { "radius-zero" } else { "radius-positive" }));
                let Some(gq) = got.exact() else { s.violation_w(&site, "wrong-value", json!({"input": inp(), "got": got.f(), "why": "non-finite"}), (rn + rd) as u64); continue };
                match within_4eps(gq, cq, T::EPS_BITS) {
                    Some((true, _)) => {}
                    Some((false, rel)) => s.violation_w(&site, "wrong-value", json!({"input": inp(), "got": got.f(), "want": cq.to_f64() * std::f64::consts::PI, "relative_error": rel, "allowed": 4.0 * T::eps().to_f64()}), (rn + rd) as u64),
                    None => s.unmodelled("oracle integer overflow"),
                }
            }
        }
    }
}

// ---------------------------------------------------------------------------------------------
// 6/7. segments

trait Seg<T: El>: Copy + Send + Sync {
    const D: usize;
    const NAME: &'static str;
    fn make(a: &[T; 3], b: &[T; 3]) -> Self;
    fn proj(self, p: &[T; 3]) -> [T; 3];
    fn dist(self, p: &[T; 3]) -> T;
    /// From<Range> then into_range, everything decoded by fields: (seg.start, seg.end, range.start, range.end)
    fn roundtrip(a: &[T; 3], b: &[T; 3]) -> [[T; 3]; 4];
}
impl<T: El> Seg<T> for LineSegment2<T> {
    const D: usize = 2;
    const NAME: &'static str = "LineSegment2";
    fn make(a: &[T; 3], b: &[T; 3]) -> Self { LineSegment2 { start: Vec2 { x: a[0], y: a[1] }, end: Vec2 { x: b[0], y: b[1] } } }
    fn proj(self, p: &[T; 3]) -> [T; 3] { let v = self.projected_point(Vec2 { x: p[0], y: p[1] }); [v.x, v.y, T::zero()] }
    fn dist(self, p: &[T; 3]) -> T { self.distance_to_point(Vec2 { x: p[0], y: p[1] }) }
    fn roundtrip(a: &[T; 3], b: &[T; 3]) -> [[T; 3]; 4] {
        let sg = LineSegment2::from(Range { start: Vec2 { x: a[0], y: a[1] }, end: Vec2 { x: b[0], y: b[1] } });
        let r = sg.into_range();
        let z = T::zero();
        [[sg.start.x, sg.start.y, z], [sg.end.x, sg.end.y, z], [r.start.x, r.start.y, z], [r.end.x, r.end.y, z]]
    }
}
impl<T: El> Seg<T> for LineSegment3<T> {
    const D: usize = 3;
    const NAME: &'static str = "LineSegment3";
    fn make(a: &[T; 3], b: &[T; 3]) -> Self { LineSegment3 { start: Vec3 { x: a[0], y: a[1], z: a[2] }, end: Vec3 { x: b[0], y: b[1], z: b[2] } } }
    fn proj(self, p: &[T; 3]) -> [T; 3] { let v = self.projected_point(Vec3 { x: p[0], y: p[1], z: p[2] }); [v.x, v.y, v.z] }
    fn dist(self, p: &[T; 3]) -> T { self.distance_to_point(Vec3 { x: p[0], y: p[1], z: p[2] }) }
    fn roundtrip(a: &[T; 3], b: &[T; 3]) -> [[T; 3]; 4] {
        let sg = LineSegment3::from(Range { start: Vec3 { x: a[0], y: a[1], z: a[2] }, end: Vec3 { x: b[0], y: b[1], z: b[2] } });
        let r = sg.into_range();
        [[sg.start.x, sg.start.y, sg.start.z], [sg.end.x, sg.end.y, sg.end.z], [r.start.x, r.start.y, r.start.z], [r.end.x, r.end.y, r.end.z]]
    }
}

fn qsub(a: &[Q; 3], b: &[Q; 3]) -> [Q; 3] { [a[0].sub(b[0]), a[1].sub(b[1]), a[2].sub(b[2])] }
fn qdot(a: &[Q; 3], b: &[Q; 3]) -> Q { a[0].mul(b[0]).add(a[1].mul(b[1])).add(a[2].mul(b[2])) }
fn qv(a: &P3, den: i64) -> [Q; 3] { [Q::new(a[0] as i128, den as i128), Q::new(a[1] as i128, den as i128), Q::new(a[2] as i128, den as i128)] }

/// closed-form oracle on the integer numerators: (region, exact squared distance from p to the segment ab)
fn seg_oracle(a: &P3, b: &P3, p: &P3) -> (&'static str, Q) {
    let e: P3 = [b[0] - a[0], b[1] - a[1], b[2] - a[2]];
    let l = e[0] * e[0] + e[1] * e[1] + e[2] * e[2];
    let s0 = (0..3).map(|i| (p[i] - a[i]) * e[i]).sum::<i64>();
    let (pa, pb) = (d2(p, a), d2(p, b));
    if l == 0 { return ("degenerate-segment", Q::int(pa as i128)); }
    if s0 < 0 { ("beyond-start", Q::int(pa as i128)) }
    else if s0 == 0 { ("foot-at-start", Q::int(pa as i128)) }
    else if s0 > l { ("beyond-end", Q::int(pb as i128)) }
    else if s0 == l { ("foot-at-end", Q::int(pb as i128)) }
    else { ("interior-foot", Q::int(pa as i128).sub(Q::new((s0 * s0) as i128, l as i128))) }
}

/// all coordinates are  n / 2^shift ;  `pre` is prepended to the violation classes (small-scale sections)
fn seg_exact<S: Seg<X>>(s: &Section, ends: &[P3], pts: &[P3], shift: u32, pre: &str) {
    let den = 1i64 << shift;
    let site_p = format!("{}::projected_point<X>", S::NAME);
    let site_d = format!("{}::distance_to_point<X>", S::NAME);
    let site_r = format!("{}::From<Range>/into_range<X>", S::NAME);
    let inv_den2 = Q::new(1, (den as i128) * (den as i128));
    ends.par_iter().for_each(|a| {
        let mut cls = Cls::default();
        let (mut n, mut nt) = (0u64, 0u64);
        for b in ends {
            let (ax, bx) = (tv::<X>(a, den), tv::<X>(b, den));
            // range conversions
            n += 1; if a != b { nt += 1; }
            if let Some(rt) = s.call(&site_r, || json!({"start": jp(a, S::D, den), "end": jp(b, S::D, den)}), || S::roundtrip(&ax, &bx)) {
                if rt[0] != ax || rt[1] != bx || rt[2] != ax || rt[3] != bx {
                    s.violation_w(&site_r, &format!("{}wrong-endpoints", pre), json!({"start": jp(a, S::D, den), "end": jp(b, S::D, den), "got": [jt(&rt[0], S::D), jt(&rt[1], S::D), jt(&rt[2], S::D), jt(&rt[3], S::D)]}), l1(a) + l1(b));
                }
                cls.hit("", if a == b { "range-roundtrip-degenerate" } else { "range-roundtrip" });
            }
            let seg = S::make(&ax, &bx);
            let (aq, bq) = (qv(a, den), qv(b, den));
            let e = qsub(&bq, &aq);
            let l = qdot(&e, &e);
            for p in pts {
                let px = tv::<X>(p, den);
                let pq = qv(p, den);
                let (region, dmin_int) = seg_oracle(a, b, p);
                let dmin = dmin_int.mul(inv_den2);
                let inp = || json!({"start": jp(a, S::D, den), "end": jp(b, S::D, den), "p": jp(p, S::D, den)});
                let w = l1(a) + l1(b) + l1(p) + shift as u64;
                n += 1; if a != b { nt += 1; }
                cls.hit("", region);
                if dmin == Q::ZERO { cls.hit("", "point-on-segment"); }
                if let Some(g) = s.call(&site_p, inp, || S::proj(seg, &px)) {
                    let gq = [g[0].rat(), g[1].rat(), g[2].rat()];
                    // (i) lies on the segment: collinear with, and between, the end points
                    let wv = qsub(&gq, &aq);
                    let par = qdot(&wv, &e);
                    let collinear = (0..3).all(|i| (0..3).all(|j| wv[i].mul(e[j]) == wv[j].mul(e[i])));
                    let on = if a == b { gq == aq } else { collinear && par >= Q::ZERO && par <= l };
                    if !on { s.violation_w(&site_p, &format!("{}off-segment", pre), json!({"input": inp(), "got": jt(&g, S::D), "parameter_times_len_sq": format!("{:?}", par), "len_sq": format!("{:?}", l)}), w); }
                    // (ii) no sampled point a + (k/24)(b-a) is strictly nearer
                    let gp = qsub(&gq, &pq);
                    let dg = qdot(&gp, &gp);
                    for k in 0..=24 {
                        let t = Q::new(k, 24);
                        let sp = [aq[0].add(e[0].mul(t)), aq[1].add(e[1].mul(t)), aq[2].add(e[2].mul(t))];
                        let v = qsub(&sp, &pq);
                        let dk = qdot(&v, &v);
                        assert!(dk >= dmin, "oracle error: a sampled point is nearer than the closed-form minimum");
                        if dk < dg { s.violation_w(&site_p, &format!("{}sampled-point-nearer", pre), json!({"input": inp(), "got": jt(&g, S::D), "got_distance_squared": format!("{:?}", dg), "k_of_24": k, "sample_distance_squared": format!("{:?}", dk)}), w); break; }
                    }
                    // (iii) it is the nearest point: its squared distance is the closed-form minimum
                    if on && dg != dmin { s.violation_w(&site_p, &format!("{}not-nearest", pre), json!({"input": inp(), "got": jt(&g, S::D), "got_distance_squared": format!("{:?}", dg), "minimum_distance_squared": format!("{:?}", dmin)}), w); }
                    if region == "interior-foot" && dmin != Q::ZERO && s.wants_sample() { s.sample(json!({"site": site_p, "input": inp(), "got": jt(&g, S::D), "distance_squared": format!("{:?}", dg)})); }
                }
                // distance: exact tier where the squared distance is a perfect square
                n += 1; if a != b { nt += 1; }
                match s.call(&site_d, inp, || S::dist(seg, &px)) {
                    Some(g) => {
                        cls.hit("X", "distance-exact");
                        let gq = g.rat();
                        if gq < Q::ZERO || gq.mul(gq) != dmin { s.violation_w(&site_d, &format!("{}wrong-distance", pre), json!({"input": inp(), "got": format!("{:?}", gq), "want_squared": format!("{:?}", dmin)}), w); }
                    }
                    None => cls.hit("X", if dmin.sqrt_exact().is_some() { "distance-unmodelled-on-rational-distance" } else { "distance-unmodelled-irrational" }),
                }
            }
        }
        s.evals(n, nt);
        cls.flush(s);
    });
}

fn seg_float<T: El, S: Seg<T>>(s: &Section, ends: &[P3], pts: &[P3], shift: u32, pre: &str) {
    let den = 1i64 << shift;
    let site_d = format!("{}::distance_to_point<{}>", S::NAME, T::NAME);
    let inv_den2 = Q::new(1, (den as i128) * (den as i128));
    ends.par_iter().for_each(|a| {
        let mut cls = Cls::default();
        let (mut n, mut nt) = (0u64, 0u64);
        for b in ends {
            let seg = S::make(&tv::<T>(a, den), &tv::<T>(b, den));
            for p in pts {
                let (region, dmin_int) = seg_oracle(a, b, p);
                let dmin = dmin_int.mul(inv_den2);
                let inp = || json!({"start": jp(a, S::D, den), "end": jp(b, S::D, den), "p": jp(p, S::D, den)});
                n += 1; if a != b { nt += 1; }
                let pt = tv::<T>(p, den);
                if let Some(g) = s.call(&site_d, inp, || S::dist(seg, &pt)) {
                    cls.hit(T::NAME, region);
                    let want = dmin_int.to_f64().sqrt() / den as f64;
                    let scale = (l1(a) + l1(b) + l1(p)) as f64 / den as f64;
                    if !T::close(g.f(), want, scale) {
                        s.violation_w(&site_d, &format!("{}wrong-distance", pre), json!({"input": inp(), "got": g.f(), "want": want, "want_squared": format!("{:?}", dmin), "bound": 256.0 * T::eps().to_f64() * scale}), l1(a) + l1(b) + l1(p) + shift as u64);
                    }
                }
            }
        }
        s.evals(n, nt);
        cls.flush(s);
    });
}

// ---------------------------------------------------------------------------------------------
// 8. Ray::triangle_intersection

fn sub3(a: &P3, b: &P3) -> P3 { [a[0] - b[0], a[1] - b[1], a[2] - b[2]] }
/// matrix with the given columns
fn cols(c0: &P3, c1: &P3, c2: &P3) -> A<i128, 3> { let mut m = [[0i128; 3]; 3]; for i in 0..3 { m[i] = [c0[i] as i128, c1[i] as i128, c2[i] as i128]; } m }

/// triangle vertices and origins are  n / 2^shift, directions are the integers themselves.
/// Float tiers run on the sub-space where the Cramer determinant is 0 or +-2^j: every operation of the
/// code under test is then exact in binary floating point (all values are small integers times powers of two and
/// the reciprocal of the determinant is exact), so the float verdict and value must equal the rational ones.
fn ray_section<T: El>(s: &Section, verts: &[P3], origins: &[P3], dirs: &[P3], shift: u32, pre: &str) {
    let den = 1i64 << shift;
    let site = format!("Ray::triangle_intersection<{}>", T::NAME);
    let site = site.as_str();
    let pairs: Vec<(P3, P3)> = verts.iter().flat_map(|a| verts.iter().map(move |b| (*a, *b))).collect();
    pairs.par_iter().for_each(|(v0, v1)| {
        let mut cls = Cls::default();
        let (mut n, mut nt) = (0u64, 0u64);
        for v2 in verts {
            let (e1, e2) = (sub3(v1, v0), sub3(v2, v0));
            let degenerate = cross3(&[e1[0] as i128, e1[1] as i128, e1[2] as i128], &[e2[0] as i128, e2[1] as i128, e2[2] as i128]) == [0, 0, 0];
            let tri = [v3(&tv::<T>(v0, den)), v3(&tv::<T>(v1, den)), v3(&tv::<T>(v2, den))];
            for o in origins {
                let rhs = sub3(o, v0);
                for d in dirs {
                    let md: P3 = [-d[0], -d[1], -d[2]];
                    // u*e1 + v*e2 - t*d = o - v0   (Cramer, on the integer numerators; u, v are scale-free, t scales with 2^-shift)
                    let det0 = det(&cols(&e1, &e2, &md));
                    if !T::EXACT && det0 != 0 && (det0.unsigned_abs() & (det0.unsigned_abs() - 1)) != 0 { cls.hit(T::NAME, "skipped-inexact-reciprocal"); continue; }
                    let (du, dv, dt) = (det(&cols(&rhs, &e2, &md)), det(&cols(&e1, &rhs, &md)), det(&cols(&e1, &e2, &rhs)));
                    let (kind, want): (&'static str, Option<Q>) = if det0 == 0 {
                        (if degenerate { "degenerate-triangle" } else { "parallel" }, None)
                    } else {
                        let (u, v, t) = (Q::new(du, det0), Q::new(dv, det0), Q::new(dt, det0));
                        // oracle self-check: the solution satisfies the defining equation
                        for i in 0..3 {
                            let lhs = Q::int(o[i] as i128).add(Q::int(d[i] as i128).mul(t));
                            let rh = Q::int(v0[i] as i128).add(u.mul(Q::int(e1[i] as i128))).add(v.mul(Q::int(e2[i] as i128)));
                            assert!(lhs == rh, "oracle error: Cramer solution does not satisfy o + d t = v0 + u e1 + v e2");
                        }
                        let wsum = u.add(v);
                        if u >= Q::ZERO && v >= Q::ZERO && wsum <= Q::ONE {
                            let zeros = (u == Q::ZERO) as u8 + (v == Q::ZERO) as u8 + (wsum == Q::ONE) as u8;
                            if t < Q::ZERO { cls.hit(T::NAME, "hit-at-negative-t"); } else if t == Q::ZERO { cls.hit(T::NAME, "hit-at-origin"); }
                            (match zeros { 0 => "interior", 1 => "edge", _ => "vertex" }, Some(t.mul(Q::new(1, den as i128))))
                        } else { ("miss", None) }
                    };
                    n += 1; if det0 != 0 { nt += 1; }
                    cls.hit(T::NAME, kind);
                    let ray = Ray { origin: v3(&tv::<T>(o, den)), direction: v3(&tv::<T>(d, 1)) };
                    let inp = || json!({"triangle": [jp(v0, 3, den), jp(v1, 3, den), jp(v2, 3, den)], "origin": jp(o, 3, den), "direction": d});
                    let w = l1(v0) + l1(v1) + l1(v2) + l1(o) + l1(d) + shift as u64;
                    let got = match catch(|| ray.triangle_intersection(tri)) {
                        Ok(g) => g,
                        // exact arithmetic has no inf/NaN: a division by zero means the parallel/degenerate guard let a = 0 through
                        Err(Caught::Unmodelled("division by zero")) => { s.violation_w(site, &format!("{}division-by-zero", pre), json!({"input": inp(), "case": kind, "cramer_det": det0.to_string()}), w); continue }
                        Err(Caught::Unmodelled(why)) => { s.unmodelled(why); continue }
                        Err(Caught::Panic(m)) => { s.violation_w(site, "panic", json!({"input": inp(), "panic": m}), w); continue }
                    };
                    // Some(None): a non-finite float
                    let gq: Option<Option<Q>> = got.map(|x| x.exact());
                    if gq != want.map(Some) {
                        let class = match (gq, want) { (None, Some(_)) => "missed-hit", (Some(_), None) => "false-hit", _ => "wrong-distance" };
                        s.violation_w(site, &format!("{}{}", pre, class), json!({"input": inp(), "case": kind, "got": format!("{:?}", got), "want": format!("{:?}", want),
                            "cramer": {"det": format!("{}/{}^2", det0, den), "u": format!("{}/{}", du, det0), "v": format!("{}/{}", dv, det0), "t": format!("{}/({}*{})", dt, det0, den)}}), w);
                    }
                    if kind == "edge" && s.wants_sample() { s.sample(json!({"site": site, "input": inp(), "case": kind, "got": format!("{:?}", got), "cramer_t": format!("{:?}", want)})); }
                }
            }
        }
        s.evals(n, nt);
        cls.flush(s);
    });
}

// ---------------------------------------------------------------------------------------------

fn main() {
    let rep = Report::start("C16", "exploration");
    let th = rep.thorough();
    let tiers = ["f64", "f32", "X"];

    // half-unit grids: quick = integer centres (even half-units), thorough = all half-integers
    let radii: Vec<i64> = if th { vec![0, 1, 2, 3, 4, 7, 10] } else { vec![0, 1, 2, 4, 10] };
    let g2: Vec<i64> = if th { range(-6, 6, 1) } else { range(-6, 6, 2) };
    let g3: Vec<i64> = if th { range(-6, 6, 2) } else { range(-4, 4, 2) };
    let (c2, c3) = (cube(&g2, 2), cube(&g3, 3));
    let exact_note = "all inputs are half-integers, so every tier holds them exactly and 4*d^2 is an exact integer; the f32/f64 verdict sqrt(d^2) <= R is exact because sqrt is correctly rounded and monotone: in the boundary case d^2 = R^2 is the square of a half-integer and its sqrt is exactly R, and otherwise |4d^2 - 4R^2| >= 1 puts sqrt(d^2) at least 1/(4(d+R)) > 1/200 away from R, far more than an ulp; X (exact rationals) answers on the Pythagorean subset (d rational) and reports the rest as unmodelled (irrational sqrt), counted by class";

    rep.section("Disk/Sphere contains_point",
        &format!("every centre on the grid ({} Disk centres in 2-D, {} Sphere centres in 3-D; coordinates in {{-3..3}} resp. quick {{-2..2}}^3, thorough adds half-integers in 2-D) x radii {:?}/2 x every grid point as query, tiers f64, f32, X; oracle: integer comparison 4d^2 <= 4r^2; {}; non-trivial: query point differs from the centre", c2.len(), c3.len(), radii, exact_note),
        true, false, |s| {
            require_tiers(s, &tiers, &["inside", "boundary", "outside"]);
            contains_tier::<f64, Disk<f64, f64>>(s, &c2, &radii, &c2);
            contains_tier::<f32, Disk<f32, f32>>(s, &c2, &radii, &c2);
            contains_tier::<X, Disk<X, X>>(s, &c2, &radii, &c2);
            contains_tier::<f64, Sphere<f64, f64>>(s, &c3, &radii, &c3);
            contains_tier::<f32, Sphere<f32, f32>>(s, &c3, &radii, &c3);
            contains_tier::<X, Sphere<X, X>>(s, &c3, &radii, &c3);
            s.meta("grids_half_units", json!({"disk": g2, "sphere": g3, "radii": radii}));
        });

    rep.section("Disk/Sphere collides_with_*",
        &format!("every ordered pair of centres on the grid ({}^2 Disk pairs, {}^2 Sphere pairs) x every ordered pair of radii from {:?}/2, tiers f64, f32, X; oracle: integer comparison 4d^2 <= (2r1+2r2)^2; {}; non-trivial: distinct centres", c2.len(), c3.len(), radii, exact_note),
        true, false, |s| {
            require_tiers(s, &tiers, &["overlapping", "tangent", "disjoint"]);
            collides_tier::<f64, Disk<f64, f64>>(s, &c2, &radii);
            collides_tier::<f32, Disk<f32, f32>>(s, &c2, &radii);
            collides_tier::<X, Disk<X, X>>(s, &c2, &radii);
            collides_tier::<f64, Sphere<f64, f64>>(s, &c3, &radii);
            collides_tier::<f32, Sphere<f32, f32>>(s, &c3, &radii);
            collides_tier::<X, Sphere<X, X>>(s, &c3, &radii);
        });

    rep.section("Disk/Sphere collision_vector_with_*",
        "same pairs of shapes as the collides section minus coincident centres (the vector's direction is undefined there: 0/0, excluded and counted); claim: after translating OTHER by the returned vector (vek: v = other.center - self.center, result v/|v| * (r1+r2-|v|)) the centre distance is r1+r2. X: exact equality of squared distances on the Pythagorean subset (others unmodelled: irrational sqrt); f64/f32: new distance recomputed in f64 from the returned fields, bound 256*eps*(r1+r2+d+1) (inputs exact, the code performs one sqrt, one division and a handful of +,* per component); non-trivial: shapes not already tangent (vector non-zero)",
        true, false, |s| {
            require_tiers(s, &tiers, &["penetrating", "already-tangent", "separated"]);
            cv_tier::<f64, Disk<f64, f64>>(s, &c2, &radii);
            cv_tier::<f32, Disk<f32, f32>>(s, &c2, &radii);
            cv_tier::<X, Disk<X, X>>(s, &c2, &radii);
            cv_tier::<f64, Sphere<f64, f64>>(s, &c3, &radii);
            cv_tier::<f32, Sphere<f32, f32>>(s, &c3, &radii);
            cv_tier::<X, Sphere<X, X>>(s, &c3, &radii);
        });

    rep.section("Disk/Sphere rect/rect3/aabr/aabb/diameter",
        "every centre x radius of the grids above, tiers f64, f32, X (half-integers: all additions exact, so floats are compared with ==) plus Disk<i32,i32>/Sphere<i32,i32> on integer centres {-3..3}^d x radii {0,1,2,5}: rect position = centre - r, extent = 2r, position + extent = centre + r per axis; aabr/aabb min = centre - r, max = centre + r; diameter = 2r; non-trivial: r > 0",
        true, false, |s| {
            require_tiers(s, &["f64", "f32", "X", "i32"], &["radius-zero", "radius-positive"]);
            bounds_tier::<f64, Disk<f64, f64>>(s, &c2, &radii);
            bounds_tier::<f32, Disk<f32, f32>>(s, &c2, &radii);
            bounds_tier::<X, Disk<X, X>>(s, &c2, &radii);
            bounds_tier::<f64, Sphere<f64, f64>>(s, &c3, &radii);
            bounds_tier::<f32, Sphere<f32, f32>>(s, &c3, &radii);
            bounds_tier::<X, Sphere<X, X>>(s, &c3, &radii);
            bounds_i32(s, &range(-3, 3, 1), &[0, 1, 2, 5]);
        });

    let (den, maxr) = if th { (8i64, 50i64) } else { (4, 10) };
    let fr: Vec<(i64, i64)> = (0..=maxr * den).map(|k| (k, den)).collect();
    let mut xr = fr.clone();
    for d in [3i64, 7] { for k in 1..=(if th { 60 } else { 12 }) { xr.push((k, d)); } }
    rep.section("circumference/area/surface_area/volume",
        &format!("radii k/{} for k = 0..={} (all tiers) and k/3, k/7 (X only). X: FloatConst::PI() is the angle token 2*(pi/2); the result must be, structurally, the token (coefficient)*pi with coefficient 2r, r^2, 4r^2, 4r^3/3 computed in Q (no numeric value of pi involved). f32/f64: the returned float, converted exactly to a rational, must be within 4*eps*|want| of coefficient*pi with pi to 18 digits, decided in checked integer arithmetic (vek performs at most 4 roundings plus the rounded constant: relative error < 5.4 * eps/2); non-trivial: r > 0", den, maxr * den),
        true, false, |s| {
            require_tiers(s, &tiers, &["radius-zero", "radius-positive"]);
            measures_tier::<f64, Disk<f64, f64>>(s, &fr);
            measures_tier::<f32, Disk<f32, f32>>(s, &fr);
            measures_tier::<X, Disk<X, X>>(s, &xr);
            measures_tier::<f64, Sphere<f64, f64>>(s, &fr);
            measures_tier::<f32, Sphere<f32, f32>>(s, &fr);
            measures_tier::<X, Sphere<X, X>>(s, &xr);
        });

    let seg_classes = ["degenerate-segment", "beyond-start", "foot-at-start", "interior-foot", "foot-at-end", "beyond-end", "point-on-segment", "range-roundtrip", "range-roundtrip-degenerate", "X/distance-exact", "f64/interior-foot", "f32/interior-foot", "f64/degenerate-segment", "f32/degenerate-segment"];
    let seg_rule = "X: projected_point (i) lies on the segment (collinear with and between the end points; equals start for a degenerate segment), (ii) no sampled point start + (k/24)(end-start), k = 0..24, is strictly nearer to p, (iii) its squared distance to p equals the closed-form minimum (|p-a|^2 if (p-a).e <= 0, |p-b|^2 if >= |e|^2, else |p-a|^2 - ((p-a).e)^2/|e|^2); distance_to_point: X exact (d >= 0 and d^2 = that minimum) where the minimum is a rational square, unmodelled (irrational sqrt) otherwise; f64/f32: within 256*eps*(|a|+|b|+|p|) (1-norms) of sqrt(minimum) (inputs exact; the code does one division, one sqrt and a few +,*); From<Range>/into_range keep start and end field for field; non-trivial: non-degenerate segment";
    let (e2v, p2v) = if th { (range(-3, 3, 1), range(-4, 4, 1)) } else { (range(-2, 2, 1), range(-3, 3, 1)) };
    rep.section("LineSegment2 projected_point/distance_to_point/range",
        &format!("all {} ordered pairs of end points on {{{}..{}}}^2 (degenerate included) x all points of {{{}..{}}}^2. {}", e2v.len().pow(4), e2v[0], e2v[e2v.len() - 1], p2v[0], p2v[p2v.len() - 1], seg_rule),
        true, false, |s| {
            s.require_classes(&seg_classes);
            let (ends, pts) = (cube(&e2v, 2), cube(&p2v, 2));
            seg_exact::<LineSegment2<X>>(s, &ends, &pts, 0, "");
            seg_float::<f64, LineSegment2<f64>>(s, &ends, &pts, 0, "");
            seg_float::<f32, LineSegment2<f32>>(s, &ends, &pts, 0, "");
        });
    let (e3v, p3v) = if th { (range(-2, 2, 1), range(-3, 3, 1)) } else { (range(-1, 1, 1), range(-2, 2, 1)) };
    rep.section("LineSegment3 projected_point/distance_to_point/range",
        &format!("all {} ordered pairs of end points on {{{}..{}}}^3 (degenerate included) x all points of {{{}..{}}}^3. {}", e3v.len().pow(6), e3v[0], e3v[e3v.len() - 1], p3v[0], p3v[p3v.len() - 1], seg_rule),
        true, false, |s| {
            s.require_classes(&seg_classes);
            let (ends, pts) = (cube(&e3v, 3), cube(&p3v, 3));
            seg_exact::<LineSegment3<X>>(s, &ends, &pts, 0, "");
            seg_float::<f64, LineSegment3<f64>>(s, &ends, &pts, 0, "");
            seg_float::<f32, LineSegment3<f32>>(s, &ends, &pts, 0, "");
        });

    let ray_rule = "Oracle: Cramer's rule on u*e1 + v*e2 - t*d = o - v0 with four 3x3 Leibniz determinants over integers (vx::matx::det), self-checked against the equation; expected Some(t) <=> det != 0 and u >= 0 and v >= 0 and u+v <= 1 (negative t included: the ray's LINE), value = t; det = 0 (line parallel to the plane, or degenerate triangle, which any line meeting it is coplanar with) => None. X (exact rationals) on every case; f64/f32 on the sub-space det in {0, +-2^j}, where every operation of the code under test is exact in binary floating point (small integers times powers of two, exact reciprocal), so verdict and value must equal the rational ones. Directions are not normalised: the claim origin + t*direction = crossing point does not depend on it. non-trivial: det != 0";
    let ray_classes = ["interior", "edge", "vertex", "miss", "parallel", "degenerate-triangle", "hit-at-negative-t", "hit-at-origin"];
    let dirs: Vec<P3> = cube(&[-1, 0, 1], 3).into_iter().filter(|d| *d != [0, 0, 0]).collect();
    let vv: Vec<i64> = if th { vec![0, 1, 2] } else { vec![0, 2] };
    rep.section("Ray::triangle_intersection",
        &format!("every ORDERED triple of vertices from {:?}^3 (repeated and collinear vertices = degenerate triangles included) x origins {{-1,0,1,3}}^3 x directions {{-1,0,1}}^3 minus 0. {} vek's |a| < epsilon test is exactly a == 0 on these integer inputs.", vv, ray_rule),
        true, false, |s| {
            require_tiers(s, &tiers, &ray_classes);
            let (verts, origins) = (cube(&vv, 3), cube(&[-1, 0, 1, 3], 3));
            ray_section::<X>(s, &verts, &origins, &dirs, 0, "");
            ray_section::<f64>(s, &verts, &origins, &dirs, 0, "");
            ray_section::<f32>(s, &verts, &origins, &dirs, 0, "");
        });

    // ---- the same claims on small shapes: all coordinates n / 2^k --------------------------------------
    // (the property quantifies over all shapes; its claims are invariant under scaling by a power of two,
    //  and so is every oracle above: exact in X, and exact / equally conditioned in binary floating point)
    let (sx, sf64, sf32): (Vec<u32>, Vec<u32>, Vec<u32>) = if th { ((1..=30).collect(), (1..=30).collect(), (1..=15).collect()) } else { (vec![13, 25, 26, 27], vec![13, 25, 26, 27], vec![6, 11, 12]) };
    rep.section("small shapes: LineSegment2/3 at scale 2^-k",
        &format!("coordinates n/2^k with n on the integer grids: 2-D end points {{-1..1}}^2 (all 81 ordered pairs) x points {{-2..2}}^2, 3-D end points {{0,1}}^3 (all 64 pairs) x points {{-1..2}}^3; k in {:?} (X), {:?} (f64), {:?} (f32). Same assertions and oracles as the two LineSegment sections (the oracle is evaluated on the integer numerators and scaled exactly; the float bound scales with the coordinates). Violation classes carry the prefix 'small-scale:'. non-trivial: non-degenerate segment", sx, sf64, sf32),
        true, false, |s| {
            s.require_classes(&["degenerate-segment", "beyond-start", "foot-at-start", "interior-foot", "foot-at-end", "beyond-end", "point-on-segment", "X/distance-exact", "f64/interior-foot", "f32/interior-foot"]);
            let (e2, p2) = (cube(&[-1, 0, 1], 2), cube(&[-2, -1, 0, 1, 2], 2));
            let (e3, p3) = (cube(&[0, 1], 3), cube(&[-1, 0, 1, 2], 3));
            for &k in &sx { seg_exact::<LineSegment2<X>>(s, &e2, &p2, k, "small-scale:"); seg_exact::<LineSegment3<X>>(s, &e3, &p3, k, "small-scale:"); }
            for &k in &sf64 { seg_float::<f64, LineSegment2<f64>>(s, &e2, &p2, k, "small-scale:"); seg_float::<f64, LineSegment3<f64>>(s, &e3, &p3, k, "small-scale:"); }
            for &k in &sf32 { seg_float::<f32, LineSegment2<f32>>(s, &e2, &p2, k, "small-scale:"); seg_float::<f32, LineSegment3<f32>>(s, &e3, &p3, k, "small-scale:"); }
            s.meta("scales_log2", json!({"X": sx, "f64": sf64, "f32": sf32}));
        });
    rep.section("small shapes: Ray::triangle_intersection at scale 2^-k",
        &format!("triangle vertices and ray origins n/2^k: every ordered triple of vertices from {{0,1}}^3 x origins {{-1,0,1}}^3 (numerators) x integer directions {{-1,0,1}}^3 minus 0; k in {:?} (X), {:?} (f64), {:?} (f32). {} Violation classes carry the prefix 'small-scale:'.", sx, sf64, sf32, ray_rule),
        true, false, |s| {
            require_tiers(s, &tiers, &["edge", "vertex", "miss", "parallel", "degenerate-triangle"]);
            s.require_classes(&["X/interior"]); // on this small grid interior hits have det = +-3: outside the exact float sub-space
            let (verts, origins) = (cube(&[0, 1], 3), cube(&[-1, 0, 1], 3));
            for &k in &sx { ray_section::<X>(s, &verts, &origins, &dirs, k, "small-scale:"); }
            for &k in &sf64 { ray_section::<f64>(s, &verts, &origins, &dirs, k, "small-scale:"); }
            for &k in &sf32 { ray_section::<f32>(s, &verts, &origins, &dirs, k, "small-scale:"); }
            s.meta("scales_log2", json!({"X": sx, "f64": sf64, "f32": sf32}));
        });

    std::process::exit(rep.finish());
}
