//! C16 — disks, spheres, segments, rays: containment, distance and hit queries are exact.
//!
//! Every oracle works on plain integers / `Q` rationals read from and written to public fields; no vek
//! function sits in an oracle.  Coordinates of the disk/sphere sections are given in HALF units
//! (the integer n stands for n/2), so that radius 1/2 and half-integer tangencies are on the grid.
use num_traits::real::Real;
use num_traits::FloatConst;
use rayon::prelude::*;
use std::collections::BTreeMap;
use std::fmt::Debug;
use std::ops::{Add, Range};
use vek::geom::repr_c::{Aabb, Aabr, Disk, LineSegment2, LineSegment3, Ray, Rect, Rect3, Sphere};
use vx::fl::{close32, close64};
use vx::matx::*;
use vx::*;

type P3 = [i64; 3];

// ---------------------------------------------------------------------------------------------
// element tiers

trait El: Real + FloatConst + approx::RelativeEq + Add<Output = Self> + Debug + Send + Sync + 'static {
    const NAME: &'static str;
    const EXACT: bool;
    /// the value n/d (callers only pass values that are exactly representable in the tier)
    fn frac(n: i64, d: i64) -> Self;
    /// exact rational value of a result (None: NaN / infinity)
    fn exact(self) -> Option<Q>;
    fn f(self) -> f64;
    /// the harness' derived forward-error bound of the tier (never used for X)
    fn close(got: f64, want: f64, scale: f64) -> bool;
    /// machine epsilon of the tier is 2^-EPS_BITS
    const EPS_BITS: u32;
    fn eps() -> Q { Q::new(1, 1i128 << Self::EPS_BITS) }
    /// X only: is the value, structurally, the angle token coef*pi (or any zero when coef = 0)?
    fn is_pi_times(self, _coef: Q) -> bool { false }
    /// the value 2^e, exact in every tier (|e| stays far inside the normal exponent range of the tier)
    fn pow2(e: i32) -> Self;
    /// vek's absolute-epsilon guards (LineSegment degeneracy test, Moeller-Trumbore parallel test) compare with
    /// T::epsilon() / T::default_epsilon() = 2^-GUARD_BITS of the tier (the harness type X answers 2^-52)
    const GUARD_BITS: u32;
}
fn qpow2(e: i32) -> Q { if e >= 0 { Q::int(1i128 << e) } else { Q::new(1, 1i128 << (-e)) } }
impl El for f64 {
    const NAME: &'static str = "f64";
    const EXACT: bool = false;
    fn frac(n: i64, d: i64) -> f64 { n as f64 / d as f64 }
    fn exact(self) -> Option<Q> { Q::from_f64(self) }
    fn f(self) -> f64 { self }
    fn close(got: f64, want: f64, scale: f64) -> bool { close64(got, want, scale) }
    const EPS_BITS: u32 = 52;
    fn pow2(e: i32) -> f64 { assert!((-1000..=1000).contains(&e)); f64::from_bits(((1023 + e) as u64) << 52) }
    const GUARD_BITS: u32 = 52;
}
impl El for f32 {
    const NAME: &'static str = "f32";
    const EXACT: bool = false;
    fn frac(n: i64, d: i64) -> f32 { n as f32 / d as f32 }
    fn exact(self) -> Option<Q> { Q::from_f64(self as f64) }
    fn f(self) -> f64 { self as f64 }
    fn close(got: f64, want: f64, scale: f64) -> bool { close32(got as f32, want, scale) }
    const EPS_BITS: u32 = 23;
    fn pow2(e: i32) -> f32 { assert!((-120..=120).contains(&e)); f32::from_bits(((127 + e) as u32) << 23) }
    const GUARD_BITS: u32 = 23;
}
impl El for X {
    const NAME: &'static str = "X";
    const EXACT: bool = true;
    fn frac(n: i64, d: i64) -> X { q(n as i128, d as i128) }
    fn exact(self) -> Option<Q> { match self { X::R(v) => Some(v), _ => None } }
    fn f(self) -> f64 { self.shadow() }
    fn close(_: f64, _: f64, _: f64) -> bool { false }
    const EPS_BITS: u32 = 100;
    fn is_pi_times(self, coef: Q) -> bool { self == X::pi() * X::R(coef) || (coef == Q::ZERO && num_traits::Zero::is_zero(&self)) }
    fn pow2(e: i32) -> X { X::R(qpow2(e)) }
    const GUARD_BITS: u32 = 52;
}

// ---------------------------------------------------------------------------------------------
// binding of Disk / Sphere through public fields

fn circ_coef(r: Q) -> Q { Q::int(2).mul(r) }
fn area_coef(r: Q) -> Q { r.mul(r) }
fn surf_coef(r: Q) -> Q { Q::int(4).mul(r).mul(r) }
fn vol_coef(r: Q) -> Q { Q::new(4, 3).mul(r).mul(r).mul(r) }

trait Ball<T: El>: Copy + Send + Sync {
    const D: usize;
    const NAME: &'static str;
    const COLLIDES: &'static str;
    const CV: &'static str;
    const RECT: &'static str;
    const AAB: &'static str;
    /// (method name, coefficient of pi as a function of the radius)
    const MEASURES: [(&'static str, fn(Q) -> Q); 2];
    fn make(c: &[T; 3], r: T) -> Self;
    fn contains(self, p: &[T; 3]) -> bool;
    fn collides(self, o: Self) -> bool;
    fn cv(self, o: Self) -> [T; 3];
    fn diam(self) -> T;
    /// (position, extent)
    fn rect_(self) -> ([T; 3], [T; 3]);
    /// (min, max)
    fn aab_(self) -> ([T; 3], [T; 3]);
    fn measure(self, i: usize) -> T;
}
impl<T: El> Ball<T> for Disk<T, T> {
    const D: usize = 2;
    const NAME: &'static str = "Disk";
    const COLLIDES: &'static str = "collides_with_disk";
    const CV: &'static str = "collision_vector_with_disk";
    const RECT: &'static str = "rect";
    const AAB: &'static str = "aabr";
    const MEASURES: [(&'static str, fn(Q) -> Q); 2] = [("circumference", circ_coef), ("area", area_coef)];
    fn make(c: &[T; 3], r: T) -> Self { Disk { center: Vec2 { x: c[0], y: c[1] }, radius: r } }
    fn contains(self, p: &[T; 3]) -> bool { self.contains_point(Vec2 { x: p[0], y: p[1] }) }
    fn collides(self, o: Self) -> bool { self.collides_with_disk(o) }
    fn cv(self, o: Self) -> [T; 3] { let v = self.collision_vector_with_disk(o); [v.x, v.y, T::zero()] }
    fn diam(self) -> T { self.diameter() }
    fn rect_(self) -> ([T; 3], [T; 3]) { let r: Rect<T, T> = self.rect(); ([r.x, r.y, T::zero()], [r.w, r.h, T::zero()]) }
    fn aab_(self) -> ([T; 3], [T; 3]) { let a: Aabr<T> = self.aabr(); ([a.min.x, a.min.y, T::zero()], [a.max.x, a.max.y, T::zero()]) }
    fn measure(self, i: usize) -> T { if i == 0 { self.circumference() } else { self.area() } }
}
impl<T: El> Ball<T> for Sphere<T, T> {
    const D: usize = 3;
    const NAME: &'static str = "Sphere";
    const COLLIDES: &'static str = "collides_with_sphere";
    const CV: &'static str = "collision_vector_with_sphere";
    const RECT: &'static str = "rect3";
    const AAB: &'static str = "aabb";
    const MEASURES: [(&'static str, fn(Q) -> Q); 2] = [("surface_area", surf_coef), ("volume", vol_coef)];
    fn make(c: &[T; 3], r: T) -> Self { Sphere { center: Vec3 { x: c[0], y: c[1], z: c[2] }, radius: r } }
    fn contains(self, p: &[T; 3]) -> bool { self.contains_point(Vec3 { x: p[0], y: p[1], z: p[2] }) }
    fn collides(self, o: Self) -> bool { self.collides_with_sphere(o) }
    fn cv(self, o: Self) -> [T; 3] { let v = self.collision_vector_with_sphere(o); [v.x, v.y, v.z] }
    fn diam(self) -> T { self.diameter() }
    fn rect_(self) -> ([T; 3], [T; 3]) { let r: Rect3<T, T> = self.rect3(); ([r.x, r.y, r.z], [r.w, r.h, r.d]) }
    fn aab_(self) -> ([T; 3], [T; 3]) { let a: Aabb<T> = self.aabb(); ([a.min.x, a.min.y, a.min.z], [a.max.x, a.max.y, a.max.z]) }
    fn measure(self, i: usize) -> T { if i == 0 { self.surface_area() } else { self.volume() } }
}

// ---------------------------------------------------------------------------------------------
// small helpers

/// all points of vals^d (remaining coordinates 0)
fn cube(vals: &[i64], d: usize) -> Vec<P3> {
    let mut out = Vec::new();
    let z: &[i64] = &[0];
    let (a, b, c) = (vals, if d >= 2 { vals } else { z }, if d >= 3 { vals } else { z });
    for &x in a { for &y in b { for &w in c { out.push([x, y, w]); } } }
    out
}
fn range(lo: i64, hi: i64, step: i64) -> Vec<i64> { (lo..=hi).step_by(step as usize).collect() }
fn d2(a: &P3, b: &P3) -> i64 { (0..3).map(|i| (a[i] - b[i]) * (a[i] - b[i])).sum() }
fn l1(a: &P3) -> u64 { a.iter().map(|v| v.unsigned_abs()).sum() }
fn tv<T: El>(v: &P3, den: i64) -> [T; 3] { [T::frac(v[0], den), T::frac(v[1], den), T::frac(v[2], den)] }
fn is_square(v: i64) -> bool { Q::isqrt(v as i128).is_some() }
/// the vector v/den * 2^sc (exact in every tier: a small numerator times a power of two)
fn tvs<T: El>(v: &P3, den: i64, sc: i32) -> [T; 3] { if sc == 0 { return tv::<T>(v, den); } let f = T::pow2(sc); [T::frac(v[0], den) * f, T::frac(v[1], den) * f, T::frac(v[2], den) * f] }
fn ts<T: El>(n: i64, den: i64, sc: i32) -> T { if sc == 0 { T::frac(n, den) } else { T::frac(n, den) * T::pow2(sc) } }
/// JSON of coordinates n/den * 2^sc
fn jps(v: &P3, d: usize, den: i64, sc: i32) -> Value { json!(v[..d].iter().map(|&n| format!("{:?}", Q::new(n as i128, den as i128).mul(qpow2(sc)))).collect::<Vec<_>>()) }
fn jns(n: i64, den: i64, sc: i32) -> Value { json!(format!("{:?}", Q::new(n as i128, den as i128).mul(qpow2(sc)))) }
/// additive emission: every violation of a 'small-scale:' section whose input lies OUTSIDE vek's absolute-epsilon guard
/// region is reported a second time under the class prefix 'above-guard:' (the 'small-scale:' keys are known findings
/// caused by that guard and would otherwise mask any other defect that shows at small scale)
fn emit(s: &Section, site: &str, pre: &str, guard_free: bool, class: &str, detail: Value, w: u64) {
    if pre == "small-scale:" && guard_free { s.violation_w(site, &format!("above-guard:{}", class), detail.clone(), w); }
    s.violation_w(site, &format!("{}{}", pre, class), detail, w);
}
/// JSON of coordinates given in units of 1/den
fn jp(v: &P3, d: usize, den: i64) -> Value { json!(v[..d].iter().map(|&n| format!("{:?}", Q::new(n as i128, den as i128))).collect::<Vec<_>>()) }
fn jn(n: i64, den: i64) -> Value { json!(format!("{:?}", Q::new(n as i128, den as i128))) }
fn jt<T: Debug>(v: &[T; 3], d: usize) -> Value { json!(v[..d].iter().map(|x| format!("{:?}", x)).collect::<Vec<_>>()) }

/// per-task class counter, flushed once (the section's class map is behind a mutex)
#[derive(Default)]
struct Cls(BTreeMap<(&'static str, &'static str), u64>);
impl Cls {
    fn hit(&mut self, tier: &'static str, c: &'static str) { *self.0.entry((tier, c)).or_insert(0) += 1; }
    fn flush(self, s: &Section) { for ((t, c), n) in self.0 { if t.is_empty() { s.class_n(c, n) } else { s.class_n(&format!("{}/{}", t, c), n) } } }
}
fn require_tiers(s: &Section, tiers: &[&str], classes: &[&str]) {
    for t in tiers { for c in classes { s.require_classes(&[format!("{}/{}", t, c).as_str()]); } }
}

// ---------------------------------------------------------------------------------------------
// 1. contains_point

fn contains_tier<T: El, B: Ball<T>>(s: &Section, centres: &[P3], radii: &[i64], points: &[P3], sc: i32, pre: &str) {
    let site = format!("{}::contains_point<{}>", B::NAME, T::NAME);
    let f2 = qpow2(sc).mul(qpow2(sc));
    centres.par_iter().for_each(|c| {
        let mut cls = Cls::default();
        let (mut n, mut nt) = (0u64, 0u64);
        for &r in radii {
            let ball = B::make(&tvs::<T>(c, 2, sc), ts::<T>(r, 2, sc));
            for p in points {
                let dd = d2(c, p); // (2d)^2, an integer
                // "at most the radius": a negative radius is below every distance
                let want = r >= 0 && dd <= r * r;
                let kind = if r < 0 { "negative-radius" } else if dd < r * r { "inside" } else if dd == r * r { "boundary" } else { "outside" };
                n += 1;
                if dd != 0 { nt += 1; }
                let pt = tvs::<T>(p, 2, sc);
                let inp = || json!({"center": jps(c, B::D, 2, sc), "radius": jns(r, 2, sc), "p": jps(p, B::D, 2, sc)});
                match s.call(&site, inp, || ball.contains(&pt)) {
                    Some(got) => {
                        cls.hit(T::NAME, kind);
                        if got != want {
                            let class = format!("{}{}wrong-verdict", pre, if r < 0 { "negative-radius:" } else { "" });
                            s.violation_w(&site, &class, json!({"input": inp(), "distance_squared": format!("{:?}", Q::new(dd as i128, 4).mul(f2)), "radius_squared": format!("{:?}", Q::new((r * r) as i128, 4).mul(f2)), "got": got, "want": want}), l1(c) + l1(p) + r.unsigned_abs() + sc.unsigned_abs() as u64);
                        }
                        if kind == "boundary" && dd != 0 && s.wants_sample() { s.sample(json!({"site": site, "input": inp(), "distance_squared": format!("{:?}", Q::new(dd as i128, 4).mul(f2)), "got": got, "want": want})); }
                    }
                    None => cls.hit(T::NAME, if is_square(dd) { "unmodelled-on-rational-distance" } else { "unmodelled-irrational-distance" }),
                }
            }
        }
        s.evals(n, nt);
        cls.flush(s);
    });
}

// ---------------------------------------------------------------------------------------------
// 2. collides_with_*

fn collides_tier<T: El, B: Ball<T>>(s: &Section, centres: &[P3], radii: &[i64], sc: i32, pre: &str) {
    let site = format!("{}::{}<{}>", B::NAME, B::COLLIDES, T::NAME);
    let f2 = qpow2(sc).mul(qpow2(sc));
    centres.par_iter().for_each(|c1| {
        let mut cls = Cls::default();
        let (mut n, mut nt) = (0u64, 0u64);
        for c2 in centres {
            let dd = d2(c1, c2);
            for &r1 in radii { for &r2 in radii {
                let (a, b) = (B::make(&tvs::<T>(c1, 2, sc), ts::<T>(r1, 2, sc)), B::make(&tvs::<T>(c2, 2, sc), ts::<T>(r2, 2, sc)));
                let rr = (r1 + r2) * (r1 + r2);
                // "at most the sum of radii": a negative sum is below every distance
                let want = r1 + r2 >= 0 && dd <= rr;
                let neg = r1 < 0 || r2 < 0;
                let kind = if r1 + r2 < 0 { "negative-radius-sum" } else if dd < rr { "overlapping" } else if dd == rr { "tangent" } else { "disjoint" };
                n += 1;
                if dd != 0 { nt += 1; }
                let inp = || json!({"self": {"center": jps(c1, B::D, 2, sc), "radius": jns(r1, 2, sc)}, "other": {"center": jps(c2, B::D, 2, sc), "radius": jns(r2, 2, sc)}});
                match s.call(&site, inp, || a.collides(b)) {
                    Some(got) => {
                        cls.hit(T::NAME, kind);
                        if neg && r1 + r2 >= 0 { cls.hit(T::NAME, "mixed-sign-radii"); }
                        if got != want {
                            let class = format!("{}{}wrong-verdict", pre, if neg { "negative-radius:" } else { "" });
                            s.violation_w(&site, &class, json!({"input": inp(), "centre_distance_squared": format!("{:?}", Q::new(dd as i128, 4).mul(f2)), "radius_sum_squared": format!("{:?}", Q::new(rr as i128, 4).mul(f2)), "got": got, "want": want}), l1(c1) + l1(c2) + r1.unsigned_abs() + r2.unsigned_abs() + sc.unsigned_abs() as u64);
                        }
                        if kind == "tangent" && dd != 0 && r1 != r2 && s.wants_sample() { s.sample(json!({"site": site, "input": inp(), "centre_distance_squared": format!("{:?}", Q::new(dd as i128, 4).mul(f2)), "got": got, "want": want})); }
                    }
                    None => cls.hit(T::NAME, if is_square(dd) { "unmodelled-on-rational-distance" } else { "unmodelled-irrational-distance" }),
                }
            } }
        }
        s.evals(n, nt);
        cls.flush(s);
    });
}

// ---------------------------------------------------------------------------------------------
// 3. collision_vector_with_*:   other.center + cv   must be at distance r1+r2 from self.center

fn cv_tier<T: El, B: Ball<T>>(s: &Section, centres: &[P3], radii: &[i64], sc: i32, pre: &str) {
    let site = format!("{}::{}<{}>", B::NAME, B::CV, T::NAME);
    let (f1, fq) = (T::pow2(sc).f(), qpow2(sc));
    centres.par_iter().for_each(|c1| {
        let mut cls = Cls::default();
        let (mut n, mut nt) = (0u64, 0u64);
        for c2 in centres {
            let dd = d2(c1, c2);
            if dd == 0 { cls.hit(T::NAME, "coincident-centres-excluded"); continue; }
            for &r1 in radii { for &r2 in radii {
                let rsum = r1 + r2;
                // two shapes whose radii sum to a negative number cannot be tangent (a distance is never negative): left open
                if rsum < 0 { cls.hit(T::NAME, "negative-radius-sum-excluded"); continue; }
                let (a, b) = (B::make(&tvs::<T>(c1, 2, sc), ts::<T>(r1, 2, sc)), B::make(&tvs::<T>(c2, 2, sc), ts::<T>(r2, 2, sc)));
                let neg = r1 < 0 || r2 < 0;
                let kind = if dd < rsum * rsum { "penetrating" } else if dd == rsum * rsum { "already-tangent" } else { "separated" };
                n += 1;
                if dd != rsum * rsum { nt += 1; }
                let inp = || json!({"self": {"center": jps(c1, B::D, 2, sc), "radius": jns(r1, 2, sc)}, "other": {"center": jps(c2, B::D, 2, sc), "radius": jns(r2, 2, sc)}});
                let w = l1(c1) + l1(c2) + r1.unsigned_abs() + r2.unsigned_abs() + sc.unsigned_abs() as u64;
                let Some(cv) = s.call(&site, inp, || a.cv(b)) else {
                    cls.hit(T::NAME, if is_square(dd) { "unmodelled-on-rational-distance" } else { "unmodelled-irrational-distance" });
                    continue;
                };
                cls.hit(T::NAME, kind);
                if neg { cls.hit(T::NAME, "mixed-sign-radii"); }
                let class = format!("{}{}not-tangent-after-move", pre, if neg { "negative-radius:" } else { "" });
                if T::EXACT {
                    // exact: | (c2 + cv) - c1 |^2 == (r1+r2)^2
                    let mut nd = Q::ZERO;
                    let mut ok = true;
                    for i in 0..B::D {
                        match cv[i].exact() { Some(v) => { let t = Q::new((c2[i] - c1[i]) as i128, 2).mul(fq).add(v); nd = nd.add(t.mul(t)); } None => ok = false }
                    }
                    let want = Q::new((rsum * rsum) as i128, 4).mul(fq).mul(fq);
                    if !ok || nd != want {
                        s.violation_w(&site, &class, json!({"input": inp(), "collision_vector": jt(&cv, B::D), "new_centre_distance_squared": format!("{:?}", nd), "want_(r1+r2)^2": format!("{:?}", want)}), w);
                    }
                    if kind == "penetrating" && s.wants_sample() { s.sample(json!({"site": site, "input": inp(), "collision_vector": jt(&cv, B::D), "new_centre_distance_squared": format!("{:?}", nd), "(r1+r2)^2": format!("{:?}", want)})); }
                } else {
                    // float: new centre distance computed in f64 from the returned components, bound 256 eps * scale
                    let mut sq = 0f64;
                    for i in 0..B::D { let t = (c2[i] as f64 / 2.0 * f1 + cv[i].f()) - c1[i] as f64 / 2.0 * f1; sq += t * t; }
                    let (nd, want) = (sq.sqrt(), rsum as f64 / 2.0 * f1);
                    let scale = (rsum as f64 / 2.0 + (dd as f64).sqrt() / 2.0 + 1.0) * f1;
                    if !T::close(nd, want, scale) {
                        s.violation_w(&site, &class, json!({"input": inp(), "collision_vector": jt(&cv, B::D), "new_centre_distance": nd, "want_r1+r2": want}), w);
                    }
                }
            } }
        }
        s.evals(n, nt);
        cls.flush(s);
    });
}

// ---------------------------------------------------------------------------------------------
// 4. bounds, diameter

fn bounds_tier<T: El, B: Ball<T>>(s: &Section, centres: &[P3], radii: &[i64], sc: i32, pre: &str) {
    let sites = [format!("{}::{}<{}>", B::NAME, B::RECT, T::NAME), format!("{}::{}<{}>", B::NAME, B::AAB, T::NAME), format!("{}::diameter<{}>", B::NAME, T::NAME)];
    centres.par_iter().for_each(|c| {
        let mut cls = Cls::default();
        for &r in radii {
            let ball = B::make(&tvs::<T>(c, 2, sc), ts::<T>(r, 2, sc));
            let inp = || json!({"center": jps(c, B::D, 2, sc), "radius": jns(r, 2, sc)});
            let lo: [T; 3] = [ts::<T>(c[0] - r, 2, sc), ts::<T>(c[1] - r, 2, sc), ts::<T>(c[2] - r, 2, sc)];
            let hi: [T; 3] = [ts::<T>(c[0] + r, 2, sc), ts::<T>(c[1] + r, 2, sc), ts::<T>(c[2] + r, 2, sc)];
            let ext = ts::<T>(r, 1, sc);
            let w = l1(c) + r.unsigned_abs() + sc.unsigned_abs() as u64;
            // a negative radius is taken literally: "centre plus/minus the radius per axis" (min = c - r, max = c + r, extent = 2r)
            let pre = format!("{}{}", pre, if r < 0 { "negative-radius:" } else { "" });
            cls.hit(T::NAME, if r == 0 { "radius-zero" } else if r > 0 { "radius-positive" } else { "radius-negative" });
            s.eval(r != 0);
            if let Some((pos, e)) = s.call(&sites[0], inp, || ball.rect_()) {
                for i in 0..B::D {
                    if pos[i] != lo[i] || e[i] != ext || pos[i] + e[i] != hi[i] {
                        s.violation_w(&sites[0], &format!("{}wrong-bounds", pre), json!({"input": inp(), "axis": i, "got_position": jt(&pos, B::D), "got_extent": jt(&e, B::D), "want_min": jt(&lo, B::D), "want_max": jt(&hi, B::D)}), w);
                    }
                }
            }
            s.eval(r != 0);
            if let Some((mn, mx)) = s.call(&sites[1], inp, || ball.aab_()) {
                for i in 0..B::D {
                    if mn[i] != lo[i] || mx[i] != hi[i] {
                        s.violation_w(&sites[1], &format!("{}wrong-bounds", pre), json!({"input": inp(), "axis": i, "got_min": jt(&mn, B::D), "got_max": jt(&mx, B::D), "want_min": jt(&lo, B::D), "want_max": jt(&hi, B::D)}), w);
                    }
                }
                if r != 0 && c[0] != 0 && s.wants_sample() { s.sample(json!({"site": sites[1], "input": inp(), "got_min": jt(&mn, B::D), "got_max": jt(&mx, B::D)})); }
            }
            s.eval(r != 0);
            if let Some(dm) = s.call(&sites[2], inp, || ball.diam()) {
                if dm != ext { s.violation_w(&sites[2], &format!("{}wrong-value", pre), json!({"input": inp(), "got": format!("{:?}", dm), "want": format!("{:?}", ext)}), w); }
            }
        }
        cls.flush(s);
    });
}

/// integer shapes (Disk<i32,i32>, Sphere<i32,i32>): same claims, integer centres and radii (units, not halves)
fn bounds_i32(s: &Section, vals: &[i64], radii: &[i64]) {
    for c in cube(vals, 3) {
        // (callers keep centre +- radius and 2*radius inside i32)
        for &r in radii {
            let (cx, cy, cz, ri) = (c[0] as i32, c[1] as i32, c[2] as i32, r as i32);
            let inp = || json!({"center": [cx, cy, cz], "radius": ri});
            let w = l1(&c) + r.unsigned_abs();
            if c[2] == 0 {
                let dk = Disk { center: Vec2 { x: cx, y: cy }, radius: ri };
                s.eval(r != 0);
                if let Some(rc) = s.call("Disk::rect<i32>", inp, || dk.rect()) {
                    if (rc.x, rc.y, rc.w, rc.h) != (cx - ri, cy - ri, 2 * ri, 2 * ri) { s.violation_w("Disk::rect<i32>", "wrong-bounds", json!({"input": inp(), "got": jd(&rc)}), w); }
                }
                s.eval(r != 0);
                if let Some(a) = s.call("Disk::aabr<i32>", inp, || dk.aabr()) {
                    if (a.min.x, a.min.y, a.max.x, a.max.y) != (cx - ri, cy - ri, cx + ri, cy + ri) { s.violation_w("Disk::aabr<i32>", "wrong-bounds", json!({"input": inp(), "got": jd(&a)}), w); }
                }
                s.eval(r != 0);
                if let Some(dm) = s.call("Disk::diameter<i32>", inp, || dk.diameter()) {
                    if dm != 2 * ri { s.violation_w("Disk::diameter<i32>", "wrong-value", json!({"input": inp(), "got": dm}), w); }
                }
            }
            let sp = Sphere { center: Vec3 { x: cx, y: cy, z: cz }, radius: ri };
            s.eval(r != 0);
            if let Some(rc) = s.call("Sphere::rect3<i32>", inp, || sp.rect3()) {
                if (rc.x, rc.y, rc.z, rc.w, rc.h, rc.d) != (cx - ri, cy - ri, cz - ri, 2 * ri, 2 * ri, 2 * ri) { s.violation_w("Sphere::rect3<i32>", "wrong-bounds", json!({"input": inp(), "got": jd(&rc)}), w); }
            }
            s.eval(r != 0);
            if let Some(a) = s.call("Sphere::aabb<i32>", inp, || sp.aabb()) {
                if (a.min.x, a.min.y, a.min.z, a.max.x, a.max.y, a.max.z) != (cx - ri, cy - ri, cz - ri, cx + ri, cy + ri, cz + ri) { s.violation_w("Sphere::aabb<i32>", "wrong-bounds", json!({"input": inp(), "got": jd(&a)}), w); }
            }
            s.eval(r != 0);
            if let Some(dm) = s.call("Sphere::diameter<i32>", inp, || sp.diameter()) {
                if dm != 2 * ri { s.violation_w("Sphere::diameter<i32>", "wrong-value", json!({"input": inp(), "got": dm}), w); }
            }
            s.class(if r == 0 { "i32/radius-zero" } else if r > 0 { "i32/radius-positive" } else { "i32/radius-negative" });
        }
    }
}

// ---------------------------------------------------------------------------------------------
// 5. circumference / area / surface_area / volume

/// pi to 18 significant digits as PI_NUM / 10^17 (relative error 1.2e-18, i.e. 0.005 f64-epsilon)
const PI_NUM: i128 = 314159265358979324;
const PI_DEN: i128 = 100_000_000_000_000_000;

/// |got - (a/b) pi| <= 4 * 2^-eps_bits * (a/b) pi, decided in checked integer arithmetic:
/// with got = n/d (d a power of two) this is |b n PI_DEN - a PI_NUM d| <= (a PI_NUM d) >> (eps_bits - 2).
/// None: i128 overflow (reported as unmodelled, never as a verdict).
fn within_4eps(got: Q, coef: Q, eps_bits: u32) -> Option<(bool, f64)> {
    let (a, b) = (coef.n, coef.d);
    let lhs = b.checked_mul(got.n)?.checked_mul(PI_DEN)?;
    let rhs = a.checked_mul(PI_NUM)?.checked_mul(got.d)?;
    let diff = lhs.checked_sub(rhs)?.abs();
    let tol = rhs.abs() >> (eps_bits - 2);
    Some((diff <= tol, if rhs == 0 { 0.0 } else { diff as f64 / rhs.abs() as f64 }))
}

/// one returned measure against coefficient * pi (coefficient exact); `got` was produced for a radius scaled by 2^sc and
/// the measure is homogeneous of degree `deg` in the radius, so got * 2^(-sc*deg) (an exact operation in every tier) is
/// compared with the unscaled coefficient
fn check_measure<T: El>(s: &Section, site: &str, class: &str, inp: &dyn Fn() -> Value, got: T, cq: Q, sc: i32, deg: i32, zero: bool, frac: bool, w: u64) {
    if T::EXACT {
        // structural: the angle token  coef * pi
        let cqs = cq.mul(qpow2(sc * deg));
        let g = format!("{:?}", got);
        let wn = format!("{:?}", X::pi() * X::R(cqs));
        if !got.is_pi_times(cqs) { s.violation_w(site, class, json!({"input": inp(), "got": g, "want_token": wn, "coefficient_of_pi": format!("{:?}", cqs)}), w); }
        s.class(&format!("X/{}", if zero { "radius-zero" } else { "radius-positive" }));
        if !zero && frac && s.wants_sample() { s.sample(json!({"site": site, "input": inp(), "got": g, "want_token (k * pi/2)": wn})); }
    } else {
        s.class(&format!("{}/{}", T::NAME, if zero { "radius-zero" } else { "radius-positive" }));
        let unscaled = got.f() * f64::pow2(-sc * deg);
        if !got.f().is_finite() { s.violation_w(site, class, json!({"input": inp(), "got": got.f(), "why": "non-finite"}), w); return }
        // (every expected unscaled value lies in [2^-8, 2^20]: a float outside the i128 rational range is wrong, as in the original check)
        let Some(gq) = Q::from_f64(unscaled) else { s.violation_w(site, class, json!({"input": inp(), "got": got.f(), "why": "magnitude outside 2^-126..2^123"}), w); return };
        match within_4eps(gq, cq, T::EPS_BITS) {
            Some((true, _)) => {}
            Some((false, rel)) => s.violation_w(site, class, json!({"input": inp(), "got": got.f(), "want": cq.to_f64() * std::f64::consts::PI * f64::pow2(sc * deg), "relative_error": rel, "allowed": 4.0 * T::eps().to_f64()}), w),
            None => s.unmodelled("oracle integer overflow"),
        }
    }
}
const DEGREES: [[i32; 2]; 2] = [[1, 2], [2, 3]]; // [Disk: circumference, area], [Sphere: surface_area, volume]

/// radii: (numerator, denominator), multiplied by 2^sc; the measures must not depend on the centre
fn measures_tier<T: El, B: Ball<T>>(s: &Section, radii: &[(i64, i64)], centre: &P3, sc: i32, pre: &str) {
    for &(rn, rd) in radii {
        let ball = B::make(&tvs::<T>(centre, 1, sc), ts::<T>(rn, rd, sc));
        let rq = Q::new(rn as i128, rd as i128);
        for (i, (name, coef)) in B::MEASURES.iter().enumerate() {
            let site = format!("{}::{}<{}>", B::NAME, name, T::NAME);
            let inp = || if *centre == [0, 0, 0] && sc == 0 { json!({"radius": jn(rn, rd)}) } else { json!({"center": jps(centre, B::D, 1, sc), "radius": jns(rn, rd, sc)}) };
            let cq = coef(rq);
            s.eval(rn != 0);
            let Some(got) = s.call(&site, inp, || ball.measure(i)) else { continue };
            check_measure::<T>(s, &site, &format!("{}wrong-value", pre), &inp, got, cq, sc, DEGREES[B::D - 2][i], rn == 0, rd != 1, (rn.abs() + rd) as u64 + sc.unsigned_abs() as u64);
        }
    }
}

// ---------------------------------------------------------------------------------------------
// 6/7. segments

trait Seg<T: El>: Copy + Send + Sync {
    const D: usize;
    const NAME: &'static str;
    fn make(a: &[T; 3], b: &[T; 3]) -> Self;
    fn proj(self, p: &[T; 3]) -> [T; 3];
    fn dist(self, p: &[T; 3]) -> T;
    /// From<Range> then into_range, everything decoded by fields: (seg.start, seg.end, range.start, range.end)
    fn roundtrip(a: &[T; 3], b: &[T; 3]) -> [[T; 3]; 4];
}
impl<T: El> Seg<T> for LineSegment2<T> {
    const D: usize = 2;
    const NAME: &'static str = "LineSegment2";
    fn make(a: &[T; 3], b: &[T; 3]) -> Self { LineSegment2 { start: Vec2 { x: a[0], y: a[1] }, end: Vec2 { x: b[0], y: b[1] } } }
    fn proj(self, p: &[T; 3]) -> [T; 3] { let v = self.projected_point(Vec2 { x: p[0], y: p[1] }); [v.x, v.y, T::zero()] }
    fn dist(self, p: &[T; 3]) -> T { self.distance_to_point(Vec2 { x: p[0], y: p[1] }) }
    fn roundtrip(a: &[T; 3], b: &[T; 3]) -> [[T; 3]; 4] {
        let sg = LineSegment2::from(Range { start: Vec2 { x: a[0], y: a[1] }, end: Vec2 { x: b[0], y: b[1] } });
        let r = sg.into_range();
        let z = T::zero();
        [[sg.start.x, sg.start.y, z], [sg.end.x, sg.end.y, z], [r.start.x, r.start.y, z], [r.end.x, r.end.y, z]]
    }
}
impl<T: El> Seg<T> for LineSegment3<T> {
    const D: usize = 3;
    const NAME: &'static str = "LineSegment3";
    fn make(a: &[T; 3], b: &[T; 3]) -> Self { LineSegment3 { start: Vec3 { x: a[0], y: a[1], z: a[2] }, end: Vec3 { x: b[0], y: b[1], z: b[2] } } }
    fn proj(self, p: &[T; 3]) -> [T; 3] { let v = self.projected_point(Vec3 { x: p[0], y: p[1], z: p[2] }); [v.x, v.y, v.z] }
    fn dist(self, p: &[T; 3]) -> T { self.distance_to_point(Vec3 { x: p[0], y: p[1], z: p[2] }) }
    fn roundtrip(a: &[T; 3], b: &[T; 3]) -> [[T; 3]; 4] {
        let sg = LineSegment3::from(Range { start: Vec3 { x: a[0], y: a[1], z: a[2] }, end: Vec3 { x: b[0], y: b[1], z: b[2] } });
        let r = sg.into_range();
        [[sg.start.x, sg.start.y, sg.start.z], [sg.end.x, sg.end.y, sg.end.z], [r.start.x, r.start.y, r.start.z], [r.end.x, r.end.y, r.end.z]]
    }
}

fn qsub(a: &[Q; 3], b: &[Q; 3]) -> [Q; 3] { [a[0].sub(b[0]), a[1].sub(b[1]), a[2].sub(b[2])] }
fn qdot(a: &[Q; 3], b: &[Q; 3]) -> Q { a[0].mul(b[0]).add(a[1].mul(b[1])).add(a[2].mul(b[2])) }

/// closed-form oracle on the integer numerators: (region, exact squared distance from p to the segment ab)
fn seg_oracle(a: &P3, b: &P3, p: &P3) -> (&'static str, Q) {
    let e: P3 = [b[0] - a[0], b[1] - a[1], b[2] - a[2]];
    let l = e[0] * e[0] + e[1] * e[1] + e[2] * e[2];
    let s0 = (0..3).map(|i| (p[i] - a[i]) * e[i]).sum::<i64>();
    let (pa, pb) = (d2(p, a), d2(p, b));
    if l == 0 { return ("degenerate-segment", Q::int(pa as i128)); }
    if s0 < 0 { ("beyond-start", Q::int(pa as i128)) }
    else if s0 == 0 { ("foot-at-start", Q::int(pa as i128)) }
    else if s0 > l { ("beyond-end", Q::int(pb as i128)) }
    else if s0 == l { ("foot-at-end", Q::int(pb as i128)) }
    else { ("interior-foot", Q::int(pa as i128).sub(Q::new((s0 * s0) as i128, l as i128))) }
}

/// all coordinates are  n * 2^sc  (sc <= 0: small shapes, sc > 0: large shapes);  `pre` is prepended to the violation
/// classes of the scaled sections.  A segment is `guard_free` when vek's absolute-epsilon degeneracy test
/// (len_sq <= 2^-GUARD_BITS) does not fire on it although it is not degenerate: see `emit`.
fn seg_exact<S: Seg<X>>(s: &Section, ends: &[P3], pts: &[P3], sc: i32, pre: &str) {
    let site_p = format!("{}::projected_point<X>", S::NAME);
    let site_d = format!("{}::distance_to_point<X>", S::NAME);
    let site_r = format!("{}::From<Range>/into_range<X>", S::NAME);
    let fq = qpow2(sc);
    let f2 = fq.mul(fq);
    let guard = qpow2(-(X::GUARD_BITS as i32));
    let qvs = |a: &P3| -> [Q; 3] { [Q::int(a[0] as i128).mul(fq), Q::int(a[1] as i128).mul(fq), Q::int(a[2] as i128).mul(fq)] };
    ends.par_iter().for_each(|a| {
        let mut cls = Cls::default();
        let (mut n, mut nt) = (0u64, 0u64);
        for b in ends {
            let (ax, bx) = (tvs::<X>(a, 1, sc), tvs::<X>(b, 1, sc));
            // range conversions
            n += 1; if a != b { nt += 1; }
            if let Some(rt) = s.call(&site_r, || json!({"start": jps(a, S::D, 1, sc), "end": jps(b, S::D, 1, sc)}), || S::roundtrip(&ax, &bx)) {
                if rt[0] != ax || rt[1] != bx || rt[2] != ax || rt[3] != bx {
                    s.violation_w(&site_r, &format!("{}wrong-endpoints", pre), json!({"start": jps(a, S::D, 1, sc), "end": jps(b, S::D, 1, sc), "got": [jt(&rt[0], S::D), jt(&rt[1], S::D), jt(&rt[2], S::D), jt(&rt[3], S::D)]}), l1(a) + l1(b));
                }
                cls.hit("", if a == b { "range-roundtrip-degenerate" } else { "range-roundtrip" });
            }
            let seg = S::make(&ax, &bx);
            let (aq, bq) = (qvs(a), qvs(b));
            let e = qsub(&bq, &aq);
            let l = qdot(&e, &e);
            let guard_free = a == b || sc >= 0 || l > guard;
            for p in pts {
                let px = tvs::<X>(p, 1, sc);
                let pq = qvs(p);
                let (region, dmin_int) = seg_oracle(a, b, p);
                let dmin = dmin_int.mul(f2);
                let inp = || json!({"start": jps(a, S::D, 1, sc), "end": jps(b, S::D, 1, sc), "p": jps(p, S::D, 1, sc)});
                let w = l1(a) + l1(b) + l1(p) + sc.unsigned_abs() as u64;
                n += 1; if a != b { nt += 1; }
                cls.hit("", region);
                if dmin == Q::ZERO { cls.hit("", "point-on-segment"); }
                if pre == "small-scale:" { cls.hit("", if guard_free { "outside-the-epsilon-guard" } else { "inside-the-epsilon-guard" }); }
                if let Some(g) = s.call(&site_p, inp, || S::proj(seg, &px)) {
                    let gq = [g[0].rat(), g[1].rat(), g[2].rat()];
                    // (i) lies on the segment: collinear with, and between, the end points
                    let wv = qsub(&gq, &aq);
                    let par = qdot(&wv, &e);
                    let collinear = (0..3).all(|i| (0..3).all(|j| wv[i].mul(e[j]) == wv[j].mul(e[i])));
                    let on = if a == b { gq == aq } else { collinear && par >= Q::ZERO && par <= l };
                    if !on { emit(s, &site_p, pre, guard_free, "off-segment", json!({"input": inp(), "got": jt(&g, S::D), "parameter_times_len_sq": format!("{:?}", par), "len_sq": format!("{:?}", l)}), w); }
                    // (ii) no sampled point a + (k/24)(b-a) is strictly nearer
                    let gp = qsub(&gq, &pq);
                    let dg = qdot(&gp, &gp);
                    for k in 0..=24 {
                        let t = Q::new(k, 24);
                        let sp = [aq[0].add(e[0].mul(t)), aq[1].add(e[1].mul(t)), aq[2].add(e[2].mul(t))];
                        let v = qsub(&sp, &pq);
                        let dk = qdot(&v, &v);
                        assert!(dk >= dmin, "oracle error: a sampled point is nearer than the closed-form minimum");
                        if dk < dg { emit(s, &site_p, pre, guard_free, "sampled-point-nearer", json!({"input": inp(), "got": jt(&g, S::D), "got_distance_squared": format!("{:?}", dg), "k_of_24": k, "sample_distance_squared": format!("{:?}", dk)}), w); break; }
                    }
                    // (iii) it is the nearest point: its squared distance is the closed-form minimum
                    if on && dg != dmin { emit(s, &site_p, pre, guard_free, "not-nearest", json!({"input": inp(), "got": jt(&g, S::D), "got_distance_squared": format!("{:?}", dg), "minimum_distance_squared": format!("{:?}", dmin)}), w); }
                    if region == "interior-foot" && dmin != Q::ZERO && s.wants_sample() { s.sample(json!({"site": site_p, "input": inp(), "got": jt(&g, S::D), "distance_squared": format!("{:?}", dg)})); }
                }
                // distance: exact tier where the squared distance is a perfect square
                n += 1; if a != b { nt += 1; }
                match s.call(&site_d, inp, || S::dist(seg, &px)) {
                    Some(g) => {
                        cls.hit("X", "distance-exact");
                        let gq = g.rat();
                        if gq < Q::ZERO || gq.mul(gq) != dmin { emit(s, &site_d, pre, guard_free, "wrong-distance", json!({"input": inp(), "got": format!("{:?}", gq), "want_squared": format!("{:?}", dmin)}), w); }
                    }
                    None => cls.hit("X", if dmin.sqrt_exact().is_some() { "distance-unmodelled-on-rational-distance" } else { "distance-unmodelled-irrational" }),
                }
            }
        }
        s.evals(n, nt);
        cls.flush(s);
    });
}

/// exact foot of p on the segment ab (integer numerators): the point whose squared distance `seg_oracle` returns
fn seg_foot(a: &P3, b: &P3, p: &P3) -> [Q; 3] {
    let e: P3 = [b[0] - a[0], b[1] - a[1], b[2] - a[2]];
    let l = e[0] * e[0] + e[1] * e[1] + e[2] * e[2];
    let s0 = (0..3).map(|i| (p[i] - a[i]) * e[i]).sum::<i64>();
    let t = if l == 0 || s0 <= 0 { Q::ZERO } else if s0 >= l { Q::ONE } else { Q::new(s0 as i128, l as i128) };
    [0, 1, 2].map(|i| Q::int(a[i] as i128).add(Q::int(e[i] as i128).mul(t)))
}

fn seg_float<T: El, S: Seg<T>>(s: &Section, ends: &[P3], pts: &[P3], sc: i32, pre: &str) {
    let site_d = format!("{}::distance_to_point<{}>", S::NAME, T::NAME);
    let site_p = format!("{}::projected_point<{}>", S::NAME, T::NAME);
    let fq = qpow2(sc);
    let f2 = fq.mul(fq);
    let f1 = f64::pow2(sc);
    let guard = qpow2(-(T::GUARD_BITS as i32));
    ends.par_iter().for_each(|a| {
        let mut cls = Cls::default();
        let (mut n, mut nt) = (0u64, 0u64);
        for b in ends {
            let (at, bt) = (tvs::<T>(a, 1, sc), tvs::<T>(b, 1, sc));
            let seg = S::make(&at, &bt);
            let guard_free = a == b || sc >= 0 || Q::int(d2(a, b) as i128).mul(f2) > guard;
            for p in pts {
                let (region, dmin_int) = seg_oracle(a, b, p);
                let dmin = dmin_int.mul(f2);
                let inp = || json!({"start": jps(a, S::D, 1, sc), "end": jps(b, S::D, 1, sc), "p": jps(p, S::D, 1, sc)});
                let w = l1(a) + l1(b) + l1(p) + sc.unsigned_abs() as u64;
                n += 1; if a != b { nt += 1; }
                let pt = tvs::<T>(p, 1, sc);
                let scale = (l1(a) + l1(b) + l1(p)) as f64 * f1;
                if let Some(g) = s.call(&site_d, inp, || S::dist(seg, &pt)) {
                    cls.hit(T::NAME, region);
                    let want = dmin_int.to_f64().sqrt() * f1;
                    if !T::close(g.f(), want, scale) {
                        emit(s, &site_d, pre, guard_free, "wrong-distance", json!({"input": inp(), "got": g.f(), "want": want, "want_squared": format!("{:?}", dmin), "bound": 256.0 * T::eps().to_f64() * scale}), w);
                    }
                }
                // the projected point itself, on the float tiers: a degenerate segment must give start exactly; otherwise every
                // component is within the derived bound of the exact foot. Inside the epsilon-guard region (a known finding,
                // already reported through distance_to_point above) the point is not asserted.
                if !guard_free { cls.hit(T::NAME, "projected-point-skipped-inside-the-epsilon-guard"); continue; }
                n += 1; if a != b { nt += 1; }
                if let Some(g) = s.call(&site_p, inp, || S::proj(seg, &pt)) {
                    cls.hit(T::NAME, "projected-point");
                    let foot = seg_foot(a, b, p);
                    let ok = if a == b { g == at } else { (0..S::D).all(|i| T::close(g[i].f(), foot[i].to_f64() * f1, scale)) };
                    if !ok {
                        let class = format!("{}wrong-point", if pre == "small-scale:" { "above-guard:" } else { pre });
                        s.violation_w(&site_p, &class, json!({"input": inp(), "got": jt(&g, S::D), "want": foot.iter().take(S::D).map(|q| format!("{:?}", q.mul(fq))).collect::<Vec<_>>(), "region": region, "bound": 256.0 * T::eps().to_f64() * scale}), w);
                    }
                }
            }
        }
        s.evals(n, nt);
        cls.flush(s);
    });
}

// ---------------------------------------------------------------------------------------------
// 8. Ray::triangle_intersection

fn sub3(a: &P3, b: &P3) -> P3 { [a[0] - b[0], a[1] - b[1], a[2] - b[2]] }
/// matrix with the given columns
fn cols(c0: &P3, c1: &P3, c2: &P3) -> A<i128, 3> { let mut m = [[0i128; 3]; 3]; for i in 0..3 { m[i] = [c0[i] as i128, c1[i] as i128, c2[i] as i128]; } m }

/// one ray/triangle case. Triangle vertices and origins are  n * 2^sc, directions are the integers themselves.
/// Float tiers run on the sub-space where the Cramer determinant is 0 or +-2^j: every operation of the
/// code under test is then exact in binary floating point (all values are small integers times powers of two and
/// the reciprocal of the determinant is exact), so the float verdict and value must equal the rational ones.
/// Returns false when the case was skipped (float tier, inexact reciprocal).
#[allow(clippy::too_many_arguments)]
#[inline(always)]
fn ray_case<T: El>(s: &Section, cls: &mut Cls, site: &str, tri_n: [&P3; 3], tri: [Vec3<T>; 3], o: &P3, d: &P3, sc: i32, pre: &str, via_new: bool) -> Option<bool> {
    let (v0, v1, v2) = (tri_n[0], tri_n[1], tri_n[2]);
    let (e1, e2) = (sub3(v1, v0), sub3(v2, v0));
    let rhs = sub3(o, v0);
    let md: P3 = [-d[0], -d[1], -d[2]];
    // u*e1 + v*e2 - t*d = o - v0   (Cramer, on the integer numerators; u, v are scale-free, t scales with 2^sc)
    let det0 = det(&cols(&e1, &e2, &md));
    if !T::EXACT && det0 != 0 && (det0.unsigned_abs() & (det0.unsigned_abs() - 1)) != 0 { cls.hit(T::NAME, "skipped-inexact-reciprocal"); return None; }
    let degenerate = cross3(&[e1[0] as i128, e1[1] as i128, e1[2] as i128], &[e2[0] as i128, e2[1] as i128, e2[2] as i128]) == [0, 0, 0];
    let (du, dv, dt) = (det(&cols(&rhs, &e2, &md)), det(&cols(&e1, &rhs, &md)), det(&cols(&e1, &e2, &rhs)));
    let fq = qpow2(sc);
    let (kind, want): (&'static str, Option<Q>) = if det0 == 0 {
        (if degenerate { "degenerate-triangle" } else { "parallel" }, None)
    } else {
        let (u, v, t) = (Q::new(du, det0), Q::new(dv, det0), Q::new(dt, det0));
        // oracle self-check: the solution satisfies the defining equation
        for i in 0..3 {
            let lhs = Q::int(o[i] as i128).add(Q::int(d[i] as i128).mul(t));
            let rh = Q::int(v0[i] as i128).add(u.mul(Q::int(e1[i] as i128))).add(v.mul(Q::int(e2[i] as i128)));
            assert!(lhs == rh, "oracle error: Cramer solution does not satisfy o + d t = v0 + u e1 + v e2");
        }
        let wsum = u.add(v);
        if u >= Q::ZERO && v >= Q::ZERO && wsum <= Q::ONE {
            let zeros = (u == Q::ZERO) as u8 + (v == Q::ZERO) as u8 + (wsum == Q::ONE) as u8;
            if t < Q::ZERO { cls.hit(T::NAME, "hit-at-negative-t"); } else if t == Q::ZERO { cls.hit(T::NAME, "hit-at-origin"); }
            (match zeros { 0 => "interior", 1 => "edge", _ => "vertex" }, Some(t.mul(fq)))
        } else { ("miss", None) }
    };
    cls.hit(T::NAME, kind);
    // vek's parallel test is |a| < epsilon with a = e1.(d x e2) = det0 * 2^(2 sc): outside it (or on a truly parallel case) the guard is idle
    let guard_free = det0 == 0 || sc >= 0 || Q::int(det0.abs()).mul(fq).mul(fq) >= qpow2(-(T::GUARD_BITS as i32));
    if pre == "small-scale:" { cls.hit(T::NAME, if guard_free { "outside-the-epsilon-guard" } else { "inside-the-epsilon-guard" }); }
    let (ot, dt_) = (v3(&tvs::<T>(o, 1, sc)), v3(&tvs::<T>(d, 1, 0)));
    let ray = if via_new { Ray::new(ot, dt_) } else { Ray { origin: ot, direction: dt_ } };
    let inp = || json!({"triangle": [jps(v0, 3, 1, sc), jps(v1, 3, 1, sc), jps(v2, 3, 1, sc)], "origin": jps(o, 3, 1, sc), "direction": d});
    let w = l1(v0) + l1(v1) + l1(v2) + l1(o) + l1(d) + sc.unsigned_abs() as u64;
    let got = match catch(|| ray.triangle_intersection(tri)) {
        Ok(g) => g,
        // exact arithmetic has no inf/NaN: a division by zero means the parallel/degenerate guard let a = 0 through
        Err(Caught::Unmodelled("division by zero")) => { emit(s, site, pre, guard_free, "division-by-zero", json!({"input": inp(), "case": kind, "cramer_det": det0.to_string()}), w); return Some(det0 != 0) }
        Err(Caught::Unmodelled(why)) => { s.unmodelled(why); return Some(det0 != 0) }
        Err(Caught::Panic(m)) => { s.violation_w(site, "panic", json!({"input": inp(), "panic": m}), w); return Some(det0 != 0) }
    };
    // Some(None): a non-finite float
    let gq: Option<Option<Q>> = got.map(|x| x.exact());
    if gq != want.map(Some) {
        let class = match (gq, want) { (None, Some(_)) => "missed-hit", (Some(_), None) => "false-hit", _ => "wrong-distance" };
        emit(s, site, pre, guard_free, class, json!({"input": inp(), "case": kind, "got": format!("{:?}", got), "want": format!("{:?}", want),
            "cramer": {"det": format!("{}*2^{}", det0, 2 * sc), "u": format!("{}/{}", du, det0), "v": format!("{}/{}", dv, det0), "t": format!("{}/{}*2^{}", dt, det0, sc)}}), w);
    }
    if kind == "edge" && s.wants_sample() { s.sample(json!({"site": site, "input": inp(), "case": kind, "got": format!("{:?}", got), "cramer_t": format!("{:?}", want)})); }
    Some(det0 != 0)
}

/// every ordered triple of `verts` x origins x directions
fn ray_section<T: El>(s: &Section, verts: &[P3], origins: &[P3], dirs: &[P3], sc: i32, pre: &str) {
    let site = format!("Ray::triangle_intersection<{}>", T::NAME);
    let site = site.as_str();
    let pairs: Vec<(P3, P3)> = verts.iter().flat_map(|a| verts.iter().map(move |b| (*a, *b))).collect();
    pairs.par_iter().for_each(|(v0, v1)| {
        let mut cls = Cls::default();
        let (mut n, mut nt) = (0u64, 0u64);
        for v2 in verts {
            let tri = [v3(&tvs::<T>(v0, 1, sc)), v3(&tvs::<T>(v1, 1, sc)), v3(&tvs::<T>(v2, 1, sc))];
            for o in origins {
                for d in dirs {
                    if let Some(nontrivial) = ray_case::<T>(s, &mut cls, site, [v0, v1, v2], tri, o, d, sc, pre, false) { n += 1; if nontrivial { nt += 1; } }
                }
            }
        }
        s.evals(n, nt);
        cls.flush(s);
    });
}

/// an explicit list of (triangle, origin, direction) cases; the ray is built with Ray::new
fn ray_list<T: El>(s: &Section, cases: &[([P3; 3], P3, P3)], sc: i32, pre: &str) {
    let site = format!("Ray::triangle_intersection<{}>", T::NAME);
    let site = site.as_str();
    cases.par_chunks(4096).for_each(|chunk| {
        let mut cls = Cls::default();
        let (mut n, mut nt) = (0u64, 0u64);
        for (tri, o, d) in chunk {
            let tt = [v3(&tvs::<T>(&tri[0], 1, sc)), v3(&tvs::<T>(&tri[1], 1, sc)), v3(&tvs::<T>(&tri[2], 1, sc))];
            if let Some(nontrivial) = ray_case::<T>(s, &mut cls, site, [&tri[0], &tri[1], &tri[2]], tt, o, d, sc, pre, true) { n += 1; if nontrivial { nt += 1; } }
        }
        s.evals(n, nt);
        cls.flush(s);
    });
}


// ---------------------------------------------------------------------------------------------
// 9. constructors, mixed position/extent types, aimed rays (added by the audit)

/// (v0; a; b): triangle v0, v0 + 4a, v0 + 4b
const TRIS: [[P3; 3]; 4] = [
    [[-3, 1, 2], [2, -1, 1], [1, 1, -2]],
    [[2, -5, -1], [1, 0, 0], [0, 3, 1]],
    [[0, 0, 7], [3, 2, -1], [-2, 3, 1]],
    [[1, -2, 3], [1, 2, -1], [2, 4, -2]],
];
fn aimed_cases(th: bool, dmax: i64) -> Vec<([P3; 3], P3, P3)> {
    let dirs: Vec<P3> = cube(&range(-dmax, dmax, 1), 3).into_iter().filter(|d| *d != [0, 0, 0]).collect();
    let perms: [[usize; 3]; 6] = [[0, 1, 2], [0, 2, 1], [1, 0, 2], [1, 2, 0], [2, 0, 1], [2, 1, 0]];
    let ts: &[i64] = if th { &[-2, -1, 0, 1, 3] } else { &[-2, 0, 1, 3] };
    let mut out = Vec::new();
    for [v0, a, b] in TRIS {
        let vs: [P3; 3] = [v0, [0, 1, 2].map(|i| v0[i] + 4 * a[i]), [0, 1, 2].map(|i| v0[i] + 4 * b[i])];
        for pm in perms {
            let tri = [vs[pm[0]], vs[pm[1]], vs[pm[2]]];
            for i in -1..=5i64 { for j in -1..=5i64 {
                let target: P3 = [0, 1, 2].map(|k| v0[k] + i * a[k] + j * b[k]);
                for d in &dirs { for &t in ts {
                    out.push((tri, [0, 1, 2].map(|k| target[k] - t * d[k]), *d));
                } }
            } }
        }
    }
    out
}

fn ctors_tier<T: El>(s: &Section, centres: &[P3], radii: &[i64]) {
    for c in centres {
        let ct = tv::<T>(c, 2);
        let nontrivial = c[0] != c[1];
        let dirn: P3 = [c[1] + 1, c[2] + 2, c[0] + 3];
        let dt = tv::<T>(&dirn, 2);
        s.eval(nontrivial);
        let site = format!("Ray::new<{}>", T::NAME);
        if let Some(r) = s.call(&site, || json!({"origin": jp(c, 3, 2), "direction": jp(&dirn, 3, 2)}), || Ray::new(v3(&ct), v3(&dt))) {
            if [r.origin.x, r.origin.y, r.origin.z] != ct || [r.direction.x, r.direction.y, r.direction.z] != dt {
                s.violation_w(&site, "wrong-field", json!({"origin": jp(c, 3, 2), "direction": jp(&dirn, 3, 2), "got": jd(&r)}), l1(c));
            }
        }
        let (one, zero) = (T::frac(1, 1), T::frac(0, 1));
        for (k, name) in ["unit", "point"].iter().enumerate() {
            let want_r = if k == 0 { one } else { zero };
            s.eval(nontrivial);
            let site = format!("Disk::{}<{}>", name, T::NAME);
            if let Some(d) = s.call(&site, || json!({"center": jp(c, 2, 2)}), || if k == 0 { Disk::<T, T>::unit(Vec2 { x: ct[0], y: ct[1] }) } else { Disk::<T, T>::point(Vec2 { x: ct[0], y: ct[1] }) }) {
                if d.center.x != ct[0] || d.center.y != ct[1] || d.radius != want_r { s.violation_w(&site, "wrong-field", json!({"center": jp(c, 2, 2), "got": jd(&d)}), l1(c)); }
            }
            s.eval(nontrivial);
            let site = format!("Sphere::{}<{}>", name, T::NAME);
            if let Some(d) = s.call(&site, || json!({"center": jp(c, 3, 2)}), || if k == 0 { Sphere::<T, T>::unit(v3(&ct)) } else { Sphere::<T, T>::point(v3(&ct)) }) {
                if [d.center.x, d.center.y, d.center.z] != ct || d.radius != want_r { s.violation_w(&site, "wrong-field", json!({"center": jp(c, 3, 2), "got": jd(&d)}), l1(c)); }
            }
        }
        for &r in radii {
            let rt = T::frac(r, 2);
            s.eval(nontrivial);
            let site = format!("Disk::new<{}>", T::NAME);
            if let Some(d) = s.call(&site, || json!({"center": jp(c, 2, 2), "radius": jn(r, 2)}), || Disk::new(Vec2 { x: ct[0], y: ct[1] }, rt)) {
                if d.center.x != ct[0] || d.center.y != ct[1] || d.radius != rt { s.violation_w(&site, "wrong-field", json!({"center": jp(c, 2, 2), "radius": jn(r, 2), "got": jd(&d)}), l1(c) + r.unsigned_abs()); }
            }
            s.eval(nontrivial);
            let site = format!("Sphere::new<{}>", T::NAME);
            if let Some(d) = s.call(&site, || json!({"center": jp(c, 3, 2), "radius": jn(r, 2)}), || Sphere::new(v3(&ct), rt)) {
                if [d.center.x, d.center.y, d.center.z] != ct || d.radius != rt { s.violation_w(&site, "wrong-field", json!({"center": jp(c, 3, 2), "radius": jn(r, 2), "got": jd(&d)}), l1(c) + r.unsigned_abs()); }
            }
            s.class(T::NAME);
        }
    }
}
fn ctors_int(s: &Section, centres: &[P3], radii: &[i64]) {
    for c in centres {
        let (x, y, z) = (c[0] as i32, c[1] as i32, c[2] as i32);
        let nontrivial = x != y;
        let w = l1(c);
        s.eval(nontrivial);
        if let Some(d) = s.call("Disk::unit<i32>", || json!({"center": [x, y]}), || Disk::<i32, i32>::unit(Vec2 { x, y })) {
            if (d.center.x, d.center.y, d.radius) != (x, y, 1) { s.violation_w("Disk::unit<i32>", "wrong-field", json!({"center": [x, y], "got": jd(&d)}), w); }
        }
        s.eval(nontrivial);
        if let Some(d) = s.call("Disk::point<i32>", || json!({"center": [x, y]}), || Disk::<i32, i32>::point(Vec2 { x, y })) {
            if (d.center.x, d.center.y, d.radius) != (x, y, 0) { s.violation_w("Disk::point<i32>", "wrong-field", json!({"center": [x, y], "got": jd(&d)}), w); }
        }
        s.eval(nontrivial);
        if let Some(d) = s.call("Sphere::unit<i32>", || json!({"center": [x, y, z]}), || Sphere::<i32, i32>::unit(Vec3 { x, y, z })) {
            if (d.center.x, d.center.y, d.center.z, d.radius) != (x, y, z, 1) { s.violation_w("Sphere::unit<i32>", "wrong-field", json!({"center": [x, y, z], "got": jd(&d)}), w); }
        }
        s.eval(nontrivial);
        if let Some(d) = s.call("Sphere::point<i32>", || json!({"center": [x, y, z]}), || Sphere::<i32, i32>::point(Vec3 { x, y, z })) {
            if (d.center.x, d.center.y, d.center.z, d.radius) != (x, y, z, 0) { s.violation_w("Sphere::point<i32>", "wrong-field", json!({"center": [x, y, z], "got": jd(&d)}), w); }
        }
        // range conversions on a non-float element type (From<Range> / into_range are generic in T without bounds)
        {
            let (a2, b2) = (Vec2 { x, y }, Vec2 { x: y + 1, y: z + 2 });
            s.eval(true);
            if let Some((sg, r)) = s.call("LineSegment2::From<Range>/into_range<i32>", || json!({"start": [x, y], "end": [y + 1, z + 2]}), || { let sg = LineSegment2::from(Range { start: a2, end: b2 }); (sg, sg.into_range()) }) {
                if (sg.start.x, sg.start.y, sg.end.x, sg.end.y, r.start.x, r.start.y, r.end.x, r.end.y) != (x, y, y + 1, z + 2, x, y, y + 1, z + 2) { s.violation_w("LineSegment2::From<Range>/into_range<i32>", "wrong-endpoints", json!({"start": [x, y], "end": [y + 1, z + 2], "got": jd(&sg)}), w); }
            }
            let (a3, b3) = (Vec3 { x, y, z }, Vec3 { x: y + 1, y: z + 2, z: x + 3 });
            s.eval(true);
            if let Some((sg, r)) = s.call("LineSegment3::From<Range>/into_range<i32>", || json!({"start": [x, y, z], "end": [y + 1, z + 2, x + 3]}), || { let sg = LineSegment3::from(Range { start: a3, end: b3 }); (sg, sg.into_range()) }) {
                if (sg.start.x, sg.start.y, sg.start.z, sg.end.x, sg.end.y, sg.end.z) != (x, y, z, y + 1, z + 2, x + 3) || (r.start.x, r.start.y, r.start.z, r.end.x, r.end.y, r.end.z) != (x, y, z, y + 1, z + 2, x + 3) { s.violation_w("LineSegment3::From<Range>/into_range<i32>", "wrong-endpoints", json!({"start": [x, y, z], "end": [y + 1, z + 2, x + 3], "got": jd(&sg)}), w); }
            }
        }
        // mixed instantiations
        s.eval(nontrivial);
        if let Some(d) = s.call("Disk::unit<i32,u8>", || json!({"center": [x, y]}), || Disk::<i32, u8>::unit(Vec2 { x, y })) {
            if (d.center.x, d.center.y, d.radius) != (x, y, 1u8) { s.violation_w("Disk::unit<i32,u8>", "wrong-field", json!({"center": [x, y], "got": jd(&d)}), w); }
        }
        s.eval(nontrivial);
        if let Some(d) = s.call("Sphere::point<f64,f32>", || json!({"center": [x, y, z]}), || Sphere::<f64, f32>::point(Vec3 { x: x as f64 / 2.0, y: y as f64 / 2.0, z: z as f64 / 2.0 })) {
            if (d.center.x, d.center.y, d.center.z, d.radius) != (x as f64 / 2.0, y as f64 / 2.0, z as f64 / 2.0, 0f32) { s.violation_w("Sphere::point<f64,f32>", "wrong-field", json!({"center": [x, y, z], "got": jd(&d)}), w); }
        }
        for &r in radii {
            let ri = r as i32;
            s.eval(nontrivial);
            if let Some(d) = s.call("Disk::new<i32>", || json!({"center": [x, y], "radius": ri}), || Disk::new(Vec2 { x, y }, ri)) {
                if (d.center.x, d.center.y, d.radius) != (x, y, ri) { s.violation_w("Disk::new<i32>", "wrong-field", json!({"center": [x, y], "radius": ri, "got": jd(&d)}), w + r.unsigned_abs()); }
            }
            s.eval(nontrivial);
            if let Some(d) = s.call("Sphere::new<i32>", || json!({"center": [x, y, z], "radius": ri}), || Sphere::new(Vec3 { x, y, z }, ri)) {
                if (d.center.x, d.center.y, d.center.z, d.radius) != (x, y, z, ri) { s.violation_w("Sphere::new<i32>", "wrong-field", json!({"center": [x, y, z], "radius": ri, "got": jd(&d)}), w + r.unsigned_abs()); }
            }
            s.class("i32");
            let ru = r.unsigned_abs() as u8;
            s.eval(nontrivial);
            if let Some(d) = s.call("Disk::new<i32,u8>", || json!({"center": [x, y], "radius": ru}), || Disk::new(Vec2 { x, y }, ru)) {
                if (d.center.x, d.center.y, d.radius) != (x, y, ru) { s.violation_w("Disk::new<i32,u8>", "wrong-field", json!({"center": [x, y], "radius": ru, "got": jd(&d)}), w + r.unsigned_abs()); }
            }
            let rf = r as f32 / 2.0;
            s.eval(nontrivial);
            if let Some(d) = s.call("Sphere::new<f64,f32>", || json!({"center": [x, y, z], "radius": rf}), || Sphere::new(Vec3 { x: x as f64 / 2.0, y: y as f64 / 2.0, z: z as f64 / 2.0 }, rf)) {
                if (d.center.x, d.center.y, d.center.z, d.radius) != (x as f64 / 2.0, y as f64 / 2.0, z as f64 / 2.0, rf) { s.violation_w("Sphere::new<f64,f32>", "wrong-field", json!({"center": [x, y, z], "radius": rf, "got": jd(&d)}), w + r.unsigned_abs()); }
            }
            s.class("mixed");
        }
    }
}

/// rect / rect3 / diameter of one (P, E) instantiation; `$p`/`$e` convert the i64 model values (positions in units of 1/$den)
macro_rules! mixed_bounds {
    ($s:ident, $tag:expr, $P:ty, $E:ty, $den:expr, $p:expr, $e:expr) => {{
        let (fp, fe): (fn(i64) -> $P, fn(i64) -> $E) = ($p, $e);
        for c in cube(&range(-3, 3, 1), 3) {
            for r in [0i64, 1, 2, 5, 100] {
                let w = l1(&c) + r as u64;
                let inp = || json!({"center": jp(&c, 3, $den), "radius": r, "types": $tag});
                if c[2] == 0 {
                    let dk: Disk<$P, $E> = Disk { center: Vec2 { x: fp(c[0]), y: fp(c[1]) }, radius: fe(r) };
                    let site = format!("Disk::rect<{}>", $tag);
                    $s.eval(r != 0);
                    if let Some(rc) = $s.call(&site, inp, || dk.rect()) {
                        if (rc.x, rc.y, rc.w, rc.h) != (fp(c[0] - r * $den), fp(c[1] - r * $den), fe(2 * r), fe(2 * r)) { $s.violation_w(&site, "wrong-bounds", json!({"input": inp(), "got": jd(&rc)}), w); }
                    }
                    let site = format!("Disk::diameter<{}>", $tag);
                    $s.eval(r != 0);
                    if let Some(dm) = $s.call(&site, inp, || dk.diameter()) {
                        if dm != fe(2 * r) { $s.violation_w(&site, "wrong-value", json!({"input": inp(), "got": jd(&dm)}), w); }
                    }
                }
                let sp: Sphere<$P, $E> = Sphere { center: Vec3 { x: fp(c[0]), y: fp(c[1]), z: fp(c[2]) }, radius: fe(r) };
                let site = format!("Sphere::rect3<{}>", $tag);
                $s.eval(r != 0);
                if let Some(rc) = $s.call(&site, inp, || sp.rect3()) {
                    if (rc.x, rc.y, rc.z, rc.w, rc.h, rc.d) != (fp(c[0] - r * $den), fp(c[1] - r * $den), fp(c[2] - r * $den), fe(2 * r), fe(2 * r), fe(2 * r)) { $s.violation_w(&site, "wrong-bounds", json!({"input": inp(), "got": jd(&rc)}), w); }
                }
                let site = format!("Sphere::diameter<{}>", $tag);
                $s.eval(r != 0);
                if let Some(dm) = $s.call(&site, inp, || sp.diameter()) {
                    if dm != fe(2 * r) { $s.violation_w(&site, "wrong-value", json!({"input": inp(), "got": jd(&dm)}), w); }
                }
                $s.class(&format!("rect/{}", $tag));
            }
        }
    }};
}
fn mixed_section(s: &Section) {
    mixed_bounds!(s, "i64,i32", i64, i32, 1, |v| v, |v| v as i32);
    mixed_bounds!(s, "i32,u16", i32, u16, 1, |v| v as i32, |v| v as u16);
    mixed_bounds!(s, "f64,f32", f64, f32, 2, |v| v as f64 / 2.0, |v| v as f32);
    mixed_bounds!(s, "X,u8", X, u8, 2, |v| q(v as i128, 2), |v| v as u8);
    // measures: P plays no role
    for k in 0..=40i64 {
        let rq = Q::new(k as i128, 4);
        let inp = || json!({"radius": jn(k, 4)});
        let w = k as u64;
        let d1: Disk<i32, f64> = Disk { center: Vec2 { x: 3, y: -7 }, radius: k as f64 / 4.0 };
        let d2_: Disk<u8, f32> = Disk { center: Vec2 { x: 3, y: 200 }, radius: k as f32 / 4.0 };
        let s1: Sphere<i32, f32> = Sphere { center: Vec3 { x: 3, y: -7, z: 5 }, radius: k as f32 / 4.0 };
        let s2: Sphere<i64, f64> = Sphere { center: Vec3 { x: 3, y: -7, z: 5 }, radius: k as f64 / 4.0 };
        s.eval(k != 0);
        if let Some(g) = s.call("Disk::circumference<i32,f64>", inp, || d1.circumference()) { check_measure::<f64>(s, "Disk::circumference<i32,f64>", "wrong-value", &inp, g, circ_coef(rq), 0, 1, k == 0, true, w); }
        s.eval(k != 0);
        if let Some(g) = s.call("Disk::area<i32,f64>", inp, || d1.area()) { check_measure::<f64>(s, "Disk::area<i32,f64>", "wrong-value", &inp, g, area_coef(rq), 0, 2, k == 0, true, w); }
        s.eval(k != 0);
        if let Some(g) = s.call("Disk::circumference<u8,f32>", inp, || d2_.circumference()) { check_measure::<f32>(s, "Disk::circumference<u8,f32>", "wrong-value", &inp, g, circ_coef(rq), 0, 1, k == 0, true, w); }
        s.eval(k != 0);
        if let Some(g) = s.call("Disk::area<u8,f32>", inp, || d2_.area()) { check_measure::<f32>(s, "Disk::area<u8,f32>", "wrong-value", &inp, g, area_coef(rq), 0, 2, k == 0, true, w); }
        s.eval(k != 0);
        if let Some(g) = s.call("Sphere::surface_area<i32,f32>", inp, || s1.surface_area()) { check_measure::<f32>(s, "Sphere::surface_area<i32,f32>", "wrong-value", &inp, g, surf_coef(rq), 0, 2, k == 0, true, w); }
        s.eval(k != 0);
        if let Some(g) = s.call("Sphere::volume<i32,f32>", inp, || s1.volume()) { check_measure::<f32>(s, "Sphere::volume<i32,f32>", "wrong-value", &inp, g, vol_coef(rq), 0, 3, k == 0, true, w); }
        s.eval(k != 0);
        if let Some(g) = s.call("Sphere::surface_area<i64,f64>", inp, || s2.surface_area()) { check_measure::<f64>(s, "Sphere::surface_area<i64,f64>", "wrong-value", &inp, g, surf_coef(rq), 0, 2, k == 0, true, w); }
        s.eval(k != 0);
        if let Some(g) = s.call("Sphere::volume<i64,f64>", inp, || s2.volume()) { check_measure::<f64>(s, "Sphere::volume<i64,f64>", "wrong-value", &inp, g, vol_coef(rq), 0, 3, k == 0, true, w); }
    }
}

// ---------------------------------------------------------------------------------------------

fn main() {
    let rep = Report::start("C16", "exploration");
    let th = rep.thorough();
    let tiers = ["f64", "f32", "X"];

    // half-unit grids: quick = integer centres (even half-units), thorough = all half-integers
    let radii: Vec<i64> = if th { vec![0, 1, 2, 3, 4, 7, 10] } else { vec![0, 1, 2, 4, 10] };
    let g2: Vec<i64> = if th { range(-6, 6, 1) } else { range(-6, 6, 2) };
    let g3: Vec<i64> = if th { range(-6, 6, 2) } else { range(-4, 4, 2) };
    let (c2, c3) = (cube(&g2, 2), cube(&g3, 3));
    let exact_note = "all inputs are half-integers, so every tier holds them exactly and 4*d^2 is an exact integer; the f32/f64 verdict sqrt(d^2) <= R is exact because sqrt is correctly rounded and monotone: in the boundary case d^2 = R^2 is the square of a half-integer and its sqrt is exactly R, and otherwise |4d^2 - 4R^2| >= 1 puts sqrt(d^2) at least 1/(4(d+R)) > 1/200 away from R, far more than an ulp; X (exact rationals) answers on the Pythagorean subset (d rational) and reports the rest as unmodelled (irrational sqrt), counted by class";

    rep.section("Disk/Sphere contains_point",
        &format!("every centre on the grid ({} Disk centres in 2-D, {} Sphere centres in 3-D; coordinates in {{-3..3}} resp. quick {{-2..2}}^3, thorough adds half-integers in 2-D) x radii {:?}/2 x every grid point as query, tiers f64, f32, X; oracle: integer comparison 4d^2 <= 4r^2; {}; non-trivial: query point differs from the centre", c2.len(), c3.len(), radii, exact_note),
        true, false, |s| {
            require_tiers(s, &tiers, &["inside", "boundary", "outside"]);
            contains_tier::<f64, Disk<f64, f64>>(s, &c2, &radii, &c2, 0, "");
            contains_tier::<f32, Disk<f32, f32>>(s, &c2, &radii, &c2, 0, "");
            contains_tier::<X, Disk<X, X>>(s, &c2, &radii, &c2, 0, "");
            contains_tier::<f64, Sphere<f64, f64>>(s, &c3, &radii, &c3, 0, "");
            contains_tier::<f32, Sphere<f32, f32>>(s, &c3, &radii, &c3, 0, "");
            contains_tier::<X, Sphere<X, X>>(s, &c3, &radii, &c3, 0, "");
            s.meta("grids_half_units", json!({"disk": g2, "sphere": g3, "radii": radii}));
        });

    rep.section("Disk/Sphere collides_with_*",
        &format!("every ordered pair of centres on the grid ({}^2 Disk pairs, {}^2 Sphere pairs) x every ordered pair of radii from {:?}/2, tiers f64, f32, X; oracle: integer comparison 4d^2 <= (2r1+2r2)^2; {}; non-trivial: distinct centres", c2.len(), c3.len(), radii, exact_note),
        true, false, |s| {
            require_tiers(s, &tiers, &["overlapping", "tangent", "disjoint"]);
            collides_tier::<f64, Disk<f64, f64>>(s, &c2, &radii, 0, "");
            collides_tier::<f32, Disk<f32, f32>>(s, &c2, &radii, 0, "");
            collides_tier::<X, Disk<X, X>>(s, &c2, &radii, 0, "");
            collides_tier::<f64, Sphere<f64, f64>>(s, &c3, &radii, 0, "");
            collides_tier::<f32, Sphere<f32, f32>>(s, &c3, &radii, 0, "");
            collides_tier::<X, Sphere<X, X>>(s, &c3, &radii, 0, "");
        });

    rep.section("Disk/Sphere collision_vector_with_*",
        "same pairs of shapes as the collides section minus coincident centres (the vector's direction is undefined there: 0/0, excluded and counted); claim: after translating OTHER by the returned vector (vek: v = other.center - self.center, result v/|v| * (r1+r2-|v|)) the centre distance is r1+r2. X: exact equality of squared distances on the Pythagorean subset (others unmodelled: irrational sqrt); f64/f32: new distance recomputed in f64 from the returned fields, bound 256*eps*(r1+r2+d+1) (inputs exact, the code performs one sqrt, one division and a handful of +,* per component); non-trivial: shapes not already tangent (vector non-zero)",
        true, false, |s| {
            require_tiers(s, &tiers, &["penetrating", "already-tangent", "separated"]);
            cv_tier::<f64, Disk<f64, f64>>(s, &c2, &radii, 0, "");
            cv_tier::<f32, Disk<f32, f32>>(s, &c2, &radii, 0, "");
            cv_tier::<X, Disk<X, X>>(s, &c2, &radii, 0, "");
            cv_tier::<f64, Sphere<f64, f64>>(s, &c3, &radii, 0, "");
            cv_tier::<f32, Sphere<f32, f32>>(s, &c3, &radii, 0, "");
            cv_tier::<X, Sphere<X, X>>(s, &c3, &radii, 0, "");
        });

    rep.section("Disk/Sphere rect/rect3/aabr/aabb/diameter",
        "every centre x radius of the grids above, tiers f64, f32, X (half-integers: all additions exact, so floats are compared with ==) plus Disk<i32,i32>/Sphere<i32,i32> on integer centres {-3..3}^d x radii {0,1,2,5} (thorough: also {-6..6}^d x {0,1,2,3,5,8,13,1000}): rect position = centre - r, extent = 2r, position + extent = centre + r per axis; aabr/aabb min = centre - r, max = centre + r; diameter = 2r; non-trivial: r > 0",
        true, false, |s| {
            require_tiers(s, &["f64", "f32", "X", "i32"], &["radius-zero", "radius-positive"]);
            bounds_tier::<f64, Disk<f64, f64>>(s, &c2, &radii, 0, "");
            bounds_tier::<f32, Disk<f32, f32>>(s, &c2, &radii, 0, "");
            bounds_tier::<X, Disk<X, X>>(s, &c2, &radii, 0, "");
            bounds_tier::<f64, Sphere<f64, f64>>(s, &c3, &radii, 0, "");
            bounds_tier::<f32, Sphere<f32, f32>>(s, &c3, &radii, 0, "");
            bounds_tier::<X, Sphere<X, X>>(s, &c3, &radii, 0, "");
            bounds_i32(s, &range(-3, 3, 1), &[0, 1, 2, 5]);
            if th { bounds_i32(s, &range(-6, 6, 1), &[0, 1, 2, 3, 5, 8, 13, 1000]); }
        });

    let (den, maxr) = if th { (8i64, 50i64) } else { (4, 10) };
    let fr: Vec<(i64, i64)> = (0..=maxr * den).map(|k| (k, den)).collect();
    let mut xr = fr.clone();
    for d in [3i64, 7] { for k in 1..=(if th { 60 } else { 12 }) { xr.push((k, d)); } }
    rep.section("circumference/area/surface_area/volume",
        &format!("radii k/{} for k = 0..={} (all tiers) and k/3, k/7 (X only). X: FloatConst::PI() is the angle token 2*(pi/2); the result must be, structurally, the token (coefficient)*pi with coefficient 2r, r^2, 4r^2, 4r^3/3 computed in Q (no numeric value of pi involved). f32/f64: the returned float, converted exactly to a rational, must be within 4*eps*|want| of coefficient*pi with pi to 18 digits, decided in checked integer arithmetic (vek performs at most 4 roundings plus the rounded constant: relative error < 5.4 * eps/2); non-trivial: r > 0", den, maxr * den),
        true, false, |s| {
            require_tiers(s, &tiers, &["radius-zero", "radius-positive"]);
            measures_tier::<f64, Disk<f64, f64>>(s, &fr, &[0, 0, 0], 0, "");
            measures_tier::<f32, Disk<f32, f32>>(s, &fr, &[0, 0, 0], 0, "");
            measures_tier::<X, Disk<X, X>>(s, &xr, &[0, 0, 0], 0, "");
            measures_tier::<f64, Sphere<f64, f64>>(s, &fr, &[0, 0, 0], 0, "");
            measures_tier::<f32, Sphere<f32, f32>>(s, &fr, &[0, 0, 0], 0, "");
            measures_tier::<X, Sphere<X, X>>(s, &xr, &[0, 0, 0], 0, "");
            // the measures do not depend on where the shape is: same radii, off-origin centre with three distinct coordinates
            let off: P3 = [3, -7, 5];
            measures_tier::<f64, Disk<f64, f64>>(s, &fr, &off, 0, "off-centre:");
            measures_tier::<f32, Disk<f32, f32>>(s, &fr, &off, 0, "off-centre:");
            measures_tier::<X, Disk<X, X>>(s, &xr, &off, 0, "off-centre:");
            measures_tier::<f64, Sphere<f64, f64>>(s, &fr, &off, 0, "off-centre:");
            measures_tier::<f32, Sphere<f32, f32>>(s, &fr, &off, 0, "off-centre:");
            measures_tier::<X, Sphere<X, X>>(s, &xr, &off, 0, "off-centre:");
        });

    let seg_classes = ["degenerate-segment", "beyond-start", "foot-at-start", "interior-foot", "foot-at-end", "beyond-end", "point-on-segment", "range-roundtrip", "range-roundtrip-degenerate", "X/distance-exact", "f64/interior-foot", "f32/interior-foot", "f64/degenerate-segment", "f32/degenerate-segment", "f64/projected-point", "f32/projected-point"];
    let seg_rule = "X: projected_point (i) lies on the segment (collinear with and between the end points; equals start for a degenerate segment), (ii) no sampled point start + (k/24)(end-start), k = 0..24, is strictly nearer to p, (iii) its squared distance to p equals the closed-form minimum (|p-a|^2 if (p-a).e <= 0, |p-b|^2 if >= |e|^2, else |p-a|^2 - ((p-a).e)^2/|e|^2); distance_to_point: X exact (d >= 0 and d^2 = that minimum) where the minimum is a rational square, unmodelled (irrational sqrt) otherwise; f64/f32: within 256*eps*(|a|+|b|+|p|) (1-norms) of sqrt(minimum) (inputs exact; the code does one division, one sqrt and a few +,*), and projected_point<f64/f32> itself: every component within the same bound of the exact foot (start exactly for a degenerate segment); From<Range>/into_range keep start and end field for field; non-trivial: non-degenerate segment";
    let (e2v, p2v) = if th { (range(-3, 3, 1), range(-4, 4, 1)) } else { (range(-2, 2, 1), range(-3, 3, 1)) };
    rep.section("LineSegment2 projected_point/distance_to_point/range",
        &format!("all {} ordered pairs of end points on {{{}..{}}}^2 (degenerate included) x all points of {{{}..{}}}^2. {}", e2v.len().pow(4), e2v[0], e2v[e2v.len() - 1], p2v[0], p2v[p2v.len() - 1], seg_rule),
        true, false, |s| {
            s.require_classes(&seg_classes);
            let (ends, pts) = (cube(&e2v, 2), cube(&p2v, 2));
            seg_exact::<LineSegment2<X>>(s, &ends, &pts, 0, "");
            seg_float::<f64, LineSegment2<f64>>(s, &ends, &pts, 0, "");
            seg_float::<f32, LineSegment2<f32>>(s, &ends, &pts, 0, "");
        });
    let (e3v, p3v) = if th { (range(-2, 2, 1), range(-3, 3, 1)) } else { (range(-1, 1, 1), range(-2, 2, 1)) };
    rep.section("LineSegment3 projected_point/distance_to_point/range",
        &format!("all {} ordered pairs of end points on {{{}..{}}}^3 (degenerate included) x all points of {{{}..{}}}^3. {}", e3v.len().pow(6), e3v[0], e3v[e3v.len() - 1], p3v[0], p3v[p3v.len() - 1], seg_rule),
        true, false, |s| {
            s.require_classes(&seg_classes);
            let (ends, pts) = (cube(&e3v, 3), cube(&p3v, 3));
            seg_exact::<LineSegment3<X>>(s, &ends, &pts, 0, "");
            seg_float::<f64, LineSegment3<f64>>(s, &ends, &pts, 0, "");
            seg_float::<f32, LineSegment3<f32>>(s, &ends, &pts, 0, "");
        });

    let ray_rule = "Oracle: Cramer's rule on u*e1 + v*e2 - t*d = o - v0 with four 3x3 Leibniz determinants over integers (vx::matx::det), self-checked against the equation; expected Some(t) <=> det != 0 and u >= 0 and v >= 0 and u+v <= 1 (negative t included: the ray's LINE), value = t; det = 0 (line parallel to the plane, or degenerate triangle, which any line meeting it is coplanar with) => None. X (exact rationals) on every case; f64/f32 on the sub-space det in {0, +-2^j}, where every operation of the code under test is exact in binary floating point (small integers times powers of two, exact reciprocal), so verdict and value must equal the rational ones. Directions are not normalised: the claim origin + t*direction = crossing point does not depend on it. non-trivial: det != 0";
    let ray_classes = ["interior", "edge", "vertex", "miss", "parallel", "degenerate-triangle", "hit-at-negative-t", "hit-at-origin"];
    let dirs: Vec<P3> = cube(&[-1, 0, 1], 3).into_iter().filter(|d| *d != [0, 0, 0]).collect();
    let vv: Vec<i64> = if th { vec![0, 1, 2] } else { vec![0, 2] };
    rep.section("Ray::triangle_intersection",
        &format!("every ORDERED triple of vertices from {:?}^3 (repeated and collinear vertices = degenerate triangles included) x origins {{-1,0,1,3}}^3 x directions {{-1,0,1}}^3 minus 0. {} vek's |a| < epsilon test is exactly a == 0 on these integer inputs.", vv, ray_rule),
        true, false, |s| {
            require_tiers(s, &tiers, &ray_classes);
            let (verts, origins) = (cube(&vv, 3), cube(&[-1, 0, 1, 3], 3));
            ray_section::<X>(s, &verts, &origins, &dirs, 0, "");
            ray_section::<f64>(s, &verts, &origins, &dirs, 0, "");
            ray_section::<f32>(s, &verts, &origins, &dirs, 0, "");
        });

    // ---- the same claims on small shapes: all coordinates n / 2^k --------------------------------------
    // (the property quantifies over all shapes; its claims are invariant under scaling by a power of two,
    //  and so is every oracle above: exact in X, and exact / equally conditioned in binary floating point)
    let (sx, sf64, sf32): (Vec<u32>, Vec<u32>, Vec<u32>) = if th { ((1..=30).collect(), (1..=30).collect(), (1..=15).collect()) } else { (vec![13, 25, 26, 27], vec![13, 25, 26, 27], vec![6, 11, 12]) };
    rep.section("small shapes: LineSegment2/3 at scale 2^-k",
        &format!("coordinates n/2^k with n on the integer grids: 2-D end points {{-1..1}}^2 (all 81 ordered pairs) x points {{-2..2}}^2, 3-D end points {{0,1}}^3 (all 64 pairs) x points {{-1..2}}^3; k in {:?} (X), {:?} (f64), {:?} (f32). Same assertions and oracles as the two LineSegment sections (the oracle is evaluated on the integer numerators and scaled exactly; the float bound scales with the coordinates). Violation classes carry the prefix 'small-scale:'; a violation on a segment that is OUTSIDE vek's absolute-epsilon degeneracy guard (len_sq > 2^-52, f32 2^-23) is reported a second time with the prefix 'above-guard:' so that the known guard findings cannot mask another defect; the float tiers also assert projected_point itself (each component within 256*eps*(|a|+|b|+|p|) of the exact foot, start exactly for a degenerate segment) outside the guard region. non-trivial: non-degenerate segment", sx, sf64, sf32),
        true, false, |s| {
            s.require_classes(&["degenerate-segment", "beyond-start", "foot-at-start", "interior-foot", "foot-at-end", "beyond-end", "point-on-segment", "X/distance-exact", "f64/interior-foot", "f32/interior-foot"]);
            s.require_classes(&["outside-the-epsilon-guard", "inside-the-epsilon-guard", "f64/projected-point", "f32/projected-point"]);
            let (e2, p2) = (cube(&[-1, 0, 1], 2), cube(&[-2, -1, 0, 1, 2], 2));
            let (e3, p3) = (cube(&[0, 1], 3), cube(&[-1, 0, 1, 2], 3));
            for &k in &sx { seg_exact::<LineSegment2<X>>(s, &e2, &p2, -(k as i32), "small-scale:"); seg_exact::<LineSegment3<X>>(s, &e3, &p3, -(k as i32), "small-scale:"); }
            for &k in &sf64 { seg_float::<f64, LineSegment2<f64>>(s, &e2, &p2, -(k as i32), "small-scale:"); seg_float::<f64, LineSegment3<f64>>(s, &e3, &p3, -(k as i32), "small-scale:"); }
            for &k in &sf32 { seg_float::<f32, LineSegment2<f32>>(s, &e2, &p2, -(k as i32), "small-scale:"); seg_float::<f32, LineSegment3<f32>>(s, &e3, &p3, -(k as i32), "small-scale:"); }
            s.meta("scales_log2", json!({"X": sx, "f64": sf64, "f32": sf32}));
        });
    rep.section("small shapes: Ray::triangle_intersection at scale 2^-k",
        &format!("triangle vertices and ray origins n/2^k: every ordered triple of vertices from {{0,1}}^3 x origins {{-1,0,1}}^3 (numerators) x integer directions {{-1,0,1}}^3 minus 0; k in {:?} (X), {:?} (f64), {:?} (f32). {} Violation classes carry the prefix 'small-scale:'; a violation on a case OUTSIDE vek's absolute-epsilon parallel guard (|e1.(d x e2)| >= 2^-52, f32 2^-23) is reported a second time with the prefix 'above-guard:' so that the known guard finding cannot mask another defect.", sx, sf64, sf32, ray_rule),
        true, false, |s| {
            require_tiers(s, &tiers, &["edge", "vertex", "miss", "parallel", "degenerate-triangle"]);
            s.require_classes(&["X/interior"]); // on this small grid interior hits have det = +-3: outside the exact float sub-space
            require_tiers(s, &tiers, &["outside-the-epsilon-guard", "inside-the-epsilon-guard"]);
            let (verts, origins) = (cube(&[0, 1], 3), cube(&[-1, 0, 1], 3));
            for &k in &sx { ray_section::<X>(s, &verts, &origins, &dirs, -(k as i32), "small-scale:"); }
            for &k in &sf64 { ray_section::<f64>(s, &verts, &origins, &dirs, -(k as i32), "small-scale:"); }
            for &k in &sf32 { ray_section::<f32>(s, &verts, &origins, &dirs, -(k as i32), "small-scale:"); }
            s.meta("scales_log2", json!({"X": sx, "f64": sf64, "f32": sf32}));
        });

    // =====================================================================================================
    // sections added by the clause-by-clause audit (out/AUDIT.md)

    // ---- negative radii: the statement's "at most the radius / the sum of radii", "centre plus/minus the radius" read literally
    let nradii: Vec<i64> = if th { vec![-10, -7, -4, -3, -2, -1, 0, 1, 2, 4, 7, 10] } else { vec![-10, -4, -1, 0, 1, 4] };
    let (n2, n3) = if th { (c2.clone(), cube(&range(-4, 4, 2), 3)) } else { (cube(&range(-4, 4, 2), 2), cube(&[-2, 0, 2], 3)) };
    rep.section("negative radii: contains_point, rect/aab/diameter",
        &format!("{} Disk centres / {} Sphere centres (half-unit grids as above) x radii {:?}/2 (negative ones included) x every grid point as query, tiers f64, f32, X. A distance is never negative, so 'contains p exactly when distance <= radius' is false for every point of a negative-radius shape (oracle: r >= 0 and 4d^2 <= 4r^2 on integers); bounds: min = c - r, max = c + r, rect position c - r with extent 2r, diameter 2r, literally. Violation classes of negative-radius cases carry the prefix 'negative-radius:'. non-trivial: query differs from the centre / r != 0", n2.len(), n3.len(), nradii),
        true, false, |s| {
            require_tiers(s, &tiers, &["negative-radius", "boundary", "radius-negative"]);
            contains_tier::<f64, Disk<f64, f64>>(s, &n2, &nradii, &n2, 0, "");
            contains_tier::<f32, Disk<f32, f32>>(s, &n2, &nradii, &n2, 0, "");
            contains_tier::<X, Disk<X, X>>(s, &n2, &nradii, &n2, 0, "");
            contains_tier::<f64, Sphere<f64, f64>>(s, &n3, &nradii, &n3, 0, "");
            contains_tier::<f32, Sphere<f32, f32>>(s, &n3, &nradii, &n3, 0, "");
            contains_tier::<X, Sphere<X, X>>(s, &n3, &nradii, &n3, 0, "");
            bounds_tier::<f64, Disk<f64, f64>>(s, &n2, &nradii, 0, "");
            bounds_tier::<f32, Disk<f32, f32>>(s, &n2, &nradii, 0, "");
            bounds_tier::<X, Disk<X, X>>(s, &n2, &nradii, 0, "");
            bounds_tier::<f64, Sphere<f64, f64>>(s, &n3, &nradii, 0, "");
            bounds_tier::<f32, Sphere<f32, f32>>(s, &n3, &nradii, 0, "");
            bounds_tier::<X, Sphere<X, X>>(s, &n3, &nradii, 0, "");
            s.require_classes(&["i32/radius-negative"]);
            bounds_i32(s, &range(-3, 3, 1), &[-5, -2, -1]);
            // i32 near the ends of the range (centre +- radius and 2*radius stay representable)
            bounds_i32(s, &[-1_000_000_000, -7, 999_999_999], &[-1_000_000_000, 0, 1_000_000_000]);
        });
    rep.section("negative radii: collides_with_*",
        &format!("every ordered pair of the same centres x every ordered pair of radii from {:?}/2: collide exactly when d <= r1 + r2, hence never when r1 + r2 < 0, and with one negative radius the sum (not the sum of magnitudes, not the squared sum) decides. Oracle: r1 + r2 >= 0 and 4d^2 <= (2r1 + 2r2)^2 on integers. non-trivial: distinct centres", nradii),
        true, false, |s| {
            require_tiers(s, &tiers, &["negative-radius-sum", "mixed-sign-radii", "tangent", "overlapping", "disjoint"]);
            collides_tier::<f64, Disk<f64, f64>>(s, &n2, &nradii, 0, "");
            collides_tier::<f32, Disk<f32, f32>>(s, &n2, &nradii, 0, "");
            collides_tier::<X, Disk<X, X>>(s, &n2, &nradii, 0, "");
            collides_tier::<f64, Sphere<f64, f64>>(s, &n3, &nradii, 0, "");
            collides_tier::<f32, Sphere<f32, f32>>(s, &n3, &nradii, 0, "");
            collides_tier::<X, Sphere<X, X>>(s, &n3, &nradii, 0, "");
        });
    rep.section("negative radii: collision_vector_with_*",
        &format!("same pairs, radii {:?}/2, restricted to r1 + r2 >= 0 (tangency at a negative distance does not exist: excluded and counted) and distinct centres: after moving OTHER by the vector the centre distance is r1 + r2, also when one of the radii is negative. Same oracles and bounds as the collision_vector section. non-trivial: not already tangent", nradii),
        true, false, |s| {
            require_tiers(s, &tiers, &["mixed-sign-radii", "negative-radius-sum-excluded", "penetrating", "separated", "already-tangent"]);
            cv_tier::<f64, Disk<f64, f64>>(s, &n2, &nradii, 0, "");
            cv_tier::<f32, Disk<f32, f32>>(s, &n2, &nradii, 0, "");
            cv_tier::<X, Disk<X, X>>(s, &n2, &nradii, 0, "");
            cv_tier::<f64, Sphere<f64, f64>>(s, &n3, &nradii, 0, "");
            cv_tier::<f32, Sphere<f32, f32>>(s, &n3, &nradii, 0, "");
            cv_tier::<X, Sphere<X, X>>(s, &n3, &nradii, 0, "");
        });

    // ---- tiny and huge disks/spheres: every claim is invariant under scaling by 2^k, and so is every oracle
    // (exact in X; in binary floating point the whole computation, sqrt included because 2k is even, scales exactly)
    let (dx, df32): (Vec<i32>, Vec<i32>) = if th { (vec![-58, -55, -53, -52, -51, -40, -26, -13, -1, 1, 13, 26, 40], vec![-30, -26, -24, -23, -22, -12, -1, 1, 12, 20]) } else { (vec![-55, 40], vec![-26, 20]) };
    let sradii: Vec<i64> = if th { radii.clone() } else { vec![0, 1, 4, 10] };
    let (s2, s3) = (cube(&range(-4, 4, 2), 2), cube(&[-2, 0, 2], 3));
    rep.section("scaled shapes: Disk/Sphere at scale 2^k",
        &format!("centres {{-2..2}}^2 / {{-1,0,1}}^3 (25 Disk / 27 Sphere centres; thorough: additionally the full grids of the base sections, {} / {} centres, at k = -55, 40 resp. f32 -26, 20), radii {:?}/2 and query points, all multiplied by 2^k, k in {:?} (X, f64) and {:?} (f32): contains_point, collides_with_*, collision_vector_with_*, rect/aab/diameter with the same oracles (integer numerators; the verdict of a comparison does not depend on the common factor; expected values are scaled exactly). At 2^-55 the gap between a distance and a radius is far below f64 epsilon (2^-26: below f32 epsilon), so any absolute tolerance in the comparisons shows. Violation classes carry the prefix 'scaled:'. non-trivial: as in the base sections", c2.len(), c3.len(), sradii, dx, df32),
        true, false, |s| {
            require_tiers(s, &tiers, &["inside", "boundary", "outside", "overlapping", "tangent", "disjoint", "penetrating", "already-tangent", "separated", "radius-positive"]);
            let run = |g2: &[P3], g3: &[P3], kx: &[i32], kf32: &[i32]| {
                for &k in kx {
                    contains_tier::<f64, Disk<f64, f64>>(s, g2, &sradii, g2, k, "scaled:"); contains_tier::<X, Disk<X, X>>(s, g2, &sradii, g2, k, "scaled:");
                    contains_tier::<f64, Sphere<f64, f64>>(s, g3, &sradii, g3, k, "scaled:"); contains_tier::<X, Sphere<X, X>>(s, g3, &sradii, g3, k, "scaled:");
                    collides_tier::<f64, Disk<f64, f64>>(s, g2, &sradii, k, "scaled:"); collides_tier::<X, Disk<X, X>>(s, g2, &sradii, k, "scaled:");
                    collides_tier::<f64, Sphere<f64, f64>>(s, g3, &sradii, k, "scaled:"); collides_tier::<X, Sphere<X, X>>(s, g3, &sradii, k, "scaled:");
                    cv_tier::<f64, Disk<f64, f64>>(s, g2, &sradii, k, "scaled:"); cv_tier::<X, Disk<X, X>>(s, g2, &sradii, k, "scaled:");
                    cv_tier::<f64, Sphere<f64, f64>>(s, g3, &sradii, k, "scaled:"); cv_tier::<X, Sphere<X, X>>(s, g3, &sradii, k, "scaled:");
                    bounds_tier::<f64, Disk<f64, f64>>(s, g2, &sradii, k, "scaled:"); bounds_tier::<X, Disk<X, X>>(s, g2, &sradii, k, "scaled:");
                    bounds_tier::<f64, Sphere<f64, f64>>(s, g3, &sradii, k, "scaled:"); bounds_tier::<X, Sphere<X, X>>(s, g3, &sradii, k, "scaled:");
                }
                for &k in kf32 {
                    contains_tier::<f32, Disk<f32, f32>>(s, g2, &sradii, g2, k, "scaled:"); contains_tier::<f32, Sphere<f32, f32>>(s, g3, &sradii, g3, k, "scaled:");
                    collides_tier::<f32, Disk<f32, f32>>(s, g2, &sradii, k, "scaled:"); collides_tier::<f32, Sphere<f32, f32>>(s, g3, &sradii, k, "scaled:");
                    cv_tier::<f32, Disk<f32, f32>>(s, g2, &sradii, k, "scaled:"); cv_tier::<f32, Sphere<f32, f32>>(s, g3, &sradii, k, "scaled:");
                    bounds_tier::<f32, Disk<f32, f32>>(s, g2, &sradii, k, "scaled:"); bounds_tier::<f32, Sphere<f32, f32>>(s, g3, &sradii, k, "scaled:");
                }
            };
            run(&s2, &s3, &dx, &df32);
            // thorough: the full grids of the base sections at the two extreme scales
            if th { run(&c2, &c3, &[-55, 40], &[-26, 20]); }
            s.meta("scales_log2", json!({"X": dx, "f64": dx, "f32": df32}));
        });
    let (mx, mf64, mf32): (Vec<i32>, Vec<i32>, Vec<i32>) = if th { (vec![-30, -17, -8, -1, 1, 8, 17, 30], vec![-300, -100, -30, -1, 1, 30, 100, 300], vec![-30, -20, -1, 1, 20, 30]) } else { (vec![-30, 30], vec![-100, 100], vec![-30, 30]) };
    let sfr: Vec<(i64, i64)> = fr.iter().copied().filter(|(k, _)| th || k % 3 != 2).collect();
    rep.section("scaled shapes: circumference/area/surface_area/volume",
        &format!("radii (k/{}) * 2^e for the k of the measures section ({} of them), off-origin centre (3,-7,5)*2^e, e in {:?} (X), {:?} (f64), {:?} (f32). The measures are homogeneous of degree 1, 2, 2, 3 in the radius and multiplying a binary float by a power of two is exact, so got * 2^(-e*degree) must satisfy the unscaled oracle of the measures section (X: structural token (coefficient * 2^(e*degree)) * pi). Violation classes carry the prefix 'scaled:'. non-trivial: r > 0", den, sfr.len(), mx, mf64, mf32),
        true, false, |s| {
            require_tiers(s, &tiers, &["radius-zero", "radius-positive"]);
            let off: P3 = [3, -7, 5];
            for &e in &mx { measures_tier::<X, Disk<X, X>>(s, &sfr, &off, e, "scaled:"); measures_tier::<X, Sphere<X, X>>(s, &sfr, &off, e, "scaled:"); }
            for &e in &mf64 { measures_tier::<f64, Disk<f64, f64>>(s, &sfr, &off, e, "scaled:"); measures_tier::<f64, Sphere<f64, f64>>(s, &sfr, &off, e, "scaled:"); }
            for &e in &mf32 { measures_tier::<f32, Disk<f32, f32>>(s, &sfr, &off, e, "scaled:"); measures_tier::<f32, Sphere<f32, f32>>(s, &sfr, &off, e, "scaled:"); }
        });

    // ---- constructors (anchors.mechanism: "Disk/Sphere constructors"; Ray::new lies inside the anchored range 725-772)
    rep.section("constructors: Disk/Sphere::new/unit/point, Ray::new",
        "centres from {-7,0,3,11}^3 / 2 (three distinct coordinates occur in every order) x radii {-3,0,1,2,9}/2, tiers f64, f32, X, and i32 on the integer numerators, plus the mixed instantiations Disk<i32,u8>, Sphere<f64,f32>: new(c, r) stores c and r field for field, unit(c) stores c and radius one, point(c) stores c and radius zero; Ray::new(o, d) stores o in `origin` and d in `direction` (d = the centre rotated by one lane plus (1,2,3), so it never equals o); LineSegment2/3<i32>: From<Range> then into_range keep start and end field for field (end = start rotated plus (1,2,3)). Read back through public fields, compared with ==. non-trivial: the centre has two different coordinates",
        true, false, |s| {
            s.require_classes(&["f64", "f32", "X", "i32", "mixed"]);
            let cs = cube(&[-7, 0, 3, 11], 3);
            let rs = [-3i64, 0, 1, 2, 9];
            ctors_tier::<f64>(s, &cs, &rs);
            ctors_tier::<f32>(s, &cs, &rs);
            ctors_tier::<X>(s, &cs, &rs);
            ctors_int(s, &cs, &rs);
        });

    // ---- Disk<P,E> / Sphere<P,E> with different position and extent types (rect, diameter, measures are generic in both)
    rep.section("mixed position/extent types: rect/rect3/diameter and measures",
        "rect/rect3/diameter on Disk/Sphere<i64,i32>, <i32,u16>, <f64,f32>, <X,u8> (P: From<E>): centres {-3..3}^d (times 1/2 for the float/X positions) x radii {0,1,2,5,100}: position = c - r per axis in P, extent = 2r per axis in E, diameter = 2r in E, all compared with == on values computed in i64. circumference/area on Disk<i32,f64>, Disk<u8,f32>, surface_area/volume on Sphere<i32,f32>, Sphere<i64,f64>: radii k/4, k = 0..=40, with the oracle of the measures section. non-trivial: r > 0",
        true, false, |s| {
            s.require_classes(&["rect/i64,i32", "rect/i32,u16", "rect/f64,f32", "rect/X,u8", "f64/radius-positive", "f32/radius-positive"]);
            mixed_section(s);
        });

    // ---- huge segments, triangles and rays
    let (lx, lf64, lf32): (Vec<i32>, Vec<i32>, Vec<i32>) = if th { (vec![1, 7, 13, 20, 30], vec![1, 7, 13, 20, 30, 45, 60], vec![1, 7, 13, 20]) } else { (vec![30], vec![60], vec![20]) };
    rep.section("short segments far from the origin: projected_point / distance_to_point (X, f64, f32; 2-D and 3-D)",
        "start = O + a, end = O + b, query = O + p with O = (2^30,..) for X, (2^27,..) for f64, (4096,..) for f32 and a, b in {-1,0,1}^D (a != b), p in {-2,0,1,3} x {-1,0,2} (x {0,1}): every coordinate is exact; the foot of the perpendicular clamped to the segment is computed exactly from the small parts; X must return it exactly, floats within 8 eps |O| (distance: plus 4 eps d); a degeneracy test that compares the squared length with a multiple of the squared COORDINATES treats these unit-sized segments as points; non-trivial: the nearest point is not start", true, false, |s| {
        s.require_classes(&["nearest point is an interior point", "nearest point is end", "nearest point is start"]);
        // exact reference on the small parts: t = clamp((p-a).(b-a)/|b-a|^2, 0, 1)
        let foot = |a: &[i64], b: &[i64], p: &[i64]| -> (Vec<Q>, u8) {
            let d: Vec<i64> = (0..a.len()).map(|i| b[i] - a[i]).collect();
            let (num, den): (i64, i64) = ((0..a.len()).map(|i| (p[i] - a[i]) * d[i]).sum(), d.iter().map(|x| x * x).sum());
            let t = if num <= 0 { Q::new(0, 1) } else if num >= den { Q::new(1, 1) } else { Q::new(num as i128, den as i128) };
            let cls = if num <= 0 { 0 } else if num >= den { 2 } else { 1 };
            ((0..a.len()).map(|i| Q::new(a[i] as i128, 1).add(t.mul(Q::new(d[i] as i128, 1)))).collect(), cls)
        };
        for dim in [2usize, 3] {
            fn prod(axes: &[Vec<i64>]) -> Vec<Vec<i64>> { let mut out = vec![Vec::new()]; for ax in axes { let mut nx = Vec::new(); for pre in &out { for &v in ax { let mut q = pre.clone(); q.push(v); nx.push(q); } } out = nx; } out }
            let small: Vec<Vec<i64>> = prod(&vec![vec![-1i64, 0, 1]; dim]);
            let pts: Vec<Vec<i64>> = if dim == 2 { prod(&[vec![-2i64, 0, 1, 3], vec![-1, 0, 2]]) } else { prod(&[vec![-2i64, 0, 1, 3], vec![-1, 0, 2], vec![0, 1]]) };
            for a in &small { for b in &small { if a == b { continue; } for p in &pts {
                let (ft, cls) = foot(a, b, p);
                s.class(["nearest point is start", "nearest point is an interior point", "nearest point is end"][cls as usize]);
                let d2: Q = (0..dim).fold(Q::new(0, 1), |acc, i| { let e = Q::new(p[i] as i128, 1).sub(ft[i]); acc.add(e.mul(e)) });
                let inp = || json!({"dim": dim, "start - O": a, "end - O": b, "query - O": p});
                let wt = (a.iter().chain(b.iter()).chain(p.iter()).map(|x| x.unsigned_abs()).sum::<u64>()) as u64;
                // exact tier
                { let o = 1i128 << 30; let x = |v: &[i64], i: usize| qi(o + v[i] as i128);
                  s.eval(cls != 0);
                  let got: Option<Vec<X>> = if dim == 2 { s.call("LineSegment2::projected_point<X>", inp, || { let r = LineSegment2 { start: Vec2 { x: x(a, 0), y: x(a, 1) }, end: Vec2 { x: x(b, 0), y: x(b, 1) } }.projected_point(Vec2 { x: x(p, 0), y: x(p, 1) }); vec![r.x, r.y] }) }
                      else { s.call("LineSegment3::projected_point<X>", inp, || { let r = LineSegment3 { start: Vec3 { x: x(a, 0), y: x(a, 1), z: x(a, 2) }, end: Vec3 { x: x(b, 0), y: x(b, 1), z: x(b, 2) } }.projected_point(Vec3 { x: x(p, 0), y: x(p, 1), z: x(p, 2) }); vec![r.x, r.y, r.z] }) };
                  if let Some(g) = got { if (0..dim).any(|i| g[i].rat() != Q::new(o, 1).add(ft[i])) { s.violation_w(&format!("LineSegment{}::projected_point<X>", dim), "far-from-origin:not-the-nearest-point-of-the-segment", json!({"input": inp(), "got - O": (0..dim).map(|i| g[i].rat().sub(Q::new(o, 1)).to_f64()).collect::<Vec<_>>(), "want - O": ft.iter().map(|q| q.to_f64()).collect::<Vec<_>>()}), wt); } } }
                // float tiers
                macro_rules! ftier { ($F:ty, $o:expr, $name:literal) => {{
                    let o: $F = $o; let f = |v: &[i64], i: usize| o + v[i] as $F;
                    s.eval(cls != 0);
                    let (g, dist): (Vec<$F>, $F) = if dim == 2 { let sg = LineSegment2 { start: Vec2 { x: f(a, 0), y: f(a, 1) }, end: Vec2 { x: f(b, 0), y: f(b, 1) } }; let q = Vec2 { x: f(p, 0), y: f(p, 1) }; let r = sg.projected_point(q); (vec![r.x, r.y], sg.distance_to_point(q)) }
                        else { let sg = LineSegment3 { start: Vec3 { x: f(a, 0), y: f(a, 1), z: f(a, 2) }, end: Vec3 { x: f(b, 0), y: f(b, 1), z: f(b, 2) } }; let q = Vec3 { x: f(p, 0), y: f(p, 1), z: f(p, 2) }; let r = sg.projected_point(q); (vec![r.x, r.y, r.z], sg.distance_to_point(q)) };
                    let tol = 8.0 * <$F>::EPSILON as f64 * o as f64;
                    if (0..dim).any(|i| !(((g[i] - o) as f64 - ft[i].to_f64()).abs() <= tol)) { s.violation_w(&format!("LineSegment{}::projected_point<{}>", dim, $name), "far-from-origin:not-the-nearest-point-of-the-segment", json!({"input": inp(), "O": o as f64, "got - O": (0..dim).map(|i| (g[i] - o) as f64).collect::<Vec<_>>(), "want - O": ft.iter().map(|q| q.to_f64()).collect::<Vec<_>>()}), wt); }
                    let dw = d2.to_f64().sqrt();
                    if !((dist as f64 - dw).abs() <= tol + 4.0 * <$F>::EPSILON as f64 * dw) { s.violation_w(&format!("LineSegment{}::distance_to_point<{}>", dim, $name), "far-from-origin:wrong-distance", json!({"input": inp(), "O": o as f64, "got": dist as f64, "want": dw}), wt); }
                }} }
                ftier!(f64, 134217728.0, "f64"); ftier!(f32, 4096.0, "f32");
            } } }
        }
        s.sample(json!({"segment": "(4096,4096)-(4097,4096) in f32", "query": "(4097,4099)", "nearest point must be": "(4097,4096), distance 3"}));
    });

    rep.section("large shapes: LineSegment2/3 at scale 2^k",
        &format!("the grids of the small-shapes section with coordinates n * 2^k, k in {:?} (X), {:?} (f64), {:?} (f32); same assertions and oracles (evaluated on the integer numerators and scaled exactly; all float operations scale exactly). Violation classes carry the prefix 'large-scale:'. non-trivial: non-degenerate segment", lx, lf64, lf32),
        true, false, |s| {
            s.require_classes(&["degenerate-segment", "beyond-start", "foot-at-start", "interior-foot", "foot-at-end", "beyond-end", "point-on-segment", "X/distance-exact", "f64/interior-foot", "f32/interior-foot", "f64/projected-point", "f32/projected-point"]);
            let (e2, p2) = (cube(&[-1, 0, 1], 2), cube(&[-2, -1, 0, 1, 2], 2));
            let (e3, p3) = (cube(&[0, 1], 3), cube(&[-1, 0, 1, 2], 3));
            for &k in &lx { seg_exact::<LineSegment2<X>>(s, &e2, &p2, k, "large-scale:"); seg_exact::<LineSegment3<X>>(s, &e3, &p3, k, "large-scale:"); }
            for &k in &lf64 { seg_float::<f64, LineSegment2<f64>>(s, &e2, &p2, k, "large-scale:"); seg_float::<f64, LineSegment3<f64>>(s, &e3, &p3, k, "large-scale:"); }
            for &k in &lf32 { seg_float::<f32, LineSegment2<f32>>(s, &e2, &p2, k, "large-scale:"); seg_float::<f32, LineSegment3<f32>>(s, &e3, &p3, k, "large-scale:"); }
        });
    let (rx, rf64, rf32): (Vec<i32>, Vec<i32>, Vec<i32>) = if th { (vec![1, 13, 30], vec![1, 13, 30, 60], vec![1, 13, 20]) } else { (vec![30], vec![60], vec![20]) };
    rep.section("large shapes: Ray::triangle_intersection at scale 2^k",
        &format!("triangle vertices and ray origins n * 2^k: every ordered triple of vertices from {{0,1}}^3 x origins {{-1,0,1}}^3 x integer directions {{-1,0,1}}^3 minus 0; k in {:?} (X), {:?} (f64), {:?} (f32). {} Violation classes carry the prefix 'large-scale:'.", rx, rf64, rf32, ray_rule),
        true, false, |s| {
            require_tiers(s, &tiers, &["edge", "vertex", "miss", "parallel", "degenerate-triangle"]);
            s.require_classes(&["X/interior"]);
            let (verts, origins) = (cube(&[0, 1], 3), cube(&[-1, 0, 1], 3));
            for &k in &rx { ray_section::<X>(s, &verts, &origins, &dirs, k, "large-scale:"); }
            for &k in &rf64 { ray_section::<f64>(s, &verts, &origins, &dirs, k, "large-scale:"); }
            for &k in &rf32 { ray_section::<f32>(s, &verts, &origins, &dirs, k, "large-scale:"); }
        });

    // ---- scalene triangles in general position, long and non-primitive directions, rays aimed at chosen points
    let dmax = if th { 3 } else { 2 };
    let aimed = aimed_cases(th, dmax);
    rep.section("Ray::triangle_intersection: scalene triangles, aimed rays",
        &format!("triangles v0, v0 + 4a, v0 + 4b for (v0; a; b) in {:?} (the last one collinear = degenerate) in all 6 vertex orders; target points v0 + i*a + j*b for i, j in -1..=5 (barycentric quarters: the 3 vertices, 9 points inside the edges, 3 interior points, 34 points of the plane outside the triangle); every direction d of {{-{m}..{m}}}^3 minus 0 (non-primitive and unequal components included); origin = target - t*d for t in {{-2, 0, 1, 3}}: the line meets the plane exactly at the target with parameter t unless d is parallel to the plane (then the ray lies in the plane: None). Rays are built with Ray::new. {} ({} cases per tier)", TRIS, ray_rule, aimed.len(), m = dmax),
        true, false, |s| {
            require_tiers(s, &["X"], &ray_classes);
            require_tiers(s, &["f64", "f32"], &["interior", "edge", "vertex", "miss", "parallel", "degenerate-triangle", "hit-at-negative-t", "hit-at-origin"]);
            ray_list::<X>(s, &aimed, 0, "aimed:");
            ray_list::<f64>(s, &aimed, 0, "aimed:");
            ray_list::<f32>(s, &aimed, 0, "aimed:");
        });
    if th {
        // ---- thorough only: the base ray grid with vertices of both signs
        rep.section("Ray::triangle_intersection: vertices of both signs",
            &format!("every ORDERED triple of vertices from {{-1,0,2}}^3 x origins {{-2,0,1}}^3 x directions {{-1,0,1}}^3 minus 0, X and the exact float sub-space. {}", ray_rule),
            true, false, |s| {
                require_tiers(s, &tiers, &ray_classes);
                let (verts, origins) = (cube(&[-1, 0, 2], 3), cube(&[-2, 0, 1], 3));
                ray_section::<X>(s, &verts, &origins, &dirs, 0, "");
                ray_section::<f64>(s, &verts, &origins, &dirs, 0, "");
                ray_section::<f32>(s, &verts, &origins, &dirs, 0, "");
            });
    }

    std::process::exit(rep.finish());
}
