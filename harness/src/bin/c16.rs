//! C16 — disks, spheres, segments, rays: containment, distance and hit queries are exact.
//!
//! Every oracle works on plain integers / `Q` rationals read from and written to public fields; no vek
//! function sits in an oracle.  Coordinates of the disk/sphere sections are given in HALF units
//! (the integer n stands for n/2), so that radius 1/2 and half-integer tangencies are on the grid.
use num_traits::real::Real;
use num_traits::FloatConst;
use rayon::prelude::*;
use std::collections::BTreeMap;
use std::fmt::Debug;
use std::ops::{Add, Range};
use vek::geom::repr_c::{Aabb, Aabr, Disk, LineSegment2, LineSegment3, Ray, Rect, Rect3, Sphere};
use vx::fl::{close32, close64};
use vx::matx::*;
use vx::*;

type P3 = [i64; 3];

// ---------------------------------------------------------------------------------------------
// element tiers

trait El: Real + FloatConst + approx::RelativeEq + Add<Output = Self> + Debug + Send + Sync + 'static {
    const NAME: &'static str;
    const EXACT: bool;
    /// the value n/d (callers only pass values that are exactly representable in the tier)
    fn frac(n: i64, d: i64) -> Self;
    /// exact rational value of a result (None: NaN / infinity)
    fn exact(self) -> Option<Q>;
    fn f(self) -> f64;
    /// the harness' derived forward-error bound of the tier (never used for X)
    fn close(got: f64, want: f64, scale: f64) -> bool;
    /// machine epsilon of the tier is 2^-EPS_BITS
    const EPS_BITS: u32;
    fn eps() -> Q { Q::new(1, 1i128 << Self::EPS_BITS) }
    /// X only: is the value, structurally, the angle token coef*pi (or any zero when coef = 0)?
    fn is_pi_times(self, _coef: Q) -> bool { false }
    /// the value 2^e, exact in every tier (|e| stays far inside the normal exponent range of the tier)
    fn pow2(e: i32) -> Self;
    /// vek's absolute-epsilon guards (LineSegment degeneracy test, Moeller-Trumbore parallel test) compare with
    /// T::epsilon() / T::default_epsilon() = 2^-GUARD_BITS of the tier (the harness type X answers 2^-52)
    const GUARD_BITS: u32;
    /// (second audit) number of significand bits of the tier (X: 62, the largest mantissa the dyadic helper hands over as an i64)
    const MANT: u32;
    /// (second audit) for a positive value: the k-th representable neighbour (k = +-1: next up / next down); X: self * (1 + k 2^-60)
    fn nudge(self, k: i64) -> Self;
}
fn qpow2(e: i32) -> Q { if e >= 0 { Q::int(1i128 << e) } else { Q::new(1, 1i128 << (-e)) } }
impl El for f64 {
    const NAME: &'static str = "f64";
    const EXACT: bool = false;
    fn frac(n: i64, d: i64) -> f64 { n as f64 / d as f64 }
    fn exact(self) -> Option<Q> { Q::from_f64(self) }
    fn f(self) -> f64 { self }
    fn close(got: f64, want: f64, scale: f64) -> bool { close64(got, want, scale) }
    const EPS_BITS: u32 = 52;
    fn pow2(e: i32) -> f64 { assert!((-1000..=1000).contains(&e)); f64::from_bits(((1023 + e) as u64) << 52) }
    const GUARD_BITS: u32 = 52;
    const MANT: u32 = 53;
    fn nudge(self, k: i64) -> f64 { assert!(self > 0.0 && self.is_finite()); f64::from_bits((self.to_bits() as i64 + k) as u64) }
}
impl El for f32 {
    const NAME: &'static str = "f32";
    const EXACT: bool = false;
    fn frac(n: i64, d: i64) -> f32 { n as f32 / d as f32 }
    fn exact(self) -> Option<Q> { Q::from_f64(self as f64) }
    fn f(self) -> f64 { self as f64 }
    fn close(got: f64, want: f64, scale: f64) -> bool { close32(got as f32, want, scale) }
    const EPS_BITS: u32 = 23;
    fn pow2(e: i32) -> f32 { assert!((-120..=120).contains(&e)); f32::from_bits(((127 + e) as u32) << 23) }
    const GUARD_BITS: u32 = 23;
    const MANT: u32 = 24;
    fn nudge(self, k: i64) -> f32 { assert!(self > 0.0 && self.is_finite()); f32::from_bits((self.to_bits() as i64 + k) as u32) }
}
impl El for X {
    const NAME: &'static str = "X";
    const EXACT: bool = true;
    fn frac(n: i64, d: i64) -> X { q(n as i128, d as i128) }
    fn exact(self) -> Option<Q> { match self { X::R(v) => Some(v), _ => None } }
    fn f(self) -> f64 { self.shadow() }
    fn close(_: f64, _: f64, _: f64) -> bool { false }
    const EPS_BITS: u32 = 100;
    fn is_pi_times(self, coef: Q) -> bool { self == X::pi() * X::R(coef) || (coef == Q::ZERO && num_traits::Zero::is_zero(&self)) }
    fn pow2(e: i32) -> X { X::R(qpow2(e)) }
    const GUARD_BITS: u32 = 52;
    const MANT: u32 = 62;
    fn nudge(self, k: i64) -> X { self * X::R(Q::ONE.add(Q::new(k as i128, 1i128 << 60))) }
}

// ---------------------------------------------------------------------------------------------
// binding of Disk / Sphere through public fields

fn circ_coef(r: Q) -> Q { Q::int(2).mul(r) }
fn area_coef(r: Q) -> Q { r.mul(r) }
fn surf_coef(r: Q) -> Q { Q::int(4).mul(r).mul(r) }
fn vol_coef(r: Q) -> Q { Q::new(4, 3).mul(r).mul(r).mul(r) }

trait Ball<T: El>: Copy + Send + Sync {
    const D: usize;
    const NAME: &'static str;
    const COLLIDES: &'static str;
    const CV: &'static str;
    const RECT: &'static str;
    const AAB: &'static str;
    /// (method name, coefficient of pi as a function of the radius)
    const MEASURES: [(&'static str, fn(Q) -> Q); 2];
    fn make(c: &[T; 3], r: T) -> Self;
    fn contains(self, p: &[T; 3]) -> bool;
    fn collides(self, o: Self) -> bool;
    fn cv(self, o: Self) -> [T; 3];
    fn diam(self) -> T;
    /// (position, extent)
    fn rect_(self) -> ([T; 3], [T; 3]);
    /// (min, max)
    fn aab_(self) -> ([T; 3], [T; 3]);
    fn measure(self, i: usize) -> T;
}
impl<T: El> Ball<T> for Disk<T, T> {
    const D: usize = 2;
    const NAME: &'static str = "Disk";
    const COLLIDES: &'static str = "collides_with_disk";
    const CV: &'static str = "collision_vector_with_disk";
    const RECT: &'static str = "rect";
    const AAB: &'static str = "aabr";
    const MEASURES: [(&'static str, fn(Q) -> Q); 2] = [("circumference", circ_coef), ("area", area_coef)];
    fn make(c: &[T; 3], r: T) -> Self { Disk { center: Vec2 { x: c[0], y: c[1] }, radius: r } }
    fn contains(self, p: &[T; 3]) -> bool { self.contains_point(Vec2 { x: p[0], y: p[1] }) }
    fn collides(self, o: Self) -> bool { self.collides_with_disk(o) }
    fn cv(self, o: Self) -> [T; 3] { let v = self.collision_vector_with_disk(o); [v.x, v.y, T::zero()] }
    fn diam(self) -> T { self.diameter() }
    fn rect_(self) -> ([T; 3], [T; 3]) { let r: Rect<T, T> = self.rect(); ([r.x, r.y, T::zero()], [r.w, r.h, T::zero()]) }
    fn aab_(self) -> ([T; 3], [T; 3]) { let a: Aabr<T> = self.aabr(); ([a.min.x, a.min.y, T::zero()], [a.max.x, a.max.y, T::zero()]) }
    fn measure(self, i: usize) -> T { if i == 0 { self.circumference() } else { self.area() } }
}
impl<T: El> Ball<T> for Sphere<T, T> {
    const D: usize = 3;
    const NAME: &'static str = "Sphere";
    const COLLIDES: &'static str = "collides_with_sphere";
    const CV: &'static str = "collision_vector_with_sphere";
    const RECT: &'static str = "rect3";
    const AAB: &'static str = "aabb";
    const MEASURES: [(&'static str, fn(Q) -> Q); 2] = [("surface_area", surf_coef), ("volume", vol_coef)];
    fn make(c: &[T; 3], r: T) -> Self { Sphere { center: Vec3 { x: c[0], y: c[1], z: c[2] }, radius: r } }
    fn contains(self, p: &[T; 3]) -> bool { self.contains_point(Vec3 { x: p[0], y: p[1], z: p[2] }) }
    fn collides(self, o: Self) -> bool { self.collides_with_sphere(o) }
    fn cv(self, o: Self) -> [T; 3] { let v = self.collision_vector_with_sphere(o); [v.x, v.y, v.z] }
    fn diam(self) -> T { self.diameter() }
    fn rect_(self) -> ([T; 3], [T; 3]) { let r: Rect3<T, T> = self.rect3(); ([r.x, r.y, r.z], [r.w, r.h, r.d]) }
    fn aab_(self) -> ([T; 3], [T; 3]) { let a: Aabb<T> = self.aabb(); ([a.min.x, a.min.y, a.min.z], [a.max.x, a.max.y, a.max.z]) }
    fn measure(self, i: usize) -> T { if i == 0 { self.surface_area() } else { self.volume() } }
}

// ---------------------------------------------------------------------------------------------
// small helpers

/// all points of vals^d (remaining coordinates 0)
fn cube(vals: &[i64], d: usize) -> Vec<P3> {
    let mut out = Vec::new();
    let z: &[i64] = &[0];
    let (a, b, c) = (vals, if d >= 2 { vals } else { z }, if d >= 3 { vals } else { z });
    for &x in a { for &y in b { for &w in c { out.push([x, y, w]); } } }
    out
}
fn range(lo: i64, hi: i64, step: i64) -> Vec<i64> { (lo..=hi).step_by(step as usize).collect() }
fn d2(a: &P3, b: &P3) -> i64 { (0..3).map(|i| (a[i] - b[i]) * (a[i] - b[i])).sum() }
fn l1(a: &P3) -> u64 { a.iter().map(|v| v.unsigned_abs()).sum() }
fn tv<T: El>(v: &P3, den: i64) -> [T; 3] { [T::frac(v[0], den), T::frac(v[1], den), T::frac(v[2], den)] }
fn is_square(v: i64) -> bool { Q::isqrt(v as i128).is_some() }
/// the vector v/den * 2^sc (exact in every tier: a small numerator times a power of two)
fn tvs<T: El>(v: &P3, den: i64, sc: i32) -> [T; 3] { if sc == 0 { return tv::<T>(v, den); } let f = T::pow2(sc); [T::frac(v[0], den) * f, T::frac(v[1], den) * f, T::frac(v[2], den) * f] }
fn ts<T: El>(n: i64, den: i64, sc: i32) -> T { if sc == 0 { T::frac(n, den) } else { T::frac(n, den) * T::pow2(sc) } }
/// JSON of coordinates n/den * 2^sc
fn jps(v: &P3, d: usize, den: i64, sc: i32) -> Value { json!(v[..d].iter().map(|&n| format!("{:?}", Q::new(n as i128, den as i128).mul(qpow2(sc)))).collect::<Vec<_>>()) }
fn jns(n: i64, den: i64, sc: i32) -> Value { json!(format!("{:?}", Q::new(n as i128, den as i128).mul(qpow2(sc)))) }
/// additive emission: every violation of a 'small-scale:' section whose input lies OUTSIDE vek's absolute-epsilon guard
/// region is reported a second time under the class prefix 'above-guard:' (the 'small-scale:' keys are known findings
/// caused by that guard and would otherwise mask any other defect that shows at small scale)
fn emit(s: &Section, site: &str, pre: &str, guard_free: bool, class: &str, detail: Value, w: u64) {
    if pre == "small-scale:" && guard_free { s.violation_w(site, &format!("above-guard:{}", class), detail.clone(), w); }
    s.violation_w(site, &format!("{}{}", pre, class), detail, w);
}
/// JSON of coordinates given in units of 1/den
fn jp(v: &P3, d: usize, den: i64) -> Value { json!(v[..d].iter().map(|&n| format!("{:?}", Q::new(n as i128, den as i128))).collect::<Vec<_>>()) }
fn jn(n: i64, den: i64) -> Value { json!(format!("{:?}", Q::new(n as i128, den as i128))) }
fn jt<T: Debug>(v: &[T; 3], d: usize) -> Value { json!(v[..d].iter().map(|x| format!("{:?}", x)).collect::<Vec<_>>()) }

/// per-task class counter, flushed once (the section's class map is behind a mutex)
#[derive(Default)]
struct Cls(BTreeMap<(&'static str, &'static str), u64>);
impl Cls {
    fn hit(&mut self, tier: &'static str, c: &'static str) { *self.0.entry((tier, c)).or_insert(0) += 1; }
    fn flush(self, s: &Section) { for ((t, c), n) in self.0 { if t.is_empty() { s.class_n(c, n) } else { s.class_n(&format!("{}/{}", t, c), n) } } }
}
fn require_tiers(s: &Section, tiers: &[&str], classes: &[&str]) {
    for t in tiers { for c in classes { s.require_classes(&[format!("{}/{}", t, c).as_str()]); } }
}

// ---------------------------------------------------------------------------------------------
// 1. contains_point

fn contains_tier<T: El, B: Ball<T>>(s: &Section, centres: &[P3], radii: &[i64], points: &[P3], sc: i32, pre: &str) {
    let site = format!("{}::contains_point<{}>", B::NAME, T::NAME);
    let f2 = qpow2(sc).mul(qpow2(sc));
    centres.par_iter().for_each(|c| {
        let mut cls = Cls::default();
        let (mut n, mut nt) = (0u64, 0u64);
        for &r in radii {
            let ball = B::make(&tvs::<T>(c, 2, sc), ts::<T>(r, 2, sc));
            for p in points {
                let dd = d2(c, p); // (2d)^2, an integer
                // "at most the radius": a negative radius is below every distance
                let want = r >= 0 && dd <= r * r;
                let kind = if r < 0 { "negative-radius" } else if dd < r * r { "inside" } else if dd == r * r { "boundary" } else { "outside" };
                n += 1;
                if dd != 0 { nt += 1; }
                let pt = tvs::<T>(p, 2, sc);
                let inp = || json!({"center": jps(c, B::D, 2, sc), "radius": jns(r, 2, sc), "p": jps(p, B::D, 2, sc)});
                match s.call(&site, inp, || ball.contains(&pt)) {
                    Some(got) => {
                        cls.hit(T::NAME, kind);
                        if got != want {
                            let class = format!("{}{}wrong-verdict", pre, if r < 0 { "negative-radius:" } else { "" });
                            s.violation_w(&site, &class, json!({"input": inp(), "distance_squared": format!("{:?}", Q::new(dd as i128, 4).mul(f2)), "radius_squared": format!("{:?}", Q::new((r * r) as i128, 4).mul(f2)), "got": got, "want": want}), l1(c) + l1(p) + r.unsigned_abs() + sc.unsigned_abs() as u64);
                        }
                        if kind == "boundary" && dd != 0 && s.wants_sample() { s.sample(json!({"site": site, "input": inp(), "distance_squared": format!("{:?}", Q::new(dd as i128, 4).mul(f2)), "got": got, "want": want})); }
                    }
                    None => cls.hit(T::NAME, if is_square(dd) { "unmodelled-on-rational-distance" } else { "unmodelled-irrational-distance" }),
                }
            }
        }
        s.evals(n, nt);
        cls.flush(s);
    });
}

// ---------------------------------------------------------------------------------------------
// 2. collides_with_*

fn collides_tier<T: El, B: Ball<T>>(s: &Section, centres: &[P3], radii: &[i64], sc: i32, pre: &str) {
    let site = format!("{}::{}<{}>", B::NAME, B::COLLIDES, T::NAME);
    let f2 = qpow2(sc).mul(qpow2(sc));
    centres.par_iter().for_each(|c1| {
        let mut cls = Cls::default();
        let (mut n, mut nt) = (0u64, 0u64);
        for c2 in centres {
            let dd = d2(c1, c2);
            for &r1 in radii { for &r2 in radii {
                let (a, b) = (B::make(&tvs::<T>(c1, 2, sc), ts::<T>(r1, 2, sc)), B::make(&tvs::<T>(c2, 2, sc), ts::<T>(r2, 2, sc)));
                let rr = (r1 + r2) * (r1 + r2);
                // "at most the sum of radii": a negative sum is below every distance
                let want = r1 + r2 >= 0 && dd <= rr;
                let neg = r1 < 0 || r2 < 0;
                let kind = if r1 + r2 < 0 { "negative-radius-sum" } else if dd < rr { "overlapping" } else if dd == rr { "tangent" } else { "disjoint" };
                n += 1;
                if dd != 0 { nt += 1; }
                let inp = || json!({"self": {"center": jps(c1, B::D, 2, sc), "radius": jns(r1, 2, sc)}, "other": {"center": jps(c2, B::D, 2, sc), "radius": jns(r2, 2, sc)}});
                match s.call(&site, inp, || a.collides(b)) {
                    Some(got) => {
                        cls.hit(T::NAME, kind);
                        if neg && r1 + r2 >= 0 { cls.hit(T::NAME, "mixed-sign-radii"); }
                        if got != want {
                            let class = format!("{}{}wrong-verdict", pre, if neg { "negative-radius:" } else { "" });
                            s.violation_w(&site, &class, json!({"input": inp(), "centre_distance_squared": format!("{:?}", Q::new(dd as i128, 4).mul(f2)), "radius_sum_squared": format!("{:?}", Q::new(rr as i128, 4).mul(f2)), "got": got, "want": want}), l1(c1) + l1(c2) + r1.unsigned_abs() + r2.unsigned_abs() + sc.unsigned_abs() as u64);
                        }
                        if kind == "tangent" && dd != 0 && r1 != r2 && s.wants_sample() { s.sample(json!({"site": site, "input": inp(), "centre_distance_squared": format!("{:?}", Q::new(dd as i128, 4).mul(f2)), "got": got, "want": want})); }
                    }
                    None => cls.hit(T::NAME, if is_square(dd) { "unmodelled-on-rational-distance" } else { "unmodelled-irrational-distance" }),
                }
            } }
        }
        s.evals(n, nt);
        cls.flush(s);
    });
}

// ---------------------------------------------------------------------------------------------
// 3. collision_vector_with_*:   other.center + cv   must be at distance r1+r2 from self.center

fn cv_tier<T: El, B: Ball<T>>(s: &Section, centres: &[P3], radii: &[i64], sc: i32, pre: &str) {
    let site = format!("{}::{}<{}>", B::NAME, B::CV, T::NAME);
    let (f1, fq) = (T::pow2(sc).f(), qpow2(sc));
    centres.par_iter().for_each(|c1| {
        let mut cls = Cls::default();
        let (mut n, mut nt) = (0u64, 0u64);
        for c2 in centres {
            let dd = d2(c1, c2);
            if dd == 0 { cls.hit(T::NAME, "coincident-centres-excluded"); continue; }
            for &r1 in radii { for &r2 in radii {
                let rsum = r1 + r2;
                // two shapes whose radii sum to a negative number cannot be tangent (a distance is never negative): left open
                if rsum < 0 { cls.hit(T::NAME, "negative-radius-sum-excluded"); continue; }
                let (a, b) = (B::make(&tvs::<T>(c1, 2, sc), ts::<T>(r1, 2, sc)), B::make(&tvs::<T>(c2, 2, sc), ts::<T>(r2, 2, sc)));
                let neg = r1 < 0 || r2 < 0;
                let kind = if dd < rsum * rsum { "penetrating" } else if dd == rsum * rsum { "already-tangent" } else { "separated" };
                n += 1;
                if dd != rsum * rsum { nt += 1; }
                let inp = || json!({"self": {"center": jps(c1, B::D, 2, sc), "radius": jns(r1, 2, sc)}, "other": {"center": jps(c2, B::D, 2, sc), "radius": jns(r2, 2, sc)}});
                let w = l1(c1) + l1(c2) + r1.unsigned_abs() + r2.unsigned_abs() + sc.unsigned_abs() as u64;
                let Some(cv) = s.call(&site, inp, || a.cv(b)) else {
                    cls.hit(T::NAME, if is_square(dd) { "unmodelled-on-rational-distance" } else { "unmodelled-irrational-distance" });
                    continue;
                };
                cls.hit(T::NAME, kind);
                if neg { cls.hit(T::NAME, "mixed-sign-radii"); }
                let class = format!("{}{}not-tangent-after-move", pre, if neg { "negative-radius:" } else { "" });
                if T::EXACT {
                    // exact: | (c2 + cv) - c1 |^2 == (r1+r2)^2
                    let mut nd = Q::ZERO;
                    let mut ok = true;
                    for i in 0..B::D {
                        match cv[i].exact() { Some(v) => { let t = Q::new((c2[i] - c1[i]) as i128, 2).mul(fq).add(v); nd = nd.add(t.mul(t)); } None => ok = false }
                    }
                    let want = Q::new((rsum * rsum) as i128, 4).mul(fq).mul(fq);
                    if !ok || nd != want {
                        s.violation_w(&site, &class, json!({"input": inp(), "collision_vector": jt(&cv, B::D), "new_centre_distance_squared": format!("{:?}", nd), "want_(r1+r2)^2": format!("{:?}", want)}), w);
                    }
                    if kind == "penetrating" && s.wants_sample() { s.sample(json!({"site": site, "input": inp(), "collision_vector": jt(&cv, B::D), "new_centre_distance_squared": format!("{:?}", nd), "(r1+r2)^2": format!("{:?}", want)})); }
                } else {
                    // float: new centre distance computed in f64 from the returned components, bound 256 eps * scale
                    let mut sq = 0f64;
                    for i in 0..B::D { let t = (c2[i] as f64 / 2.0 * f1 + cv[i].f()) - c1[i] as f64 / 2.0 * f1; sq += t * t; }
                    let (nd, want) = (sq.sqrt(), rsum as f64 / 2.0 * f1);
                    let scale = (rsum as f64 / 2.0 + (dd as f64).sqrt() / 2.0 + 1.0) * f1;
                    if !T::close(nd, want, scale) {
                        s.violation_w(&site, &class, json!({"input": inp(), "collision_vector": jt(&cv, B::D), "new_centre_distance": nd, "want_r1+r2": want}), w);
                    }
                }
            } }
        }
        s.evals(n, nt);
        cls.flush(s);
    });
}

// ---------------------------------------------------------------------------------------------
// 4. bounds, diameter

fn bounds_tier<T: El, B: Ball<T>>(s: &Section, centres: &[P3], radii: &[i64], sc: i32, pre: &str) {
    let sites = [format!("{}::{}<{}>", B::NAME, B::RECT, T::NAME), format!("{}::{}<{}>", B::NAME, B::AAB, T::NAME), format!("{}::diameter<{}>", B::NAME, T::NAME)];
    centres.par_iter().for_each(|c| {
        let mut cls = Cls::default();
        for &r in radii {
            let ball = B::make(&tvs::<T>(c, 2, sc), ts::<T>(r, 2, sc));
            let inp = || json!({"center": jps(c, B::D, 2, sc), "radius": jns(r, 2, sc)});
            let lo: [T; 3] = [ts::<T>(c[0] - r, 2, sc), ts::<T>(c[1] - r, 2, sc), ts::<T>(c[2] - r, 2, sc)];
            let hi: [T; 3] = [ts::<T>(c[0] + r, 2, sc), ts::<T>(c[1] + r, 2, sc), ts::<T>(c[2] + r, 2, sc)];
            let ext = ts::<T>(r, 1, sc);
            let w = l1(c) + r.unsigned_abs() + sc.unsigned_abs() as u64;
            // a negative radius is taken literally: "centre plus/minus the radius per axis" (min = c - r, max = c + r, extent = 2r)
            let pre = format!("{}{}", pre, if r < 0 { "negative-radius:" } else { "" });
            cls.hit(T::NAME, if r == 0 { "radius-zero" } else if r > 0 { "radius-positive" } else { "radius-negative" });
            s.eval(r != 0);
            if let Some((pos, e)) = s.call(&sites[0], inp, || ball.rect_()) {
                for i in 0..B::D {
                    if pos[i] != lo[i] || e[i] != ext || pos[i] + e[i] != hi[i] {
                        s.violation_w(&sites[0], &format!("{}wrong-bounds", pre), json!({"input": inp(), "axis": i, "got_position": jt(&pos, B::D), "got_extent": jt(&e, B::D), "want_min": jt(&lo, B::D), "want_max": jt(&hi, B::D)}), w);
                    }
                }
            }
            s.eval(r != 0);
            if let Some((mn, mx)) = s.call(&sites[1], inp, || ball.aab_()) {
                for i in 0..B::D {
                    if mn[i] != lo[i] || mx[i] != hi[i] {
                        s.violation_w(&sites[1], &format!("{}wrong-bounds", pre), json!({"input": inp(), "axis": i, "got_min": jt(&mn, B::D), "got_max": jt(&mx, B::D), "want_min": jt(&lo, B::D), "want_max": jt(&hi, B::D)}), w);
                    }
                }
                if r != 0 && c[0] != 0 && s.wants_sample() { s.sample(json!({"site": sites[1], "input": inp(), "got_min": jt(&mn, B::D), "got_max": jt(&mx, B::D)})); }
            }
            s.eval(r != 0);
            if let Some(dm) = s.call(&sites[2], inp, || ball.diam()) {
                if dm != ext { s.violation_w(&sites[2], &format!("{}wrong-value", pre), json!({"input": inp(), "got": format!("{:?}", dm), "want": format!("{:?}", ext)}), w); }
            }
        }
        cls.flush(s);
    });
}

/// integer shapes (Disk<i32,i32>, Sphere<i32,i32>): same claims, integer centres and radii (units, not halves)
fn bounds_i32(s: &Section, vals: &[i64], radii: &[i64]) {
    for c in cube(vals, 3) {
        // (callers keep centre +- radius and 2*radius inside i32)
        for &r in radii {
            let (cx, cy, cz, ri) = (c[0] as i32, c[1] as i32, c[2] as i32, r as i32);
            let inp = || json!({"center": [cx, cy, cz], "radius": ri});
            let w = l1(&c) + r.unsigned_abs();
            if c[2] == 0 {
                let dk = Disk { center: Vec2 { x: cx, y: cy }, radius: ri };
                s.eval(r != 0);
                if let Some(rc) = s.call("Disk::rect<i32>", inp, || dk.rect()) {
                    if (rc.x, rc.y, rc.w, rc.h) != (cx - ri, cy - ri, 2 * ri, 2 * ri) { s.violation_w("Disk::rect<i32>", "wrong-bounds", json!({"input": inp(), "got": jd(&rc)}), w); }
                }
                s.eval(r != 0);
                if let Some(a) = s.call("Disk::aabr<i32>", inp, || dk.aabr()) {
                    if (a.min.x, a.min.y, a.max.x, a.max.y) != (cx - ri, cy - ri, cx + ri, cy + ri) { s.violation_w("Disk::aabr<i32>", "wrong-bounds", json!({"input": inp(), "got": jd(&a)}), w); }
                }
                s.eval(r != 0);
                if let Some(dm) = s.call("Disk::diameter<i32>", inp, || dk.diameter()) {
                    if dm != 2 * ri { s.violation_w("Disk::diameter<i32>", "wrong-value", json!({"input": inp(), "got": dm}), w); }
                }
            }
            let sp = Sphere { center: Vec3 { x: cx, y: cy, z: cz }, radius: ri };
            s.eval(r != 0);
            if let Some(rc) = s.call("Sphere::rect3<i32>", inp, || sp.rect3()) {
                if (rc.x, rc.y, rc.z, rc.w, rc.h, rc.d) != (cx - ri, cy - ri, cz - ri, 2 * ri, 2 * ri, 2 * ri) { s.violation_w("Sphere::rect3<i32>", "wrong-bounds", json!({"input": inp(), "got": jd(&rc)}), w); }
            }
            s.eval(r != 0);
            if let Some(a) = s.call("Sphere::aabb<i32>", inp, || sp.aabb()) {
                if (a.min.x, a.min.y, a.min.z, a.max.x, a.max.y, a.max.z) != (cx - ri, cy - ri, cz - ri, cx + ri, cy + ri, cz + ri) { s.violation_w("Sphere::aabb<i32>", "wrong-bounds", json!({"input": inp(), "got": jd(&a)}), w); }
            }
            s.eval(r != 0);
            if let Some(dm) = s.call("Sphere::diameter<i32>", inp, || sp.diameter()) {
                if dm != 2 * ri { s.violation_w("Sphere::diameter<i32>", "wrong-value", json!({"input": inp(), "got": dm}), w); }
            }
            s.class(if r == 0 { "i32/radius-zero" } else if r > 0 { "i32/radius-positive" } else { "i32/radius-negative" });
        }
    }
}

// ---------------------------------------------------------------------------------------------
// 5. circumference / area / surface_area / volume

/// pi to 18 significant digits as PI_NUM / 10^17 (relative error 1.2e-18, i.e. 0.005 f64-epsilon)
const PI_NUM: i128 = 314159265358979324;
const PI_DEN: i128 = 100_000_000_000_000_000;

/// |got - (a/b) pi| <= 4 * 2^-eps_bits * (a/b) pi, decided in checked integer arithmetic:
/// with got = n/d (d a power of two) this is |b n PI_DEN - a PI_NUM d| <= (a PI_NUM d) >> (eps_bits - 2).
/// None: i128 overflow (reported as unmodelled, never as a verdict).
fn within_4eps(got: Q, coef: Q, eps_bits: u32) -> Option<(bool, f64)> {
    let (a, b) = (coef.n, coef.d);
    let lhs = b.checked_mul(got.n)?.checked_mul(PI_DEN)?;
    let rhs = a.checked_mul(PI_NUM)?.checked_mul(got.d)?;
    let diff = lhs.checked_sub(rhs)?.abs();
    let tol = rhs.abs() >> (eps_bits - 2);
    Some((diff <= tol, if rhs == 0 { 0.0 } else { diff as f64 / rhs.abs() as f64 }))
}

/// one returned measure against coefficient * pi (coefficient exact); `got` was produced for a radius scaled by 2^sc and
/// the measure is homogeneous of degree `deg` in the radius, so got * 2^(-sc*deg) (an exact operation in every tier) is
/// compared with the unscaled coefficient
fn check_measure<T: El>(s: &Section, site: &str, class: &str, inp: &dyn Fn() -> Value, got: T, cq: Q, sc: i32, deg: i32, zero: bool, frac: bool, w: u64) {
    if T::EXACT {
        // structural: the angle token  coef * pi
        let cqs = cq.mul(qpow2(sc * deg));
        let g = format!("{:?}", got);
        let wn = format!("{:?}", X::pi() * X::R(cqs));
        if !got.is_pi_times(cqs) { s.violation_w(site, class, json!({"input": inp(), "got": g, "want_token": wn, "coefficient_of_pi": format!("{:?}", cqs)}), w); }
        s.class(&format!("X/{}", if zero { "radius-zero" } else { "radius-positive" }));
        if !zero && frac && s.wants_sample() { s.sample(json!({"site": site, "input": inp(), "got": g, "want_token (k * pi/2)": wn})); }
    } else {
        s.class(&format!("{}/{}", T::NAME, if zero { "radius-zero" } else { "radius-positive" }));
        let unscaled = got.f() * f64::pow2(-sc * deg);
        if !got.f().is_finite() { s.violation_w(site, class, json!({"input": inp(), "got": got.f(), "why": "non-finite"}), w); return }
        // (every expected unscaled value lies in [2^-8, 2^20]: a float outside the i128 rational range is wrong, as in the original check)
        let Some(gq) = Q::from_f64(unscaled) else { s.violation_w(site, class, json!({"input": inp(), "got": got.f(), "why": "magnitude outside 2^-126..2^123"}), w); return };
        match within_4eps(gq, cq, T::EPS_BITS) {
            Some((true, _)) => {}
            Some((false, rel)) => s.violation_w(site, class, json!({"input": inp(), "got": got.f(), "want": cq.to_f64() * std::f64::consts::PI * f64::pow2(sc * deg), "relative_error": rel, "allowed": 4.0 * T::eps().to_f64()}), w),
            None => s.unmodelled("oracle integer overflow"),
        }
    }
}
const DEGREES: [[i32; 2]; 2] = [[1, 2], [2, 3]]; // [Disk: circumference, area], [Sphere: surface_area, volume]

/// radii: (numerator, denominator), multiplied by 2^sc; the measures must not depend on the centre
fn measures_tier<T: El, B: Ball<T>>(s: &Section, radii: &[(i64, i64)], centre: &P3, sc: i32, pre: &str) {
    for &(rn, rd) in radii {
        let ball = B::make(&tvs::<T>(centre, 1, sc), ts::<T>(rn, rd, sc));
        let rq = Q::new(rn as i128, rd as i128);
        for (i, (name, coef)) in B::MEASURES.iter().enumerate() {
            let site = format!("{}::{}<{}>", B::NAME, name, T::NAME);
            let inp = || if *centre == [0, 0, 0] && sc == 0 { json!({"radius": jn(rn, rd)}) } else { json!({"center": jps(centre, B::D, 1, sc), "radius": jns(rn, rd, sc)}) };
            let cq = coef(rq);
            s.eval(rn != 0);
            let Some(got) = s.call(&site, inp, || ball.measure(i)) else { continue };
            check_measure::<T>(s, &site, &format!("{}wrong-value", pre), &inp, got, cq, sc, DEGREES[B::D - 2][i], rn == 0, rd != 1, (rn.abs() + rd) as u64 + sc.unsigned_abs() as u64);
        }
    }
}

// ---------------------------------------------------------------------------------------------
// 6/7. segments

trait Seg<T: El>: Copy + Send + Sync {
    const D: usize;
    const NAME: &'static str;
    fn make(a: &[T; 3], b: &[T; 3]) -> Self;
    fn proj(self, p: &[T; 3]) -> [T; 3];
    fn dist(self, p: &[T; 3]) -> T;
    /// From<Range> then into_range, everything decoded by fields: (seg.start, seg.end, range.start, range.end)
    fn roundtrip(a: &[T; 3], b: &[T; 3]) -> [[T; 3]; 4];
}
impl<T: El> Seg<T> for LineSegment2<T> {
    const D: usize = 2;
    const NAME: &'static str = "LineSegment2";
    fn make(a: &[T; 3], b: &[T; 3]) -> Self { LineSegment2 { start: Vec2 { x: a[0], y: a[1] }, end: Vec2 { x: b[0], y: b[1] } } }
    fn proj(self, p: &[T; 3]) -> [T; 3] { let v = self.projected_point(Vec2 { x: p[0], y: p[1] }); [v.x, v.y, T::zero()] }
    fn dist(self, p: &[T; 3]) -> T { self.distance_to_point(Vec2 { x: p[0], y: p[1] }) }
    fn roundtrip(a: &[T; 3], b: &[T; 3]) -> [[T; 3]; 4] {
        let sg = LineSegment2::from(Range { start: Vec2 { x: a[0], y: a[1] }, end: Vec2 { x: b[0], y: b[1] } });
        let r = sg.into_range();
        let z = T::zero();
        [[sg.start.x, sg.start.y, z], [sg.end.x, sg.end.y, z], [r.start.x, r.start.y, z], [r.end.x, r.end.y, z]]
    }
}
impl<T: El> Seg<T> for LineSegment3<T> {
    const D: usize = 3;
    const NAME: &'static str = "LineSegment3";
    fn make(a: &[T; 3], b: &[T; 3]) -> Self { LineSegment3 { start: Vec3 { x: a[0], y: a[1], z: a[2] }, end: Vec3 { x: b[0], y: b[1], z: b[2] } } }
    fn proj(self, p: &[T; 3]) -> [T; 3] { let v = self.projected_point(Vec3 { x: p[0], y: p[1], z: p[2] }); [v.x, v.y, v.z] }
    fn dist(self, p: &[T; 3]) -> T { self.distance_to_point(Vec3 { x: p[0], y: p[1], z: p[2] }) }
    fn roundtrip(a: &[T; 3], b: &[T; 3]) -> [[T; 3]; 4] {
        let sg = LineSegment3::from(Range { start: Vec3 { x: a[0], y: a[1], z: a[2] }, end: Vec3 { x: b[0], y: b[1], z: b[2] } });
        let r = sg.into_range();
        [[sg.start.x, sg.start.y, sg.start.z], [sg.end.x, sg.end.y, sg.end.z], [r.start.x, r.start.y, r.start.z], [r.end.x, r.end.y, r.end.z]]
    }
}

fn qsub(a: &[Q; 3], b: &[Q; 3]) -> [Q; 3] { [a[0].sub(b[0]), a[1].sub(b[1]), a[2].sub(b[2])] }
fn qdot(a: &[Q; 3], b: &[Q; 3]) -> Q { a[0].mul(b[0]).add(a[1].mul(b[1])).add(a[2].mul(b[2])) }

/// closed-form oracle on the integer numerators: (region, exact squared distance from p to the segment ab)
fn seg_oracle(a: &P3, b: &P3, p: &P3) -> (&'static str, Q) {
    let e: P3 = [b[0] - a[0], b[1] - a[1], b[2] - a[2]];
    let l = e[0] * e[0] + e[1] * e[1] + e[2] * e[2];
    let s0 = (0..3).map(|i| (p[i] - a[i]) * e[i]).sum::<i64>();
    let (pa, pb) = (d2(p, a), d2(p, b));
    if l == 0 { return ("degenerate-segment", Q::int(pa as i128)); }
    if s0 < 0 { ("beyond-start", Q::int(pa as i128)) }
    else if s0 == 0 { ("foot-at-start", Q::int(pa as i128)) }
    else if s0 > l { ("beyond-end", Q::int(pb as i128)) }
    else if s0 == l { ("foot-at-end", Q::int(pb as i128)) }
    else { ("interior-foot", Q::int(pa as i128).sub(Q::new((s0 * s0) as i128, l as i128))) }
}

/// all coordinates are  n * 2^sc  (sc <= 0: small shapes, sc > 0: large shapes);  `pre` is prepended to the violation
/// classes of the scaled sections.  A segment is `guard_free` when vek's absolute-epsilon degeneracy test
/// (len_sq <= 2^-GUARD_BITS) does not fire on it although it is not degenerate: see `emit`.
fn seg_exact<S: Seg<X>>(s: &Section, ends: &[P3], pts: &[P3], sc: i32, pre: &str) {
    let site_p = format!("{}::projected_point<X>", S::NAME);
    let site_d = format!("{}::distance_to_point<X>", S::NAME);
    let site_r = format!("{}::From<Range>/into_range<X>", S::NAME);
    let fq = qpow2(sc);
    let f2 = fq.mul(fq);
    let guard = qpow2(-(X::GUARD_BITS as i32));
    let qvs = |a: &P3| -> [Q; 3] { [Q::int(a[0] as i128).mul(fq), Q::int(a[1] as i128).mul(fq), Q::int(a[2] as i128).mul(fq)] };
    ends.par_iter().for_each(|a| {
        let mut cls = Cls::default();
        let (mut n, mut nt) = (0u64, 0u64);
        for b in ends {
            let (ax, bx) = (tvs::<X>(a, 1, sc), tvs::<X>(b, 1, sc));
            // range conversions
            n += 1; if a != b { nt += 1; }
            if let Some(rt) = s.call(&site_r, || json!({"start": jps(a, S::D, 1, sc), "end": jps(b, S::D, 1, sc)}), || S::roundtrip(&ax, &bx)) {
                if rt[0] != ax || rt[1] != bx || rt[2] != ax || rt[3] != bx {
                    s.violation_w(&site_r, &format!("{}wrong-endpoints", pre), json!({"start": jps(a, S::D, 1, sc), "end": jps(b, S::D, 1, sc), "got": [jt(&rt[0], S::D), jt(&rt[1], S::D), jt(&rt[2], S::D), jt(&rt[3], S::D)]}), l1(a) + l1(b));
                }
                cls.hit("", if a == b { "range-roundtrip-degenerate" } else { "range-roundtrip" });
            }
            let seg = S::make(&ax, &bx);
            let (aq, bq) = (qvs(a), qvs(b));
            let e = qsub(&bq, &aq);
            let l = qdot(&e, &e);
            let guard_free = a == b || sc >= 0 || l > guard;
            for p in pts {
                let px = tvs::<X>(p, 1, sc);
                let pq = qvs(p);
                let (region, dmin_int) = seg_oracle(a, b, p);
                let dmin = dmin_int.mul(f2);
                let inp = || json!({"start": jps(a, S::D, 1, sc), "end": jps(b, S::D, 1, sc), "p": jps(p, S::D, 1, sc)});
                let w = l1(a) + l1(b) + l1(p) + sc.unsigned_abs() as u64;
                n += 1; if a != b { nt += 1; }
                cls.hit("", region);
                if dmin == Q::ZERO { cls.hit("", "point-on-segment"); }
                if pre == "small-scale:" { cls.hit("", if guard_free { "outside-the-epsilon-guard" } else { "inside-the-epsilon-guard" }); }
                if let Some(g) = s.call(&site_p, inp, || S::proj(seg, &px)) {
                    let gq = [g[0].rat(), g[1].rat(), g[2].rat()];
                    // (i) lies on the segment: collinear with, and between, the end points
                    let wv = qsub(&gq, &aq);
                    let par = qdot(&wv, &e);
                    let collinear = (0..3).all(|i| (0..3).all(|j| wv[i].mul(e[j]) == wv[j].mul(e[i])));
                    let on = if a == b { gq == aq } else { collinear && par >= Q::ZERO && par <= l };
                    if !on { emit(s, &site_p, pre, guard_free, "off-segment", json!({"input": inp(), "got": jt(&g, S::D), "parameter_times_len_sq": format!("{:?}", par), "len_sq": format!("{:?}", l)}), w); }
                    // (ii) no sampled point a + (k/24)(b-a) is strictly nearer
                    let gp = qsub(&gq, &pq);
                    let dg = qdot(&gp, &gp);
                    for k in 0..=24 {
                        let t = Q::new(k, 24);
                        let sp = [aq[0].add(e[0].mul(t)), aq[1].add(e[1].mul(t)), aq[2].add(e[2].mul(t))];
                        let v = qsub(&sp, &pq);
                        let dk = qdot(&v, &v);
                        assert!(dk >= dmin, "oracle error: a sampled point is nearer than the closed-form minimum");
                        if dk < dg { emit(s, &site_p, pre, guard_free, "sampled-point-nearer", json!({"input": inp(), "got": jt(&g, S::D), "got_distance_squared": format!("{:?}", dg), "k_of_24": k, "sample_distance_squared": format!("{:?}", dk)}), w); break; }
                    }
                    // (iii) it is the nearest point: its squared distance is the closed-form minimum
                    if on && dg != dmin { emit(s, &site_p, pre, guard_free, "not-nearest", json!({"input": inp(), "got": jt(&g, S::D), "got_distance_squared": format!("{:?}", dg), "minimum_distance_squared": format!("{:?}", dmin)}), w); }
                    if region == "interior-foot" && dmin != Q::ZERO && s.wants_sample() { s.sample(json!({"site": site_p, "input": inp(), "got": jt(&g, S::D), "distance_squared": format!("{:?}", dg)})); }
                }
                // distance: exact tier where the squared distance is a perfect square
                n += 1; if a != b { nt += 1; }
                match s.call(&site_d, inp, || S::dist(seg, &px)) {
                    Some(g) => {
                        cls.hit("X", "distance-exact");
                        let gq = g.rat();
                        if gq < Q::ZERO || gq.mul(gq) != dmin { emit(s, &site_d, pre, guard_free, "wrong-distance", json!({"input": inp(), "got": format!("{:?}", gq), "want_squared": format!("{:?}", dmin)}), w); }
                    }
                    None => cls.hit("X", if dmin.sqrt_exact().is_some() { "distance-unmodelled-on-rational-distance" } else { "distance-unmodelled-irrational" }),
                }
            }
        }
        s.evals(n, nt);
        cls.flush(s);
    });
}

/// exact foot of p on the segment ab (integer numerators): the point whose squared distance `seg_oracle` returns
fn seg_foot(a: &P3, b: &P3, p: &P3) -> [Q; 3] {
    let e: P3 = [b[0] - a[0], b[1] - a[1], b[2] - a[2]];
    let l = e[0] * e[0] + e[1] * e[1] + e[2] * e[2];
    let s0 = (0..3).map(|i| (p[i] - a[i]) * e[i]).sum::<i64>();
    let t = if l == 0 || s0 <= 0 { Q::ZERO } else if s0 >= l { Q::ONE } else { Q::new(s0 as i128, l as i128) };
    [0, 1, 2].map(|i| Q::int(a[i] as i128).add(Q::int(e[i] as i128).mul(t)))
}

fn seg_float<T: El, S: Seg<T>>(s: &Section, ends: &[P3], pts: &[P3], sc: i32, pre: &str) {
    let site_d = format!("{}::distance_to_point<{}>", S::NAME, T::NAME);
    let site_p = format!("{}::projected_point<{}>", S::NAME, T::NAME);
    let fq = qpow2(sc);
    let f2 = fq.mul(fq);
    let f1 = f64::pow2(sc);
    let guard = qpow2(-(T::GUARD_BITS as i32));
    ends.par_iter().for_each(|a| {
        let mut cls = Cls::default();
        let (mut n, mut nt) = (0u64, 0u64);
        for b in ends {
            let (at, bt) = (tvs::<T>(a, 1, sc), tvs::<T>(b, 1, sc));
            let seg = S::make(&at, &bt);
            let guard_free = a == b || sc >= 0 || Q::int(d2(a, b) as i128).mul(f2) > guard;
            for p in pts {
                let (region, dmin_int) = seg_oracle(a, b, p);
                let dmin = dmin_int.mul(f2);
                let inp = || json!({"start": jps(a, S::D, 1, sc), "end": jps(b, S::D, 1, sc), "p": jps(p, S::D, 1, sc)});
                let w = l1(a) + l1(b) + l1(p) + sc.unsigned_abs() as u64;
                n += 1; if a != b { nt += 1; }
                let pt = tvs::<T>(p, 1, sc);
                let scale = (l1(a) + l1(b) + l1(p)) as f64 * f1;
                if let Some(g) = s.call(&site_d, inp, || S::dist(seg, &pt)) {
                    cls.hit(T::NAME, region);
                    let want = dmin_int.to_f64().sqrt() * f1;
                    if !T::close(g.f(), want, scale) {
                        emit(s, &site_d, pre, guard_free, "wrong-distance", json!({"input": inp(), "got": g.f(), "want": want, "want_squared": format!("{:?}", dmin), "bound": 256.0 * T::eps().to_f64() * scale}), w);
                    }
                }
                // the projected point itself, on the float tiers: a degenerate segment must give start exactly; otherwise every
                // component is within the derived bound of the exact foot. Inside the epsilon-guard region (a known finding,
                // already reported through distance_to_point above) the point is not asserted.
                if !guard_free { cls.hit(T::NAME, "projected-point-skipped-inside-the-epsilon-guard"); continue; }
                n += 1; if a != b { nt += 1; }
                if let Some(g) = s.call(&site_p, inp, || S::proj(seg, &pt)) {
                    cls.hit(T::NAME, "projected-point");
                    let foot = seg_foot(a, b, p);
                    let ok = if a == b { g == at } else { (0..S::D).all(|i| T::close(g[i].f(), foot[i].to_f64() * f1, scale)) };
                    if !ok {
                        let class = format!("{}wrong-point", if pre == "small-scale:" { "above-guard:" } else { pre });
                        s.violation_w(&site_p, &class, json!({"input": inp(), "got": jt(&g, S::D), "want": foot.iter().take(S::D).map(|q| format!("{:?}", q.mul(fq))).collect::<Vec<_>>(), "region": region, "bound": 256.0 * T::eps().to_f64() * scale}), w);
                    }
                }
            }
        }
        s.evals(n, nt);
        cls.flush(s);
    });
}

// ---------------------------------------------------------------------------------------------
// 8. Ray::triangle_intersection

fn sub3(a: &P3, b: &P3) -> P3 { [a[0] - b[0], a[1] - b[1], a[2] - b[2]] }
/// matrix with the given columns
fn cols(c0: &P3, c1: &P3, c2: &P3) -> A<i128, 3> { let mut m = [[0i128; 3]; 3]; for i in 0..3 { m[i] = [c0[i] as i128, c1[i] as i128, c2[i] as i128]; } m }

/// one ray/triangle case. Triangle vertices and origins are  n * 2^sc, directions are the integers themselves.
/// Float tiers run on the sub-space where the Cramer determinant is 0 or +-2^j: every operation of the
/// code under test is then exact in binary floating point (all values are small integers times powers of two and
/// the reciprocal of the determinant is exact), so the float verdict and value must equal the rational ones.
/// Returns false when the case was skipped (float tier, inexact reciprocal).
#[allow(clippy::too_many_arguments)]
#[inline(always)]
fn ray_case<T: El>(s: &Section, cls: &mut Cls, site: &str, tri_n: [&P3; 3], tri: [Vec3<T>; 3], o: &P3, d: &P3, sc: i32, pre: &str, via_new: bool) -> Option<bool> {
    let (v0, v1, v2) = (tri_n[0], tri_n[1], tri_n[2]);
    let (e1, e2) = (sub3(v1, v0), sub3(v2, v0));
    let rhs = sub3(o, v0);
    let md: P3 = [-d[0], -d[1], -d[2]];
    // u*e1 + v*e2 - t*d = o - v0   (Cramer, on the integer numerators; u, v are scale-free, t scales with 2^sc)
    let det0 = det(&cols(&e1, &e2, &md));
    if !T::EXACT && det0 != 0 && (det0.unsigned_abs() & (det0.unsigned_abs() - 1)) != 0 { cls.hit(T::NAME, "skipped-inexact-reciprocal"); return None; }
    let degenerate = cross3(&[e1[0] as i128, e1[1] as i128, e1[2] as i128], &[e2[0] as i128, e2[1] as i128, e2[2] as i128]) == [0, 0, 0];
    let (du, dv, dt) = (det(&cols(&rhs, &e2, &md)), det(&cols(&e1, &rhs, &md)), det(&cols(&e1, &e2, &rhs)));
    let fq = qpow2(sc);
    let (kind, want): (&'static str, Option<Q>) = if det0 == 0 {
        (if degenerate { "degenerate-triangle" } else { "parallel" }, None)
    } else {
        let (u, v, t) = (Q::new(du, det0), Q::new(dv, det0), Q::new(dt, det0));
        // oracle self-check: the solution satisfies the defining equation
        for i in 0..3 {
            let lhs = Q::int(o[i] as i128).add(Q::int(d[i] as i128).mul(t));
            let rh = Q::int(v0[i] as i128).add(u.mul(Q::int(e1[i] as i128))).add(v.mul(Q::int(e2[i] as i128)));
            assert!(lhs == rh, "oracle error: Cramer solution does not satisfy o + d t = v0 + u e1 + v e2");
        }
        let wsum = u.add(v);
        if u >= Q::ZERO && v >= Q::ZERO && wsum <= Q::ONE {
            let zeros = (u == Q::ZERO) as u8 + (v == Q::ZERO) as u8 + (wsum == Q::ONE) as u8;
            if t < Q::ZERO { cls.hit(T::NAME, "hit-at-negative-t"); } else if t == Q::ZERO { cls.hit(T::NAME, "hit-at-origin"); }
            (match zeros { 0 => "interior", 1 => "edge", _ => "vertex" }, Some(t.mul(fq)))
        } else { ("miss", None) }
    };
    cls.hit(T::NAME, kind);
    // vek's parallel test is |a| < epsilon with a = e1.(d x e2) = det0 * 2^(2 sc): outside it (or on a truly parallel case) the guard is idle
    let guard_free = det0 == 0 || sc >= 0 || Q::int(det0.abs()).mul(fq).mul(fq) >= qpow2(-(T::GUARD_BITS as i32));
    if pre == "small-scale:" { cls.hit(T::NAME, if guard_free { "outside-the-epsilon-guard" } else { "inside-the-epsilon-guard" }); }
    let (ot, dt_) = (v3(&tvs::<T>(o, 1, sc)), v3(&tvs::<T>(d, 1, 0)));
    let ray = if via_new { Ray::new(ot, dt_) } else { Ray { origin: ot, direction: dt_ } };
    let inp = || json!({"triangle": [jps(v0, 3, 1, sc), jps(v1, 3, 1, sc), jps(v2, 3, 1, sc)], "origin": jps(o, 3, 1, sc), "direction": d});
    let w = l1(v0) + l1(v1) + l1(v2) + l1(o) + l1(d) + sc.unsigned_abs() as u64;
    let got = match catch(|| ray.triangle_intersection(tri)) {
        Ok(g) => g,
        // exact arithmetic has no inf/NaN: a division by zero means the parallel/degenerate guard let a = 0 through
        Err(Caught::Unmodelled("division by zero")) => { emit(s, site, pre, guard_free, "division-by-zero", json!({"input": inp(), "case": kind, "cramer_det": det0.to_string()}), w); return Some(det0 != 0) }
        Err(Caught::Unmodelled(why)) => { s.unmodelled(why); return Some(det0 != 0) }
        Err(Caught::Panic(m)) => { s.violation_w(site, "panic", json!({"input": inp(), "panic": m}), w); return Some(det0 != 0) }
    };
    // Some(None): a non-finite float
    let gq: Option<Option<Q>> = got.map(|x| x.exact());
    if gq != want.map(Some) {
        let class = match (gq, want) { (None, Some(_)) => "missed-hit", (Some(_), None) => "false-hit", _ => "wrong-distance" };
        emit(s, site, pre, guard_free, class, json!({"input": inp(), "case": kind, "got": format!("{:?}", got), "want": format!("{:?}", want),
            "cramer": {"det": format!("{}*2^{}", det0, 2 * sc), "u": format!("{}/{}", du, det0), "v": format!("{}/{}", dv, det0), "t": format!("{}/{}*2^{}", dt, det0, sc)}}), w);
    }
    if kind == "edge" && s.wants_sample() { s.sample(json!({"site": site, "input": inp(), "case": kind, "got": format!("{:?}", got), "cramer_t": format!("{:?}", want)})); }
    Some(det0 != 0)
}

/// every ordered triple of `verts` x origins x directions
fn ray_section<T: El>(s: &Section, verts: &[P3], origins: &[P3], dirs: &[P3], sc: i32, pre: &str) {
    let site = format!("Ray::triangle_intersection<{}>", T::NAME);
    let site = site.as_str();
    let pairs: Vec<(P3, P3)> = verts.iter().flat_map(|a| verts.iter().map(move |b| (*a, *b))).collect();
    pairs.par_iter().for_each(|(v0, v1)| {
        let mut cls = Cls::default();
        let (mut n, mut nt) = (0u64, 0u64);
        for v2 in verts {
            let tri = [v3(&tvs::<T>(v0, 1, sc)), v3(&tvs::<T>(v1, 1, sc)), v3(&tvs::<T>(v2, 1, sc))];
            for o in origins {
                for d in dirs {
                    if let Some(nontrivial) = ray_case::<T>(s, &mut cls, site, [v0, v1, v2], tri, o, d, sc, pre, false) { n += 1; if nontrivial { nt += 1; } }
                }
            }
        }
        s.evals(n, nt);
        cls.flush(s);
    });
}

/// an explicit list of (triangle, origin, direction) cases; the ray is built with Ray::new
fn ray_list<T: El>(s: &Section, cases: &[([P3; 3], P3, P3)], sc: i32, pre: &str) {
    let site = format!("Ray::triangle_intersection<{}>", T::NAME);
    let site = site.as_str();
    cases.par_chunks(4096).for_each(|chunk| {
        let mut cls = Cls::default();
        let (mut n, mut nt) = (0u64, 0u64);
        for (tri, o, d) in chunk {
            let tt = [v3(&tvs::<T>(&tri[0], 1, sc)), v3(&tvs::<T>(&tri[1], 1, sc)), v3(&tvs::<T>(&tri[2], 1, sc))];
            if let Some(nontrivial) = ray_case::<T>(s, &mut cls, site, [&tri[0], &tri[1], &tri[2]], tt, o, d, sc, pre, true) { n += 1; if nontrivial { nt += 1; } }
        }
        s.evals(n, nt);
        cls.flush(s);
    });
}


// ---------------------------------------------------------------------------------------------
// 9. constructors, mixed position/extent types, aimed rays (added by the audit)

/// (v0; a; b): triangle v0, v0 + 4a, v0 + 4b
const TRIS: [[P3; 3]; 4] = [
    [[-3, 1, 2], [2, -1, 1], [1, 1, -2]],
    [[2, -5, -1], [1, 0, 0], [0, 3, 1]],
    [[0, 0, 7], [3, 2, -1], [-2, 3, 1]],
    [[1, -2, 3], [1, 2, -1], [2, 4, -2]],
];
fn aimed_cases(th: bool, dmax: i64) -> Vec<([P3; 3], P3, P3)> {
    let dirs: Vec<P3> = cube(&range(-dmax, dmax, 1), 3).into_iter().filter(|d| *d != [0, 0, 0]).collect();
    let perms: [[usize; 3]; 6] = [[0, 1, 2], [0, 2, 1], [1, 0, 2], [1, 2, 0], [2, 0, 1], [2, 1, 0]];
    let ts: &[i64] = if th { &[-2, -1, 0, 1, 3] } else { &[-2, 0, 1, 3] };
    let mut out = Vec::new();
    for [v0, a, b] in TRIS {
        let vs: [P3; 3] = [v0, [0, 1, 2].map(|i| v0[i] + 4 * a[i]), [0, 1, 2].map(|i| v0[i] + 4 * b[i])];
        for pm in perms {
            let tri = [vs[pm[0]], vs[pm[1]], vs[pm[2]]];
            for i in -1..=5i64 { for j in -1..=5i64 {
                let target: P3 = [0, 1, 2].map(|k| v0[k] + i * a[k] + j * b[k]);
                for d in &dirs { for &t in ts {
                    out.push((tri, [0, 1, 2].map(|k| target[k] - t * d[k]), *d));
                } }
            } }
        }
    }
    out
}

fn ctors_tier<T: El>(s: &Section, centres: &[P3], radii: &[i64]) {
    for c in centres {
        let ct = tv::<T>(c, 2);
        let nontrivial = c[0] != c[1];
        let dirn: P3 = [c[1] + 1, c[2] + 2, c[0] + 3];
        let dt = tv::<T>(&dirn, 2);
        s.eval(nontrivial);
        let site = format!("Ray::new<{}>", T::NAME);
        if let Some(r) = s.call(&site, || json!({"origin": jp(c, 3, 2), "direction": jp(&dirn, 3, 2)}), || Ray::new(v3(&ct), v3(&dt))) {
            if [r.origin.x, r.origin.y, r.origin.z] != ct || [r.direction.x, r.direction.y, r.direction.z] != dt {
                s.violation_w(&site, "wrong-field", json!({"origin": jp(c, 3, 2), "direction": jp(&dirn, 3, 2), "got": jd(&r)}), l1(c));
            }
        }
        let (one, zero) = (T::frac(1, 1), T::frac(0, 1));
        for (k, name) in ["unit", "point"].iter().enumerate() {
            let want_r = if k == 0 { one } else { zero };
            s.eval(nontrivial);
            let site = format!("Disk::{}<{}>", name, T::NAME);
            if let Some(d) = s.call(&site, || json!({"center": jp(c, 2, 2)}), || if k == 0 { Disk::<T, T>::unit(Vec2 { x: ct[0], y: ct[1] }) } else { Disk::<T, T>::point(Vec2 { x: ct[0], y: ct[1] }) }) {
                if d.center.x != ct[0] || d.center.y != ct[1] || d.radius != want_r { s.violation_w(&site, "wrong-field", json!({"center": jp(c, 2, 2), "got": jd(&d)}), l1(c)); }
            }
            s.eval(nontrivial);
            let site = format!("Sphere::{}<{}>", name, T::NAME);
            if let Some(d) = s.call(&site, || json!({"center": jp(c, 3, 2)}), || if k == 0 { Sphere::<T, T>::unit(v3(&ct)) } else { Sphere::<T, T>::point(v3(&ct)) }) {
                if [d.center.x, d.center.y, d.center.z] != ct || d.radius != want_r { s.violation_w(&site, "wrong-field", json!({"center": jp(c, 3, 2), "got": jd(&d)}), l1(c)); }
            }
        }
        for &r in radii {
            let rt = T::frac(r, 2);
            s.eval(nontrivial);
            let site = format!("Disk::new<{}>", T::NAME);
            if let Some(d) = s.call(&site, || json!({"center": jp(c, 2, 2), "radius": jn(r, 2)}), || Disk::new(Vec2 { x: ct[0], y: ct[1] }, rt)) {
                if d.center.x != ct[0] || d.center.y != ct[1] || d.radius != rt { s.violation_w(&site, "wrong-field", json!({"center": jp(c, 2, 2), "radius": jn(r, 2), "got": jd(&d)}), l1(c) + r.unsigned_abs()); }
            }
            s.eval(nontrivial);
            let site = format!("Sphere::new<{}>", T::NAME);
            if let Some(d) = s.call(&site, || json!({"center": jp(c, 3, 2), "radius": jn(r, 2)}), || Sphere::new(v3(&ct), rt)) {
                if [d.center.x, d.center.y, d.center.z] != ct || d.radius != rt { s.violation_w(&site, "wrong-field", json!({"center": jp(c, 3, 2), "radius": jn(r, 2), "got": jd(&d)}), l1(c) + r.unsigned_abs()); }
            }
            s.class(T::NAME);
        }
    }
}
fn ctors_int(s: &Section, centres: &[P3], radii: &[i64]) {
    for c in centres {
        let (x, y, z) = (c[0] as i32, c[1] as i32, c[2] as i32);
        let nontrivial = x != y;
        let w = l1(c);
        s.eval(nontrivial);
        if let Some(d) = s.call("Disk::unit<i32>", || json!({"center": [x, y]}), || Disk::<i32, i32>::unit(Vec2 { x, y })) {
            if (d.center.x, d.center.y, d.radius) != (x, y, 1) { s.violation_w("Disk::unit<i32>", "wrong-field", json!({"center": [x, y], "got": jd(&d)}), w); }
        }
        s.eval(nontrivial);
        if let Some(d) = s.call("Disk::point<i32>", || json!({"center": [x, y]}), || Disk::<i32, i32>::point(Vec2 { x, y })) {
            if (d.center.x, d.center.y, d.radius) != (x, y, 0) { s.violation_w("Disk::point<i32>", "wrong-field", json!({"center": [x, y], "got": jd(&d)}), w); }
        }
        s.eval(nontrivial);
        if let Some(d) = s.call("Sphere::unit<i32>", || json!({"center": [x, y, z]}), || Sphere::<i32, i32>::unit(Vec3 { x, y, z })) {
            if (d.center.x, d.center.y, d.center.z, d.radius) != (x, y, z, 1) { s.violation_w("Sphere::unit<i32>", "wrong-field", json!({"center": [x, y, z], "got": jd(&d)}), w); }
        }
        s.eval(nontrivial);
        if let Some(d) = s.call("Sphere::point<i32>", || json!({"center": [x, y, z]}), || Sphere::<i32, i32>::point(Vec3 { x, y, z })) {
            if (d.center.x, d.center.y, d.center.z, d.radius) != (x, y, z, 0) { s.violation_w("Sphere::point<i32>", "wrong-field", json!({"center": [x, y, z], "got": jd(&d)}), w); }
        }
        // range conversions on a non-float element type (From<Range> / into_range are generic in T without bounds)
        {
            let (a2, b2) = (Vec2 { x, y }, Vec2 { x: y + 1, y: z + 2 });
            s.eval(true);
            if let Some((sg, r)) = s.call("LineSegment2::From<Range>/into_range<i32>", || json!({"start": [x, y], "end": [y + 1, z + 2]}), || { let sg = LineSegment2::from(Range { start: a2, end: b2 }); (sg, sg.into_range()) }) {
                if (sg.start.x, sg.start.y, sg.end.x, sg.end.y, r.start.x, r.start.y, r.end.x, r.end.y) != (x, y, y + 1, z + 2, x, y, y + 1, z + 2) { s.violation_w("LineSegment2::From<Range>/into_range<i32>", "wrong-endpoints", json!({"start": [x, y], "end": [y + 1, z + 2], "got": jd(&sg)}), w); }
            }
            let (a3, b3) = (Vec3 { x, y, z }, Vec3 { x: y + 1, y: z + 2, z: x + 3 });
            s.eval(true);
            if let Some((sg, r)) = s.call("LineSegment3::From<Range>/into_range<i32>", || json!({"start": [x, y, z], "end": [y + 1, z + 2, x + 3]}), || { let sg = LineSegment3::from(Range { start: a3, end: b3 }); (sg, sg.into_range()) }) {
                if (sg.start.x, sg.start.y, sg.start.z, sg.end.x, sg.end.y, sg.end.z) != (x, y, z, y + 1, z + 2, x + 3) || (r.start.x, r.start.y, r.start.z, r.end.x, r.end.y, r.end.z) != (x, y, z, y + 1, z + 2, x + 3) { s.violation_w("LineSegment3::From<Range>/into_range<i32>", "wrong-endpoints", json!({"start": [x, y, z], "end": [y + 1, z + 2, x + 3], "got": jd(&sg)}), w); }
            }
        }
        // mixed instantiations
        s.eval(nontrivial);
        if let Some(d) = s.call("Disk::unit<i32,u8>", || json!({"center": [x, y]}), || Disk::<i32, u8>::unit(Vec2 { x, y })) {
            if (d.center.x, d.center.y, d.radius) != (x, y, 1u8) { s.violation_w("Disk::unit<i32,u8>", "wrong-field", json!({"center": [x, y], "got": jd(&d)}), w); }
        }
        s.eval(nontrivial);
        if let Some(d) = s.call("Sphere::point<f64,f32>", || json!({"center": [x, y, z]}), || Sphere::<f64, f32>::point(Vec3 { x: x as f64 / 2.0, y: y as f64 / 2.0, z: z as f64 / 2.0 })) {
            if (d.center.x, d.center.y, d.center.z, d.radius) != (x as f64 / 2.0, y as f64 / 2.0, z as f64 / 2.0, 0f32) { s.violation_w("Sphere::point<f64,f32>", "wrong-field", json!({"center": [x, y, z], "got": jd(&d)}), w); }
        }
        for &r in radii {
            let ri = r as i32;
            s.eval(nontrivial);
            if let Some(d) = s.call("Disk::new<i32>", || json!({"center": [x, y], "radius": ri}), || Disk::new(Vec2 { x, y }, ri)) {
                if (d.center.x, d.center.y, d.radius) != (x, y, ri) { s.violation_w("Disk::new<i32>", "wrong-field", json!({"center": [x, y], "radius": ri, "got": jd(&d)}), w + r.unsigned_abs()); }
            }
            s.eval(nontrivial);
            if let Some(d) = s.call("Sphere::new<i32>", || json!({"center": [x, y, z], "radius": ri}), || Sphere::new(Vec3 { x, y, z }, ri)) {
                if (d.center.x, d.center.y, d.center.z, d.radius) != (x, y, z, ri) { s.violation_w("Sphere::new<i32>", "wrong-field", json!({"center": [x, y, z], "radius": ri, "got": jd(&d)}), w + r.unsigned_abs()); }
            }
            s.class("i32");
            let ru = r.unsigned_abs() as u8;
            s.eval(nontrivial);
            if let Some(d) = s.call("Disk::new<i32,u8>", || json!({"center": [x, y], "radius": ru}), || Disk::new(Vec2 { x, y }, ru)) {
                if (d.center.x, d.center.y, d.radius) != (x, y, ru) { s.violation_w("Disk::new<i32,u8>", "wrong-field", json!({"center": [x, y], "radius": ru, "got": jd(&d)}), w + r.unsigned_abs()); }
            }
            let rf = r as f32 / 2.0;
            s.eval(nontrivial);
            if let Some(d) = s.call("Sphere::new<f64,f32>", || json!({"center": [x, y, z], "radius": rf}), || Sphere::new(Vec3 { x: x as f64 / 2.0, y: y as f64 / 2.0, z: z as f64 / 2.0 }, rf)) {
                if (d.center.x, d.center.y, d.center.z, d.radius) != (x as f64 / 2.0, y as f64 / 2.0, z as f64 / 2.0, rf) { s.violation_w("Sphere::new<f64,f32>", "wrong-field", json!({"center": [x, y, z], "radius": rf, "got": jd(&d)}), w + r.unsigned_abs()); }
            }
            s.class("mixed");
        }
    }
}

/// rect / rect3 / diameter of one (P, E) instantiation; `$p`/`$e` convert the i64 model values (positions in units of 1/$den)
macro_rules! mixed_bounds {
    ($s:ident, $tag:expr, $P:ty, $E:ty, $den:expr, $p:expr, $e:expr) => {{
        let (fp, fe): (fn(i64) -> $P, fn(i64) -> $E) = ($p, $e);
        for c in cube(&range(-3, 3, 1), 3) {
            for r in [0i64, 1, 2, 5, 100] {
                let w = l1(&c) + r as u64;
                let inp = || json!({"center": jp(&c, 3, $den), "radius": r, "types": $tag});
                if c[2] == 0 {
                    let dk: Disk<$P, $E> = Disk { center: Vec2 { x: fp(c[0]), y: fp(c[1]) }, radius: fe(r) };
                    let site = format!("Disk::rect<{}>", $tag);
                    $s.eval(r != 0);
                    if let Some(rc) = $s.call(&site, inp, || dk.rect()) {
                        if (rc.x, rc.y, rc.w, rc.h) != (fp(c[0] - r * $den), fp(c[1] - r * $den), fe(2 * r), fe(2 * r)) { $s.violation_w(&site, "wrong-bounds", json!({"input": inp(), "got": jd(&rc)}), w); }
                    }
                    let site = format!("Disk::diameter<{}>", $tag);
                    $s.eval(r != 0);
                    if let Some(dm) = $s.call(&site, inp, || dk.diameter()) {
                        if dm != fe(2 * r) { $s.violation_w(&site, "wrong-value", json!({"input": inp(), "got": jd(&dm)}), w); }
                    }
                }
                let sp: Sphere<$P, $E> = Sphere { center: Vec3 { x: fp(c[0]), y: fp(c[1]), z: fp(c[2]) }, radius: fe(r) };
                let site = format!("Sphere::rect3<{}>", $tag);
                $s.eval(r != 0);
                if let Some(rc) = $s.call(&site, inp, || sp.rect3()) {
                    if (rc.x, rc.y, rc.z, rc.w, rc.h, rc.d) != (fp(c[0] - r * $den), fp(c[1] - r * $den), fp(c[2] - r * $den), fe(2 * r), fe(2 * r), fe(2 * r)) { $s.violation_w(&site, "wrong-bounds", json!({"input": inp(), "got": jd(&rc)}), w); }
                }
                let site = format!("Sphere::diameter<{}>", $tag);
                $s.eval(r != 0);
                if let Some(dm) = $s.call(&site, inp, || sp.diameter()) {
                    if dm != fe(2 * r) { $s.violation_w(&site, "wrong-value", json!({"input": inp(), "got": jd(&dm)}), w); }
                }
                $s.class(&format!("rect/{}", $tag));
            }
        }
    }};
}
fn mixed_section(s: &Section) {
    mixed_bounds!(s, "i64,i32", i64, i32, 1, |v| v, |v| v as i32);
    mixed_bounds!(s, "i32,u16", i32, u16, 1, |v| v as i32, |v| v as u16);
    mixed_bounds!(s, "f64,f32", f64, f32, 2, |v| v as f64 / 2.0, |v| v as f32);
    mixed_bounds!(s, "X,u8", X, u8, 2, |v| q(v as i128, 2), |v| v as u8);
    // measures: P plays no role
    for k in 0..=40i64 {
        let rq = Q::new(k as i128, 4);
        let inp = || json!({"radius": jn(k, 4)});
        let w = k as u64;
        let d1: Disk<i32, f64> = Disk { center: Vec2 { x: 3, y: -7 }, radius: k as f64 / 4.0 };
        let d2_: Disk<u8, f32> = Disk { center: Vec2 { x: 3, y: 200 }, radius: k as f32 / 4.0 };
        let s1: Sphere<i32, f32> = Sphere { center: Vec3 { x: 3, y: -7, z: 5 }, radius: k as f32 / 4.0 };
        let s2: Sphere<i64, f64> = Sphere { center: Vec3 { x: 3, y: -7, z: 5 }, radius: k as f64 / 4.0 };
        s.eval(k != 0);
        if let Some(g) = s.call("Disk::circumference<i32,f64>", inp, || d1.circumference()) { check_measure::<f64>(s, "Disk::circumference<i32,f64>", "wrong-value", &inp, g, circ_coef(rq), 0, 1, k == 0, true, w); }
        s.eval(k != 0);
        if let Some(g) = s.call("Disk::area<i32,f64>", inp, || d1.area()) { check_measure::<f64>(s, "Disk::area<i32,f64>", "wrong-value", &inp, g, area_coef(rq), 0, 2, k == 0, true, w); }
        s.eval(k != 0);
        if let Some(g) = s.call("Disk::circumference<u8,f32>", inp, || d2_.circumference()) { check_measure::<f32>(s, "Disk::circumference<u8,f32>", "wrong-value", &inp, g, circ_coef(rq), 0, 1, k == 0, true, w); }
        s.eval(k != 0);
        if let Some(g) = s.call("Disk::area<u8,f32>", inp, || d2_.area()) { check_measure::<f32>(s, "Disk::area<u8,f32>", "wrong-value", &inp, g, area_coef(rq), 0, 2, k == 0, true, w); }
        s.eval(k != 0);
        if let Some(g) = s.call("Sphere::surface_area<i32,f32>", inp, || s1.surface_area()) { check_measure::<f32>(s, "Sphere::surface_area<i32,f32>", "wrong-value", &inp, g, surf_coef(rq), 0, 2, k == 0, true, w); }
        s.eval(k != 0);
        if let Some(g) = s.call("Sphere::volume<i32,f32>", inp, || s1.volume()) { check_measure::<f32>(s, "Sphere::volume<i32,f32>", "wrong-value", &inp, g, vol_coef(rq), 0, 3, k == 0, true, w); }
        s.eval(k != 0);
        if let Some(g) = s.call("Sphere::surface_area<i64,f64>", inp, || s2.surface_area()) { check_measure::<f64>(s, "Sphere::surface_area<i64,f64>", "wrong-value", &inp, g, surf_coef(rq), 0, 2, k == 0, true, w); }
        s.eval(k != 0);
        if let Some(g) = s.call("Sphere::volume<i64,f64>", inp, || s2.volume()) { check_measure::<f64>(s, "Sphere::volume<i64,f64>", "wrong-value", &inp, g, vol_coef(rq), 0, 3, k == 0, true, w); }
    }
}

// =============================================================================================
// second audit (out/AUDIT2.md): far-from-origin / mixed-magnitude / one-ulp-tie alphabets, exact-by-construction rays

/// exact dyadic number m * 2^e (m odd or zero): inputs of the second-audit sections are built from these, so that the
/// harness knows the exact rational value of every float it hands to vek and whether a value is representable in a tier
#[derive(Clone, Copy, PartialEq, Eq, Debug)]
struct Dy { m: i128, e: i32 }
impl Dy {
    const ZERO: Dy = Dy { m: 0, e: 0 };
    fn new(m: i128, e: i32) -> Dy { if m == 0 { return Dy::ZERO; } let tz = m.trailing_zeros() as i32; Dy { m: m >> tz, e: e + tz } }
    fn p2(e: i32) -> Dy { Dy { m: 1, e } }
    fn int(m: i128) -> Dy { Dy::new(m, 0) }
    fn neg(self) -> Dy { Dy { m: -self.m, e: self.e } }
    fn add(self, o: Dy) -> Dy {
        if self.m == 0 { return o; }
        if o.m == 0 { return self; }
        let e = self.e.min(o.e);
        let (sa, sb) = ((self.e - e) as u32, (o.e - e) as u32);
        assert!(sa < 120 && sb < 120, "dyadic helper: exponent gap too large");
        let a = self.m.checked_mul(1i128 << sa).expect("dyadic helper overflow");
        let b = o.m.checked_mul(1i128 << sb).expect("dyadic helper overflow");
        Dy::new(a.checked_add(b).expect("dyadic helper overflow"), e)
    }
    fn sub(self, o: Dy) -> Dy { self.add(o.neg()) }
    fn mul(self, o: Dy) -> Dy { Dy::new(self.m.checked_mul(o.m).expect("dyadic helper overflow"), self.e + o.e) }
    fn bits(self) -> u32 { 128 - self.m.unsigned_abs().leading_zeros() }
    fn q(self) -> Q { Q::int(self.m).mul(qpow2(self.e)) }
    /// exactly representable (as a normal number, far from the ends of the exponent range) in the tier
    fn fits<T: El>(self) -> bool {
        if self.m == 0 { return true; }
        let lim = if T::EXACT { 120 } else if T::MANT == 24 { 100 } else { 900 };
        self.bits() <= T::MANT && self.e > -lim && self.e + (self.bits() as i32) < lim
    }
    fn t<T: El>(self) -> T { assert!(self.fits::<T>(), "dyadic helper: value does not fit the tier"); if self.m == 0 { T::zero() } else { T::frac(self.m as i64, 1) * T::pow2(self.e) } }
    fn abs(self) -> Dy { Dy { m: self.m.abs(), e: self.e } }
    /// |a| <= |b| without forming quotients (mantissas are aligned only when the leading bits coincide)
    fn le_abs(a: Dy, b: Dy) -> bool {
        if a.m == 0 { return true; }
        if b.m == 0 { return false; }
        let (ta, tb) = (a.e + a.bits() as i32, b.e + b.bits() as i32);
        if ta != tb { return ta < tb; }
        let e = a.e.min(b.e);
        (a.m.unsigned_abs() << (a.e - e) as u32) <= (b.m.unsigned_abs() << (b.e - e) as u32)
    }
}
fn dyv<T: El>(v: &[Dy; 3]) -> [T; 3] { [v[0].t::<T>(), v[1].t::<T>(), v[2].t::<T>()] }
fn dyfit<T: El>(v: &[Dy; 3]) -> bool { v.iter().all(|x| x.fits::<T>()) }
fn jdy(v: &[Dy], d: usize) -> Value { json!(v[..d].iter().map(|x| format!("{:?}", x.q())).collect::<Vec<_>>()) }
fn jq1(x: Dy) -> Value { json!(format!("{:?}", x.q())) }

// ---- A. disks and spheres far from the origin ---------------------------------------------------------------------
/// every position is O + n/2 with the per-axis offsets `o` (2^40-sized for f64/X, 2^15-sized for f32): all inputs are exact,
/// all differences of positions are the small half-integers of the base sections, and so are all the oracles
fn far_ball<T: El, B: Ball<T>>(s: &Section, centres: &[P3], radii: &[i64], pairs: &[(i64, i64)], o: &[Dy; 3]) {
    let at = |c: &P3| -> [Dy; 3] { [0, 1, 2].map(|i| o[i].add(Dy::new(c[i] as i128, -1))) };
    let sites = [format!("{}::contains_point<{}>", B::NAME, T::NAME), format!("{}::{}<{}>", B::NAME, B::COLLIDES, T::NAME), format!("{}::{}<{}>", B::NAME, B::CV, T::NAME),
        format!("{}::{}<{}>", B::NAME, B::RECT, T::NAME), format!("{}::{}<{}>", B::NAME, B::AAB, T::NAME), format!("{}::diameter<{}>", B::NAME, T::NAME)];
    centres.par_iter().for_each(|c1| {
        let mut cls = Cls::default();
        let (mut n, mut nt) = (0u64, 0u64);
        let c1t = dyv::<T>(&at(c1));
        for &r in radii {
            let ball = B::make(&c1t, T::frac(r, 2));
            let inp = || json!({"center": jdy(&at(c1), B::D), "radius": jn(r, 2)});
            let lo = dyv::<T>(&at(&[c1[0] - r, c1[1] - r, c1[2] - r]));
            let hi = dyv::<T>(&at(&[c1[0] + r, c1[1] + r, c1[2] + r]));
            let ext = T::frac(r, 1);
            let w = l1(c1) + r.unsigned_abs();
            n += 3; if r != 0 { nt += 3; }
            cls.hit(T::NAME, "bounds");
            if let Some((pos, e)) = s.call(&sites[3], inp, || ball.rect_()) {
                if (0..B::D).any(|i| pos[i] != lo[i] || e[i] != ext) { s.violation_w(&sites[3], "far-from-origin:wrong-bounds", json!({"input": inp(), "got_position": jt(&pos, B::D), "got_extent": jt(&e, B::D), "want_min": jt(&lo, B::D), "want_extent": format!("{:?}", ext)}), w); }
            }
            if let Some((mn, mx)) = s.call(&sites[4], inp, || ball.aab_()) {
                if (0..B::D).any(|i| mn[i] != lo[i] || mx[i] != hi[i]) { s.violation_w(&sites[4], "far-from-origin:wrong-bounds", json!({"input": inp(), "got_min": jt(&mn, B::D), "got_max": jt(&mx, B::D), "want_min": jt(&lo, B::D), "want_max": jt(&hi, B::D)}), w); }
            }
            if let Some(dm) = s.call(&sites[5], inp, || ball.diam()) {
                if dm != ext { s.violation_w(&sites[5], "far-from-origin:wrong-value", json!({"input": inp(), "got": format!("{:?}", dm), "want": format!("{:?}", ext)}), w); }
            }
        }
        for p in centres {
            let pt = dyv::<T>(&at(p));
            let dd = d2(c1, p);
            for &r in radii {
                let want = r >= 0 && dd <= r * r;
                let ball = B::make(&c1t, T::frac(r, 2));
                let inp = || json!({"center": jdy(&at(c1), B::D), "radius": jn(r, 2), "p": jdy(&at(p), B::D)});
                n += 1; if dd != 0 { nt += 1; }
                match s.call(&sites[0], inp, || ball.contains(&pt)) {
                    Some(got) => {
                        cls.hit(T::NAME, if dd < r * r { "inside" } else if dd == r * r { "boundary" } else { "outside" });
                        if got != want { s.violation_w(&sites[0], "far-from-origin:wrong-verdict", json!({"input": inp(), "distance_squared": format!("{:?}", Q::new(dd as i128, 4)), "radius_squared": format!("{:?}", Q::new((r * r) as i128, 4)), "got": got, "want": want}), l1(c1) + l1(p) + r.unsigned_abs()); }
                        if dd == r * r && dd != 0 && s.wants_sample() { s.sample(json!({"site": sites[0], "input": inp(), "got": got, "want": want})); }
                    }
                    None => cls.hit(T::NAME, "unmodelled-distance"),
                }
            }
            for &(r1, r2) in pairs {
                let (a, b) = (B::make(&c1t, T::frac(r1, 2)), B::make(&pt, T::frac(r2, 2)));
                let rsum = r1 + r2;
                let rr = rsum * rsum;
                let inp = || json!({"self": {"center": jdy(&at(c1), B::D), "radius": jn(r1, 2)}, "other": {"center": jdy(&at(p), B::D), "radius": jn(r2, 2)}});
                let w = l1(c1) + l1(p) + r1.unsigned_abs() + r2.unsigned_abs();
                let want = rsum >= 0 && dd <= rr;
                n += 1; if dd != 0 { nt += 1; }
                match s.call(&sites[1], inp, || a.collides(b)) {
                    Some(got) => {
                        cls.hit(T::NAME, if dd < rr { "overlapping" } else if dd == rr { "tangent" } else { "disjoint" });
                        if got != want { s.violation_w(&sites[1], "far-from-origin:wrong-verdict", json!({"input": inp(), "centre_distance_squared": format!("{:?}", Q::new(dd as i128, 4)), "radius_sum_squared": format!("{:?}", Q::new(rr as i128, 4)), "got": got, "want": want}), w); }
                    }
                    None => cls.hit(T::NAME, "unmodelled-distance"),
                }
                if dd == 0 || rsum < 0 { continue; }
                n += 1; if dd != rr { nt += 1; }
                let Some(cv) = s.call(&sites[2], inp, || a.cv(b)) else { cls.hit(T::NAME, "unmodelled-distance"); continue; };
                cls.hit(T::NAME, if dd < rr { "penetrating" } else if dd == rr { "already-tangent" } else { "separated" });
                // (other.center + cv) - self.center = (c2 - c1)/2 + cv: the offsets cancel exactly
                if T::EXACT {
                    let mut nd = Q::ZERO;
                    let mut ok = true;
                    for i in 0..B::D { match cv[i].exact() { Some(v) => { let t = Q::new((p[i] - c1[i]) as i128, 2).add(v); nd = nd.add(t.mul(t)); } None => ok = false } }
                    let wantq = Q::new(rr as i128, 4);
                    if !ok || nd != wantq { s.violation_w(&sites[2], "far-from-origin:not-tangent-after-move", json!({"input": inp(), "collision_vector": jt(&cv, B::D), "new_centre_distance_squared": format!("{:?}", nd), "want_(r1+r2)^2": format!("{:?}", wantq)}), w); }
                } else {
                    let mut sq = 0f64;
                    for i in 0..B::D { let t = (p[i] - c1[i]) as f64 / 2.0 + cv[i].f(); sq += t * t; }
                    let (nd, wantf) = (sq.sqrt(), rsum as f64 / 2.0);
                    let scale = rsum as f64 / 2.0 + (dd as f64).sqrt() / 2.0 + 1.0;
                    if !T::close(nd, wantf, scale) { s.violation_w(&sites[2], "far-from-origin:not-tangent-after-move", json!({"input": inp(), "collision_vector": jt(&cv, B::D), "new_centre_distance": nd, "want_r1+r2": wantf}), w); }
                }
            }
        }
        s.evals(n, nt);
        cls.flush(s);
    });
}

// ---- B1. bounds with a centre and a radius of unrelated magnitudes ---------------------------------------------
/// min = fl(c - r), max = fl(c + r) (the representable number nearest to the exact value: what one IEEE operation returns; the
/// harness forms it with the tier's own single subtraction/addition and certifies it against the exact rational), rect extent
/// and diameter = 2r exactly (doubling is exact). X: everything exact.
fn mixed_bounds_tier<T: El, B: Ball<T>>(s: &Section, lanes: &[Dy], radii: &[Dy]) {
    let sites = [format!("{}::{}<{}>", B::NAME, B::RECT, T::NAME), format!("{}::{}<{}>", B::NAME, B::AAB, T::NAME), format!("{}::diameter<{}>", B::NAME, T::NAME)];
    // certificate: |fl(x) - x| <= 2^-MANT |x|
    for &cx in lanes { for &cy in lanes { for &cz in lanes {
        if B::D == 2 && cz != lanes[0] { continue; }
        let c = [cx, cy, cz];
        if !dyfit::<T>(&c) { continue; }
        for &r in radii {
            if !r.fits::<T>() { continue; }
            let (ct, rt) = (dyv::<T>(&c), r.t::<T>());
            let ball = B::make(&ct, rt);
            let inp = || json!({"center": jdy(&c, B::D), "radius": jq1(r)});
            let lo = [ct[0] - rt, ct[1] - rt, ct[2] - rt];
            let hi = [ct[0] + rt, ct[1] + rt, ct[2] + rt];
            let ext = rt + rt;
            // certificate of the reference values (exact rationals)
            let mut inexact = false;
            for i in 0..B::D {
                for (v, ex) in [(lo[i], c[i].sub(r)), (hi[i], c[i].add(r))] {
                    let vq = v.exact().expect("finite");
                    let vd = Dy::new(vq.n, -(vq.d.trailing_zeros() as i32));
                    let bound = if ex.m == 0 { Dy::ZERO } else { Dy { m: ex.m, e: ex.e - T::MANT as i32 } };
                    assert!(Dy::le_abs(vd.sub(ex), bound), "oracle error: reference bound is not the nearest representable number");
                    if vd != ex { inexact = true; }
                }
            }
            assert!(ext.exact() == Some(r.q().mul(Q::int(2))), "oracle error: 2r");
            s.class(&format!("{}/{}", T::NAME, if inexact { "centre+-radius rounds" } else { "centre+-radius exact" }));
            let w = (c.iter().map(|x| x.e.unsigned_abs() as u64 + x.bits() as u64).sum::<u64>()) + r.e.unsigned_abs() as u64;
            s.eval(r.m != 0);
            if let Some((pos, e)) = s.call(&sites[0], inp, || ball.rect_()) {
                if (0..B::D).any(|i| pos[i] != lo[i] || e[i] != ext) { s.violation_w(&sites[0], "mixed-magnitude:wrong-bounds", json!({"input": inp(), "got_position": jt(&pos, B::D), "got_extent": jt(&e, B::D), "want_position": jt(&lo, B::D), "want_extent": format!("{:?}", ext)}), w); }
            }
            s.eval(r.m != 0);
            if let Some((mn, mx)) = s.call(&sites[1], inp, || ball.aab_()) {
                if (0..B::D).any(|i| mn[i] != lo[i] || mx[i] != hi[i]) { s.violation_w(&sites[1], "mixed-magnitude:wrong-bounds", json!({"input": inp(), "got_min": jt(&mn, B::D), "got_max": jt(&mx, B::D), "want_min": jt(&lo, B::D), "want_max": jt(&hi, B::D)}), w); }
            }
            s.eval(r.m != 0);
            if let Some(dm) = s.call(&sites[2], inp, || ball.diam()) {
                if dm != ext { s.violation_w(&sites[2], "mixed-magnitude:wrong-value", json!({"input": inp(), "got": format!("{:?}", dm), "want": format!("{:?}", ext)}), w); }
            }
        }
    } } }
}

// ---- B2. collision vector: separation and radii of unrelated magnitudes, nearly unit separations -------------------
/// v = other.center - self.center = dir * 2^ev with an integer (or dyadic) direction of RATIONAL length len, radii (a, b)/2 * 2^er.
/// X: |v + cv|^2 == (r1 + r2)^2 exactly. Floats: |v| is computed exactly by vek (v.v is exact and a perfect square, or v is
/// axis-aligned: sqrt(fl(x^2)) = |x|), mag = fl(rsum - |v|) has error <= eps/2 (rsum + |v|), v/|v| and the product add a relative
/// eps/2 each: |cv - exact| <= 2 eps (rsum + |v|) per component; the harness recomputes |v + cv| in f64 (error < 4 eps64 of it).
fn mixed_cv_tier<T: El, B: Ball<T>>(s: &Section, dirs: &[([Dy; 3], Dy)], evs: &[i32], rpairs: &[(i64, i64)], ers: &[i32]) {
    let site = format!("{}::{}<{}>", B::NAME, B::CV, T::NAME);
    for (dir, len) in dirs {
        if B::D == 2 && dir[2].m != 0 { continue; }
        for &ev in evs { for &er in ers { for &(a, b) in rpairs { for base in [[0i128, 0, 0], [3, -7, 5]] {
            let sc = Dy::p2(ev);
            let v = [dir[0].mul(sc), dir[1].mul(sc), dir[2].mul(sc)];
            let vlen = len.mul(sc);
            let c1 = [Dy::int(base[0]).mul(sc), Dy::int(base[1]).mul(sc), Dy::int(base[2]).mul(sc)];
            let c2 = [c1[0].add(v[0]), c1[1].add(v[1]), c1[2].add(v[2])];
            let (r1, r2) = (Dy::new(a as i128, er - 1), Dy::new(b as i128, er - 1));
            let rsum = r1.add(r2);
            if rsum.m < 0 || !dyfit::<T>(&c1) || !dyfit::<T>(&c2) || !dyfit::<T>(&v) || !r1.fits::<T>() || !r2.fits::<T>() || !rsum.fits::<T>() || !vlen.fits::<T>() { s.class("skipped: not representable in the tier"); continue; }
            let (sa, sb) = (B::make(&dyv::<T>(&c1), r1.t::<T>()), B::make(&dyv::<T>(&c2), r2.t::<T>()));
            let inp = || json!({"self": {"center": jdy(&c1, B::D), "radius": jq1(r1)}, "other": {"center": jdy(&c2, B::D), "radius": jq1(r2)}, "|v|": jq1(vlen)});
            let w = (ev.unsigned_abs() + er.unsigned_abs()) as u64 + (a.unsigned_abs() + b.unsigned_abs()) + dir.iter().map(|x| x.bits() as u64).sum::<u64>();
            let cmp = vlen.q().cmp(rsum.q());
            s.eval(cmp != std::cmp::Ordering::Equal);
            let Some(cv) = s.call(&site, inp, || sa.cv(sb)) else { s.class(&format!("{}/unmodelled", T::NAME)); continue; };
            s.class(&format!("{}/{}", T::NAME, match cmp { std::cmp::Ordering::Less => "penetrating", std::cmp::Ordering::Equal => "already-tangent", _ => "separated" }));
            if ev != er { s.class(&format!("{}/separation and radii at different scales", T::NAME)); }
            if len.m != 1 && dir.iter().filter(|x| x.m != 0).count() == 1 { s.class(&format!("{}/nearly-unit separation", T::NAME)); }
            if T::EXACT {
                let want = rsum.q().mul(rsum.q());
                // (the harness' own rational arithmetic may overflow on a wildly wrong vector: counted as unmodelled, never a verdict)
                let Ok(nd) = catch(|| { let mut nd = Q::ZERO; for i in 0..B::D { let t = v[i].q().add(cv[i].exact().expect("rational")); nd = nd.add(t.mul(t)); } nd }) else { s.unmodelled("oracle rational overflow"); continue; };
                if nd != want { s.violation_w(&site, "mixed-magnitude:not-tangent-after-move", json!({"input": inp(), "collision_vector": jt(&cv, B::D), "new_centre_distance_squared": format!("{:?}", nd), "want_(r1+r2)^2": format!("{:?}", want)}), w); }
            } else {
                let mut sq = 0f64;
                for i in 0..B::D { let t = v[i].q().to_f64() + cv[i].f(); sq += t * t; }
                let (nd, want) = (sq.sqrt(), rsum.q().to_f64());
                let scale = want + vlen.q().to_f64();
                let bound = 8.0 * T::eps().to_f64() * scale + 4.0 * f64::EPSILON * scale;
                if !((nd - want).abs() <= bound) { s.violation_w(&site, "mixed-magnitude:not-tangent-after-move", json!({"input": inp(), "collision_vector": jt(&cv, B::D), "new_centre_distance": nd, "want_r1+r2": want, "bound": bound}), w); }
            }
        } } } }
    }
}

// ---- B3. one-ulp ties: axis-aligned separations, radius = the separation's neighbours ----------------------------
/// centre and query differ along ONE axis by d (any representable number; the subtraction is exact because one of the two
/// coordinates is 0 or the difference is representable): vek's distance is sqrt(fl(d*d)) = |d| exactly (a classical property of
/// correctly rounded binary arithmetic; trivially true in X), so the verdicts must be exactly |d| <= r resp. |d| <= r1 + r2
/// for r one representable number below |d|, |d| itself, one above, and -|d| (sums r1 + r2 chosen exact).
fn ulp_tie_tier<T: El, B: Ball<T>>(s: &Section, ds: &[Dy]) {
    let (site_c, site_k) = (format!("{}::contains_point<{}>", B::NAME, T::NAME), format!("{}::{}<{}>", B::NAME, B::COLLIDES, T::NAME));
    for &d in ds {
        if !d.fits::<T>() || !d.add(d).fits::<T>() { continue; }
        let dt = d.t::<T>();
        for axis in 0..B::D { for sign in [1i128, -1] { for mode in 0..3 {
            // mode 0: centre 0, query +-d e_axis; mode 1: centre +-d e_axis, query 0; mode 2: centre +-d, query +-2d
            let sd = if sign > 0 { d } else { d.neg() };
            let (mut c, mut p) = ([Dy::ZERO; 3], [Dy::ZERO; 3]);
            match mode { 0 => p[axis] = sd, 1 => c[axis] = sd, _ => { c[axis] = sd; p[axis] = sd.add(sd); } }
            let (ct, pt) = (dyv::<T>(&c), dyv::<T>(&p));
            for k in [-1i64, 0, 1, i64::MIN] {
                let r = if k == i64::MIN { -dt } else { dt.nudge(k) };
                let Some(rq) = r.exact() else { continue };
                // exact comparison |d| <= r on dyadics (no cross-multiplication)
                let rd = Dy::new(rq.n, -(rq.d.trailing_zeros() as i32));
                let want = rd.m >= 0 && Dy::le_abs(d, rd);
                let kind = if k == i64::MIN { "radius = -|d|" } else if k < 0 { "radius one step below |d|" } else if k == 0 { "radius = |d|" } else { "radius one step above |d|" };
                let inp = || json!({"center": jdy(&c, B::D), "p": jdy(&p, B::D), "radius": format!("{:?}", rq), "|p - center|": jq1(d)});
                let w = d.bits() as u64 + d.e.unsigned_abs() as u64 + mode as u64;
                s.eval(true);
                if let Some(got) = s.call(&site_c, inp, || B::make(&ct, r).contains(&pt)) {
                    s.class(&format!("{}/{}", T::NAME, kind));
                    if got != want { s.violation_w(&site_c, "ulp-tie:wrong-verdict", json!({"input": inp(), "case": kind, "got": got, "want": want}), w); }
                    if k == -1 && s.wants_sample() { s.sample(json!({"site": site_c, "input": inp(), "case": kind, "got": got, "want": want})); }
                }
                // two shapes: (r/2, r/2), (0, r), (r, 0): every sum is exact
                let half = r * T::frac(1, 2);
                for (r1, r2) in [(half, half), (T::zero(), r), (r, T::zero())] {
                    let inp2 = || json!({"self": {"center": jdy(&c, B::D), "radius": format!("{:?}", r1)}, "other": {"center": jdy(&p, B::D), "radius": format!("{:?}", r2)}, "centre_distance": jq1(d), "radius_sum": format!("{:?}", rq)});
                    s.eval(true);
                    if let Some(got) = s.call(&site_k, inp2, || B::make(&ct, r1).collides(B::make(&pt, r2))) {
                        if got != want { s.violation_w(&site_k, "ulp-tie:wrong-verdict", json!({"input": inp2(), "case": kind, "got": got, "want": want}), w); }
                    }
                }
            }
        } } }
    }
}

// ---- C. rays: exact-by-construction configurations in an axis frame -----------------------------------------------
struct AxCase { tri: [[Dy; 3]; 3], o: [Dy; 3], d: [Dy; 3], u: Dy, v: Dy, tt: Dy, kind: &'static str, fam: &'static str }

/// Local frame (ax1, ax2, ax3) = a signed permutation of the coordinate axes. Triangle v0, v0 + L1 ax1, v0 + L2 ax2 (L1, L2
/// powers of two), direction alpha ax1 + beta ax2 + gamma ax3 (gamma a power of two up to sign), origin chosen such that the
/// line meets the plane at v0 + u L1 ax1 + v L2 ax2 with parameter tt: origin = that point - tt * direction.
/// Closed form: Some(tt) iff u >= 0, v >= 0, u + v <= 1 (gamma != 0: never parallel).
/// In binary floating point every operation of Moeller-Trumbore is exact on these inputs whenever the listed quantities are
/// representable: each cross-product component has one non-zero product, a = -+gamma L1 L2 is a power of two (exact reciprocal),
/// s.h = -+gamma L2 (u L1), d.q = -+gamma L1 (v L2), e2.q = L1 L2 h are sums of at most two exact products with a representable
/// sum, so u, v, u + v (filtered: must be representable) and t are exact and the float verdict/value must equal the rational one.
fn ax_cases<T: El>(th: bool) -> Vec<AxCase> {
    let p = if T::EXACT { 53 } else { T::MANT as i32 };
    let e = Dy::p2(-(p - 1));
    let dl = Dy::p2(-60);
    let (z, one, half, qu) = (Dy::ZERO, Dy::int(1), Dy::p2(-1), Dy::p2(-2));
    let fine: Vec<(Dy, Dy)> = vec![
        (dl.neg(), qu), (z, qu), (dl, qu), (qu, dl.neg()), (qu, z), (qu, dl), (dl.neg(), dl.neg()), (z, z), (dl, dl),
        (half, half), (half, half.add(e)), (half, half.sub(Dy::new(1, -p))), (one, z), (one.add(e), z), (one.sub(Dy::new(1, -p)), z), (z, one), (z, one.add(e)),
        (one, dl), (dl, one), (qu, Dy::new(3, -2)), (qu, Dy::new(3, -2).add(e)), (e.neg(), qu), (qu, e.neg()), (e, e), (e.neg(), one), (one, e.neg()),
    ];
    let cvals = [Dy::new(-1, -2), z, qu, half, one, Dy::new(5, -2)];
    let coarse: Vec<(Dy, Dy)> = cvals.iter().flat_map(|&a| cvals.iter().map(move |&b| (a, b))).collect();
    // (L1, L2, gamma)
    let frames: Vec<(Dy, Dy, Dy, &'static str)> = if T::MANT == 24 {
        vec![(one, one, one.neg(), "unit"), (Dy::int(4), half, Dy::int(2), "unit"), (Dy::p2(6), Dy::p2(-14), one, "thin triangle"), (Dy::p2(6), one, Dy::p2(-14), "short direction"), (Dy::p2(12), Dy::p2(12), Dy::p2(-25).neg(), "large triangle, grazing direction")]
    } else {
        vec![(one, one, one.neg(), "unit"), (Dy::int(4), half, Dy::int(2), "unit"), (Dy::p2(10), Dy::p2(-30), one, "thin triangle"), (Dy::p2(10), one, Dy::p2(-30), "short direction"), (Dy::p2(30), Dy::p2(30), Dy::p2(-55).neg(), "large triangle, grazing direction")]
    };
    let big = if T::MANT == 24 { Dy::p2(8) } else { Dy::p2(20) };
    let slopes = [(z, z), (one, z), (Dy::int(-3), Dy::int(2)), (big, big.neg())];
    let perms: [[usize; 3]; 6] = [[0, 1, 2], [0, 2, 1], [1, 0, 2], [1, 2, 0], [2, 0, 1], [2, 1, 0]];
    let signs: &[[i128; 3]] = if th { &[[1, 1, 1], [-1, 1, -1], [1, -1, -1], [-1, -1, 1], [1, 1, -1]] } else { &[[1, 1, 1], [-1, 1, -1], [1, -1, -1]] };
    let guard = qpow2(-(T::GUARD_BITS as i32));
    let mut out = Vec::new();
    for &(l1_, l2_, g, fam) in &frames {
        assert!(l1_.mul(l2_).mul(g).abs().q() >= guard, "frame inside vek's epsilon guard");
        for (is_fine, uvs) in [(true, &fine), (false, &coarse)] {
            for &(u, v) in uvs.iter() { for &(al, be) in &slopes {
                let tts: Vec<Dy> = if is_fine { if al.m == 0 && be.m == 0 { vec![one, Dy::int(-2), z] } else { vec![z] } } else { vec![one, Dy::int(-2), Dy::p2(-(if T::MANT == 24 { 8 } else { 20 }))] };
                for tt in tts {
                    let x = u.mul(l1_).sub(tt.mul(al));
                    let y = v.mul(l2_).sub(tt.mul(be));
                    let hh = tt.mul(g).neg();
                    let sum = u.add(v);
                    if !(x.fits::<T>() && y.fits::<T>() && hh.fits::<T>() && u.fits::<T>() && v.fits::<T>() && sum.fits::<T>()) { continue; }
                    let hit = u.m >= 0 && v.m >= 0 && sum.q() <= Q::ONE;
                    let zeros = (u.m == 0) as u8 + (v.m == 0) as u8 + (sum.q() == Q::ONE) as u8;
                    let kind = if !hit { if is_fine { "barely-outside" } else { "miss" } } else { match zeros { 0 => if is_fine { "barely-inside" } else { "interior" }, 1 => "edge", _ => "vertex" } };
                    for v0l in [[z, z, z], [Dy::int(3), Dy::int(-7), Dy::int(5)]] {
                        let loc_tri = [v0l, [v0l[0].add(l1_), v0l[1], v0l[2]], [v0l[0], v0l[1].add(l2_), v0l[2]]];
                        let loc_o = [v0l[0].add(x), v0l[1].add(y), v0l[2].add(hh)];
                        let loc_d = [al, be, g];
                        if !(loc_tri.iter().all(dyfit::<T>) && dyfit::<T>(&loc_o) && dyfit::<T>(&loc_d)) { continue; }
                        for pm in perms { for sg in signs {
                            let map = |l: &[Dy; 3]| -> [Dy; 3] { let mut gl = [z; 3]; for i in 0..3 { gl[pm[i]] = if sg[i] < 0 { l[i].neg() } else { l[i] }; } gl };
                            out.push(AxCase { tri: [map(&loc_tri[0]), map(&loc_tri[1]), map(&loc_tri[2])], o: map(&loc_o), d: map(&loc_d), u, v, tt, kind, fam });
                        } }
                    }
                }
            } }
        }
    }
    out
}

fn ax_ray_tier<T: El>(s: &Section, th: bool) {
    let site = format!("Ray::triangle_intersection<{}>", T::NAME);
    let cases = ax_cases::<T>(th);
    s.meta(&format!("cases_{}", T::NAME), json!(cases.len()));
    cases.par_chunks(2048).for_each(|chunk| {
        let mut cls = Cls::default();
        let mut n = 0u64;
        for c in chunk {
            let tri = [v3(&dyv::<T>(&c.tri[0])), v3(&dyv::<T>(&c.tri[1])), v3(&dyv::<T>(&c.tri[2]))];
            let ray = Ray::new(v3(&dyv::<T>(&c.o)), v3(&dyv::<T>(&c.d)));
            let hit = c.u.m >= 0 && c.v.m >= 0 && c.u.add(c.v).q() <= Q::ONE;
            let want: Option<Q> = if hit { Some(c.tt.q()) } else { None };
            let inp = || json!({"triangle": [jdy(&c.tri[0], 3), jdy(&c.tri[1], 3), jdy(&c.tri[2], 3)], "origin": jdy(&c.o, 3), "direction": jdy(&c.d, 3), "barycentric_u_v": [jq1(c.u), jq1(c.v)], "u+v": jq1(c.u.add(c.v)), "t": jq1(c.tt), "configuration": c.fam});
            let w = (c.u.bits() + c.v.bits() + c.tt.bits()) as u64 + c.tri.iter().chain([c.o, c.d].iter()).map(|p| p.iter().map(|x| x.bits() as u64).sum::<u64>()).sum::<u64>();
            n += 1;
            cls.hit(T::NAME, c.kind);
            if c.fam != "unit" { cls.hit(T::NAME, c.fam); }
            let got = match catch(|| ray.triangle_intersection(tri)) {
                Ok(g) => g,
                Err(Caught::Unmodelled(why)) => { s.unmodelled(why); continue; }
                Err(Caught::Panic(m)) => { s.violation_w(&site, "panic", json!({"input": inp(), "panic": m}), w); continue; }
            };
            let gq: Option<Option<Q>> = got.map(|x| x.exact());
            if gq != want.map(Some) {
                let class = match (gq, want) { (None, Some(_)) => "axis-frame:missed-hit", (Some(_), None) => "axis-frame:false-hit", _ => "axis-frame:wrong-distance" };
                s.violation_w(&site, class, json!({"input": inp(), "case": c.kind, "got": format!("{:?}", got), "want": format!("{:?}", want)}), w);
            }
            if c.kind == "barely-outside" && s.wants_sample() { s.sample(json!({"site": site, "input": inp(), "case": c.kind, "got": format!("{:?}", got), "want": format!("{:?}", want)})); }
        }
        s.evals(n, n);
        cls.flush(s);
    });
}

// ---- D. rays: float tiers outside the exact-reciprocal sub-space, triangles far from the origin -------------------
fn adot3(a: &[i128; 3], b: &[i128; 3]) -> i128 { (a[0] * b[0]).abs() + (a[1] * b[1]).abs() + (a[2] * b[2]).abs() }
fn across3(a: &[i128; 3], b: &[i128; 3]) -> i128 { (0..3).map(|i| (a[(i + 1) % 3] * b[(i + 2) % 3]).abs() + (a[(i + 2) % 3] * b[(i + 1) % 3]).abs()).max().unwrap() }
fn w3(a: &P3) -> [i128; 3] { [a[0] as i128, a[1] as i128, a[2] as i128] }

/// float tiers on integer inputs whose Cramer determinant is NOT a power of two (the cases `ray_case` skips). All vertices,
/// origins and directions are integers (+ a common offset `off` that cancels exactly in v1 - v0, v2 - v0, origin - v0), and every
/// product and partial sum of Moeller-Trumbore stays below 2^MANT (checked case by case with a bound on the sum of magnitudes), so
/// a, s.h, d.q, e2.q are exact integers and the only roundings are f = fl(1/a) and one multiplication:
/// u, v, t carry a relative error <= (1 + eps/2)^2 - 1 < 2 eps and have the exact sign. Hence: exact u < 0 or v < 0 => None;
/// exact u > 1 or u + v > 1 => at least 1 + 1/|det| > 1 + 4 eps => None; exact hit with u + v < 1 => Some(t') with
/// |t' - t| <= 2 eps |t|; exact u + v = 1 is a rounding tie for the float code: verdict left open (value checked if Some).
fn ray_inexact<T: El>(s: &Section, cases: &[([P3; 3], P3, P3)], off: &P3, pre: &str) {
    let site = format!("Ray::triangle_intersection<{}>", T::NAME);
    let lim = 1i128 << T::MANT;
    let rel = Q::new(1, 1i128 << (T::EPS_BITS - 1));
    cases.par_chunks(4096).for_each(|chunk| {
        let mut cls = Cls::default();
        let mut n = 0u64;
        for (tri, o, d) in chunk {
            let (e1, e2, sv, dv) = (w3(&sub3(&tri[1], &tri[0])), w3(&sub3(&tri[2], &tri[0])), w3(&sub3(o, &tri[0])), w3(d));
            let md = [-dv[0], -dv[1], -dv[2]];
            let colm = |a: &[i128; 3], b: &[i128; 3], c: &[i128; 3]| -> A<i128, 3> { let mut m = [[0i128; 3]; 3]; for i in 0..3 { m[i] = [a[i], b[i], c[i]]; } m };
            let det0 = det(&colm(&e1, &e2, &md));
            if det0 == 0 || (det0.unsigned_abs() & (det0.unsigned_abs() - 1)) == 0 { continue; }
            let h = cross3(&dv, &e2);
            let qv = cross3(&sv, &e1);
            let coord_max = tri.iter().chain([*o].iter()).map(|p| (0..3).map(|i| (p[i] as i128 + off[i] as i128).abs()).max().unwrap()).max().unwrap();
            let big = [across3(&dv, &e2), adot3(&e1, &h), adot3(&sv, &h), across3(&sv, &e1), adot3(&dv, &qv), adot3(&e2, &qv), coord_max].into_iter().max().unwrap();
            if big >= lim { cls.hit(T::NAME, "skipped-products-not-exact"); continue; }
            let (du, dvv, dt) = (det(&colm(&sv, &e2, &md)), det(&colm(&e1, &sv, &md)), det(&colm(&e1, &e2, &sv)));
            let (u, v, t) = (Q::new(du, det0), Q::new(dvv, det0), Q::new(dt, det0));
            let sum = u.add(v);
            let hit = u >= Q::ZERO && v >= Q::ZERO && sum <= Q::ONE;
            let tie = hit && sum == Q::ONE;
            let ov = |p: &P3| -> [T; 3] { [T::frac(p[0] + off[0], 1), T::frac(p[1] + off[1], 1), T::frac(p[2] + off[2], 1)] };
            let tt = [v3(&ov(&tri[0])), v3(&ov(&tri[1])), v3(&ov(&tri[2]))];
            let ray = Ray::new(v3(&ov(o)), v3(&tv::<T>(d, 1)));
            let inp = || json!({"triangle": tri, "origin": o, "direction": d, "common_offset_added_to_vertices_and_origin": off, "cramer": {"det": det0.to_string(), "u": format!("{:?}", u), "v": format!("{:?}", v), "t": format!("{:?}", t)}});
            let w = l1(&tri[0]) + l1(&tri[1]) + l1(&tri[2]) + l1(o) + l1(d);
            n += 1;
            let Some(got) = s.call(&site, inp, || ray.triangle_intersection(tt)) else { continue };
            cls.hit(T::NAME, if tie { "inexact-reciprocal: u+v = 1 (verdict open)" } else if hit { "inexact-reciprocal: hit" } else { "inexact-reciprocal: miss" });
            match got {
                None => if hit && !tie { s.violation_w(&site, &format!("{}inexact-reciprocal:missed-hit", pre), json!({"input": inp(), "got": "None"}), w); },
                Some(g) => {
                    if !hit { s.violation_w(&site, &format!("{}inexact-reciprocal:false-hit", pre), json!({"input": inp(), "got": g.f()}), w); }
                    else {
                        let ok = match g.exact() { Some(gq) => gq.sub(t).abs() <= t.abs().mul(rel), None => false };
                        if !ok { s.violation_w(&site, &format!("{}inexact-reciprocal:wrong-distance", pre), json!({"input": inp(), "got": g.f(), "want": t.to_f64(), "allowed_relative_error": rel.to_f64()}), w); }
                    }
                }
            }
        }
        s.evals(n, n);
        cls.flush(s);
    });
}

/// a smaller list of aimed cases (two scalene triangles of TRIS, all vertex orders, the 49 targets, directions {-1,0,1}^3, four parameters)
fn aimed_small() -> Vec<([P3; 3], P3, P3)> {
    let dirs: Vec<P3> = cube(&[-1, 0, 1], 3).into_iter().filter(|d| *d != [0, 0, 0]).chain([[2, -1, 1], [1, 2, -2], [-2, 1, 2]]).collect();
    let perms: [[usize; 3]; 6] = [[0, 1, 2], [0, 2, 1], [1, 0, 2], [1, 2, 0], [2, 0, 1], [2, 1, 0]];
    let mut out = Vec::new();
    for [v0, a, b] in [TRIS[0], TRIS[2]] {
        let vs: [P3; 3] = [v0, [0, 1, 2].map(|i| v0[i] + 4 * a[i]), [0, 1, 2].map(|i| v0[i] + 4 * b[i])];
        for pm in perms {
            let tri = [vs[pm[0]], vs[pm[1]], vs[pm[2]]];
            for i in -1..=5i64 { for j in -1..=5i64 {
                let target: P3 = [0, 1, 2].map(|k| v0[k] + i * a[k] + j * b[k]);
                for d in &dirs { for t in [-2i64, 0, 1, 3] { out.push((tri, [0, 1, 2].map(|k| target[k] - t * d[k]), *d)); } }
            } }
        }
    }
    out
}
fn translate(cases: &[([P3; 3], P3, P3)], off: &P3) -> Vec<([P3; 3], P3, P3)> {
    let mv = |p: &P3| -> P3 { [p[0] + off[0], p[1] + off[1], p[2] + off[2]] };
    cases.iter().map(|(t, o, d)| ([mv(&t[0]), mv(&t[1]), mv(&t[2])], mv(o), *d)).collect()
}

// ---- E. segments: end points, mid points and perpendicular offsets that are exact by construction -------------------
/// start = (S, S, S) + nothing else, e = +-2^b on one axis or on two axes; queries: end, start, end + e, start - e, start + e/2,
/// end + 3*2^b on a perpendicular axis. On these inputs p - start, (p - start).e, |e|^2 are exact, t is exactly 1, 0, 1, 0, 1/2, 1
/// (after clamping) and start + e*t is representable: any implementation that evaluates the formula of the property returns the
/// expected point EXACTLY, in every tier, and the distance (0, |e| or 3*2^b: square roots of exact squares) as well.
/// (S, b) include a segment between two ADJACENT floats far from the origin whose squared length is still above vek's epsilon guard.
fn seg_ends_tier<T: El, S: Seg<T>>(s: &Section, sbs: &[(Dy, i32)]) {
    let (site_p, site_d) = (format!("{}::projected_point<{}>", S::NAME, T::NAME), format!("{}::distance_to_point<{}>", S::NAME, T::NAME));
    let guard = qpow2(-(T::GUARD_BITS as i32));
    for &(s0, b) in sbs {
        let step = Dy::p2(b);
        let mut shapes: Vec<[Dy; 3]> = Vec::new();
        for ax in 0..S::D { for sg in [1, -1] {
            let mut e = [Dy::ZERO; 3]; e[ax] = if sg > 0 { step } else { step.neg() }; shapes.push(e);
            let ax2 = (ax + 1) % S::D;
            for sg2 in [1, -1] { let mut e2 = e; e2[ax2] = if sg2 > 0 { step } else { step.neg() }; shapes.push(e2); }
        } }
        for e in shapes {
            let start = [s0, s0, if S::D == 3 { s0 } else { Dy::ZERO }];
            let end = [start[0].add(e[0]), start[1].add(e[1]), start[2].add(e[2])];
            let lanes_e = e.iter().filter(|x| x.m != 0).count();
            let len_sq = Q::int(lanes_e as i128).mul(step.q()).mul(step.q());
            assert!(len_sq > guard, "segment inside vek's epsilon guard");
            if !dyfit::<T>(&start) || !dyfit::<T>(&end) { s.class("skipped: not representable in the tier"); continue; }
            let adjacent = !T::EXACT && s0.m > 0 && (s0.t::<T>().nudge(1).exact() == Some(s0.add(step).q()));
            let seg = S::make(&dyv::<T>(&start), &dyv::<T>(&end));
            // (query, expected point, expected distance if rational, name)
            let mut qs: Vec<([Dy; 3], [Dy; 3], Option<Dy>, &'static str)> = vec![
                (end, end, Some(Dy::ZERO), "query = end"),
                (start, start, Some(Dy::ZERO), "query = start"),
                ([end[0].add(e[0]), end[1].add(e[1]), end[2].add(e[2])], end, if lanes_e == 1 { Some(step) } else { None }, "query beyond end"),
                ([start[0].sub(e[0]), start[1].sub(e[1]), start[2].sub(e[2])], start, if lanes_e == 1 { Some(step) } else { None }, "query before start"),
            ];
            let hf = Dy::p2(-1);
            let mid = [start[0].add(e[0].mul(hf)), start[1].add(e[1].mul(hf)), start[2].add(e[2].mul(hf))];
            qs.push((mid, mid, Some(Dy::ZERO), "query = mid point"));
            for ax in 0..S::D { if e[ax].m == 0 {
                let off = Dy::new(3, b);
                let mut p = end; p[ax] = p[ax].add(off);
                qs.push((p, end, Some(off), "query = end + perpendicular offset"));
                let mut p = start; p[ax] = p[ax].sub(off);
                qs.push((p, start, Some(off), "query = start + perpendicular offset"));
            } }
            // a parameter just above 0 / just below 1 (S = 0, single-axis e): foot = start + tau e with tau = 2^-60 resp. 1 - eps/2,
            // query = foot + 3*2^b on a perpendicular axis: (p - start).e = tau |e|^2, the quotient is tau and tau e is representable
            if s0.m == 0 && lanes_e == 1 {
                let pm = if T::EXACT { 53 } else { T::MANT as i32 };
                for (tau, name) in [(Dy::p2(-60), "parameter just above 0"), (Dy::int(1).sub(Dy::p2(-pm)), "parameter just below 1")] {
                    for ax in 0..S::D { if e[ax].m == 0 {
                        let off = Dy::new(3, b);
                        let foot = [start[0].add(e[0].mul(tau)), start[1].add(e[1].mul(tau)), start[2].add(e[2].mul(tau))];
                        let mut p = foot; p[ax] = p[ax].add(off);
                        qs.push((p, foot, Some(off), name));
                    } }
                }
            }
            for (p, want, wd, name) in qs {
                if !dyfit::<T>(&p) || !dyfit::<T>(&want) { s.class("skipped: not representable in the tier"); continue; }
                let (pt, wt) = (dyv::<T>(&p), dyv::<T>(&want));
                let inp = || json!({"start": jdy(&start, S::D), "end": jdy(&end, S::D), "p": jdy(&p, S::D), "case": name, "end is the float next to start": adjacent});
                let w = s0.bits() as u64 + s0.e.unsigned_abs() as u64 + b.unsigned_abs() as u64 + lanes_e as u64;
                s.eval(true);
                s.class(&format!("{}/{}", T::NAME, name));
                if adjacent { s.class(&format!("{}/adjacent-floats segment", T::NAME)); }
                if let Some(g) = s.call(&site_p, inp, || S::proj(seg, &pt)) {
                    if (0..S::D).any(|i| g[i] != wt[i]) { s.violation_w(&site_p, "end-point:wrong-point", json!({"input": inp(), "got": jt(&g, S::D), "want": jdy(&want, S::D)}), w); }
                }
                if let Some(wd) = wd {
                    s.eval(true);
                    if let Some(g) = s.call(&site_d, inp, || S::dist(seg, &pt)) {
                        if g != wd.t::<T>() { s.violation_w(&site_d, "end-point:wrong-distance", json!({"input": inp(), "got": format!("{:?}", g), "want": jq1(wd)}), w); }
                    }
                }
            }
        }
    }
}

// ---- F. bounds on the whole integer family --------------------------------------------------------------------------
macro_rules! int_bounds {
    ($s:ident, $tag:expr, $T:ty, $mk:expr) => {{
        let mk: fn(i64) -> $T = $mk;
        for c in cube(&[5, 9, 20], 3) { for r in [0i64, 1, 3, 5] {
            let inp = || json!({"center": c, "radius": r, "type": $tag});
            let w = l1(&c) + r as u64;
            if c[2] == 5 {
                let dk: Disk<$T, $T> = Disk { center: Vec2 { x: mk(c[0]), y: mk(c[1]) }, radius: mk(r) };
                let site = format!("Disk::aabr<{}>", $tag);
                $s.eval(r != 0);
                if let Some(a) = $s.call(&site, inp, || dk.aabr()) { if (a.min.x, a.min.y, a.max.x, a.max.y) != (mk(c[0] - r), mk(c[1] - r), mk(c[0] + r), mk(c[1] + r)) { $s.violation_w(&site, "wrong-bounds", json!({"input": inp(), "got": jd(&a)}), w); } }
                let site = format!("Disk::rect<{}>", $tag);
                $s.eval(r != 0);
                if let Some(a) = $s.call(&site, inp, || dk.rect()) { if (a.x, a.y, a.w, a.h) != (mk(c[0] - r), mk(c[1] - r), mk(2 * r), mk(2 * r)) { $s.violation_w(&site, "wrong-bounds", json!({"input": inp(), "got": jd(&a)}), w); } }
                let site = format!("Disk::diameter<{}>", $tag);
                $s.eval(r != 0);
                if let Some(a) = $s.call(&site, inp, || dk.diameter()) { if a != mk(2 * r) { $s.violation_w(&site, "wrong-value", json!({"input": inp(), "got": jd(&a)}), w); } }
            }
            let sp: Sphere<$T, $T> = Sphere { center: Vec3 { x: mk(c[0]), y: mk(c[1]), z: mk(c[2]) }, radius: mk(r) };
            let site = format!("Sphere::aabb<{}>", $tag);
            $s.eval(r != 0);
            if let Some(a) = $s.call(&site, inp, || sp.aabb()) { if (a.min.x, a.min.y, a.min.z, a.max.x, a.max.y, a.max.z) != (mk(c[0] - r), mk(c[1] - r), mk(c[2] - r), mk(c[0] + r), mk(c[1] + r), mk(c[2] + r)) { $s.violation_w(&site, "wrong-bounds", json!({"input": inp(), "got": jd(&a)}), w); } }
            let site = format!("Sphere::rect3<{}>", $tag);
            $s.eval(r != 0);
            if let Some(a) = $s.call(&site, inp, || sp.rect3()) { if (a.x, a.y, a.z, a.w, a.h, a.d) != (mk(c[0] - r), mk(c[1] - r), mk(c[2] - r), mk(2 * r), mk(2 * r), mk(2 * r)) { $s.violation_w(&site, "wrong-bounds", json!({"input": inp(), "got": jd(&a)}), w); } }
            let site = format!("Sphere::diameter<{}>", $tag);
            $s.eval(r != 0);
            if let Some(a) = $s.call(&site, inp, || sp.diameter()) { if a != mk(2 * r) { $s.violation_w(&site, "wrong-value", json!({"input": inp(), "got": jd(&a)}), w); } }
            $s.class($tag);
        } }
    }};
}

// ---------------------------------------------------------------------------------------------

fn main() {
    let rep = Report::start("C16", "exploration");
    let th = rep.thorough();
    let tiers = ["f64", "f32", "X"];

    // half-unit grids: quick = integer centres (even half-units), thorough = all half-integers
    let radii: Vec<i64> = if th { vec![0, 1, 2, 3, 4, 7, 10] } else { vec![0, 1, 2, 4, 10] };
    let g2: Vec<i64> = if th { range(-6, 6, 1) } else { range(-6, 6, 2) };
    let g3: Vec<i64> = if th { range(-6, 6, 2) } else { range(-4, 4, 2) };
    let (c2, c3) = (cube(&g2, 2), cube(&g3, 3));
    let exact_note = "all inputs are half-integers, so every tier holds them exactly and 4*d^2 is an exact integer; the f32/f64 verdict sqrt(d^2) <= R is exact because sqrt is correctly rounded and monotone: in the boundary case d^2 = R^2 is the square of a half-integer and its sqrt is exactly R, and otherwise |4d^2 - 4R^2| >= 1 puts sqrt(d^2) at least 1/(4(d+R)) > 1/200 away from R, far more than an ulp; X (exact rationals) answers on the Pythagorean subset (d rational) and reports the rest as unmodelled (irrational sqrt), counted by class";

    rep.section("Disk/Sphere contains_point",
        &format!("every centre on the grid ({} Disk centres in 2-D, {} Sphere centres in 3-D; coordinates in {{-3..3}} resp. quick {{-2..2}}^3, thorough adds half-integers in 2-D) x radii {:?}/2 x every grid point as query, tiers f64, f32, X; oracle: integer comparison 4d^2 <= 4r^2; {}; non-trivial: query point differs from the centre", c2.len(), c3.len(), radii, exact_note),
        true, false, |s| {
            require_tiers(s, &tiers, &["inside", "boundary", "outside"]);
            contains_tier::<f64, Disk<f64, f64>>(s, &c2, &radii, &c2, 0, "");
            contains_tier::<f32, Disk<f32, f32>>(s, &c2, &radii, &c2, 0, "");
            contains_tier::<X, Disk<X, X>>(s, &c2, &radii, &c2, 0, "");
            contains_tier::<f64, Sphere<f64, f64>>(s, &c3, &radii, &c3, 0, "");
            contains_tier::<f32, Sphere<f32, f32>>(s, &c3, &radii, &c3, 0, "");
            contains_tier::<X, Sphere<X, X>>(s, &c3, &radii, &c3, 0, "");
            s.meta("grids_half_units", json!({"disk": g2, "sphere": g3, "radii": radii}));
        });

    rep.section("Disk/Sphere collides_with_*",
        &format!("every ordered pair of centres on the grid ({}^2 Disk pairs, {}^2 Sphere pairs) x every ordered pair of radii from {:?}/2, tiers f64, f32, X; oracle: integer comparison 4d^2 <= (2r1+2r2)^2; {}; non-trivial: distinct centres", c2.len(), c3.len(), radii, exact_note),
        true, false, |s| {
            require_tiers(s, &tiers, &["overlapping", "tangent", "disjoint"]);
            collides_tier::<f64, Disk<f64, f64>>(s, &c2, &radii, 0, "");
            collides_tier::<f32, Disk<f32, f32>>(s, &c2, &radii, 0, "");
            collides_tier::<X, Disk<X, X>>(s, &c2, &radii, 0, "");
            collides_tier::<f64, Sphere<f64, f64>>(s, &c3, &radii, 0, "");
            collides_tier::<f32, Sphere<f32, f32>>(s, &c3, &radii, 0, "");
            collides_tier::<X, Sphere<X, X>>(s, &c3, &radii, 0, "");
        });

    rep.section("Disk/Sphere collision_vector_with_*",
        "same pairs of shapes as the collides section minus coincident centres (the vector's direction is undefined there: 0/0, excluded and counted); claim: after translating OTHER by the returned vector (vek: v = other.center - self.center, result v/|v| * (r1+r2-|v|)) the centre distance is r1+r2. X: exact equality of squared distances on the Pythagorean subset (others unmodelled: irrational sqrt); f64/f32: new distance recomputed in f64 from the returned fields, bound 256*eps*(r1+r2+d+1) (inputs exact, the code performs one sqrt, one division and a handful of +,* per component); non-trivial: shapes not already tangent (vector non-zero)",
        true, false, |s| {
            require_tiers(s, &tiers, &["penetrating", "already-tangent", "separated"]);
            cv_tier::<f64, Disk<f64, f64>>(s, &c2, &radii, 0, "");
            cv_tier::<f32, Disk<f32, f32>>(s, &c2, &radii, 0, "");
            cv_tier::<X, Disk<X, X>>(s, &c2, &radii, 0, "");
            cv_tier::<f64, Sphere<f64, f64>>(s, &c3, &radii, 0, "");
            cv_tier::<f32, Sphere<f32, f32>>(s, &c3, &radii, 0, "");
            cv_tier::<X, Sphere<X, X>>(s, &c3, &radii, 0, "");
        });

    rep.section("Disk/Sphere rect/rect3/aabr/aabb/diameter",
        "every centre x radius of the grids above, tiers f64, f32, X (half-integers: all additions exact, so floats are compared with ==) plus Disk<i32,i32>/Sphere<i32,i32> on integer centres {-3..3}^d x radii {0,1,2,5} (thorough: also {-6..6}^d x {0,1,2,3,5,8,13,1000}): rect position = centre - r, extent = 2r, position + extent = centre + r per axis; aabr/aabb min = centre - r, max = centre + r; diameter = 2r; non-trivial: r > 0",
        true, false, |s| {
            require_tiers(s, &["f64", "f32", "X", "i32"], &["radius-zero", "radius-positive"]);
            bounds_tier::<f64, Disk<f64, f64>>(s, &c2, &radii, 0, "");
            bounds_tier::<f32, Disk<f32, f32>>(s, &c2, &radii, 0, "");
            bounds_tier::<X, Disk<X, X>>(s, &c2, &radii, 0, "");
            bounds_tier::<f64, Sphere<f64, f64>>(s, &c3, &radii, 0, "");
            bounds_tier::<f32, Sphere<f32, f32>>(s, &c3, &radii, 0, "");
            bounds_tier::<X, Sphere<X, X>>(s, &c3, &radii, 0, "");
            bounds_i32(s, &range(-3, 3, 1), &[0, 1, 2, 5]);
            if th { bounds_i32(s, &range(-6, 6, 1), &[0, 1, 2, 3, 5, 8, 13, 1000]); }
        });

    let (den, maxr) = if th { (8i64, 50i64) } else { (4, 10) };
    let fr: Vec<(i64, i64)> = (0..=maxr * den).map(|k| (k, den)).collect();
    let mut xr = fr.clone();
    for d in [3i64, 7] { for k in 1..=(if th { 60 } else { 12 }) { xr.push((k, d)); } }
    rep.section("circumference/area/surface_area/volume",
        &format!("radii k/{} for k = 0..={} (all tiers) and k/3, k/7 (X only). X: FloatConst::PI() is the angle token 2*(pi/2); the result must be, structurally, the token (coefficient)*pi with coefficient 2r, r^2, 4r^2, 4r^3/3 computed in Q (no numeric value of pi involved). f32/f64: the returned float, converted exactly to a rational, must be within 4*eps*|want| of coefficient*pi with pi to 18 digits, decided in checked integer arithmetic (vek performs at most 4 roundings plus the rounded constant: relative error < 5.4 * eps/2); non-trivial: r > 0", den, maxr * den),
        true, false, |s| {
            require_tiers(s, &tiers, &["radius-zero", "radius-positive"]);
            measures_tier::<f64, Disk<f64, f64>>(s, &fr, &[0, 0, 0], 0, "");
            measures_tier::<f32, Disk<f32, f32>>(s, &fr, &[0, 0, 0], 0, "");
            measures_tier::<X, Disk<X, X>>(s, &xr, &[0, 0, 0], 0, "");
            measures_tier::<f64, Sphere<f64, f64>>(s, &fr, &[0, 0, 0], 0, "");
            measures_tier::<f32, Sphere<f32, f32>>(s, &fr, &[0, 0, 0], 0, "");
            measures_tier::<X, Sphere<X, X>>(s, &xr, &[0, 0, 0], 0, "");
            // the measures do not depend on where the shape is: same radii, off-origin centre with three distinct coordinates
            let off: P3 = [3, -7, 5];
            measures_tier::<f64, Disk<f64, f64>>(s, &fr, &off, 0, "off-centre:");
            measures_tier::<f32, Disk<f32, f32>>(s, &fr, &off, 0, "off-centre:");
            measures_tier::<X, Disk<X, X>>(s, &xr, &off, 0, "off-centre:");
            measures_tier::<f64, Sphere<f64, f64>>(s, &fr, &off, 0, "off-centre:");
            measures_tier::<f32, Sphere<f32, f32>>(s, &fr, &off, 0, "off-centre:");
            measures_tier::<X, Sphere<X, X>>(s, &xr, &off, 0, "off-centre:");
        });

    let seg_classes = ["degenerate-segment", "beyond-start", "foot-at-start", "interior-foot", "foot-at-end", "beyond-end", "point-on-segment", "range-roundtrip", "range-roundtrip-degenerate", "X/distance-exact", "f64/interior-foot", "f32/interior-foot", "f64/degenerate-segment", "f32/degenerate-segment", "f64/projected-point", "f32/projected-point"];
    let seg_rule = "X: projected_point (i) lies on the segment (collinear with and between the end points; equals start for a degenerate segment), (ii) no sampled point start + (k/24)(end-start), k = 0..24, is strictly nearer to p, (iii) its squared distance to p equals the closed-form minimum (|p-a|^2 if (p-a).e <= 0, |p-b|^2 if >= |e|^2, else |p-a|^2 - ((p-a).e)^2/|e|^2); distance_to_point: X exact (d >= 0 and d^2 = that minimum) where the minimum is a rational square, unmodelled (irrational sqrt) otherwise; f64/f32: within 256*eps*(|a|+|b|+|p|) (1-norms) of sqrt(minimum) (inputs exact; the code does one division, one sqrt and a few +,*), and projected_point<f64/f32> itself: every component within the same bound of the exact foot (start exactly for a degenerate segment); From<Range>/into_range keep start and end field for field; non-trivial: non-degenerate segment";
    let (e2v, p2v) = if th { (range(-3, 3, 1), range(-4, 4, 1)) } else { (range(-2, 2, 1), range(-3, 3, 1)) };
    rep.section("LineSegment2 projected_point/distance_to_point/range",
        &format!("all {} ordered pairs of end points on {{{}..{}}}^2 (degenerate included) x all points of {{{}..{}}}^2. {}", e2v.len().pow(4), e2v[0], e2v[e2v.len() - 1], p2v[0], p2v[p2v.len() - 1], seg_rule),
        true, false, |s| {
            s.require_classes(&seg_classes);
            let (ends, pts) = (cube(&e2v, 2), cube(&p2v, 2));
            seg_exact::<LineSegment2<X>>(s, &ends, &pts, 0, "");
            seg_float::<f64, LineSegment2<f64>>(s, &ends, &pts, 0, "");
            seg_float::<f32, LineSegment2<f32>>(s, &ends, &pts, 0, "");
        });
    let (e3v, p3v) = if th { (range(-2, 2, 1), range(-3, 3, 1)) } else { (range(-1, 1, 1), range(-2, 2, 1)) };
    rep.section("LineSegment3 projected_point/distance_to_point/range",
        &format!("all {} ordered pairs of end points on {{{}..{}}}^3 (degenerate included) x all points of {{{}..{}}}^3. {}", e3v.len().pow(6), e3v[0], e3v[e3v.len() - 1], p3v[0], p3v[p3v.len() - 1], seg_rule),
        true, false, |s| {
            s.require_classes(&seg_classes);
            let (ends, pts) = (cube(&e3v, 3), cube(&p3v, 3));
            seg_exact::<LineSegment3<X>>(s, &ends, &pts, 0, "");
            seg_float::<f64, LineSegment3<f64>>(s, &ends, &pts, 0, "");
            seg_float::<f32, LineSegment3<f32>>(s, &ends, &pts, 0, "");
        });

    let ray_rule = "Oracle: Cramer's rule on u*e1 + v*e2 - t*d = o - v0 with four 3x3 Leibniz determinants over integers (vx::matx::det), self-checked against the equation; expected Some(t) <=> det != 0 and u >= 0 and v >= 0 and u+v <= 1 (negative t included: the ray's LINE), value = t; det = 0 (line parallel to the plane, or degenerate triangle, which any line meeting it is coplanar with) => None. X (exact rationals) on every case; f64/f32 on the sub-space det in {0, +-2^j}, where every operation of the code under test is exact in binary floating point (small integers times powers of two, exact reciprocal), so verdict and value must equal the rational ones. Directions are not normalised: the claim origin + t*direction = crossing point does not depend on it. non-trivial: det != 0";
    let ray_classes = ["interior", "edge", "vertex", "miss", "parallel", "degenerate-triangle", "hit-at-negative-t", "hit-at-origin"];
    let dirs: Vec<P3> = cube(&[-1, 0, 1], 3).into_iter().filter(|d| *d != [0, 0, 0]).collect();
    let vv: Vec<i64> = if th { vec![0, 1, 2] } else { vec![0, 2] };
    rep.section("Ray::triangle_intersection",
        &format!("every ORDERED triple of vertices from {:?}^3 (repeated and collinear vertices = degenerate triangles included) x origins {{-1,0,1,3}}^3 x directions {{-1,0,1}}^3 minus 0. {} vek's |a| < epsilon test is exactly a == 0 on these integer inputs.", vv, ray_rule),
        true, false, |s| {
            require_tiers(s, &tiers, &ray_classes);
            let (verts, origins) = (cube(&vv, 3), cube(&[-1, 0, 1, 3], 3));
            ray_section::<X>(s, &verts, &origins, &dirs, 0, "");
            ray_section::<f64>(s, &verts, &origins, &dirs, 0, "");
            ray_section::<f32>(s, &verts, &origins, &dirs, 0, "");
        });

    // ---- the same claims on small shapes: all coordinates n / 2^k --------------------------------------
    // (the property quantifies over all shapes; its claims are invariant under scaling by a power of two,
    //  and so is every oracle above: exact in X, and exact / equally conditioned in binary floating point)
    let (sx, sf64, sf32): (Vec<u32>, Vec<u32>, Vec<u32>) = if th { ((1..=30).collect(), (1..=30).collect(), (1..=15).collect()) } else { (vec![13, 25, 26, 27], vec![13, 25, 26, 27], vec![6, 11, 12]) };
    rep.section("small shapes: LineSegment2/3 at scale 2^-k",
        &format!("coordinates n/2^k with n on the integer grids: 2-D end points {{-1..1}}^2 (all 81 ordered pairs) x points {{-2..2}}^2, 3-D end points {{0,1}}^3 (all 64 pairs) x points {{-1..2}}^3; k in {:?} (X), {:?} (f64), {:?} (f32). Same assertions and oracles as the two LineSegment sections (the oracle is evaluated on the integer numerators and scaled exactly; the float bound scales with the coordinates). Violation classes carry the prefix 'small-scale:'; a violation on a segment that is OUTSIDE vek's absolute-epsilon degeneracy guard (len_sq > 2^-52, f32 2^-23) is reported a second time with the prefix 'above-guard:' so that the known guard findings cannot mask another defect; the float tiers also assert projected_point itself (each component within 256*eps*(|a|+|b|+|p|) of the exact foot, start exactly for a degenerate segment) outside the guard region. non-trivial: non-degenerate segment", sx, sf64, sf32),
        true, false, |s| {
            s.require_classes(&["degenerate-segment", "beyond-start", "foot-at-start", "interior-foot", "foot-at-end", "beyond-end", "point-on-segment", "X/distance-exact", "f64/interior-foot", "f32/interior-foot"]);
            s.require_classes(&["outside-the-epsilon-guard", "inside-the-epsilon-guard", "f64/projected-point", "f32/projected-point"]);
            let (e2, p2) = (cube(&[-1, 0, 1], 2), cube(&[-2, -1, 0, 1, 2], 2));
            let (e3, p3) = (cube(&[0, 1], 3), cube(&[-1, 0, 1, 2], 3));
            for &k in &sx { seg_exact::<LineSegment2<X>>(s, &e2, &p2, -(k as i32), "small-scale:"); seg_exact::<LineSegment3<X>>(s, &e3, &p3, -(k as i32), "small-scale:"); }
            for &k in &sf64 { seg_float::<f64, LineSegment2<f64>>(s, &e2, &p2, -(k as i32), "small-scale:"); seg_float::<f64, LineSegment3<f64>>(s, &e3, &p3, -(k as i32), "small-scale:"); }
            for &k in &sf32 { seg_float::<f32, LineSegment2<f32>>(s, &e2, &p2, -(k as i32), "small-scale:"); seg_float::<f32, LineSegment3<f32>>(s, &e3, &p3, -(k as i32), "small-scale:"); }
            s.meta("scales_log2", json!({"X": sx, "f64": sf64, "f32": sf32}));
        });
    rep.section("small shapes: Ray::triangle_intersection at scale 2^-k",
        &format!("triangle vertices and ray origins n/2^k: every ordered triple of vertices from {{0,1}}^3 x origins {{-1,0,1}}^3 (numerators) x integer directions {{-1,0,1}}^3 minus 0; k in {:?} (X), {:?} (f64), {:?} (f32). {} Violation classes carry the prefix 'small-scale:'; a violation on a case OUTSIDE vek's absolute-epsilon parallel guard (|e1.(d x e2)| >= 2^-52, f32 2^-23) is reported a second time with the prefix 'above-guard:' so that the known guard finding cannot mask another defect.", sx, sf64, sf32, ray_rule),
        true, false, |s| {
            require_tiers(s, &tiers, &["edge", "vertex", "miss", "parallel", "degenerate-triangle"]);
            s.require_classes(&["X/interior"]); // on this small grid interior hits have det = +-3: outside the exact float sub-space
            require_tiers(s, &tiers, &["outside-the-epsilon-guard", "inside-the-epsilon-guard"]);
            let (verts, origins) = (cube(&[0, 1], 3), cube(&[-1, 0, 1], 3));
            for &k in &sx { ray_section::<X>(s, &verts, &origins, &dirs, -(k as i32), "small-scale:"); }
            for &k in &sf64 { ray_section::<f64>(s, &verts, &origins, &dirs, -(k as i32), "small-scale:"); }
            for &k in &sf32 { ray_section::<f32>(s, &verts, &origins, &dirs, -(k as i32), "small-scale:"); }
            s.meta("scales_log2", json!({"X": sx, "f64": sf64, "f32": sf32}));
        });

    // =====================================================================================================
    // sections added by the clause-by-clause audit (out/AUDIT.md)

    // ---- negative radii: the statement's "at most the radius / the sum of radii", "centre plus/minus the radius" read literally
    let nradii: Vec<i64> = if th { vec![-10, -7, -4, -3, -2, -1, 0, 1, 2, 4, 7, 10] } else { vec![-10, -4, -1, 0, 1, 4] };
    let (n2, n3) = if th { (c2.clone(), cube(&range(-4, 4, 2), 3)) } else { (cube(&range(-4, 4, 2), 2), cube(&[-2, 0, 2], 3)) };
    rep.section("negative radii: contains_point, rect/aab/diameter",
        &format!("{} Disk centres / {} Sphere centres (half-unit grids as above) x radii {:?}/2 (negative ones included) x every grid point as query, tiers f64, f32, X. A distance is never negative, so 'contains p exactly when distance <= radius' is false for every point of a negative-radius shape (oracle: r >= 0 and 4d^2 <= 4r^2 on integers); bounds: min = c - r, max = c + r, rect position c - r with extent 2r, diameter 2r, literally. Violation classes of negative-radius cases carry the prefix 'negative-radius:'. non-trivial: query differs from the centre / r != 0", n2.len(), n3.len(), nradii),
        true, false, |s| {
            require_tiers(s, &tiers, &["negative-radius", "boundary", "radius-negative"]);
            contains_tier::<f64, Disk<f64, f64>>(s, &n2, &nradii, &n2, 0, "");
            contains_tier::<f32, Disk<f32, f32>>(s, &n2, &nradii, &n2, 0, "");
            contains_tier::<X, Disk<X, X>>(s, &n2, &nradii, &n2, 0, "");
            contains_tier::<f64, Sphere<f64, f64>>(s, &n3, &nradii, &n3, 0, "");
            contains_tier::<f32, Sphere<f32, f32>>(s, &n3, &nradii, &n3, 0, "");
            contains_tier::<X, Sphere<X, X>>(s, &n3, &nradii, &n3, 0, "");
            bounds_tier::<f64, Disk<f64, f64>>(s, &n2, &nradii, 0, "");
            bounds_tier::<f32, Disk<f32, f32>>(s, &n2, &nradii, 0, "");
            bounds_tier::<X, Disk<X, X>>(s, &n2, &nradii, 0, "");
            bounds_tier::<f64, Sphere<f64, f64>>(s, &n3, &nradii, 0, "");
            bounds_tier::<f32, Sphere<f32, f32>>(s, &n3, &nradii, 0, "");
            bounds_tier::<X, Sphere<X, X>>(s, &n3, &nradii, 0, "");
            s.require_classes(&["i32/radius-negative"]);
            bounds_i32(s, &range(-3, 3, 1), &[-5, -2, -1]);
            // i32 near the ends of the range (centre +- radius and 2*radius stay representable)
            bounds_i32(s, &[-1_000_000_000, -7, 999_999_999], &[-1_000_000_000, 0, 1_000_000_000]);
        });
    rep.section("negative radii: collides_with_*",
        &format!("every ordered pair of the same centres x every ordered pair of radii from {:?}/2: collide exactly when d <= r1 + r2, hence never when r1 + r2 < 0, and with one negative radius the sum (not the sum of magnitudes, not the squared sum) decides. Oracle: r1 + r2 >= 0 and 4d^2 <= (2r1 + 2r2)^2 on integers. non-trivial: distinct centres", nradii),
        true, false, |s| {
            require_tiers(s, &tiers, &["negative-radius-sum", "mixed-sign-radii", "tangent", "overlapping", "disjoint"]);
            collides_tier::<f64, Disk<f64, f64>>(s, &n2, &nradii, 0, "");
            collides_tier::<f32, Disk<f32, f32>>(s, &n2, &nradii, 0, "");
            collides_tier::<X, Disk<X, X>>(s, &n2, &nradii, 0, "");
            collides_tier::<f64, Sphere<f64, f64>>(s, &n3, &nradii, 0, "");
            collides_tier::<f32, Sphere<f32, f32>>(s, &n3, &nradii, 0, "");
            collides_tier::<X, Sphere<X, X>>(s, &n3, &nradii, 0, "");
        });
    rep.section("negative radii: collision_vector_with_*",
        &format!("same pairs, radii {:?}/2, restricted to r1 + r2 >= 0 (tangency at a negative distance does not exist: excluded and counted) and distinct centres: after moving OTHER by the vector the centre distance is r1 + r2, also when one of the radii is negative. Same oracles and bounds as the collision_vector section. non-trivial: not already tangent", nradii),
        true, false, |s| {
            require_tiers(s, &tiers, &["mixed-sign-radii", "negative-radius-sum-excluded", "penetrating", "separated", "already-tangent"]);
            cv_tier::<f64, Disk<f64, f64>>(s, &n2, &nradii, 0, "");
            cv_tier::<f32, Disk<f32, f32>>(s, &n2, &nradii, 0, "");
            cv_tier::<X, Disk<X, X>>(s, &n2, &nradii, 0, "");
            cv_tier::<f64, Sphere<f64, f64>>(s, &n3, &nradii, 0, "");
            cv_tier::<f32, Sphere<f32, f32>>(s, &n3, &nradii, 0, "");
            cv_tier::<X, Sphere<X, X>>(s, &n3, &nradii, 0, "");
        });

    // ---- tiny and huge disks/spheres: every claim is invariant under scaling by 2^k, and so is every oracle
    // (exact in X; in binary floating point the whole computation, sqrt included because 2k is even, scales exactly)
    let (dx, df32): (Vec<i32>, Vec<i32>) = if th { (vec![-58, -55, -53, -52, -51, -40, -26, -13, -1, 1, 13, 26, 40], vec![-30, -26, -24, -23, -22, -12, -1, 1, 12, 20]) } else { (vec![-55, 40], vec![-26, 20]) };
    let sradii: Vec<i64> = if th { radii.clone() } else { vec![0, 1, 4, 10] };
    let (s2, s3) = (cube(&range(-4, 4, 2), 2), cube(&[-2, 0, 2], 3));
    rep.section("scaled shapes: Disk/Sphere at scale 2^k",
        &format!("centres {{-2..2}}^2 / {{-1,0,1}}^3 (25 Disk / 27 Sphere centres; thorough: additionally the full grids of the base sections, {} / {} centres, at k = -55, 40 resp. f32 -26, 20), radii {:?}/2 and query points, all multiplied by 2^k, k in {:?} (X, f64) and {:?} (f32): contains_point, collides_with_*, collision_vector_with_*, rect/aab/diameter with the same oracles (integer numerators; the verdict of a comparison does not depend on the common factor; expected values are scaled exactly). At 2^-55 the gap between a distance and a radius is far below f64 epsilon (2^-26: below f32 epsilon), so any absolute tolerance in the comparisons shows. Violation classes carry the prefix 'scaled:'. non-trivial: as in the base sections", c2.len(), c3.len(), sradii, dx, df32),
        true, false, |s| {
            require_tiers(s, &tiers, &["inside", "boundary", "outside", "overlapping", "tangent", "disjoint", "penetrating", "already-tangent", "separated", "radius-positive"]);
            let run = |g2: &[P3], g3: &[P3], kx: &[i32], kf32: &[i32]| {
                for &k in kx {
                    contains_tier::<f64, Disk<f64, f64>>(s, g2, &sradii, g2, k, "scaled:"); contains_tier::<X, Disk<X, X>>(s, g2, &sradii, g2, k, "scaled:");
                    contains_tier::<f64, Sphere<f64, f64>>(s, g3, &sradii, g3, k, "scaled:"); contains_tier::<X, Sphere<X, X>>(s, g3, &sradii, g3, k, "scaled:");
                    collides_tier::<f64, Disk<f64, f64>>(s, g2, &sradii, k, "scaled:"); collides_tier::<X, Disk<X, X>>(s, g2, &sradii, k, "scaled:");
                    collides_tier::<f64, Sphere<f64, f64>>(s, g3, &sradii, k, "scaled:"); collides_tier::<X, Sphere<X, X>>(s, g3, &sradii, k, "scaled:");
                    cv_tier::<f64, Disk<f64, f64>>(s, g2, &sradii, k, "scaled:"); cv_tier::<X, Disk<X, X>>(s, g2, &sradii, k, "scaled:");
                    cv_tier::<f64, Sphere<f64, f64>>(s, g3, &sradii, k, "scaled:"); cv_tier::<X, Sphere<X, X>>(s, g3, &sradii, k, "scaled:");
                    bounds_tier::<f64, Disk<f64, f64>>(s, g2, &sradii, k, "scaled:"); bounds_tier::<X, Disk<X, X>>(s, g2, &sradii, k, "scaled:");
                    bounds_tier::<f64, Sphere<f64, f64>>(s, g3, &sradii, k, "scaled:"); bounds_tier::<X, Sphere<X, X>>(s, g3, &sradii, k, "scaled:");
                }
                for &k in kf32 {
                    contains_tier::<f32, Disk<f32, f32>>(s, g2, &sradii, g2, k, "scaled:"); contains_tier::<f32, Sphere<f32, f32>>(s, g3, &sradii, g3, k, "scaled:");
                    collides_tier::<f32, Disk<f32, f32>>(s, g2, &sradii, k, "scaled:"); collides_tier::<f32, Sphere<f32, f32>>(s, g3, &sradii, k, "scaled:");
                    cv_tier::<f32, Disk<f32, f32>>(s, g2, &sradii, k, "scaled:"); cv_tier::<f32, Sphere<f32, f32>>(s, g3, &sradii, k, "scaled:");
                    bounds_tier::<f32, Disk<f32, f32>>(s, g2, &sradii, k, "scaled:"); bounds_tier::<f32, Sphere<f32, f32>>(s, g3, &sradii, k, "scaled:");
                }
            };
            run(&s2, &s3, &dx, &df32);
            // thorough: the full grids of the base sections at the two extreme scales
            if th { run(&c2, &c3, &[-55, 40], &[-26, 20]); }
            s.meta("scales_log2", json!({"X": dx, "f64": dx, "f32": df32}));
        });
    let (mx, mf64, mf32): (Vec<i32>, Vec<i32>, Vec<i32>) = if th { (vec![-30, -17, -8, -1, 1, 8, 17, 30], vec![-300, -100, -30, -1, 1, 30, 100, 300], vec![-30, -20, -1, 1, 20, 30]) } else { (vec![-30, 30], vec![-100, 100], vec![-30, 30]) };
    let sfr: Vec<(i64, i64)> = fr.iter().copied().filter(|(k, _)| th || k % 3 != 2).collect();
    rep.section("scaled shapes: circumference/area/surface_area/volume",
        &format!("radii (k/{}) * 2^e for the k of the measures section ({} of them), off-origin centre (3,-7,5)*2^e, e in {:?} (X), {:?} (f64), {:?} (f32). The measures are homogeneous of degree 1, 2, 2, 3 in the radius and multiplying a binary float by a power of two is exact, so got * 2^(-e*degree) must satisfy the unscaled oracle of the measures section (X: structural token (coefficient * 2^(e*degree)) * pi). Violation classes carry the prefix 'scaled:'. non-trivial: r > 0", den, sfr.len(), mx, mf64, mf32),
        true, false, |s| {
            require_tiers(s, &tiers, &["radius-zero", "radius-positive"]);
            let off: P3 = [3, -7, 5];
            for &e in &mx { measures_tier::<X, Disk<X, X>>(s, &sfr, &off, e, "scaled:"); measures_tier::<X, Sphere<X, X>>(s, &sfr, &off, e, "scaled:"); }
            for &e in &mf64 { measures_tier::<f64, Disk<f64, f64>>(s, &sfr, &off, e, "scaled:"); measures_tier::<f64, Sphere<f64, f64>>(s, &sfr, &off, e, "scaled:"); }
            for &e in &mf32 { measures_tier::<f32, Disk<f32, f32>>(s, &sfr, &off, e, "scaled:"); measures_tier::<f32, Sphere<f32, f32>>(s, &sfr, &off, e, "scaled:"); }
        });

    // ---- constructors (anchors.mechanism: "Disk/Sphere constructors"; Ray::new lies inside the anchored range 725-772)
    rep.section("constructors: Disk/Sphere::new/unit/point, Ray::new",
        "centres from {-7,0,3,11}^3 / 2 (three distinct coordinates occur in every order) x radii {-3,0,1,2,9}/2, tiers f64, f32, X, and i32 on the integer numerators, plus the mixed instantiations Disk<i32,u8>, Sphere<f64,f32>: new(c, r) stores c and r field for field, unit(c) stores c and radius one, point(c) stores c and radius zero; Ray::new(o, d) stores o in `origin` and d in `direction` (d = the centre rotated by one lane plus (1,2,3), so it never equals o); LineSegment2/3<i32>: From<Range> then into_range keep start and end field for field (end = start rotated plus (1,2,3)). Read back through public fields, compared with ==. non-trivial: the centre has two different coordinates",
        true, false, |s| {
            s.require_classes(&["f64", "f32", "X", "i32", "mixed"]);
            let cs = cube(&[-7, 0, 3, 11], 3);
            let rs = [-3i64, 0, 1, 2, 9];
            ctors_tier::<f64>(s, &cs, &rs);
            ctors_tier::<f32>(s, &cs, &rs);
            ctors_tier::<X>(s, &cs, &rs);
            ctors_int(s, &cs, &rs);
        });

    // ---- Disk<P,E> / Sphere<P,E> with different position and extent types (rect, diameter, measures are generic in both)
    rep.section("mixed position/extent types: rect/rect3/diameter and measures",
        "rect/rect3/diameter on Disk/Sphere<i64,i32>, <i32,u16>, <f64,f32>, <X,u8> (P: From<E>): centres {-3..3}^d (times 1/2 for the float/X positions) x radii {0,1,2,5,100}: position = c - r per axis in P, extent = 2r per axis in E, diameter = 2r in E, all compared with == on values computed in i64. circumference/area on Disk<i32,f64>, Disk<u8,f32>, surface_area/volume on Sphere<i32,f32>, Sphere<i64,f64>: radii k/4, k = 0..=40, with the oracle of the measures section. non-trivial: r > 0",
        true, false, |s| {
            s.require_classes(&["rect/i64,i32", "rect/i32,u16", "rect/f64,f32", "rect/X,u8", "f64/radius-positive", "f32/radius-positive"]);
            mixed_section(s);
        });

    // ---- huge segments, triangles and rays
    let (lx, lf64, lf32): (Vec<i32>, Vec<i32>, Vec<i32>) = if th { (vec![1, 7, 13, 20, 30], vec![1, 7, 13, 20, 30, 45, 60], vec![1, 7, 13, 20]) } else { (vec![30], vec![60], vec![20]) };
    rep.section("short segments far from the origin: projected_point / distance_to_point (X, f64, f32; 2-D and 3-D)",
        "start = O + a, end = O + b, query = O + p with O = (2^30,..) for X, (2^27,..) for f64, (4096,..) for f32 and a, b in {-1,0,1}^D (a != b), p in {-2,0,1,3} x {-1,0,2} (x {0,1}): every coordinate is exact; the foot of the perpendicular clamped to the segment is computed exactly from the small parts; X must return it exactly, floats within 8 eps |O| (distance: plus 4 eps d); a degeneracy test that compares the squared length with a multiple of the squared COORDINATES treats these unit-sized segments as points; non-trivial: the nearest point is not start", true, false, |s| {
        s.require_classes(&["nearest point is an interior point", "nearest point is end", "nearest point is start"]);
        // exact reference on the small parts: t = clamp((p-a).(b-a)/|b-a|^2, 0, 1)
        let foot = |a: &[i64], b: &[i64], p: &[i64]| -> (Vec<Q>, u8) {
            let d: Vec<i64> = (0..a.len()).map(|i| b[i] - a[i]).collect();
            let (num, den): (i64, i64) = ((0..a.len()).map(|i| (p[i] - a[i]) * d[i]).sum(), d.iter().map(|x| x * x).sum());
            let t = if num <= 0 { Q::new(0, 1) } else if num >= den { Q::new(1, 1) } else { Q::new(num as i128, den as i128) };
            let cls = if num <= 0 { 0 } else if num >= den { 2 } else { 1 };
            ((0..a.len()).map(|i| Q::new(a[i] as i128, 1).add(t.mul(Q::new(d[i] as i128, 1)))).collect(), cls)
        };
        for dim in [2usize, 3] {
            fn prod(axes: &[Vec<i64>]) -> Vec<Vec<i64>> { let mut out = vec![Vec::new()]; for ax in axes { let mut nx = Vec::new(); for pre in &out { for &v in ax { let mut q = pre.clone(); q.push(v); nx.push(q); } } out = nx; } out }
            let small: Vec<Vec<i64>> = prod(&vec![vec![-1i64, 0, 1]; dim]);
            let pts: Vec<Vec<i64>> = if dim == 2 { prod(&[vec![-2i64, 0, 1, 3], vec![-1, 0, 2]]) } else { prod(&[vec![-2i64, 0, 1, 3], vec![-1, 0, 2], vec![0, 1]]) };
            for a in &small { for b in &small { if a == b { continue; } for p in &pts {
                let (ft, cls) = foot(a, b, p);
                s.class(["nearest point is start", "nearest point is an interior point", "nearest point is end"][cls as usize]);
                let d2: Q = (0..dim).fold(Q::new(0, 1), |acc, i| { let e = Q::new(p[i] as i128, 1).sub(ft[i]); acc.add(e.mul(e)) });
                let inp = || json!({"dim": dim, "start - O": a, "end - O": b, "query - O": p});
                let wt = (a.iter().chain(b.iter()).chain(p.iter()).map(|x| x.unsigned_abs()).sum::<u64>()) as u64;
                // exact tier
                { let o = 1i128 << 30; let x = |v: &[i64], i: usize| qi(o + v[i] as i128);
                  s.eval(cls != 0);
                  let got: Option<Vec<X>> = if dim == 2 { s.call("LineSegment2::projected_point<X>", inp, || { let r = LineSegment2 { start: Vec2 { x: x(a, 0), y: x(a, 1) }, end: Vec2 { x: x(b, 0), y: x(b, 1) } }.projected_point(Vec2 { x: x(p, 0), y: x(p, 1) }); vec![r.x, r.y] }) }
                      else { s.call("LineSegment3::projected_point<X>", inp, || { let r = LineSegment3 { start: Vec3 { x: x(a, 0), y: x(a, 1), z: x(a, 2) }, end: Vec3 { x: x(b, 0), y: x(b, 1), z: x(b, 2) } }.projected_point(Vec3 { x: x(p, 0), y: x(p, 1), z: x(p, 2) }); vec![r.x, r.y, r.z] }) };
                  if let Some(g) = got { if (0..dim).any(|i| g[i].rat() != Q::new(o, 1).add(ft[i])) { s.violation_w(&format!("LineSegment{}::projected_point<X>", dim), "far-from-origin:not-the-nearest-point-of-the-segment", json!({"input": inp(), "got - O": (0..dim).map(|i| g[i].rat().sub(Q::new(o, 1)).to_f64()).collect::<Vec<_>>(), "want - O": ft.iter().map(|q| q.to_f64()).collect::<Vec<_>>()}), wt); } } }
                // float tiers
                macro_rules! ftier { ($F:ty, $o:expr, $name:literal) => {{
                    let o: $F = $o; let f = |v: &[i64], i: usize| o + v[i] as $F;
                    s.eval(cls != 0);
                    let (g, dist): (Vec<$F>, $F) = if dim == 2 { let sg = LineSegment2 { start: Vec2 { x: f(a, 0), y: f(a, 1) }, end: Vec2 { x: f(b, 0), y: f(b, 1) } }; let q = Vec2 { x: f(p, 0), y: f(p, 1) }; let r = sg.projected_point(q); (vec![r.x, r.y], sg.distance_to_point(q)) }
                        else { let sg = LineSegment3 { start: Vec3 { x: f(a, 0), y: f(a, 1), z: f(a, 2) }, end: Vec3 { x: f(b, 0), y: f(b, 1), z: f(b, 2) } }; let q = Vec3 { x: f(p, 0), y: f(p, 1), z: f(p, 2) }; let r = sg.projected_point(q); (vec![r.x, r.y, r.z], sg.distance_to_point(q)) };
                    let tol = 8.0 * <$F>::EPSILON as f64 * o as f64;
                    if (0..dim).any(|i| !(((g[i] - o) as f64 - ft[i].to_f64()).abs() <= tol)) { s.violation_w(&format!("LineSegment{}::projected_point<{}>", dim, $name), "far-from-origin:not-the-nearest-point-of-the-segment", json!({"input": inp(), "O": o as f64, "got - O": (0..dim).map(|i| (g[i] - o) as f64).collect::<Vec<_>>(), "want - O": ft.iter().map(|q| q.to_f64()).collect::<Vec<_>>()}), wt); }
                    let dw = d2.to_f64().sqrt();
                    if !((dist as f64 - dw).abs() <= tol + 4.0 * <$F>::EPSILON as f64 * dw) { s.violation_w(&format!("LineSegment{}::distance_to_point<{}>", dim, $name), "far-from-origin:wrong-distance", json!({"input": inp(), "O": o as f64, "got": dist as f64, "want": dw}), wt); }
                }} }
                ftier!(f64, 134217728.0, "f64"); ftier!(f32, 4096.0, "f32");
            } } }
        }
        s.sample(json!({"segment": "(4096,4096)-(4097,4096) in f32", "query": "(4097,4099)", "nearest point must be": "(4097,4096), distance 3"}));
    });

    rep.section("large shapes: LineSegment2/3 at scale 2^k",
        &format!("the grids of the small-shapes section with coordinates n * 2^k, k in {:?} (X), {:?} (f64), {:?} (f32); same assertions and oracles (evaluated on the integer numerators and scaled exactly; all float operations scale exactly). Violation classes carry the prefix 'large-scale:'. non-trivial: non-degenerate segment", lx, lf64, lf32),
        true, false, |s| {
            s.require_classes(&["degenerate-segment", "beyond-start", "foot-at-start", "interior-foot", "foot-at-end", "beyond-end", "point-on-segment", "X/distance-exact", "f64/interior-foot", "f32/interior-foot", "f64/projected-point", "f32/projected-point"]);
            let (e2, p2) = (cube(&[-1, 0, 1], 2), cube(&[-2, -1, 0, 1, 2], 2));
            let (e3, p3) = (cube(&[0, 1], 3), cube(&[-1, 0, 1, 2], 3));
            for &k in &lx { seg_exact::<LineSegment2<X>>(s, &e2, &p2, k, "large-scale:"); seg_exact::<LineSegment3<X>>(s, &e3, &p3, k, "large-scale:"); }
            for &k in &lf64 { seg_float::<f64, LineSegment2<f64>>(s, &e2, &p2, k, "large-scale:"); seg_float::<f64, LineSegment3<f64>>(s, &e3, &p3, k, "large-scale:"); }
            for &k in &lf32 { seg_float::<f32, LineSegment2<f32>>(s, &e2, &p2, k, "large-scale:"); seg_float::<f32, LineSegment3<f32>>(s, &e3, &p3, k, "large-scale:"); }
        });
    let (rx, rf64, rf32): (Vec<i32>, Vec<i32>, Vec<i32>) = if th { (vec![1, 13, 30], vec![1, 13, 30, 60], vec![1, 13, 20]) } else { (vec![30], vec![60], vec![20]) };
    rep.section("large shapes: Ray::triangle_intersection at scale 2^k",
        &format!("triangle vertices and ray origins n * 2^k: every ordered triple of vertices from {{0,1}}^3 x origins {{-1,0,1}}^3 x integer directions {{-1,0,1}}^3 minus 0; k in {:?} (X), {:?} (f64), {:?} (f32). {} Violation classes carry the prefix 'large-scale:'.", rx, rf64, rf32, ray_rule),
        true, false, |s| {
            require_tiers(s, &tiers, &["edge", "vertex", "miss", "parallel", "degenerate-triangle"]);
            s.require_classes(&["X/interior"]);
            let (verts, origins) = (cube(&[0, 1], 3), cube(&[-1, 0, 1], 3));
            for &k in &rx { ray_section::<X>(s, &verts, &origins, &dirs, k, "large-scale:"); }
            for &k in &rf64 { ray_section::<f64>(s, &verts, &origins, &dirs, k, "large-scale:"); }
            for &k in &rf32 { ray_section::<f32>(s, &verts, &origins, &dirs, k, "large-scale:"); }
        });

    // ---- scalene triangles in general position, long and non-primitive directions, rays aimed at chosen points
    let dmax = if th { 3 } else { 2 };
    let aimed = aimed_cases(th, dmax);
    rep.section("Ray::triangle_intersection: scalene triangles, aimed rays",
        &format!("triangles v0, v0 + 4a, v0 + 4b for (v0; a; b) in {:?} (the last one collinear = degenerate) in all 6 vertex orders; target points v0 + i*a + j*b for i, j in -1..=5 (barycentric quarters: the 3 vertices, 9 points inside the edges, 3 interior points, 34 points of the plane outside the triangle); every direction d of {{-{m}..{m}}}^3 minus 0 (non-primitive and unequal components included); origin = target - t*d for t in {{-2, 0, 1, 3}}: the line meets the plane exactly at the target with parameter t unless d is parallel to the plane (then the ray lies in the plane: None). Rays are built with Ray::new. {} ({} cases per tier)", TRIS, ray_rule, aimed.len(), m = dmax),
        true, false, |s| {
            require_tiers(s, &["X"], &ray_classes);
            require_tiers(s, &["f64", "f32"], &["interior", "edge", "vertex", "miss", "parallel", "degenerate-triangle", "hit-at-negative-t", "hit-at-origin"]);
            ray_list::<X>(s, &aimed, 0, "aimed:");
            ray_list::<f64>(s, &aimed, 0, "aimed:");
            ray_list::<f32>(s, &aimed, 0, "aimed:");
        });
    // =====================================================================================================
    // sections added by the second (adversarial) audit (out/AUDIT2.md)

    // ---- A. disks and spheres far from the origin
    let far64 = [Dy::p2(40), Dy::p2(39).neg(), Dy::p2(41)];
    let far32 = [Dy::p2(15), Dy::p2(14).neg(), Dy::p2(16)];
    let fradii: Vec<i64> = if th { vec![-4, 0, 1, 2, 4, 7, 10] } else { vec![-4, 0, 1, 4, 10] };
    let fpairs: Vec<(i64, i64)> = { let pr: &[i64] = if th { &[0, 1, 2, 4, 10] } else { &[0, 1, 4, 10] }; let mut v: Vec<(i64, i64)> = pr.iter().flat_map(|&a| pr.iter().map(move |&b| (a, b))).collect(); v.push((-1, 5)); v.push((5, -1)); v.push((-4, 1)); v };
    rep.section("far from the origin: Disk/Sphere contains_point, collides_with_*, collision_vector_with_*, bounds",
        &format!("every position is O + n/2 with O = (2^40, -2^39, 2^41) for f64 and X, (2^15, -2^14, 2^16) for f32, n on the grids {{-4..4 step 2}}^2 (25 Disk centres) / {{-2,0,2}}^3 (27 Sphere centres) (thorough: the full grids of the base sections); radii {:?}/2 for contains_point and the bounds, radius pairs {:?} (halves) for collides/collision vector; every query point = every centre. All coordinates are exactly representable, all differences of positions are the small half-integers of the base sections, so the oracles are the integer comparisons of the base sections (the offset cancels) and the bounds O + (n -+ r)/2 are representable and compared with ==. The squared coordinates (2^80, f32 2^30) exceed the significand by far: any evaluation through |c|^2 + |p|^2 - 2 c.p or any add-then-subtract of the positions loses the whole distance. Violation classes carry the prefix 'far-from-origin:'. non-trivial: as in the base sections", fradii, fpairs),
        true, false, |s| {
            require_tiers(s, &tiers, &["inside", "boundary", "outside", "overlapping", "tangent", "disjoint", "penetrating", "already-tangent", "separated", "bounds"]);
            let (g2, g3) = if th { (c2.clone(), c3.clone()) } else { (s2.clone(), s3.clone()) };
            far_ball::<f64, Disk<f64, f64>>(s, &g2, &fradii, &fpairs, &far64);
            far_ball::<f32, Disk<f32, f32>>(s, &g2, &fradii, &fpairs, &far32);
            far_ball::<X, Disk<X, X>>(s, &g2, &fradii, &fpairs, &far64);
            far_ball::<f64, Sphere<f64, f64>>(s, &g3, &fradii, &fpairs, &far64);
            far_ball::<f32, Sphere<f32, f32>>(s, &g3, &fradii, &fpairs, &far32);
            far_ball::<X, Sphere<X, X>>(s, &g3, &fradii, &fpairs, &far64);
        });

    // ---- B. unrelated magnitudes of centre, separation and radius; one-ulp ties
    rep.section("mixed magnitudes: Disk/Sphere bounds, collision vector; one-ulp ties of contains_point / collides_with_*",
        "(1) bounds: centre lanes from {big + 1/2, 3, -2^-30, 0, -(4 big + 1)} (big = 2^40 for f64/X, 2^11 for f32; all triples for Sphere, all pairs for Disk) x radii {2^-30, 1/2, 3*2^-45 (f32 3*2^-16), 4 big, 0, 1 + eps, 3/4 and 5/8 of the spacing of the floats at big (3*2^-14, 5*2^-15)}: aabr/aabb min = fl(c - r), max = fl(c + r) = the representable number nearest to the exact value (formed by the harness with ONE operation of the tier and certified against the exact rational: |fl - exact| <= 2^-MANT |exact|), rect position = fl(c - r), rect extent = diameter = 2r exactly; X: exact. A bound computed through the other corner (max = min + 2r, extent = max - min) fails whenever c +- r rounds. (2) collision vector: separation v = dir * 2^ev with dir in {(1,0),(0,-1),(3,4),(-4,3),(-5,-12)} / {(0,0,1),(1,0,0),(1,2,2),(2,-3,6),(-4,4,7)} (rational lengths 1,1,5,5,13 / 1,1,3,7,9) and the axis-aligned nearly-unit separations +-(1 +- 2^-30), 1 + 2^-20 (f32: 2^-12, 2^-8), ev in {-40,-12,0,20} (f32 {-12,-5,0,8}), radii (2,2),(6,1),(0,4),(-2,6),(6,4) halves * 2^er, er in {-20,0,30} (f32 {-8,0,10}), self.center in {0, (3,-7,5) 2^ev}: after moving OTHER by the vector the centre distance is r1 + r2: X exactly; floats |v + cv| recomputed in f64 from the exact v and the returned fields, bound 8 eps (r1 + r2 + |v|) + 4 eps64 (r1 + r2 + |v|) (derivation in the code comment of `mixed_cv_tier`; no '+1' term: the bound follows the magnitudes). (3) one-ulp ties: centre and query (resp. the two centres) differ along one axis by d in {1, 1 + eps, 2 - eps, 3*2^-40, 2^30 + 2^-22 (f32 2^10 + 2^-13), 5/8, 49, 10^-3 rounded, 7*2^20 + 1}: vek's distance is exactly |d| (sqrt(fl(d^2)) = |d|), so contains_point must be exactly |d| <= r and collides exactly |d| <= r1 + r2 for r = the representable number just below |d|, |d|, just above |d|, and -|d| ((r1, r2) in {(r/2, r/2), (0, r), (r, 0)}: exact sums); X: r = |d| (1 -+ 2^-60). Any absolute or RELATIVE tolerance, relative_eq/ulps_eq-style comparison or squared comparison with a differently rounded square shows here. non-trivial: r != 0 / not already tangent / all",
        true, false, |s| {
            for t in tiers { s.require_classes(&[&format!("{}/centre+-radius rounds", t) as &str, &format!("{}/penetrating", t), &format!("{}/separated", t), &format!("{}/already-tangent", t), &format!("{}/separation and radii at different scales", t), &format!("{}/nearly-unit separation", t), &format!("{}/radius one step below |d|", t), &format!("{}/radius = |d|", t), &format!("{}/radius one step above |d|", t)][if t == "X" { 1.. } else { 0.. }]); }
            let h = |m: i128, e: i32| Dy::new(m, e);
            macro_rules! tier { ($T:ty, $big:expr, $tiny:expr, $nu1:expr, $nu2:expr, $evs:expr, $ers:expr, $dmix:expr) => {{
                let big: i32 = $big;
                let p = if <$T as El>::EXACT { 53 } else { <$T as El>::MANT as i32 };
                let lanes = [Dy::p2(big).add(Dy::p2(-1)), Dy::int(3), Dy::p2(-30).neg(), Dy::ZERO, Dy::p2(big + 2).add(Dy::int(1)).neg()];
                let rads = [Dy::p2(-30), Dy::p2(-1), h(3, $tiny), Dy::p2(big + 2), Dy::ZERO, Dy::int(1).add(Dy::p2(-(p - 1))), h(3, big - p - 1), h(5, big - p - 2)];
                mixed_bounds_tier::<$T, Disk<$T, $T>>(s, &lanes, &rads);
                mixed_bounds_tier::<$T, Sphere<$T, $T>>(s, &lanes, &rads);
                let (z, o) = (Dy::ZERO, Dy::int(1));
                let i = |n: i128| Dy::int(n);
                let mut dirs: Vec<([Dy; 3], Dy)> = vec![([o, z, z], o), ([z, o.neg(), z], o), ([i(3), i(4), z], i(5)), ([i(-4), i(3), z], i(5)), ([i(-5), i(-12), z], i(13)),
                    ([z, z, o], o), ([i(1), i(2), i(2)], i(3)), ([i(2), i(-3), i(6)], i(7)), ([i(-4), i(4), i(7)], i(9))];
                for ax in 0..3 { for nu in [o.add(Dy::p2($nu1)), o.sub(Dy::p2($nu1)).neg(), o.add(Dy::p2($nu2))] { let mut d = [z; 3]; d[ax] = nu; dirs.push((d, nu.abs())); } }
                let evs: &[i32] = &$evs; let ers: &[i32] = &$ers;
                mixed_cv_tier::<$T, Disk<$T, $T>>(s, &dirs, evs, &[(2, 2), (6, 1), (0, 4), (-2, 6), (6, 4)], ers);
                mixed_cv_tier::<$T, Sphere<$T, $T>>(s, &dirs, evs, &[(2, 2), (6, 1), (0, 4), (-2, 6), (6, 4)], ers);
                let ds = [o, o.add(Dy::p2(-(p - 1))), i(2).sub(Dy::p2(-(p - 1))), h(3, -40), $dmix, h(5, -3), i(49), Dy::new((0.001 as $T).f().mul_add(2f64.powi(70), 0.0) as i128, -70), h(7, 20).add(o)];
                ulp_tie_tier::<$T, Disk<$T, $T>>(s, &ds);
                ulp_tie_tier::<$T, Sphere<$T, $T>>(s, &ds);
            }} }
            tier!(f64, 40, -45, -30, -20, [-40, -12, 0, 20], [-20, 0, 30], Dy::p2(30).add(Dy::p2(-22)));
            tier!(f32, 11, -16, -12, -8, [-12, -5, 0, 8], [-8, 0, 10], Dy::p2(10).add(Dy::p2(-13)));
            {
                // X: the f64 alphabets (everything is exact); 10^-3 as the rational 1/1000 is not dyadic: the f64 value is used
                type T = X;
                let big = 40; let p = 53;
                let lanes = [Dy::p2(big).add(Dy::p2(-1)), Dy::int(3), Dy::p2(-30).neg(), Dy::ZERO, Dy::p2(big + 2).add(Dy::int(1)).neg()];
                let rads = [Dy::p2(-30), Dy::p2(-1), h(3, -45), Dy::p2(big + 2), Dy::ZERO, Dy::int(1).add(Dy::p2(-(p - 1))), h(3, big - p - 1), h(5, big - p - 2)];
                mixed_bounds_tier::<T, Disk<T, T>>(s, &lanes, &rads);
                mixed_bounds_tier::<T, Sphere<T, T>>(s, &lanes, &rads);
                let (z, o) = (Dy::ZERO, Dy::int(1));
                let i = |n: i128| Dy::int(n);
                let mut dirs: Vec<([Dy; 3], Dy)> = vec![([o, z, z], o), ([z, o.neg(), z], o), ([i(3), i(4), z], i(5)), ([i(-4), i(3), z], i(5)), ([i(-5), i(-12), z], i(13)),
                    ([z, z, o], o), ([i(1), i(2), i(2)], i(3)), ([i(2), i(-3), i(6)], i(7)), ([i(-4), i(4), i(7)], i(9))];
                for ax in 0..3 { for nu in [o.add(Dy::p2(-30)), o.sub(Dy::p2(-30)).neg(), o.add(Dy::p2(-20))] { let mut d = [z; 3]; d[ax] = nu; dirs.push((d, nu.abs())); } }
                mixed_cv_tier::<T, Disk<T, T>>(s, &dirs, &[-40, -12, 0, 20], &[(2, 2), (6, 1), (0, 4), (-2, 6), (6, 4)], &[-20, 0, 30]);
                mixed_cv_tier::<T, Sphere<T, T>>(s, &dirs, &[-40, -12, 0, 20], &[(2, 2), (6, 1), (0, 4), (-2, 6), (6, 4)], &[-20, 0, 30]);
                let ds = [o, o.add(Dy::p2(-(p - 1))), i(2).sub(Dy::p2(-(p - 1))), h(3, -40), Dy::p2(30).add(Dy::p2(-22)), h(5, -3), i(49), h(7, 20).add(o)];
                ulp_tie_tier::<T, Disk<T, T>>(s, &ds);
                ulp_tie_tier::<T, Sphere<T, T>>(s, &ds);
            }
        });

    // ---- C. rays: exact-by-construction axis-frame configurations (barely inside / outside, thin and huge triangles, grazing and short directions)
    rep.section("Ray::triangle_intersection: axis-frame configurations, barely inside/outside, unrelated magnitudes",
        "triangle v0, v0 + L1 ax1, v0 + L2 ax2 and direction alpha ax1 + beta ax2 + gamma ax3 in a frame (ax1, ax2, ax3) = each of the 6 axis permutations x 3 sign patterns (thorough 5), v0 in {0, (3,-7,5)}; (L1, L2, gamma) in {(1,1,-1), (4,1/2,2), thin triangle (2^10, 2^-30, 1), short direction (2^10, 1, 2^-30), large triangle with grazing direction (2^30, 2^30, -2^-55)} (f32: (2^6,2^-14,1), (2^6,1,2^-14), (2^12,2^12,-2^-25)); (alpha, beta) in {(0,0), (1,0), (-3,2), (2^20,-2^20)} (f32 2^8); the line meets the plane at barycentric (u, v) with parameter tt; origin = crossing point - tt*direction. FINE alphabet of (u, v), delta = 2^-60, eps = the tier's epsilon: (-delta,1/4) (0,1/4) (delta,1/4) (1/4,-delta) (1/4,0) (1/4,delta) (-delta,-delta) (0,0) (delta,delta) (1/2,1/2) (1/2,1/2+eps) (1/2,1/2-eps/2) (1,0) (1+eps,0) (1-eps/2,0) (0,1) (0,1+eps) (1,delta) (delta,1) (1/4,3/4) (1/4,3/4+eps) (-eps,1/4) (1/4,-eps) (eps,eps) (-eps,1) (1,-eps), with tt in {1,-2,0} for perpendicular directions and tt = 0 (origin at the crossing point) for the slanted ones; COARSE alphabet {-1/4,0,1/4,1/2,1,5/4}^2 with tt in {1,-2,2^-20} and all four slopes. Cases whose coordinates, u, v or u + v are not representable in the tier are dropped (X keeps all). Oracle: closed form, Some(tt) iff u >= 0, v >= 0, u + v <= 1, compared exactly (see `ax_cases` for why every float operation of the code under test is exact here); |a| = |gamma| L1 L2 >= epsilon in every frame (vek's parallel guard is idle) while the thin/short frames have |d x e2|^2 < epsilon and the grazing frame an angle of 2^-55 between the direction and the plane. A tolerance on the barycentric tests, a shrunk triangle, a guard on the raw cross product or a relative parallel guard show here and nowhere in the lattice sections (u, v there are rationals with small denominators). non-trivial: all",
        true, false, |s| {
            require_tiers(s, &tiers, &["barely-inside", "barely-outside", "edge", "vertex", "interior", "miss", "thin triangle", "short direction", "large triangle, grazing direction"]);
            ax_ray_tier::<X>(s, th);
            ax_ray_tier::<f64>(s, th);
            ax_ray_tier::<f32>(s, th);
        });

    // ---- D. rays: float tiers outside the exact-reciprocal sub-space; triangles far from the origin
    let small_aimed = aimed_small();
    let (roff64, roff32): (P3, P3) = ([1i64 << 50, -(1i64 << 49), 1i64 << 51], [1i64 << 21, -(1i64 << 20), 1i64 << 22]);
    rep.section("Ray::triangle_intersection: float tiers with an inexact reciprocal; triangles and origins far from the origin",
        &format!("(1) the aimed cases of the scalene-triangle section ({} per tier; quick: the reduced list of {} cases with two triangles and directions {{-1,0,1}}^3 plus (2,-1,1),(1,2,-2),(-2,1,2)) whose determinant is NOT a power of two, which `ray_case` skips for f64/f32: all integer intermediates are exact (checked per case), the only roundings are fl(1/a) and one product, so u, v, t have the exact sign and relative error < 2 eps: exact miss => None, exact hit with u + v < 1 => Some within 2 eps |t| of the Cramer value, u + v = 1 => verdict open (value checked). (2) the reduced list translated by O = (2^50, -2^49, 2^51) for f64 and X, (2^21, -2^20, 2^22) for f32 (vertices and origins; exactly representable): X and the exact float sub-space through `ray_case` (classes 'far-from-origin:*'), the other float cases through the 2-eps oracle (classes 'far-from-origin:inexact-reciprocal:*'). Differences v1 - v0, v2 - v0, origin - v0 are exact, so the results equal those of the untranslated cases; an evaluation through origin.h - v0.h or any other add-then-subtract of positions loses everything (products 2^50 * |h| exceed 2^53). non-trivial: det != 0", aimed.len(), small_aimed.len()),
        true, false, |s| {
            require_tiers(s, &["f64", "f32"], &["inexact-reciprocal: hit", "inexact-reciprocal: miss", "inexact-reciprocal: u+v = 1 (verdict open)", "interior", "edge", "vertex", "miss", "parallel"]);
            s.require_classes(&["X/interior", "X/edge", "X/vertex", "X/miss", "X/parallel"]);
            let zero: P3 = [0, 0, 0];
            let list: &[([P3; 3], P3, P3)] = if th { &aimed } else { &small_aimed };
            ray_inexact::<f64>(s, list, &zero, "aimed:");
            ray_inexact::<f32>(s, list, &zero, "aimed:");
            let (t64, t32) = (translate(&small_aimed, &roff64), translate(&small_aimed, &roff32));
            ray_list::<X>(s, &t64, 0, "far-from-origin:");
            ray_list::<f64>(s, &t64, 0, "far-from-origin:");
            ray_list::<f32>(s, &t32, 0, "far-from-origin:");
            ray_inexact::<f64>(s, &small_aimed, &roff64, "far-from-origin:");
            ray_inexact::<f32>(s, &small_aimed, &roff32, "far-from-origin:");
        });

    // ---- E. segments: exact end points / mid points / perpendicular offsets, adjacent-float segments
    rep.section("LineSegment2/3: end points, mid points and perpendicular offsets that are exact by construction",
        "start = (S,..,S), end = start + e with e = +-2^b on one axis or +-2^b on two axes (all sign combinations, every axis), (S, b) in {(0,0), (0,-20) (f32 (0,-11)), (3,1), (-2^40,3) (f32 (-2^12,3)), (2^27,-25) (f32 (2^12,-11))}: the last one is a segment between two ADJACENT floats far from the origin whose squared length (2^-50, f32 2^-22) is still above vek's absolute epsilon guard. Queries: end, start, end + e, start - e, start + e/2, end + 3*2^b and start - 3*2^b on each axis perpendicular to e, and (S = 0, single-axis e) start + tau e + 3*2^b perpendicular with tau = 2^-60 and tau = 1 - eps/2 (foot = start + tau e exactly, distance 3*2^b: a snap of small parameters to 0 or of parameters near 1 to 1 shows). On these inputs p - start, (p - start).e and |e|^2 are exact, the clamped parameter is exactly 1, 0, 1, 0, 1/2, 1, 0 and start + e*t is representable, so projected_point must return end, start, end, start, the mid point, end, start EXACTLY and distance_to_point 0, 0, |e|, |e|, 0, 3*2^b, 3*2^b exactly (|e| only for single-axis e), in every tier. A degeneracy test on the relative difference of the END POINTS (or any guard scaled by the coordinates) collapses the adjacent-float segment to start. non-trivial: all",
        true, false, |s| {
            for t in tiers { s.require_classes(&[&format!("{}/query = end", t) as &str, &format!("{}/query beyond end", t), &format!("{}/query = mid point", t), &format!("{}/query = end + perpendicular offset", t), &format!("{}/parameter just above 0", t), &format!("{}/parameter just below 1", t)]); }
            s.require_classes(&["f64/adjacent-floats segment", "f32/adjacent-floats segment"]);
            let sb64 = [(Dy::ZERO, 0), (Dy::ZERO, -20), (Dy::int(3), 1), (Dy::p2(40).neg(), 3), (Dy::p2(27), -25)];
            let sb32 = [(Dy::ZERO, 0), (Dy::ZERO, -11), (Dy::int(3), 1), (Dy::p2(12).neg(), 3), (Dy::p2(12), -11)];
            seg_ends_tier::<f64, LineSegment2<f64>>(s, &sb64); seg_ends_tier::<f64, LineSegment3<f64>>(s, &sb64);
            seg_ends_tier::<f32, LineSegment2<f32>>(s, &sb32); seg_ends_tier::<f32, LineSegment3<f32>>(s, &sb32);
            seg_ends_tier::<X, LineSegment2<X>>(s, &sb64); seg_ends_tier::<X, LineSegment3<X>>(s, &sb64);
        });

    // ---- F. bounds on every integer element type
    rep.section("integer family: Disk/Sphere aabr/aabb/rect/rect3/diameter on i8 .. u128, isize/usize, Wrapping<_>",
        "Disk<T,T>/Sphere<T,T> for T in {i8,u8,i16,u16,u32,i64,u64,i128,u128,isize,usize,Wrapping<i32>,Wrapping<u8>} (i32 is in the base section): centres {5,9,20}^d x radii {0,1,3,5} (centre - radius >= 0, nothing wraps): min = c - r, max = c + r, rect position c - r, extent = diameter = 2r, compared with == on values converted from i64. The code is one generic impl; this pins every instantiation a per-type rewrite or a per-type operator impl in vec.rs could touch. non-trivial: r > 0",
        true, false, |s| {
            use std::num::Wrapping;
            s.require_classes(&["i8", "u8", "i16", "u16", "u32", "i64", "u64", "i128", "u128", "isize", "usize", "Wrapping<i32>", "Wrapping<u8>"]);
            int_bounds!(s, "i8", i8, |v| v as i8); int_bounds!(s, "u8", u8, |v| v as u8); int_bounds!(s, "i16", i16, |v| v as i16); int_bounds!(s, "u16", u16, |v| v as u16);
            int_bounds!(s, "u32", u32, |v| v as u32); int_bounds!(s, "i64", i64, |v| v); int_bounds!(s, "u64", u64, |v| v as u64); int_bounds!(s, "i128", i128, |v| v as i128);
            int_bounds!(s, "u128", u128, |v| v as u128); int_bounds!(s, "isize", isize, |v| v as isize); int_bounds!(s, "usize", usize, |v| v as usize);
            int_bounds!(s, "Wrapping<i32>", Wrapping<i32>, |v| Wrapping(v as i32)); int_bounds!(s, "Wrapping<u8>", Wrapping<u8>, |v| Wrapping(v as u8));
        });

    if th {
        // ---- thorough only: the base ray grid with vertices of both signs
        rep.section("Ray::triangle_intersection: vertices of both signs",
            &format!("every ORDERED triple of vertices from {{-1,0,2}}^3 x origins {{-2,0,1}}^3 x directions {{-1,0,1}}^3 minus 0, X and the exact float sub-space. {}", ray_rule),
            true, false, |s| {
                require_tiers(s, &tiers, &ray_classes);
                let (verts, origins) = (cube(&[-1, 0, 2], 3), cube(&[-2, 0, 1], 3));
                ray_section::<X>(s, &verts, &origins, &dirs, 0, "");
                ray_section::<f64>(s, &verts, &origins, &dirs, 0, "");
                ray_section::<f32>(s, &verts, &origins, &dirs, 0, "");
            });
    }

    std::process::exit(rep.finish());
}
