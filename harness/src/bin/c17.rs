//! C17 — clamp, range test, wrap, ping-pong, angle difference obey their range laws.
use rayon::prelude::*;
use std::fmt::Debug;
use std::num::Wrapping;
use std::ops::{Add, Sub};
use vek::ops::{Clamp, IsBetween, Wrap};
use vek::{Vec2, Vec3, Vec4};
use vx::q::Q;
use vx::*;

trait Scalar: Copy + Send + Sync + Debug + PartialEq + PartialOrd + Clamp + IsBetween<Output = bool> + Wrap + Add<Output = Self> + Sub<Output = Self> + num_traits::Zero + num_traits::One + 'static {
    const NAME: &'static str;
    const MIN: i128;
    const MAX: i128;
    const WRAPPING: bool;
    fn w(self) -> i128;
    fn mk(w: i128) -> Self;
}
macro_rules! scalar_prim { ($($T:ident)*) => { $(
    impl Scalar for $T { const NAME: &'static str = stringify!($T); const MIN: i128 = $T::MIN as i128; const MAX: i128 = $T::MAX as i128; const WRAPPING: bool = false;
        fn w(self) -> i128 { self as i128 } fn mk(w: i128) -> Self { w as $T } }
    impl Scalar for Wrapping<$T> { const NAME: &'static str = concat!("Wrapping<", stringify!($T), ">"); const MIN: i128 = $T::MIN as i128; const MAX: i128 = $T::MAX as i128; const WRAPPING: bool = true;
        fn w(self) -> i128 { self.0 as i128 } fn mk(w: i128) -> Self { Wrapping(w as $T) } }
)* } }
scalar_prim!(i8 u8 i16 u16 i32 u32 i64 u64 isize usize);

/// per-thread accumulator (flushed once per outer iteration: no lock in the hot loop)
#[derive(Default)]
struct Acc { evals: u64, nontrivial: u64, classes: std::collections::BTreeMap<&'static str, u64> }
impl Acc {
    fn evals(&mut self, n: u64, nt: u64) { self.evals += n; self.nontrivial += nt; }
    fn class(&mut self, c: &'static str) { *self.classes.entry(c).or_insert(0) += 1; }
    fn flush(self, s: &Section) { s.evals(self.evals, self.nontrivial); for (c, n) in self.classes { s.class_n(c, n); } }
}
fn wsum(args: &[i128]) -> u64 { args.iter().fold(0u64, |a, x| a.saturating_add(x.unsigned_abs().min(u64::MAX as u128) as u64)) }

fn classify(panic_msg: &str) -> &'static str {
    if panic_msg.contains("overflow") { "overflow-panic-on-valid-input" }
    else if panic_msg.contains("divide by zero") || panic_msg.contains("division by zero") || panic_msg.contains("remainder with a divisor of zero") { "div-by-zero-panic-on-valid-input" }
    else { "panic-on-valid-input" }
}

/// Compare one call against `want`: Some(v) = must return v; None = must panic (documented precondition).
fn judge<T: Scalar>(s: &Section, func: &str, args: &[i128], want: Option<i128>, got: Result<T, Caught>) {
    // the site string is built only when something is reported (it used to be formatted on every call: pure speed-up)
    let site = || format!("{}<{}>", func, T::NAME);
    match (want, got) {
        (Some(w), Ok(g)) => { if g.w() != w { s.violation_w(&site(), "wrong-value", json!({"args": args, "got": g.w().to_string(), "want": w.to_string()}), wsum(args)); } }
        (Some(w), Err(Caught::Panic(m))) => s.violation_w(&site(), classify(&m), json!({"args": args, "want": w.to_string(), "panic": m}), wsum(args)),
        (None, Ok(g)) => s.violation(&site(), "missing-documented-panic", json!({"args": args, "got": g.w().to_string()})),
        (None, Err(Caught::Panic(_))) => {}
        (_, Err(Caught::Unmodelled(w))) => s.unmodelled(w),
    }
}
fn judge_bool<T: Scalar>(s: &Section, func: &str, args: &[i128], want: Option<bool>, got: Result<bool, Caught>) {
    let site_s = || format!("{}<{}>", func, T::NAME);
    match (want, got) {
        (Some(w), Ok(g)) => if g != w { s.violation(&site_s(), "wrong-value", json!({"args": args, "got": g, "want": w})) },
        (Some(_), Err(Caught::Panic(m))) => s.violation(&site_s(), classify(&m), json!({"args": args, "panic": m})),
        (None, Ok(g)) => s.violation(&site_s(), "missing-documented-panic", json!({"args": args, "got": g})),
        _ => {}
    }
}

fn ref_clamp(v: i128, lo: i128, hi: i128) -> Option<i128> { if lo > hi { None } else { Some(if v < lo { lo } else if v > hi { hi } else { v }) } }
fn ref_wrapped(v: i128, up: i128) -> Option<i128> { if up <= 0 { None } else { Some(v.rem_euclid(up)) } }
fn ref_wrapped_between(v: i128, lo: i128, hi: i128) -> Option<i128> { if lo >= hi || lo < 0 || hi <= 0 { None } else { Some(lo + (v - lo).rem_euclid(hi - lo)) } }
fn ref_pingpong(v: i128, up: i128) -> Option<i128> { if up <= 0 { None } else { let r = v.rem_euclid(2 * up); Some(if r <= up { r } else { 2 * up - r }) } }

/// ternary functions on one (value, lower, upper) triple
fn ternary<T: Scalar>(s: &Section, acc: &mut Acc, v: i128, lo: i128, hi: i128, aliases: bool) {
    let (tv, tlo, thi) = (T::mk(v), T::mk(lo), T::mk(hi));
    let a = [v, lo, hi];
    let wc = ref_clamp(v, lo, hi);
    judge::<T>(s, "Clamp::clamped", &a, wc, catch(|| tv.clamped(tlo, thi)));
    let wb = wc.map(|_| lo <= v && v <= hi);
    judge_bool::<T>(s, "IsBetween::is_between", &a, wb, catch(|| tv.is_between(tlo, thi)));
    let ww = ref_wrapped_between(v, lo, hi);
    judge::<T>(s, "Wrap::wrapped_between", &a, ww, catch(|| tv.wrapped_between(tlo, thi)));
    let mut n = 3;
    if aliases {
        judge::<T>(s, "Clamp::clamp", &a, wc, catch(|| T::clamp(tv, tlo, thi)));
        judge::<T>(s, "Clamp::clamped_to_inclusive_range", &a, wc, catch(|| tv.clamped_to_inclusive_range(tlo..=thi)));
        judge::<T>(s, "Clamp::clamp_to_inclusive_range", &a, wc, catch(|| T::clamp_to_inclusive_range(tv, tlo..=thi)));
        judge_bool::<T>(s, "IsBetween::is_between_inclusive_range_bounds", &a, wb, catch(|| tv.is_between_inclusive_range_bounds(tlo..=thi)));
        judge::<T>(s, "Wrap::wrap_between", &a, ww, catch(|| T::wrap_between(tv, tlo, thi)));
        n += 5;
        if let Some(c) = wc {
            // idempotence and agreement with the range test, on the real code
            let c1 = T::mk(c);
            if let Ok(c2) = catch(|| c1.clamped(tlo, thi)) { if c2 != c1 { s.violation(&format!("Clamp::clamped<{}>", T::NAME), "not-idempotent", json!({"args": a})); } }
            if let Ok(b) = catch(|| c1.is_between(tlo, thi)) { if !b { s.violation(&format!("Clamp::clamped<{}>", T::NAME), "result-outside-range-test", json!({"args": a})); } }
            n += 2;
        }
    }
    acc.evals(n, if wc.is_some() && (v < lo || v > hi) { n } else { 0 });
    match (wc, ww) { (None, _) => acc.class("bounds-inverted(must panic)"), (Some(_), None) => acc.class("clamp-valid/wrap-precondition-violated"), (Some(_), Some(_)) => acc.class("all-valid") }
    if v < lo { acc.class("value-below"); } else if v > hi { acc.class("value-above"); } else { acc.class("value-inside"); }
}
/// binary functions on one (value, upper) pair
fn binary<T: Scalar>(s: &Section, acc: &mut Acc, v: i128, up: i128) {
    let (tv, tup) = (T::mk(v), T::mk(up));
    let a = [v, up];
    judge::<T>(s, "Wrap::wrapped", &a, ref_wrapped(v, up), catch(|| tv.wrapped(tup)));
    judge::<T>(s, "Wrap::wrap", &a, ref_wrapped(v, up), catch(|| T::wrap(tv, tup)));
    judge::<T>(s, "Wrap::pingpong", &a, ref_pingpong(v, up), catch(|| tv.pingpong(tup)));
    acc.evals(3, if up > 0 && (v < 0 || v >= up) { 3 } else { 0 });
    if up <= 0 { acc.class("upper-nonpositive(must panic)"); } else if v < 0 { acc.class("negative-value"); } else if v >= up { acc.class("value-beyond-upper"); } else { acc.class("value-in-range"); }
}
fn unary<T: Scalar>(s: &Section, v: i128) {
    let tv = T::mk(v);
    judge::<T>(s, "Clamp::clamped01", &[v], ref_clamp(v, 0, 1), catch(|| tv.clamped01()));
    judge::<T>(s, "Clamp::clamp01", &[v], ref_clamp(v, 0, 1), catch(|| T::clamp01(tv)));
    judge_bool::<T>(s, "IsBetween::is_between01", &[v], Some(0 <= v && v <= 1), catch(|| tv.is_between01()));
    s.evals(3, if v < 0 || v > 1 { 3 } else { 0 });
}
macro_rules! unary_signed { ($s:expr, $T:ty, $v:expr) => {{
    let v: i128 = $v; let tv = <$T as Scalar>::mk(v);
    judge::<$T>($s, "Clamp::clamped_minus1_1", &[v], ref_clamp(v, -1, 1), catch(|| tv.clamped_minus1_1()));
    judge::<$T>($s, "Clamp::clamp_minus1_1", &[v], ref_clamp(v, -1, 1), catch(|| <$T as Clamp>::clamp_minus1_1(tv)));
    $s.evals(2, if v < -1 || v > 1 { 2 } else { 0 });
}} }

fn few<T: Scalar>(lo: i128) -> Vec<i128> {
    let mut v = vec![T::MIN, T::MIN + 1, -1, 0, 1, T::MAX - 1, T::MAX, lo];
    v.retain(|x| *x >= T::MIN && *x <= T::MAX); v.sort(); v.dedup(); v
}

/// whole 8-bit domain
fn exhaustive8<T: Scalar>(s: &Section) {
    let all: Vec<i128> = (T::MIN..=T::MAX).collect();
    let thorough = s.thorough();
    all.par_iter().for_each(|&lo| {
        let mut acc = Acc::default();
        let acc = &mut acc;
        for &hi in &all {
            let must_panic_everything = lo > hi;
            if must_panic_everything && !thorough {
                // every ternary function must panic here: the panicking region is covered on all
                // (lower, upper) pairs x 8 boundary values in the quick tier, completely in thorough
                for v in few::<T>(lo) { ternary::<T>(s, acc, v, lo, hi, true); }
            } else {
                for &v in &all { ternary::<T>(s, acc, v, lo, hi, lo <= hi && (v - lo).abs() <= 1 || (v - hi).abs() <= 1 || v == T::MIN || v == T::MAX || thorough); }
            }
        }
        for &v in &all { binary::<T>(s, acc, v, lo); }
        unary::<T>(s, lo);
        std::mem::take(acc).flush(s);
    });
    s.sample(json!({"type": T::NAME, "triples": "every (value, lower, upper) of the 8-bit domain", "example": {"call": "(-128).wrapped_between(2, 5)", "want": ref_wrapped_between(-128, 2, 5).map(|x| x.to_string())}}));
    s.sample(json!({"type": T::NAME, "example": {"call": "100.pingpong(100)", "want": ref_pingpong(100, 100).map(|x| x.to_string())}}));
}
/// boundary alphabet for wider integers: the cube of ~25 values
fn alphabet<T: Scalar>() -> Vec<i128> {
    let mut v = vec![T::MIN, T::MIN + 1, T::MIN + 2, T::MIN / 2, T::MIN / 2 + 1, -361, -360, -181, -180, -7, -3, -2, -1, 0, 1, 2, 3, 5, 7, 180, 181, 360, 361, T::MAX / 2, T::MAX / 2 + 1, T::MAX - 2, T::MAX - 1, T::MAX];
    v.retain(|x| *x >= T::MIN && *x <= T::MAX); v.sort(); v.dedup(); v
}
fn boundary<T: Scalar>(s: &Section) {
    let al = alphabet::<T>();
    al.par_iter().for_each(|&lo| {
        let mut acc = Acc::default();
        for &hi in &al { for &v in &al { ternary::<T>(s, &mut acc, v, lo, hi, true); } }
        for &v in &al { binary::<T>(s, &mut acc, v, lo); }
        unary::<T>(s, lo);
        acc.flush(s);
    });
    s.sample(json!({"type": T::NAME, "alphabet": al.iter().map(|x| x.to_string()).collect::<Vec<_>>()}));
}

/// run an oracle block; exact-rational overflow inside the oracle is "unmodelled", never a verdict
macro_rules! guard { ($s:expr, $body:block) => { match catch(|| $body) { Ok(()) => {}, Err(Caught::Unmodelled(w)) => $s.unmodelled(w), Err(Caught::Panic(m)) => $s.rep.machinery_error(format!("oracle panicked: {}", m)) } } }

// ---- floats ------------------------------------------------------------------------------------
macro_rules! float_suite { ($s:expr, $F:ident, $PI:expr) => {{
    let s: &Section = $s;
    let eps = $F::EPSILON as f64;
    let tiny: $F = (2.0 as $F).powi(-60);
    let vals: Vec<$F> = vec![0.0, -0.0, tiny, -tiny, 0.5, -0.5, 1.0, -1.0, 2.9999998, 3.0, -3.0, 6.0, -6.0, 7.25, -7.25, 359.9999, 360.0, -360.0, 720.0, 6.2831855, -6.2831855, 1e7, -1e7, 12345.678, -98765.43, 1048576.0 * 1048576.0, -1048576.0 * 1048576.0,
        // quotients x/upper at and beyond 2^63 (no integer type holds them): 2^70, 3*2^68, 1e20 and their negatives
        1180591620717411303424.0, -1180591620717411303424.0, 885443715538058477568.0, 1e20, -1e20];
    let ups: Vec<$F> = vec![1e-3, 0.5, 1.0, 3.0, ($PI + $PI) as $F, 360.0];
    let tol = |x: f64, up: f64| -> Q { vx::fl::qf(8.0 * eps * x.abs().max(up.abs())) };
    let qf = |v: $F| vx::fl::qf(v as f64);
    for &up in &ups { for &x in &vals { guard!(s, {
        let (xq, uq) = (qf(x), qf(up));
        let t = tol(x as f64, up as f64);
        // wrapped: in [0, upper] and congruent to x modulo upper
        match catch(|| x.wrapped(up)) {
            Ok(r) => {
                let rq = qf(r);
                let k = xq.sub(rq).div(uq).round();
                let err = xq.sub(rq).sub(k.mul(uq)).abs();
                let in_range = rq >= t.neg() && rq <= uq.add(t);
                if !(r.is_finite() && in_range && err <= t) { s.violation(concat!("Wrap::wrapped<", stringify!($F), ">"), "wrong-value", json!({"x": x, "upper": up, "got": r, "congruence_error": err.to_f64()})); }
            }
            Err(e) => s.violation(concat!("Wrap::wrapped<", stringify!($F), ">"), "panic-on-valid-input", json!({"x": x, "upper": up, "err": jd(&e)})),
        }
        // pingpong: triangle wave of period 2*upper (continuous: direct comparison)
        match catch(|| x.pingpong(up)) {
            Ok(r) => {
                let p2 = uq.add(uq);
                let m = xq.sub(xq.div(p2).floor().mul(p2));
                let want = uq.sub(m.sub(uq).abs());
                let err = qf(r).sub(want).abs();
                if !(r.is_finite() && err <= t.add(t)) { s.violation(concat!("Wrap::pingpong<", stringify!($F), ">"), "wrong-value", json!({"x": x, "upper": up, "got": r, "want": want.to_f64()})); }
            }
            Err(e) => s.violation(concat!("Wrap::pingpong<", stringify!($F), ">"), "panic-on-valid-input", json!({"x": x, "upper": up, "err": jd(&e)})),
        }
        s.evals(2, 2); s.class(if x < 0.0 { "negative" } else if x >= up { "beyond-upper" } else { "in-range" });
        // wrapped_between(lower = up/2 .. up*2) when lower >= 0
        let (lo, hi) = (up / 2.0, up * 2.0);
        match catch(|| x.wrapped_between(lo, hi)) {
            Ok(r) => {
                let (lq, hq, rq) = (qf(lo), qf(hi), qf(r));
                let range = hq.sub(lq);
                let k = xq.sub(rq).div(range).round();
                let err = xq.sub(rq).sub(k.mul(range)).abs();
                let t2 = tol(x as f64, hi as f64);
                if !(r.is_finite() && rq >= lq.sub(t2) && rq <= hq.add(t2) && err <= t2.add(t2)) { s.violation(concat!("Wrap::wrapped_between<", stringify!($F), ">"), "wrong-value", json!({"x": x, "lower": lo, "upper": hi, "got": r})); }
            }
            Err(e) => s.violation(concat!("Wrap::wrapped_between<", stringify!($F), ">"), "panic-on-valid-input", json!({"x": x, "lower": lo, "upper": hi, "err": jd(&e)})),
        }
        s.evals(1, 1);
    }) } }
    // documented panics
    for &(x, up) in &[(1.0 as $F, 0.0 as $F), (1.0, -1.0), (-5.0, -0.0)] {
        for (name, r) in [("wrapped", catch(|| x.wrapped(up))), ("pingpong", catch(|| x.pingpong(up)))] {
            s.evals(1, 1); s.class("upper-nonpositive(must panic)");
            if r.is_ok() { s.violation(&format!("Wrap::{}<{}>", name, stringify!($F)), "missing-documented-panic", json!({"x": x, "upper": up})); }
        }
    }
    for &(lo, hi) in &[(2.0 as $F, 2.0 as $F), (3.0, 2.0), (-1.0, 2.0)] {
        s.evals(1, 1);
        if catch(|| (1.0 as $F).wrapped_between(lo, hi)).is_ok() { s.violation(concat!("Wrap::wrapped_between<", stringify!($F), ">"), "missing-documented-panic", json!({"lower": lo, "upper": hi})); }
    }
    // clamp / is_between on a value x bounds grid, incl. infinities and signed zeros
    let cv: Vec<$F> = vec![$F::NEG_INFINITY, -1e30, -2.0, -1.0, -tiny, -0.0, 0.0, tiny, 0.5, 1.0, 1.0 + $F::EPSILON, 2.0, 1e30, $F::INFINITY];
    for &lo in &cv { for &hi in &cv { for &v in &cv {
        s.evals(2, if v < lo || v > hi { 2 } else { 0 });
        let rc = catch(|| v.clamped(lo, hi)); let rb = catch(|| v.is_between(lo, hi));
        if lo > hi {
            s.class("bounds-inverted(must panic)");
            if rc.is_ok() { s.violation(concat!("Clamp::clamped<", stringify!($F), ">"), "missing-documented-panic", json!({"v": v, "lo": lo, "hi": hi})); }
            if rb.is_ok() { s.violation(concat!("IsBetween::is_between<", stringify!($F), ">"), "missing-documented-panic", json!({"v": v, "lo": lo, "hi": hi})); }
        } else {
            s.class("bounds-ordered");
            let want = if v < lo { lo } else if v > hi { hi } else { v };
            match rc { Ok(g) => if g != want { s.violation(concat!("Clamp::clamped<", stringify!($F), ">"), "wrong-value", json!({"v": v, "lo": lo, "hi": hi, "got": g, "want": want})); },
                       Err(e) => s.violation(concat!("Clamp::clamped<", stringify!($F), ">"), "panic-on-valid-input", json!({"v": v, "lo": lo, "hi": hi, "err": jd(&e)})) }
            match rb { Ok(g) => if g != (lo <= v && v <= hi) { s.violation(concat!("IsBetween::is_between<", stringify!($F), ">"), "wrong-value", json!({"v": v, "lo": lo, "hi": hi, "got": g})); },
                       Err(e) => s.violation(concat!("IsBetween::is_between<", stringify!($F), ">"), "panic-on-valid-input", json!({"err": jd(&e)})) }
        }
    } } }
    for &v in &cv {
        s.evals(4, 4);
        let w01 = if v < 0.0 { 0.0 } else if v > 1.0 { 1.0 } else { v };
        let w11 = if v < -1.0 { -1.0 } else if v > 1.0 { 1.0 } else { v };
        if v.clamped01() != w01 || <$F as Clamp>::clamp01(v) != w01 { s.violation(concat!("Clamp::clamped01<", stringify!($F), ">"), "wrong-value", json!({"v": v})); }
        if v.clamped_minus1_1() != w11 || <$F as Clamp>::clamp_minus1_1(v) != w11 { s.violation(concat!("Clamp::clamped_minus1_1<", stringify!($F), ">"), "wrong-value", json!({"v": v})); }
        if v.is_between01() != (0.0 <= v && v <= 1.0) { s.violation(concat!("IsBetween::is_between01<", stringify!($F), ">"), "wrong-value", json!({"v": v})); }
    }
    // angle differences
    let pi = $PI as $F;
    let angs: Vec<$F> = vec![0.0, 0.1, -0.1, 1.0, -1.0, 3.0, -3.0, pi, -pi, 3.5, -3.5, 6.0, -6.0, 6.5, 10.0, -10.0, 100.0, -100.0];
    let period = qf(pi + pi); let piq = qf(pi);
    for &a in &angs { for &b in &angs { guard!(s, {
        s.evals(1, if (b - a).abs() > pi { 1 } else { 0 });
        s.class(if (b - a).abs() > pi { "needs-wrap" } else { "direct" });
        match catch(|| a.delta_angle(b)) {
            Ok(r) => {
                let d = qf(b - a); // the property states congruence to target - self (as computed)
                let rq = qf(r);
                let k = d.sub(rq).div(period).round();
                let err = d.sub(rq).sub(k.mul(period)).abs();
                let t = vx::fl::qf(16.0 * eps * ((b - a).abs() as f64).max(7.0));
                if !(rq > piq.neg().sub(t) && rq <= piq.add(t) && err <= t) { s.violation(concat!("Wrap::delta_angle<", stringify!($F), ">"), "wrong-value", json!({"self": a, "target": b, "got": r})); }
            }
            Err(e) => s.violation(concat!("Wrap::delta_angle<", stringify!($F), ">"), "panic-on-valid-input", json!({"self": a, "target": b, "err": jd(&e)})),
        }
    }) } }
    let degs: Vec<$F> = vec![0.0, 10.0, -10.0, 90.0, 179.0, 180.0, 181.0, -179.0, -180.0, -181.0, 270.0, 359.0, 360.0, 361.0, 540.0, -540.0, 720.0, 1000.0, -1000.0];
    for &a in &degs { for &b in &degs { guard!(s, {
        s.evals(2, 2);
        let d = (b as f64) - (a as f64);
        let m = d.rem_euclid(360.0); let want = if m > 180.0 { m - 360.0 } else { m };
        match catch(|| a.delta_angle_degrees(b)) { Ok(r) => if (r as f64) != want { s.violation(concat!("Wrap::delta_angle_degrees<", stringify!($F), ">"), "wrong-value", json!({"self": a, "target": b, "got": r, "want": want})); },
            Err(e) => s.violation(concat!("Wrap::delta_angle_degrees<", stringify!($F), ">"), "panic-on-valid-input", json!({"self": a, "target": b, "err": jd(&e)})) }
        // wrapped_2pi on the degree values read as radians: in [0, 2pi], congruent
        match catch(|| a.wrapped_2pi()) { Ok(r) => { let rq = qf(r); let k = qf(a).sub(rq).div(period).round(); let err = qf(a).sub(rq).sub(k.mul(period)).abs(); let t = vx::fl::qf(16.0 * eps * (a.abs() as f64).max(7.0));
                if !(rq >= t.neg() && rq <= period.add(t) && err <= t) || <$F as Wrap>::wrap_2pi(a) != r { s.violation(concat!("Wrap::wrapped_2pi<", stringify!($F), ">"), "wrong-value", json!({"x": a, "got": r})); } }
            Err(e) => s.violation(concat!("Wrap::wrapped_2pi<", stringify!($F), ">"), "panic-on-valid-input", json!({"x": a, "err": jd(&e)})) }
    }) } }
    s.sample(json!({"type": stringify!($F), "example": {"call": "(-1e-20).wrapped(3.0)", "law": "result in [0,3] and (x-result)/3 within 8 eps*max(|x|,3) of an integer"}}));
}} }


// ================================================================================================
// Additions of the audit round (sections "... (audit)"): helpers
// ================================================================================================

// ---- exact dyadic arithmetic (arbitrary precision) for the float oracles: no case is lost to rational overflow ----
mod big {
    use std::cmp::Ordering::{self, *};
    #[derive(Clone, Debug, PartialEq, Eq)]
    pub struct Big(pub Vec<u64>); // little-endian limbs, no leading zero limb
    impl Big {
        fn norm(mut self) -> Big { while self.0.last() == Some(&0) { self.0.pop(); } self }
        pub fn from_u64(x: u64) -> Big { Big(vec![x]).norm() }
        pub fn is_zero(&self) -> bool { self.0.is_empty() }
        pub fn bits(&self) -> usize { match self.0.last() { None => 0, Some(&t) => 64 * self.0.len() - t.leading_zeros() as usize } }
        pub fn shl(&self, n: usize) -> Big {
            if self.is_zero() { return Big(vec![]); }
            let (w, b) = (n / 64, n % 64);
            let mut v = vec![0u64; w]; let mut carry = 0u64;
            for &l in &self.0 { if b == 0 { v.push(l); } else { v.push((l << b) | carry); carry = l >> (64 - b); } }
            if carry != 0 { v.push(carry); }
            Big(v).norm()
        }
        pub fn cmp(&self, o: &Big) -> Ordering { self.0.len().cmp(&o.0.len()).then_with(|| self.0.iter().rev().cmp(o.0.iter().rev())) }
        pub fn add(&self, o: &Big) -> Big {
            let n = self.0.len().max(o.0.len()); let mut v = Vec::with_capacity(n + 1); let mut c = 0u128;
            for i in 0..n { let t = *self.0.get(i).unwrap_or(&0) as u128 + *o.0.get(i).unwrap_or(&0) as u128 + c; v.push(t as u64); c = t >> 64; }
            if c != 0 { v.push(c as u64); }
            Big(v).norm()
        }
        /// self - o, requires self >= o
        pub fn sub(&self, o: &Big) -> Big {
            assert!(self.cmp(o) != Less, "Big::sub underflow");
            let mut v = Vec::with_capacity(self.0.len()); let mut borrow = 0u64;
            for i in 0..self.0.len() {
                let (a, b) = (self.0[i], *o.0.get(i).unwrap_or(&0));
                let (d1, b1) = a.overflowing_sub(b); let (d2, b2) = d1.overflowing_sub(borrow);
                v.push(d2); borrow = (b1 || b2) as u64;
            }
            Big(v).norm()
        }
        /// self mod m by shift-and-subtract
        pub fn rem(&self, m: &Big) -> Big {
            assert!(!m.is_zero());
            let mut r = self.clone();
            if r.cmp(m) == Less { return r; }
            let sh = r.bits() - m.bits();
            for i in (0..=sh).rev() { let t = m.shl(i); if r.cmp(&t) != Less { r = r.sub(&t); } }
            r
        }
    }
    /// signed big integer
    #[derive(Clone, Debug)]
    pub struct Sd { pub neg: bool, pub m: Big }
    impl Sd {
        pub fn new(neg: bool, m: Big) -> Sd { Sd { neg: neg && !m.is_zero(), m } }
        pub fn negate(&self) -> Sd { Sd::new(!self.neg, self.m.clone()) }
        pub fn abs(&self) -> Sd { Sd::new(false, self.m.clone()) }
        pub fn add(&self, o: &Sd) -> Sd {
            if self.neg == o.neg { return Sd::new(self.neg, self.m.add(&o.m)); }
            match self.m.cmp(&o.m) { Less => Sd::new(o.neg, o.m.sub(&self.m)), _ => Sd::new(self.neg, self.m.sub(&o.m)) }
        }
        pub fn sub(&self, o: &Sd) -> Sd { self.add(&o.negate()) }
        pub fn cmp(&self, o: &Sd) -> Ordering {
            match (self.neg, o.neg) { (false, true) => Greater, (true, false) => Less, (false, false) => self.m.cmp(&o.m), (true, true) => o.m.cmp(&self.m) }
        }
        pub fn lt(&self, o: &Sd) -> bool { self.cmp(o) == Less }
        pub fn le(&self, o: &Sd) -> bool { self.cmp(o) != Greater }
        pub fn gt(&self, o: &Sd) -> bool { self.cmp(o) == Greater }
        /// floor-modulo by a positive modulus: the representative in [0, p)
        pub fn mod_floor(&self, p: &Big) -> Big { let r = self.m.rem(p); if self.neg && !r.is_zero() { p.sub(&r) } else { r } }
    }
    /// finite float = (-1)^neg * mant * 2^exp exactly, mant odd or zero
    pub fn decomp(f: f64) -> (bool, u64, i32) {
        assert!(f.is_finite());
        let b = f.to_bits(); let neg = b >> 63 == 1; let e = ((b >> 52) & 0x7ff) as i32; let frac = b & ((1u64 << 52) - 1);
        let (mut m, mut x) = if e == 0 { (frac, -1074) } else { (frac | (1u64 << 52), e - 1075) };
        if m == 0 { return (false, 0, 0); }
        let tz = m.trailing_zeros(); m >>= tz; x += tz as i32;
        (neg, m, x)
    }
    /// a common unit 2^e in which every listed float is an integer
    pub struct Units { e: i32 }
    impl Units {
        pub fn of(fs: &[f64]) -> Units { Units { e: fs.iter().filter(|f| **f != 0.0).map(|&f| decomp(f).2).min().unwrap_or(0) } }
        pub fn u(&self, f: f64) -> Sd { let (n, m, x) = decomp(f); if m == 0 { return Sd::new(false, Big(vec![])); } assert!(x >= self.e, "float not in Units::of list"); Sd::new(n, Big::from_u64(m).shl((x - self.e) as usize)) }
    }
}
use big::{Sd, Units};
use std::cmp::Ordering as Ord3;

/// Range law of the float wraps, exactly: r finite, lo - tolr <= r <= hi + tolr, and x - r within tolc of a multiple of
/// the period (hi - lo).  None = holds, Some(which clause failed).
fn wrap_law(x: f64, r: f64, lo: f64, hi: f64, tolr: f64, tolc: f64) -> Option<&'static str> {
    if !r.is_finite() { return Some("result-not-finite"); }
    let u = Units::of(&[x, r, lo, hi, tolr, tolc]);
    let (xs, rs, ls, hs, tr, tc) = (u.u(x), u.u(r), u.u(lo), u.u(hi), u.u(tolr), u.u(tolc));
    let p = hs.sub(&ls);
    assert!(!p.neg && !p.m.is_zero(), "wrap_law: empty period");
    if rs.lt(&ls.sub(&tr)) || rs.gt(&hs.add(&tr)) { return Some("outside-[lower,upper]"); }
    let m = xs.sub(&rs).mod_floor(&p.m);
    let alt = p.m.sub(&m);
    let err = if m.cmp(&alt) == Ord3::Less { m } else { alt };
    if Sd::new(false, err).gt(&tc) { return Some("not-congruent-to-input"); }
    None
}
/// Triangle wave, exactly: |r - (up - |(x mod 2up) - up|)| <= tol
fn pingpong_law(x: f64, r: f64, up: f64, tol: f64) -> Option<&'static str> {
    if !r.is_finite() { return Some("result-not-finite"); }
    let u = Units::of(&[x, r, up, tol]);
    let (xs, rs, us, t) = (u.u(x), u.u(r), u.u(up), u.u(tol));
    let p2 = us.add(&us);
    let m = Sd::new(false, xs.mod_floor(&p2.m));
    let want = us.sub(&m.sub(&us).abs());
    if rs.sub(&want).abs().gt(&t) { return Some("not-the-triangle-wave"); }
    None
}
/// Angle difference, exactly: -half - tol < r <= half + tol and (target - self) - r within tol of a multiple of 2*half,
/// where target - self is the exact difference of the two inputs (not its rounded float value)
fn angle_law(a: f64, b: f64, r: f64, half: f64, tol: f64) -> Option<&'static str> {
    if !r.is_finite() { return Some("result-not-finite"); }
    let u = Units::of(&[a, b, r, half, tol]);
    let (ds, rs, hs, t) = (u.u(b).sub(&u.u(a)), u.u(r), u.u(half), u.u(tol));
    if rs.le(&hs.negate().sub(&t)) || rs.gt(&hs.add(&t)) { return Some("outside-(-half,half]"); }
    let p = hs.add(&hs);
    let m = ds.sub(&rs).mod_floor(&p.m);
    let alt = p.m.sub(&m);
    let err = if m.cmp(&alt) == Ord3::Less { m } else { alt };
    if Sd::new(false, err).gt(&t) { return Some("not-congruent-to-target-minus-self"); }
    None
}

// ---- wider integers: stratified sweep ------------------------------------------------------------
fn mag_bits<T: Scalar>() -> u32 { 128 - (T::MAX as u128).leading_zeros() }
fn in_range<T: Scalar>(mut v: Vec<i128>) -> Vec<i128> { v.retain(|x| *x >= T::MIN && *x <= T::MAX); v.sort(); v.dedup(); v }
/// value strata: +-(2^k + {-1,0,1}) for every k, 18 equidistant points of the whole range, small and "angle" values, range ends
fn strata_values<T: Scalar>() -> Vec<i128> {
    let mut v = vec![T::MIN, T::MIN + 1, T::MIN + 2, T::MAX - 2, T::MAX - 1, T::MAX, 0];
    for k in 0..=mag_bits::<T>() { for d in [-1i128, 0, 1] { let x = (1i128 << k) + d; v.push(x); v.push(-x); } }
    let step = (T::MAX - T::MIN) / 17;
    for j in 0..=17 { v.push(T::MIN + j * step); v.push(T::MIN + j * step + 1); }
    for x in [3i128, 5, 6, 7, 10, 11, 97, 100, 179, 180, 181, 359, 360, 361, 719, 720, 1000, 46341, 1000003, 3037000500] { v.push(x); v.push(-x); }
    in_range::<T>(v)
}
/// positive bound strata (quick: a selection of the exponents; thorough: every exponent)
fn strata_bounds<T: Scalar>(thorough: bool) -> Vec<i128> {
    let mb = mag_bits::<T>();
    let mut v = vec![1i128, 2, 3, 5, 7, 10, 97, 360, T::MAX / 3, T::MAX / 2, T::MAX / 2 + 1, T::MAX - 1, T::MAX];
    let ks: Vec<u32> = if thorough { (1..=mb).collect() } else { vec![mb / 4, mb / 2, mb - 2, mb - 1, mb] };
    for k in ks { for d in [-1i128, 0, 1] { v.push((1i128 << k) + d); } }
    v.retain(|x| *x > 0);
    in_range::<T>(v)
}
/// Valid region only (the panicking region costs ~20 us per case under contention; the boundary section and, in the
/// thorough tier, `sweep_panics` cover it): every function and alias on ordered bounds x all value strata.
fn sweep<T: Scalar>(s: &Section) {
    let thorough = s.thorough();
    let vals = strata_values::<T>();
    let pos = strata_bounds::<T>(thorough);
    let mut cb: Vec<i128> = pos.iter().flat_map(|&p| [p, -p]).collect(); cb.extend([T::MIN, T::MIN + 1, 0]);
    let cb = in_range::<T>(cb);
    cb.par_iter().for_each(|&lo| {
        let mut acc = Acc::default();
        for &hi in &cb { if lo > hi { continue; }
            let wrap_ok = lo >= 0 && lo < hi;
            let (tlo, thi) = (T::mk(lo), T::mk(hi));
            for &v in &vals {
                let tv = T::mk(v); let a = [v, lo, hi];
                let wc = ref_clamp(v, lo, hi);
                judge::<T>(s, "Clamp::clamped", &a, wc, catch(|| tv.clamped(tlo, thi)));
                judge::<T>(s, "Clamp::clamp", &a, wc, catch(|| T::clamp(tv, tlo, thi)));
                judge::<T>(s, "Clamp::clamped_to_inclusive_range", &a, wc, catch(|| tv.clamped_to_inclusive_range(tlo..=thi)));
                judge::<T>(s, "Clamp::clamp_to_inclusive_range", &a, wc, catch(|| T::clamp_to_inclusive_range(tv, tlo..=thi)));
                let wb = Some(lo <= v && v <= hi);
                judge_bool::<T>(s, "IsBetween::is_between", &a, wb, catch(|| tv.is_between(tlo, thi)));
                judge_bool::<T>(s, "IsBetween::is_between_inclusive_range_bounds", &a, wb, catch(|| tv.is_between_inclusive_range_bounds(tlo..=thi)));
                let mut n = 6;
                if wrap_ok {
                    let ww = ref_wrapped_between(v, lo, hi);
                    judge::<T>(s, "Wrap::wrapped_between", &a, ww, catch(|| tv.wrapped_between(tlo, thi)));
                    judge::<T>(s, "Wrap::wrap_between", &a, ww, catch(|| T::wrap_between(tv, tlo, thi)));
                    n += 2; acc.class("wrap-between-valid");
                }
                acc.evals(n, if v < lo || v > hi { n } else { 0 });
                if v < lo { acc.class("value-below"); } else if v > hi { acc.class("value-above"); } else { acc.class("value-inside"); }
            }
        }
        if lo > 0 { for &v in &vals { binary::<T>(s, &mut acc, v, lo); } }
        acc.flush(s);
    });
}
/// thorough only: the panicking region on the strata (inverted bounds, negative lower, non-positive upper)
fn sweep_panics<T: Scalar>(s: &Section) {
    let pos = strata_bounds::<T>(false);
    let mut cb: Vec<i128> = pos.iter().flat_map(|&p| [p, -p]).collect(); cb.extend([T::MIN, T::MIN + 1, 0]);
    let cb = in_range::<T>(cb);
    cb.par_iter().for_each(|&lo| {
        let mut acc = Acc::default();
        for &hi in &cb { if lo < hi && lo >= 0 { continue; } for v in few::<T>(lo) { ternary::<T>(s, &mut acc, v, lo, hi, true); } }
        if lo <= 0 { for v in few::<T>(lo) { binary::<T>(s, &mut acc, v, lo); } }
        acc.flush(s);
    });
}
/// thorough only: every (value, upper > 0) pair of a 16-bit type for wrapped and pingpong
fn pairs16<T: Scalar>(s: &Section) {
    let ups: Vec<i128> = (1..=T::MAX).collect();
    ups.par_iter().for_each(|&up| {
        let tup = T::mk(up); let mut nt = 0u64;
        for v in T::MIN..=T::MAX {
            let tv = T::mk(v); let a = [v, up];
            judge::<T>(s, "Wrap::wrapped", &a, ref_wrapped(v, up), catch(|| tv.wrapped(tup)));
            judge::<T>(s, "Wrap::pingpong", &a, ref_pingpong(v, up), catch(|| tv.pingpong(tup)));
            if v < 0 || v >= up { nt += 2; }
        }
        s.evals(2 * (T::MAX - T::MIN + 1) as u64, nt);
    });
}

/// integer delta_angle_degrees over the whole range of the type.  The result is asserted whenever the mathematical
/// answer (the representative of target - self modulo 360 in (-180, 180]) is representable in the type.
fn delta_deg<T: Scalar + From<u16>>(s: &Section) {
    let mut al: Vec<i128> = vec![0, 1, -1, 10, 90, 179, 180, 181, -179, -180, -181, 270, 359, 360, 361, 540, -540, 720, 1000, -1000,
        T::MIN, T::MIN + 1, T::MIN / 2, T::MAX / 2, T::MAX / 2 + 1, T::MAX - 1, T::MAX, T::MAX - 359, T::MAX - 180];
    for k in [9u32, 15, 16, 31, 32, 62, 63] { for d in [-1i128, 0, 1] { al.push((1i128 << k) + d); al.push(-((1i128 << k) + d)); } }
    let al = in_range::<T>(al);
    for &a in &al { for &b in &al {
        let m = (b - a).rem_euclid(360); let w = if m > 180 { m - 360 } else { m };
        let fits = b - a >= T::MIN && b - a <= T::MAX;
        if w < T::MIN { s.evals(1, 0); s.class("answer-not-representable(unsigned, not asserted)"); continue; }
        s.evals(1, if (b - a).abs() > 180 { 1 } else { 0 });
        s.class(if fits { "target-minus-self-representable" } else { "target-minus-self-not-representable(answer is)" });
        judge::<T>(s, "Wrap::delta_angle_degrees", &[a, b], Some(w), catch(|| T::mk(a).delta_angle_degrees(T::mk(b))));
    } }
}

// ---- floats: exact dyadic oracle on a wide alphabet ---------------------------------------------
macro_rules! float_dyadic { ($s:expr, $F:ident, $PI:expr) => {{
    let s: &Section = $s;
    let thorough = s.thorough();
    let eps = $F::EPSILON as f64;
    let nx = |f: $F| $F::from_bits(f.to_bits() + 1);
    let pv = |f: $F| $F::from_bits(f.to_bits() - 1);
    let dedup = |mut v: Vec<$F>| -> Vec<$F> { v.retain(|x| x.is_finite()); v.sort_by_key(|x| x.to_bits()); v.dedup_by_key(|x| x.to_bits()); v };
    let pi = $PI as $F;
    let mut raw: Vec<f64> = vec![0.0, 1e-20, 0.1, 0.5, 1.0, 1.5, 2.9999998, 3.0, 4.5, 6.0, 7.25, 359.9999, 360.0, 719.5, 720.0, 1e7, 12345.678, 98765.43, 1099511627776.0, 9007199254740992.0,
        1180591620717411303424.0, 885443715538058477568.0, 1e20, 1e30, 1e100, 1e300];
    if thorough { for k in -70..=100 { for m in [1.0f64, 1.5, 1.9999999, 1.0000001] { raw.push(m * (2.0f64).powi(k)); } } }
    let mut vals: Vec<$F> = Vec::new();
    for &v in &raw { vals.push(v as $F); vals.push(-(v as $F)); }
    let tiny: $F = (2.0 as $F).powi(-60);
    for v in [$F::MIN_POSITIVE, $F::from_bits(1), $F::from_bits(12345), tiny, $F::EPSILON, pv(1.0), nx(1.0), pv(3.0), nx(3.0), pi, pi + pi, pv(pi + pi), nx(pi + pi), pv(360.0), nx(360.0), $F::MAX, $F::MAX / 2.0, $F::MAX / 1024.0] { vals.push(v); vals.push(-v); }
    let vals = dedup(vals);
    let mut ups: Vec<$F> = vec![tiny, 1e-3, 0.1, 0.5, 1.0, 3.0, nx(3.0), 7.25, pi + pi, 360.0, 1e7, 1180591620717411303424.0, 1e30, $F::MAX / 4.0, $F::MAX / 2.0, $F::MAX];
    if thorough { for k in (-60..=100).step_by(5) { ups.push((2.0 as $F).powi(k)); ups.push(1.7 * (2.0 as $F).powi(k)); } }
    let ups = dedup(ups);
    // the classes under which a failure is reported: the ordinary law, or the same law on inputs whose quotient
    // value/upper (or the doubled upper of pingpong) is not representable in the type
    let site = |f: &str| format!("Wrap::{}<{}>", f, stringify!($F));
    let tol = |x: $F, up: $F| -> f64 { 8.0 * eps * (x.abs() as f64).max(up as f64) };
    ups.par_iter().for_each(|&up| { for &x in &vals {
        // classification only (never the verdict): does the documented formula self - floor(self/upper)*upper leave the type?
        let q_over = { let q = x / up; !q.is_finite() || !(q.floor() * up).is_finite() };
        let t = tol(x, up);
        s.evals(4, 4);
        if q_over { s.class("intermediate-overflows"); } else if x < 0.0 { s.class("negative"); } else if x >= up { s.class("beyond-upper"); } else { s.class("in-range"); }
        let class = if q_over { "result-not-finite(quotient or product overflows)" } else { "wrong-value" };
        // the alias is judged by the same law; where the formula overflows only the primary spelling reports
        for (f, r) in [("wrapped", catch(|| x.wrapped(up))), ("wrap", catch(|| <$F as Wrap>::wrap(x, up)))] {
            if q_over && f == "wrap" { continue; }
            match r {
                Ok(r) => if let Some(why) = wrap_law(x as f64, r as f64, 0.0, up as f64, t, t) { s.violation_w(&site(f), class, json!({"x": x, "upper": up, "got": jd(&r), "failed": why}), (x.abs() as f64).log2().abs() as u64); },
                Err(e) => s.violation(&site(f), "panic-on-valid-input", json!({"x": x, "upper": up, "err": jd(&e)})),
            }
        }
        let p2 = up + up;
        let up2_over = !p2.is_finite();
        let pq_over = up2_over || { let q = x / p2; !q.is_finite() || !(q.floor() * p2).is_finite() };
        let classp = if up2_over { "result-not-finite(upper+upper overflows)" } else if pq_over { "result-not-finite(quotient or product overflows)" } else { "wrong-value" };
        if up2_over { s.class("doubled-upper-not-representable"); }
        match catch(|| x.pingpong(up)) {
            Ok(r) => if let Some(why) = pingpong_law(x as f64, r as f64, up as f64, 2.0 * t) { s.violation_w(&site("pingpong"), classp, json!({"x": x, "upper": up, "got": jd(&r), "failed": why}), (x.abs() as f64).log2().abs() as u64); },
            Err(e) => s.violation(&site("pingpong"), "panic-on-valid-input", json!({"x": x, "upper": up, "err": jd(&e)})),
        }
    } });
    // wrapped_between / wrap_between on every ordered pair of a bounds alphabet: lower = 0, tiny lower, adjacent bounds, far apart bounds
    let bs = dedup(vec![0.0, tiny, 1e-3, 0.5, 1.0, 2.0, 3.0, nx(3.0), 7.25, 359.0, 360.0, 1e7, 1e30]);
    let pairs: Vec<($F, $F)> = bs.iter().flat_map(|&lo| bs.iter().filter(move |&&hi| lo < hi).map(move |&hi| (lo, hi))).collect();
    pairs.par_iter().for_each(|&(lo, hi)| { for &x in &vals {
        let range = hi - lo;
        let q_over = { let q = (x - lo) / range; !q.is_finite() || !(q.floor() * range).is_finite() };
        let class = if q_over { "result-not-finite(quotient or product overflows)" } else { "wrong-value" };
        let t2 = tol(x, hi);
        s.evals(2, 2);
        s.class(if lo == 0.0 { "lower-is-zero" } else if (range as f64) < 1e-3 * (hi as f64) { "adjacent-bounds" } else { "generic-bounds" });
        // the period is the exact hi - lo of the text; the code's fl(hi - lo) is off by <= eps/2 * range, which after
        // |x| / range periods is <= eps/2 * |x|: inside the tolerance, no extra slack
        for (f, r) in [("wrapped_between", catch(|| x.wrapped_between(lo, hi))), ("wrap_between", catch(|| <$F as Wrap>::wrap_between(x, lo, hi)))] {
            if q_over && f == "wrap_between" { continue; }
            match r {
                Ok(r) => if let Some(why) = wrap_law(x as f64, r as f64, lo as f64, hi as f64, t2, 2.0 * t2) { s.violation_w(&site(f), class, json!({"x": x, "lower": lo, "upper": hi, "got": jd(&r), "failed": why}), (x.abs() as f64).log2().abs() as u64); },
                Err(e) => s.violation(&site(f), "panic-on-valid-input", json!({"x": x, "lower": lo, "upper": hi, "err": jd(&e)})),
            }
        }
    } });
    // documented panics, every function and alias: non-positive / inverted / equal / negative bounds
    for &up in &[0.0 as $F, -0.0, -tiny, -1.0, -$F::MAX, $F::NEG_INFINITY] { for &x in &[0.0 as $F, 1.0, -5.0, 1e7] {
        for (f, ok) in [("wrapped", catch(|| x.wrapped(up)).is_ok()), ("wrap", catch(|| <$F as Wrap>::wrap(x, up)).is_ok()), ("pingpong", catch(|| x.pingpong(up)).is_ok())] {
            s.evals(1, 1); s.class("upper-nonpositive(must panic)");
            if ok { s.violation(&site(f), "missing-documented-panic", json!({"x": x, "upper": up})); }
        }
    } }
    for &(lo, hi) in &[(2.0 as $F, 2.0 as $F), (0.0, 0.0), (3.0, 2.0), (nx(3.0), 3.0), (-1.0, 2.0), (-tiny, 1.0), (-2.0, -1.0), ($F::NEG_INFINITY, 1.0), (1.0, 0.0), (-0.0, 0.0)] { for &x in &[0.0 as $F, 1.0, -5.0] {
        for (f, ok) in [("wrapped_between", catch(|| x.wrapped_between(lo, hi)).is_ok()), ("wrap_between", catch(|| <$F as Wrap>::wrap_between(x, lo, hi)).is_ok())] {
            s.evals(1, 1); s.class("bounds-invalid(must panic)");
            if ok { s.violation(&site(f), "missing-documented-panic", json!({"x": x, "lower": lo, "upper": hi})); }
        }
    } }
    // wrapped_2pi / wrap_2pi on the whole value alphabet
    let two_pi = pi + pi;
    for &x in &vals {
        if !((x / two_pi).floor() * two_pi).is_finite() { continue; } // reported by the wrapped rows above
        s.evals(2, 2);
        let t = 2.0 * tol(x, two_pi);
        match (catch(|| x.wrapped_2pi()), catch(|| <$F as Wrap>::wrap_2pi(x))) {
            (Ok(r), Ok(r2)) => {
                if let Some(why) = wrap_law(x as f64, r as f64, 0.0, two_pi as f64, t, t) { s.violation(&site("wrapped_2pi"), "wrong-value", json!({"x": x, "got": jd(&r), "failed": why})); }
                if let Some(why) = wrap_law(x as f64, r2 as f64, 0.0, two_pi as f64, t, t) { s.violation(&site("wrap_2pi"), "wrong-value", json!({"x": x, "got": jd(&r2), "failed": why})); }
            }
            (a, b) => s.violation(&site("wrapped_2pi"), "panic-on-valid-input", json!({"x": x, "err": jd(&(a.err(), b.err()))})),
        }
    }
    // angle differences: wide alphabet, exact law, and the sign at the closed end of (-half, half]
    let mut angs: Vec<$F> = vec![0.0, tiny, 1e-20 as $F, 0.1, 1.0, 3.0, pv(pi), pi, nx(pi), 3.5, 6.0, pv(two_pi), two_pi, nx(two_pi), 6.5, 10.0, 100.0, 1e7, 12345.678];
    if thorough { for k in -30..=30 { angs.push(1.3 * (2.0 as $F).powi(k)); } }
    let angs = dedup(angs.iter().flat_map(|&a| [a, -a]).collect());
    angs.par_iter().for_each(|&a| { for &b in &angs {
        let d = b - a;
        s.evals(1, if d.abs() > pi { 1 } else { 0 });
        s.class(if d.abs() == pi { "exactly-half-turn" } else if d.abs() > pi { "needs-wrap" } else { "direct" });
        match catch(|| a.delta_angle(b)) {
            Ok(r) => {
                // target - self is the exact difference; forming it in the type already costs eps/2 * max(|self|,|target|)
                let t = 16.0 * eps * (a.abs().max(b.abs()) as f64).max(7.0);
                if let Some(why) = angle_law(a as f64, b as f64, r as f64, pi as f64, t) { s.violation(&site("delta_angle"), "wrong-value", json!({"self": a, "target": b, "got": jd(&r), "failed": why})); }
                if d.abs() == pi && !(r > 0.0) { s.violation(&site("delta_angle"), "half-turn-returned-at-open-end", json!({"self": a, "target": b, "got": jd(&r), "law": "(-pi, pi]: a difference of exactly -pi or pi is reported as +pi"})); }
            }
            Err(e) => s.violation(&site("delta_angle"), "panic-on-valid-input", json!({"self": a, "target": b, "err": jd(&e)})),
        }
    } });
    let mut degs: Vec<$F> = vec![0.0, tiny, 0.25, 10.0, 89.5, 90.0, 179.75, 180.0, 180.25, 270.0, 359.5, 360.0, 360.25, 540.0, 719.875, 720.0, 1000.0, 12345.678, 1e7];
    if thorough { for k in -30..=30 { degs.push(1.3 * (2.0 as $F).powi(k)); } }
    let degs = dedup(degs.iter().flat_map(|&a| [a, -a]).collect());
    degs.par_iter().for_each(|&a| { for &b in &degs {
        let d = b - a;
        s.evals(1, if d.abs() > 180.0 { 1 } else { 0 });
        match catch(|| a.delta_angle_degrees(b)) {
            Ok(r) => {
                let t = 16.0 * eps * (a.abs().max(b.abs()) as f64).max(360.0);
                if let Some(why) = angle_law(a as f64, b as f64, r as f64, 180.0, t) { s.violation(&site("delta_angle_degrees"), "wrong-value", json!({"self": a, "target": b, "got": jd(&r), "failed": why})); }
                if d.abs() == 180.0 && r != 180.0 { s.violation(&site("delta_angle_degrees"), "half-turn-returned-at-open-end", json!({"self": a, "target": b, "got": jd(&r)})); }
            }
            Err(e) => s.violation(&site("delta_angle_degrees"), "panic-on-valid-input", json!({"self": a, "target": b, "err": jd(&e)})),
        }
    } });
    // clamp / range test: all six forms on a grid with NaN, infinities, MAX, subnormals, neighbours of 1
    let sub = $F::from_bits(1);
    let cv: Vec<$F> = vec![$F::NEG_INFINITY, -$F::MAX, -1e30, -2.0, -nx(1.0), -1.0, -pv(1.0), -$F::MIN_POSITIVE, -sub, -0.0, 0.0, sub, $F::MIN_POSITIVE, 0.5, pv(1.0), 1.0, nx(1.0), 2.0, 1e30, $F::MAX, $F::INFINITY, $F::NAN];
    let csite = |f: &str| format!("{}<{}>", f, stringify!($F));
    cv.par_iter().for_each(|&lo| { for &hi in &cv { for &v in &cv {
        let rc = [("Clamp::clamped", catch(|| v.clamped(lo, hi))), ("Clamp::clamp", catch(|| <$F as Clamp>::clamp(v, lo, hi))),
                  ("Clamp::clamped_to_inclusive_range", catch(|| v.clamped_to_inclusive_range(lo..=hi))), ("Clamp::clamp_to_inclusive_range", catch(|| <$F as Clamp>::clamp_to_inclusive_range(v, lo..=hi)))];
        let rb = [("IsBetween::is_between", catch(|| v.is_between(lo, hi))), ("IsBetween::is_between_inclusive_range_bounds", catch(|| v.is_between_inclusive_range_bounds(lo..=hi)))];
        s.evals(6, if v < lo || v > hi { 6 } else { 0 });
        if !(lo <= hi) {
            // "panics exactly when the bounds are not ordered lower <= upper": includes a NaN bound
            s.class(if lo.is_nan() || hi.is_nan() { "nan-bound(must panic)" } else { "bounds-inverted(must panic)" });
            for (f, r) in rc { if r.is_ok() { s.violation(&csite(f), if lo.is_nan() || hi.is_nan() { "missing-documented-panic(nan bound)" } else { "missing-documented-panic" }, json!({"v": jd(&v), "lo": jd(&lo), "hi": jd(&hi)})); } }
            for (f, r) in rb { if r.is_ok() { s.violation(&csite(f), if lo.is_nan() || hi.is_nan() { "missing-documented-panic(nan bound)" } else { "missing-documented-panic" }, json!({"v": jd(&v), "lo": jd(&lo), "hi": jd(&hi)})); } }
        } else if v.is_nan() {
            // ordered bounds: no panic ("panics exactly when..."); which value clamp returns is left open by the text, but clamp
            // must agree with the range test: clamp hands back the value itself iff the range test accepts it (NaN is never handed back)
            s.class("nan-value");
            let mut kept = false;
            for (f, r) in rc { match r { Ok(g) => { if g.to_bits() == v.to_bits() { kept = true; } }, Err(_) => s.violation(&csite(f), "panic-on-valid-input", json!({"v": jd(&v), "lo": jd(&lo), "hi": jd(&hi)})) } }
            for (f, r) in rb { match r { Ok(b) => if b != kept { s.violation(&csite(f), "disagrees-with-clamp(nan value)", json!({"v": jd(&v), "lo": jd(&lo), "hi": jd(&hi), "range test": b, "clamp returned the value itself": kept})); }, Err(_) => s.violation(&csite(f), "panic-on-valid-input", json!({"v": jd(&v), "lo": jd(&lo), "hi": jd(&hi)})) } }
        } else {
            s.class("bounds-ordered");
            let want = if v < lo { lo } else if v > hi { hi } else { v };
            let inside = lo <= v && v <= hi;
            for (f, r) in rc { match r {
                Ok(g) => {
                    if g != want { s.violation(&csite(f), "wrong-value", json!({"v": jd(&v), "lo": jd(&lo), "hi": jd(&hi), "got": jd(&g), "want": jd(&want)})); }
                    // idempotent, agrees with the range test (on the real code)
                    if catch(|| g.clamped(lo, hi)).ok() != Some(g) { s.violation(&csite(f), "not-idempotent", json!({"v": jd(&v), "lo": jd(&lo), "hi": jd(&hi)})); }
                    if catch(|| g.is_between(lo, hi)).ok() != Some(true) { s.violation(&csite(f), "result-outside-range-test", json!({"v": jd(&v), "lo": jd(&lo), "hi": jd(&hi)})); }
                    if (g == v) != inside { s.violation(&csite(f), "disagrees-with-range-test", json!({"v": jd(&v), "lo": jd(&lo), "hi": jd(&hi)})); }
                }
                Err(e) => s.violation(&csite(f), "panic-on-valid-input", json!({"v": jd(&v), "lo": jd(&lo), "hi": jd(&hi), "err": jd(&e)})),
            } }
            for (f, r) in rb { match r { Ok(g) => if g != inside { s.violation(&csite(f), "wrong-value", json!({"v": jd(&v), "lo": jd(&lo), "hi": jd(&hi), "got": g})); }, Err(e) => s.violation(&csite(f), "panic-on-valid-input", json!({"v": jd(&v), "lo": jd(&lo), "hi": jd(&hi), "err": jd(&e)})) } }
        }
    } } });
    s.sample(json!({"type": stringify!($F), "values": vals.len(), "uppers": ups.len(), "between-pairs": pairs.len(), "angles": angs.len(), "degrees": degs.len(), "clamp grid": cv.len()}));
}} }

// ================================================================================================
// Second audit round (sections "... (audit 2)"): the tolerances of the text where exact rounding attains them, and
// alphabets around every special value of every bound
// ================================================================================================
//
// Why these laws are attainable (so that correct code is silent) - every remainder below is exact (fmod):
//  * wrapped(x, up), x >= 0:      the representative of x in [0, up) is representable (x itself when x < up, the exact
//                                 remainder otherwise): congruence within 8 eps |x| - "a few units in the last place of the
//                                 input's magnitude", the tolerance of the text, not of the (possibly much larger) bound.
//  * wrapped(x, up), x <  0:      one rounded addition r + up: congruence within eps max(|x|, up) (the old tolerance), but
//                                 the result never leaves [0, up]: the range is asserted within 8 eps |x|.
//  * wrapped_between(x, lo, hi), x >= lo: every intermediate (x - lo, the remainder, + lo) is bounded by |x|; the rounded
//                                 period fl(hi - lo) is off by <= eps/2 (hi - lo), i.e. <= eps/2 |x| after (x - lo)/(hi - lo) periods.
//  * pingpong: upper - |t - upper| with t in [0, 2 upper] never leaves [0, upper]: "values in [0,upper]" has no tolerance in the text.
//  * delta_angle(_degrees): num in [0, 2h] is returned for num <= h, num - 2h (exact, Sterbenz) for num > h: the result never
//                                 leaves (-h, h] for h = PI of the type (resp. 180): asserted exactly.
macro_rules! float_audit2 { ($s:expr, $F:ident, $PI:expr) => {{
    let s: &Section = $s;
    let thorough = s.thorough();
    let eps = $F::EPSILON as f64;
    let nx = |f: $F| $F::from_bits(f.to_bits() + 1); // next float above a positive finite f
    let pv = |f: $F| $F::from_bits(f.to_bits() - 1); // next float below a positive f
    let dedup = |mut v: Vec<$F>| -> Vec<$F> { v.retain(|x| x.is_finite()); v.sort_by_key(|x| x.to_bits()); v.dedup_by_key(|x| x.to_bits()); v };
    let pi = $PI as $F; let two_pi = pi + pi;
    let tiny: $F = (2.0 as $F).powi(-60);
    let sub = $F::from_bits(1);
    let big70: $F = 1180591620717411303424.0;
    let site = |f: &str| format!("Wrap::{}<{}>", f, stringify!($F));
    let lit = |x: $F| -> f64 { 8.0 * eps * (x.abs() as f64) };
    let loose = |x: $F, up: $F| -> f64 { 8.0 * eps * (x.abs() as f64).max(up as f64) };
    // neighbourhood of a positive value c: just below / at / just above
    let around = |c: $F, out: &mut Vec<$F>| { if c.is_finite() && c > 0.0 { if c > sub { out.push(pv(c)); } out.push(c); if c < $F::MAX { out.push(nx(c)); } } };
    let base: Vec<$F> = { let mut b: Vec<$F> = vec![0.0, sub, $F::from_bits(12345), pv($F::MIN_POSITIVE), $F::MIN_POSITIVE, tiny, 1e-20 as $F, $F::EPSILON, 1e-3, 0.1, 0.5, 1.0, 1.5, 3.0, 7.25, 359.9999, 360.0, 12345.678, 1e7, 9007199254740992.0, big70, 1e20, 1e30, $F::MAX / 1024.0, $F::MAX / 2.0, $F::MAX];
        if thorough { for k in (-140..=120).step_by(3) { b.push((1.3 * (2.0f64).powi(k)) as $F); } } // formed in f64: powi(-k) of the type is 1/2^k, zero once 2^k overflows
        b };
    // the values tried against one period p that starts at lo: the base alphabet, the neighbourhoods of lo + k p
    // (k = 1/2, 1, 3/2, 2, 3, 4 and the mirror images), and values far below the period (p 2^-30, p 2^-60)
    let values_for = |lo: $F, p: $F| -> Vec<$F> {
        let mut v: Vec<$F> = Vec::new();
        for &b in &base { v.push(b); v.push(-b); }
        let mut pos: Vec<$F> = Vec::new();
        for k in [0.5 as $F, 1.0, 1.5, 2.0, 3.0, 4.0] { around(lo + k * p, &mut pos); around(k * p, &mut pos); }
        around(lo, &mut pos);
        around(p * (2.0 as $F).powi(-30), &mut pos); around(p * (2.0 as $F).powi(-60), &mut pos);
        for &c in &pos { v.push(c); v.push(-c); }
        dedup(v)
    };
    let mut ups: Vec<$F> = vec![sub, $F::from_bits(2), $F::from_bits(12345), pv($F::MIN_POSITIVE), $F::MIN_POSITIVE, nx($F::MIN_POSITIVE), tiny, $F::EPSILON, 1e-3, 0.1, 0.5, pv(1.0), 1.0, nx(1.0), 3.0, nx(3.0), 7.25, two_pi, 180.0, 360.0, 1e7, big70, 1e30, $F::MAX / 4.0, pv($F::MAX / 2.0), $F::MAX / 2.0];
    if thorough { for k in (-145..=120).step_by(5) { ups.push((2.0f64).powi(k) as $F); ups.push((1.7 * (2.0f64).powi(k)) as $F); } }
    ups.retain(|u| *u > 0.0 && *u <= $F::MAX / 2.0);
    let ups = dedup(ups); // all <= MAX/2: upper + upper is representable (the known finding on upper > MAX/2 is not re-reported here)
    let wrap_fail = |f: &str, x: $F, lo: $F, hi: $F, r: Result<$F, Caught>, tolr: f64, tolc: f64, literal: bool| {
        match r {
            Ok(r) => if let Some(why) = wrap_law(x as f64, r as f64, lo as f64, hi as f64, tolr, tolc) {
                let class = if literal { format!("beyond-a-few-ulps-of-the-input:{}", why) } else { format!("wrong-value:{}", why) };
                s.violation_w(&site(f), &class, json!({"x": jd(&x), "lower": jd(&lo), "upper": jd(&hi), "got": jd(&r), "range tolerance": tolr, "congruence tolerance": tolc}), (x.abs() as f64).max(1e-300).log2().abs() as u64);
            },
            Err(e) => s.violation(&site(f), "panic-on-valid-input", json!({"x": jd(&x), "lower": jd(&lo), "upper": jd(&hi), "err": jd(&e)})),
        }
    };
    // ---- (a) period starting at zero: wrapped, wrap, wrapped_between(0, up), wrap_between(0, up), pingpong; wrapped_2pi/wrap_2pi for up = 2 pi
    ups.par_iter().for_each(|&up| { for x in values_for(0.0, up) {
        let nonneg = x >= 0.0;
        s.evals(5, 5);
        s.class(if up < $F::MIN_POSITIVE { "subnormal-upper" } else if nonneg && x < up { if (x as f64) < (up as f64) * 1e-6 { "in-range-far-below-upper" } else { "in-range" } } else if nonneg { "beyond-upper" } else if (x.abs() as f64) < (up as f64) * eps { "negative-absorbed-by-upper" } else { "negative" });
        let (tolr, tolc) = (lit(x), if nonneg { lit(x) } else { loose(x, up) });
        wrap_fail("wrapped", x, 0.0, up, catch(|| x.wrapped(up)), tolr, tolc, true);
        wrap_fail("wrap", x, 0.0, up, catch(|| <$F as Wrap>::wrap(x, up)), tolr, tolc, true);
        wrap_fail("wrapped_between", x, 0.0, up, catch(|| x.wrapped_between(0.0, up)), tolr, tolc, true);
        wrap_fail("wrap_between", x, 0.0, up, catch(|| <$F as Wrap>::wrap_between(x, 0.0, up)), tolr, tolc, true);
        if up == two_pi { s.evals(2, 2);
            wrap_fail("wrapped_2pi", x, 0.0, up, catch(|| x.wrapped_2pi()), tolr, tolc, true);
            wrap_fail("wrap_2pi", x, 0.0, up, catch(|| <$F as Wrap>::wrap_2pi(x)), tolr, tolc, true);
        }
        match catch(|| x.pingpong(up)) {
            Ok(r) => {
                if !(r >= 0.0 && r <= up) { s.violation_w(&site("pingpong"), "outside-[0,upper]", json!({"x": jd(&x), "upper": jd(&up), "got": jd(&r)}), (x.abs() as f64).max(1e-300).log2().abs() as u64); }
                else if let Some(why) = pingpong_law(x as f64, r as f64, up as f64, 2.0 * loose(x, up)) { s.violation(&site("pingpong"), "wrong-value", json!({"x": jd(&x), "upper": jd(&up), "got": jd(&r), "failed": why})); }
            }
            Err(e) => s.violation(&site("pingpong"), "panic-on-valid-input", json!({"x": jd(&x), "upper": jd(&up), "err": jd(&e)})),
        }
    } });
    // ---- (b) period starting at lower > 0 (all bounds <= 1e30, so that x - lower is representable for every finite x)
    let mut bs: Vec<$F> = vec![sub, $F::MIN_POSITIVE, tiny, 1e-3, 1.0, pv(3.0), 3.0, nx(3.0), 360.0, 1e7, nx(1e7), 1e30];
    if thorough { for k in (-120..=90).step_by(15) { bs.push((1.3 * (2.0f64).powi(k)) as $F); } }
    bs.retain(|u| *u > 0.0);
    let bs = dedup(bs);
    let pairs: Vec<($F, $F)> = bs.iter().flat_map(|&lo| bs.iter().filter(move |&&hi| lo < hi).map(move |&hi| (lo, hi))).collect();
    pairs.par_iter().for_each(|&(lo, hi)| { let range = hi - lo; for x in values_for(lo, range) {
        if !(x - lo).is_finite() { continue; }
        s.evals(2, 2);
        let at_or_above = x >= lo;
        s.class(if at_or_above { if x < hi { "between:in-range" } else { "between:beyond-upper" } } else { "between:below-lower" });
        // below lower the sum r + (hi - lo) + lo is rounded at the magnitude of the bounds: the tolerance of the first audit
        let t2 = loose(x, hi);
        let (tolr, tolc) = if at_or_above { (lit(x), lit(x)) } else { (t2, 2.0 * t2) };
        wrap_fail("wrapped_between", x, lo, hi, catch(|| x.wrapped_between(lo, hi)), tolr, tolc, at_or_above);
        wrap_fail("wrap_between", x, lo, hi, catch(|| <$F as Wrap>::wrap_between(x, lo, hi)), tolr, tolc, at_or_above);
    } });
    // ---- (c) angle differences at the ends of (-h, h]: neighbourhoods of the multiples of a quarter turn
    let ang_alphabet = |q: $F| -> Vec<$F> {
        let mut pos: Vec<$F> = vec![sub, $F::MIN_POSITIVE, tiny, 0.25, 1.0];
        for k in [1.0 as $F, 2.0, 3.0, 4.0, 5.0, 6.0, 8.0, 10.0, 12.0, 400.0, 402.0] { around(k * q, &mut pos); }
        if thorough { for k in 13..=64 { around((k as $F) * q, &mut pos); } }
        let mut v: Vec<$F> = vec![0.0];
        for &c in &pos { v.push(c); v.push(-c); }
        dedup(v)
    };
    let angs = ang_alphabet(pi / 2.0);
    angs.par_iter().for_each(|&a| { for &b in &angs {
        let d = b - a;
        s.evals(1, if d.abs() > pi { 1 } else { 0 });
        s.class(if d.abs() == pi { "angle:exactly-half-turn" } else if (d.abs() - pi).abs() <= 4.0 * $F::EPSILON * pi { "angle:next-to-half-turn" } else if d.abs() > pi { "angle:needs-wrap" } else { "angle:direct" });
        match catch(|| a.delta_angle(b)) {
            Ok(r) => {
                if !(r > -pi && r <= pi) { s.violation(&site("delta_angle"), "outside-(-pi,pi]", json!({"self": jd(&a), "target": jd(&b), "got": jd(&r), "pi": jd(&pi)})); }
                let t = 16.0 * eps * (a.abs().max(b.abs()) as f64).max(7.0);
                if let Some(why) = angle_law(a as f64, b as f64, r as f64, pi as f64, t) { s.violation(&site("delta_angle"), "wrong-value", json!({"self": jd(&a), "target": jd(&b), "got": jd(&r), "failed": why})); }
                if d.abs() == pi && !(r > 0.0) { s.violation(&site("delta_angle"), "half-turn-returned-at-open-end", json!({"self": jd(&a), "target": jd(&b), "got": jd(&r)})); }
            }
            Err(e) => s.violation(&site("delta_angle"), "panic-on-valid-input", json!({"self": jd(&a), "target": jd(&b), "err": jd(&e)})),
        }
    } });
    let degs = ang_alphabet(90.0);
    degs.par_iter().for_each(|&a| { for &b in &degs {
        let d = b - a;
        s.evals(1, if d.abs() > 180.0 { 1 } else { 0 });
        s.class(if d.abs() == 180.0 { "degrees:exactly-half-turn" } else if (d.abs() - 180.0).abs() <= 4.0 * $F::EPSILON * 180.0 { "degrees:next-to-half-turn" } else if d.abs() > 180.0 { "degrees:needs-wrap" } else { "degrees:direct" });
        match catch(|| a.delta_angle_degrees(b)) {
            Ok(r) => {
                if !(r > -180.0 && r <= 180.0) { s.violation(&site("delta_angle_degrees"), "outside-(-180,180]", json!({"self": jd(&a), "target": jd(&b), "got": jd(&r)})); }
                let t = 16.0 * eps * (a.abs().max(b.abs()) as f64).max(360.0);
                if let Some(why) = angle_law(a as f64, b as f64, r as f64, 180.0, t) { s.violation(&site("delta_angle_degrees"), "wrong-value", json!({"self": jd(&a), "target": jd(&b), "got": jd(&r), "failed": why})); }
                if d.abs() == 180.0 && r != 180.0 { s.violation(&site("delta_angle_degrees"), "half-turn-returned-at-open-end", json!({"self": jd(&a), "target": jd(&b), "got": jd(&r)})); }
            }
            Err(e) => s.violation(&site("delta_angle_degrees"), "panic-on-valid-input", json!({"self": jd(&a), "target": jd(&b), "err": jd(&e)})),
        }
    } });
    // ---- (d) the unary clamp / range-test forms (defaulted methods an impl may override) next to their thresholds 0, 1, -1: exact
    let cu: Vec<$F> = vec![$F::NEG_INFINITY, -$F::MAX, -2.0, -nx(nx(1.0)), -nx(1.0), -1.0, -pv(1.0), -pv(pv(1.0)), -0.5, -$F::EPSILON, -tiny, -$F::MIN_POSITIVE, -sub, -0.0, 0.0, sub, $F::MIN_POSITIVE, tiny, $F::EPSILON, 0.5, pv(pv(1.0)), pv(1.0), 1.0, nx(1.0), nx(nx(1.0)), 2.0, $F::MAX, $F::INFINITY];
    let csite = |f: &str| format!("{}<{}>", f, stringify!($F));
    for &v in &cu {
        s.evals(5, if v < -1.0 || v > 1.0 { 5 } else { 0 });
        s.class(if v < -1.0 || v > 1.0 { "unary:outside" } else if v < 0.0 { "unary:in-[-1,0)" } else { "unary:in-[0,1]" });
        let w01: $F = if v < 0.0 { 0.0 } else if v > 1.0 { 1.0 } else { v };
        let w11: $F = if v < -1.0 { -1.0 } else if v > 1.0 { 1.0 } else { v };
        for (f, r, w) in [("Clamp::clamped01", catch(|| v.clamped01()), w01), ("Clamp::clamp01", catch(|| <$F as Clamp>::clamp01(v)), w01),
                          ("Clamp::clamped_minus1_1", catch(|| v.clamped_minus1_1()), w11), ("Clamp::clamp_minus1_1", catch(|| <$F as Clamp>::clamp_minus1_1(v)), w11)] {
            match r { Ok(g) => if g != w { s.violation(&csite(f), "wrong-value", json!({"v": jd(&v), "got": jd(&g), "want": jd(&w)})); },
                      Err(e) => s.violation(&csite(f), "panic-on-valid-input", json!({"v": jd(&v), "err": jd(&e)})) }
        }
        match catch(|| v.is_between01()) { Ok(g) => if g != (0.0 <= v && v <= 1.0) { s.violation(&csite("IsBetween::is_between01"), "wrong-value", json!({"v": jd(&v), "got": g})); },
                                         Err(e) => s.violation(&csite("IsBetween::is_between01"), "panic-on-valid-input", json!({"v": jd(&v), "err": jd(&e)})) }
    }
    s.sample(json!({"type": stringify!($F), "uppers": ups.len(), "values per upper": values_for(0.0, 3.0).len(), "between pairs": pairs.len(), "angles": angs.len(), "degrees": degs.len(),
        "example": {"call": "1e-20.wrapped(3.0)", "law": "the input is in [0,3): the result is the input within 8 eps |input| (exactly 1e-20), not within 8 eps * 3"}}));
}} }

// ---- vector lifts: every vector type, every lane, every trait form ---------------------------------
use vx::vecs::VecN;
macro_rules! when { (yes $b:block) => { $b }; (no $b:block) => {}; }
macro_rules! lift_all { ($s:expr, $T:ty, $tn:expr, signed: $sg:ident, float: $fl:ident, $tr:expr, $benign:expr, $hot:expr, $bad:expr) => {{
    let s: &Section = $s; let full = s.thorough();
    let tr: Vec<($T, $T, $T)> = $tr; let benign: ($T, $T, $T) = $benign; let hot: Vec<($T, $T, $T)> = $hot; let bad: Vec<($T, $T, $T)> = $bad;
    vx::for_all_vecs!(V => {
        type VT = V<$T>; type VB = V<bool>;
        let n = <VT as VecN<$T>>::N; let vname = <VT as VecN<$T>>::NAME;
        let mut cases: Vec<(&'static str, Vec<($T, $T, $T)>)> = Vec::new();
        for r in 0..tr.len() { for step in [1usize, 5] { cases.push(("rotation", (0..n).map(|i| tr[(r + step * i) % tr.len()]).collect())); } }
        for p in 0..n { for h in &hot { let mut l = vec![benign; n]; l[p] = *h; cases.push(("one-hot-lane", l)); } }
        // quick: the two bad triples alternate over the lane positions (both at the first and the last lane); thorough: both everywhere
        for p in 0..n { for (bi, b) in bad.iter().enumerate() { if full || p == 0 || p == n - 1 || bi == p % 2 { let mut l = vec![benign; n]; l[p] = *b; cases.push(("one-bad-lane(must panic)", l)); } } }
        for (kind, l) in &cases {
            s.class(kind);
            // a panicking call costs ~20 us: in the quick tier the must-panic cases run the ten primary spellings only
            let aliases = full || *kind != "one-bad-lane(must panic)";
            let mkv = |f: &dyn Fn(&($T, $T, $T)) -> $T| -> VT { <VT as VecN<$T>>::from_elems(l.iter().map(f).collect()) };
            let (v, lo, hi) = (mkv(&|t| t.0), mkv(&|t| t.1), mkv(&|t| t.2));
            let (b0, c0) = (l[0].1, l[0].2);
            let de = |x: VT| -> Vec<$T> { <VT as VecN<$T>>::into_elems(x) };
            let deb = |x: VB| -> Vec<bool> { <VB as VecN<bool>>::into_elems(x) };
            let lanes = |f: &dyn Fn($T, $T, $T) -> $T| -> Option<Vec<$T>> { l.iter().map(|&(a, b, c)| catch(|| f(a, b, c)).ok()).collect() };
            let lanesb = |f: &dyn Fn($T, $T, $T) -> bool| -> Option<Vec<bool>> { l.iter().map(|&(a, b, c)| catch(|| f(a, b, c)).ok()).collect() };
            let site = |name: &str| format!("{}<{}<{}>>", name, vname, $tn);
            let chk = |name: &str, got: Result<Vec<$T>, Caught>, want: Option<Vec<$T>>| {
                s.eval(true);
                match (got, want) {
                    (Ok(g), Some(w)) => if g != w { s.violation_w(&site(name), "lane-differs-from-scalar-law", json!({"lanes(value,lower,upper)": jd(l), "got": jd(&g), "want": jd(&w)}), n as u64); },
                    (Err(_), None) => {},
                    (Ok(g), None) => s.violation_w(&site(name), "missing-panic", json!({"lanes(value,lower,upper)": jd(l), "got": jd(&g)}), n as u64),
                    (Err(e), Some(_)) => s.violation_w(&site(name), "panic-on-valid-input", json!({"lanes(value,lower,upper)": jd(l), "err": jd(&e)}), n as u64),
                }
            };
            let chkb = |name: &str, got: Result<Vec<bool>, Caught>, want: Option<Vec<bool>>| {
                s.eval(true);
                match (got, want) {
                    (Ok(g), Some(w)) => if g != w { s.violation_w(&site(name), "lane-differs-from-scalar-law", json!({"lanes(value,lower,upper)": jd(l), "got": jd(&g), "want": jd(&w)}), n as u64); },
                    (Err(_), None) => {},
                    (Ok(g), None) => s.violation_w(&site(name), "missing-panic", json!({"lanes(value,lower,upper)": jd(l), "got": jd(&g)}), n as u64),
                    (Err(e), Some(_)) => s.violation_w(&site(name), "panic-on-valid-input", json!({"lanes(value,lower,upper)": jd(l), "err": jd(&e)}), n as u64),
                }
            };
            // --- vector bounds (Bound = the vector type): lane i uses lane i's bounds
            chk("Clamp::clamped(vec bounds)", catch(|| de(<VT as Clamp<VT>>::clamped(v, lo, hi))), lanes(&|a, b, c| a.clamped(b, c)));
            if aliases { chk("Clamp::clamp(vec bounds)", catch(|| de(<VT as Clamp<VT>>::clamp(v, lo, hi))), lanes(&|a, b, c| a.clamped(b, c))); }
            if aliases { chk("Clamp::clamped_to_inclusive_range(vec bounds)", catch(|| de(<VT as Clamp<VT>>::clamped_to_inclusive_range(v, lo..=hi))), lanes(&|a, b, c| a.clamped(b, c))); }
            if aliases { chk("Clamp::clamp_to_inclusive_range(vec bounds)", catch(|| de(<VT as Clamp<VT>>::clamp_to_inclusive_range(v, lo..=hi))), lanes(&|a, b, c| a.clamped(b, c))); }
            if aliases { chk("Clamp::clamped01(vec bounds)", catch(|| de(<VT as Clamp<VT>>::clamped01(v))), lanes(&|a, _, _| a.clamped01())); }
            if aliases { chk("Clamp::clamp01(vec bounds)", catch(|| de(<VT as Clamp<VT>>::clamp01(v))), lanes(&|a, _, _| a.clamped01())); }
            chkb("IsBetween::is_between(vec bounds)", catch(|| deb(<VT as IsBetween<VT>>::is_between(v, lo, hi))), lanesb(&|a, b, c| a.is_between(b, c)));
            if aliases { chkb("IsBetween::is_between_inclusive_range_bounds(vec bounds)", catch(|| deb(<VT as IsBetween<VT>>::is_between_inclusive_range_bounds(v, lo..=hi))), lanesb(&|a, b, c| a.is_between(b, c))); }
            if aliases { chkb("IsBetween::is_between01(vec bounds)", catch(|| deb(<VT as IsBetween<VT>>::is_between01(v))), lanesb(&|a, _, _| a.is_between01())); }
            chk("Wrap::wrapped(vec bound)", catch(|| de(<VT as Wrap<VT>>::wrapped(v, hi))), lanes(&|a, _, c| a.wrapped(c)));
            if aliases { chk("Wrap::wrap(vec bound)", catch(|| de(<VT as Wrap<VT>>::wrap(v, hi))), lanes(&|a, _, c| a.wrapped(c))); }
            chk("Wrap::wrapped_between(vec bounds)", catch(|| de(<VT as Wrap<VT>>::wrapped_between(v, lo, hi))), lanes(&|a, b, c| a.wrapped_between(b, c)));
            chk("Wrap::pingpong(vec bound)", catch(|| de(<VT as Wrap<VT>>::pingpong(v, hi))), lanes(&|a, _, c| a.pingpong(c)));
            // --- scalar bounds (Bound = the element type): lane 0's bounds broadcast to every lane
            chk("Clamp::clamped(scalar bounds)", catch(|| de(<VT as Clamp<$T>>::clamped(v, b0, c0))), lanes(&|a, _, _| a.clamped(b0, c0)));
            if aliases { chk("Clamp::clamp(scalar bounds)", catch(|| de(<VT as Clamp<$T>>::clamp(v, b0, c0))), lanes(&|a, _, _| a.clamped(b0, c0))); }
            if aliases { chk("Clamp::clamped_to_inclusive_range(scalar bounds)", catch(|| de(<VT as Clamp<$T>>::clamped_to_inclusive_range(v, b0..=c0))), lanes(&|a, _, _| a.clamped(b0, c0))); }
            if aliases { chk("Clamp::clamp_to_inclusive_range(scalar bounds)", catch(|| de(<VT as Clamp<$T>>::clamp_to_inclusive_range(v, b0..=c0))), lanes(&|a, _, _| a.clamped(b0, c0))); }
            if aliases { chk("Clamp::clamped01(scalar bounds)", catch(|| de(<VT as Clamp<$T>>::clamped01(v))), lanes(&|a, _, _| a.clamped01())); }
            if aliases { chk("Clamp::clamp01(scalar bounds)", catch(|| de(<VT as Clamp<$T>>::clamp01(v))), lanes(&|a, _, _| a.clamped01())); }
            chkb("IsBetween::is_between(scalar bounds)", catch(|| deb(<VT as IsBetween<$T>>::is_between(v, b0, c0))), lanesb(&|a, _, _| a.is_between(b0, c0)));
            if aliases { chkb("IsBetween::is_between_inclusive_range_bounds(scalar bounds)", catch(|| deb(<VT as IsBetween<$T>>::is_between_inclusive_range_bounds(v, b0..=c0))), lanesb(&|a, _, _| a.is_between(b0, c0))); }
            if aliases { chkb("IsBetween::is_between01(scalar bounds)", catch(|| deb(<VT as IsBetween<$T>>::is_between01(v))), lanesb(&|a, _, _| a.is_between01())); }
            chk("Wrap::wrapped(scalar bound)", catch(|| de(<VT as Wrap<$T>>::wrapped(v, c0))), lanes(&|a, _, _| a.wrapped(c0)));
            if aliases { chk("Wrap::wrap(scalar bound)", catch(|| de(<VT as Wrap<$T>>::wrap(v, c0))), lanes(&|a, _, _| a.wrapped(c0))); }
            chk("Wrap::wrapped_between(scalar bounds)", catch(|| de(<VT as Wrap<$T>>::wrapped_between(v, b0, c0))), lanes(&|a, _, _| a.wrapped_between(b0, c0)));
            if aliases { chk("Wrap::wrap_between(scalar bounds)", catch(|| de(<VT as Wrap<$T>>::wrap_between(v, b0, c0))), lanes(&|a, _, _| a.wrapped_between(b0, c0))); }
            chk("Wrap::pingpong(scalar bound)", catch(|| de(<VT as Wrap<$T>>::pingpong(v, c0))), lanes(&|a, _, _| a.pingpong(c0)));
            when!($sg {
                if aliases { chk("Clamp::clamped_minus1_1(vec bounds)", catch(|| de(<VT as Clamp<VT>>::clamped_minus1_1(v))), lanes(&|a, _, _| a.clamped_minus1_1())); }
                if aliases { chk("Clamp::clamp_minus1_1(vec bounds)", catch(|| de(<VT as Clamp<VT>>::clamp_minus1_1(v))), lanes(&|a, _, _| a.clamped_minus1_1())); }
                if aliases { chk("Clamp::clamped_minus1_1(scalar bounds)", catch(|| de(<VT as Clamp<$T>>::clamped_minus1_1(v))), lanes(&|a, _, _| a.clamped_minus1_1())); }
                if aliases { chk("Clamp::clamp_minus1_1(scalar bounds)", catch(|| de(<VT as Clamp<$T>>::clamp_minus1_1(v))), lanes(&|a, _, _| a.clamped_minus1_1())); }
            });
            when!($fl {
                if aliases { chk("Wrap::wrapped_2pi(scalar bound)", catch(|| de(<VT as Wrap<$T>>::wrapped_2pi(v))), lanes(&|a, _, _| a.wrapped_2pi())); }
                if aliases { chk("Wrap::wrap_2pi(scalar bound)", catch(|| de(<VT as Wrap<$T>>::wrap_2pi(v))), lanes(&|a, _, _| a.wrapped_2pi())); }
            });
            // the vector spellings of partial_min / partial_max (src/vec.rs) use the free functions per lane
            if aliases { chk("partial_min(vector)", catch(|| de(VT::partial_min(v, lo))), lanes(&|a, b, _| vek::ops::partial_min(a, b))); }
            if aliases { chk("partial_max(vector)", catch(|| de(VT::partial_max(v, hi))), lanes(&|a, _, c| vek::ops::partial_max(a, c))); }
        }
    });
}} }

fn main() {
    let rep = Report::start("C17", "exploration");
    let r8 = "every (value, lower, upper) triple of the 8-bit domain for the ternary functions (quick: where the bounds are inverted, so that every function must panic, 8 boundary values per (lower,upper) pair; thorough: all 2^24), every (value, upper) pair for wrapped/wrap/pingpong, every value for the unary forms; oracle rem_euclid / triangle wave in i128; panic <=> documented precondition violated; non-trivial: value outside the range";
    rep.section("i8 exhaustive", r8, true, false, |s| { s.require_classes(&["bounds-inverted(must panic)", "all-valid", "value-below", "value-above", "value-inside", "negative-value", "value-beyond-upper", "upper-nonpositive(must panic)"]); exhaustive8::<i8>(s); for v in i8::MIN..=i8::MAX { unary_signed!(s, i8, v as i128); } });
    rep.section("u8 exhaustive", r8, true, false, |s| { s.require_classes(&["bounds-inverted(must panic)", "all-valid", "value-below", "value-above", "value-beyond-upper"]); exhaustive8::<u8>(s); });
    rep.section("Wrapping<i8> exhaustive", r8, true, false, |s| { exhaustive8::<Wrapping<i8>>(s); for v in i8::MIN..=i8::MAX { unary_signed!(s, Wrapping<i8>, v as i128); } });
    rep.section("Wrapping<u8> exhaustive", r8, true, false, |s| exhaustive8::<Wrapping<u8>>(s));
    let rb = "the cube of a boundary alphabet (type limits, halves of the limits, small values, +-180/360) for the ternary functions, its square for the binary ones; same oracle; non-trivial: value outside the range";
    rep.section("wider integers, boundary alphabet", rb, true, false, |s| {
        boundary::<i16>(s); boundary::<u16>(s); boundary::<i32>(s); boundary::<u32>(s); boundary::<i64>(s); boundary::<u64>(s); boundary::<isize>(s); boundary::<usize>(s);
        boundary::<Wrapping<i16>>(s); boundary::<Wrapping<u16>>(s); boundary::<Wrapping<i32>>(s); boundary::<Wrapping<u32>>(s); boundary::<Wrapping<i64>>(s); boundary::<Wrapping<u64>>(s); boundary::<Wrapping<isize>>(s); boundary::<Wrapping<usize>>(s);
        for v in alphabet::<i32>() { unary_signed!(s, i32, v); unary_signed!(s, Wrapping<i32>, v); }
        for v in alphabet::<i64>() { unary_signed!(s, i64, v); }
        for v in alphabet::<i16>() { unary_signed!(s, i16, v); }
    });
    rep.section("integer delta_angle_degrees", "all ordered pairs of a degree alphabet in [-1000,1000] for i32 and i64: result in (-180,180] and congruent to target-self mod 360; non-trivial: |target-self| > 180", true, false, |s| {
        let degs: Vec<i64> = vec![0, 1, -1, 10, 90, 179, 180, 181, -179, -180, -181, 270, 359, 360, 361, 540, -540, 720, 1000, -1000];
        for &a in &degs { for &b in &degs {
            let m = (b - a).rem_euclid(360); let want = if m > 180 { m - 360 } else { m };
            s.evals(2, if (b - a).abs() > 180 { 2 } else { 0 });
            judge::<i32>(s, "Wrap::delta_angle_degrees", &[a as i128, b as i128], Some(want as i128), catch(|| (a as i32).delta_angle_degrees(b as i32)));
            judge::<i64>(s, "Wrap::delta_angle_degrees", &[a as i128, b as i128], Some(want as i128), catch(|| a.delta_angle_degrees(b)));
        } }
        s.sample(json!({"call": "350.delta_angle_degrees(10)", "want": 20}));
    });
    let rf = "value alphabet (+-0, +-min positive, +-1e-20, halves, exact multiples of the bounds, just below a multiple, 1e7, 2^40, and 2^70, 3*2^68, 1e20 whose quotient by the bound exceeds every integer type) x bounds {1e-3, 1/2, 1, 3, 2pi, 360}; the oracle converts the floats to exact rationals and tests range and congruence with tolerance 8 eps max(|x|,upper); clamp/is_between on a 14^3 grid incl. infinities and signed zeros; delta_angle(_degrees), wrapped_2pi on angle alphabets; NaN is not in the alphabet (not defined by the property)";
    rep.section("f64", rf, true, false, |s| { s.require_classes(&["negative", "beyond-upper", "in-range", "needs-wrap", "bounds-inverted(must panic)", "upper-nonpositive(must panic)"]); float_suite!(s, f64, std::f64::consts::PI) });
    rep.section("f32", rf, true, false, |s| float_suite!(s, f32, std::f32::consts::PI));

    rep.section("partial_min / partial_max", "all ordered pairs of an i32 alphabet and of an f64 alphabet without NaN: result equals the smaller / larger operand", true, false, |s| {
        let al = [i32::MIN, -2, -1, 0, 1, 2, i32::MAX];
        for &a in &al { for &b in &al { s.evals(2, if a != b { 2 } else { 0 });
            if vek::ops::partial_min(a, b) != a.min(b) { s.violation("partial_min<i32>", "wrong-value", json!({"a": a, "b": b})); }
            if vek::ops::partial_max(a, b) != a.max(b) { s.violation("partial_max<i32>", "wrong-value", json!({"a": a, "b": b})); } } }
        let fl = [f64::NEG_INFINITY, -1.5, -0.0, 0.0, 1e-300, 2.0, f64::INFINITY];
        for &a in &fl { for &b in &fl { s.evals(2, if a != b { 2 } else { 0 });
            if vek::ops::partial_min(a, b) != a.min(b) { s.violation("partial_min<f64>", "wrong-value", json!({"a": a, "b": b})); }
            if vek::ops::partial_max(a, b) != a.max(b) { s.violation("partial_max<f64>", "wrong-value", json!({"a": a, "b": b})); } } }
        s.sample(json!({"partial_min(-1, 2)": -1}));
    });

    rep.section("vector lifts apply the scalar law per element", "Vec2/Vec3/Vec4<i32> with a different (value, lower, upper) triple in every lane, all rotations of a 12-triple alphabet, scalar-bound and vector-bound forms: lane i equals the scalar function on lane i's arguments, and the vector call panics iff some lane's scalar call panics; non-trivial: lanes differ", true, false, |s| {
        let tr: [(i32, i32, i32); 12] = [(5, 0, 3), (-4, 2, 5), (7, 7, 7), (0, 0, 1), (-1, 0, 10), (11, 0, 10), (3, 1, 4), (-7, 3, 9), (100, 1, 2), (2, 2, 5), (5, 2, 5), (-100, 0, 7)];
        let bad: [(i32, i32, i32); 2] = [(1, 5, 2), (1, -3, 0)];
        let mut lanes: Vec<[(i32, i32, i32); 4]> = Vec::new();
        for r in 0..12 { lanes.push([tr[r], tr[(r + 1) % 12], tr[(r + 5) % 12], tr[(r + 7) % 12]]); }
        for b in bad { for pos in 0..4 { let mut l = [tr[0], tr[1], tr[2], tr[3]]; l[pos] = b; lanes.push(l); } }
        for l in &lanes {
            macro_rules! lift { ($V:ident, $n:expr, [$($f:ident $i:expr),*]) => {{
                let v = $V { $($f: l[$i].0),* }; let lo = $V { $($f: l[$i].1),* }; let hi = $V { $($f: l[$i].2),* };
                let dec = |r: $V<i32>| -> Vec<i32> { vec![$(r.$f),*] };
                let decb = |r: $V<bool>| -> Vec<bool> { vec![$(r.$f),*] };
                let lanes_n: Vec<(i32, i32, i32)> = l[..$n].to_vec();
                let scal = |f: &dyn Fn(i32, i32, i32) -> i32| -> Option<Vec<i32>> { lanes_n.iter().map(|&(a, b, c)| catch(|| f(a, b, c)).ok()).collect() };
                let chk = |name: &str, got: Result<Vec<i32>, Caught>, want: Option<Vec<i32>>| {
                    s.eval(true);
                    match (got, want) { (Ok(g), Some(w)) => if g != w { s.violation(&format!("{}<{}<i32>>", name, stringify!($V)), "lane-differs-from-scalar-law", json!({"lanes": jd(&lanes_n), "got": g, "want": w})); },
                        (Err(_), None) => {}, (Ok(g), None) => s.violation(&format!("{}<{}<i32>>", name, stringify!($V)), "missing-panic", json!({"lanes": jd(&lanes_n), "got": g})),
                        (Err(e), Some(_)) => s.violation(&format!("{}<{}<i32>>", name, stringify!($V)), "panic-on-valid-input", json!({"lanes": jd(&lanes_n), "err": jd(&e)})) }
                };
                chk("Clamp::clamped(vec bounds)", catch(|| dec(v.clamped(lo, hi))), scal(&|a, b, c| a.clamped(b, c)));
                chk("Wrap::wrapped_between(vec bounds)", catch(|| dec(v.wrapped_between(lo, hi))), scal(&|a, b, c| a.wrapped_between(b, c)));
                chk("Wrap::wrapped(vec bound)", catch(|| dec(v.wrapped(hi))), scal(&|a, _, c| a.wrapped(c)));
                chk("Wrap::pingpong(vec bound)", catch(|| dec(v.pingpong(hi))), scal(&|a, _, c| a.pingpong(c)));
                // scalar (broadcast) bounds: lane 0's bounds for every lane
                let (b0, c0) = (l[0].1, l[0].2);
                let scal0 = |f: &dyn Fn(i32) -> i32| -> Option<Vec<i32>> { lanes_n.iter().map(|&(a, _, _)| catch(|| f(a)).ok()).collect() };
                chk("Clamp::clamped(scalar bounds)", catch(|| dec(v.clamped(b0, c0))), scal0(&|a| a.clamped(b0, c0)));
                chk("Wrap::wrapped_between(scalar bounds)", catch(|| dec(v.wrapped_between(b0, c0))), scal0(&|a| a.wrapped_between(b0, c0)));
                chk("Wrap::wrapped(scalar bound)", catch(|| dec(v.wrapped(c0))), scal0(&|a| a.wrapped(c0)));
                chk("Wrap::pingpong(scalar bound)", catch(|| dec(v.pingpong(c0))), scal0(&|a| a.pingpong(c0)));
                let wantb: Option<Vec<bool>> = lanes_n.iter().map(|&(a, b, c)| catch(|| a.is_between(b, c)).ok()).collect();
                s.eval(true);
                match (catch(|| decb(v.is_between(lo, hi))), wantb) { (Ok(g), Some(w)) => if g != w { s.violation(&format!("IsBetween<{}<i32>>", stringify!($V)), "lane-differs-from-scalar-law", json!({"lanes": jd(&lanes_n)})); },
                    (Err(_), None) => {}, _ => s.violation(&format!("IsBetween<{}<i32>>", stringify!($V)), "panic-mismatch", json!({"lanes": jd(&lanes_n)})) }
                let wantb0: Option<Vec<bool>> = lanes_n.iter().map(|&(a, _, _)| catch(|| a.is_between(b0, c0)).ok()).collect();
                s.eval(true);
                match (catch(|| decb(v.is_between(b0, c0))), wantb0) { (Ok(g), Some(w)) => if g != w { s.violation(&format!("IsBetween(scalar bounds)<{}<i32>>", stringify!($V)), "lane-differs-from-scalar-law", json!({"lanes": jd(&lanes_n)})); },
                    (Err(_), None) => {}, _ => s.violation(&format!("IsBetween(scalar bounds)<{}<i32>>", stringify!($V)), "panic-mismatch", json!({"lanes": jd(&lanes_n)})) }
            }} }
            lift!(Vec2, 2, [x 0, y 1]);
            lift!(Vec3, 3, [x 0, y 1, z 2]);
            lift!(Vec4, 4, [x 0, y 1, z 2, w 3]);
        }
        s.sample(json!({"lanes (value,lower,upper)": jd(&lanes[0]), "law": "Vec4{..}.clamped(lo,hi).lane_i == value_i.clamped(lo_i,hi_i)"}));
    });

    // ============================ audit round: added sections ============================
    rep.section("wider integers, stratified sweep (audit)", "per 16/32/64/pointer-width type and Wrapping form: value strata {+-(2^k+{-1,0,1}) for every k, 18 equidistant points of the range, range ends, small/angle/sqrt(MAX) values} x ordered bound pairs from {+-(2^k+{-1,0,1}), MAX/3, MAX/2, MAX-1, MAX, small primes, 360, MIN, 0} (quick: 5 exponents, thorough: every exponent): all four clamp forms, both range tests, and for 0 <= lower < upper wrapped_between/wrap_between; wrapped/wrap/pingpong on value strata x positive bounds; thorough adds the panicking region on the strata and EVERY (value, upper>0) pair of i16/u16/Wrapping<i16>/Wrapping<u16> for wrapped and pingpong; oracle rem_euclid / triangle wave in i128; non-trivial: value outside the range", true, false, |s| {
        s.require_classes(&["wrap-between-valid", "value-below", "value-above", "value-inside", "negative-value", "value-beyond-upper", "value-in-range"]);
        sweep::<i16>(s); sweep::<u16>(s); sweep::<i32>(s); sweep::<u32>(s); sweep::<i64>(s); sweep::<u64>(s); sweep::<isize>(s); sweep::<usize>(s);
        sweep::<Wrapping<i16>>(s); sweep::<Wrapping<u16>>(s); sweep::<Wrapping<i32>>(s); sweep::<Wrapping<u32>>(s); sweep::<Wrapping<i64>>(s); sweep::<Wrapping<u64>>(s); sweep::<Wrapping<isize>>(s); sweep::<Wrapping<usize>>(s);
        // unary forms on the value strata of every wider type (the first round had i16/i32/i64 and Wrapping<i32> only for minus1_1)
        macro_rules! un { ($($T:ty)*) => { $( for v in strata_values::<$T>() { unary::<$T>(s, v); } )* } }
        un!(i16 u16 i32 u32 i64 u64 isize usize Wrapping<i16> Wrapping<u16> Wrapping<i32> Wrapping<u32> Wrapping<i64> Wrapping<u64> Wrapping<isize> Wrapping<usize>);
        macro_rules! uns { ($($T:ty)*) => { $( for v in strata_values::<$T>() { unary_signed!(s, $T, v); } )* } }
        uns!(i16 i32 i64 isize Wrapping<i16> Wrapping<i32> Wrapping<i64> Wrapping<isize>);
        if s.thorough() {
            sweep_panics::<i16>(s); sweep_panics::<u16>(s); sweep_panics::<i32>(s); sweep_panics::<u32>(s); sweep_panics::<i64>(s); sweep_panics::<u64>(s); sweep_panics::<isize>(s); sweep_panics::<usize>(s);
            sweep_panics::<Wrapping<i16>>(s); sweep_panics::<Wrapping<u16>>(s); sweep_panics::<Wrapping<i32>>(s); sweep_panics::<Wrapping<u32>>(s); sweep_panics::<Wrapping<i64>>(s); sweep_panics::<Wrapping<u64>>(s); sweep_panics::<Wrapping<isize>>(s); sweep_panics::<Wrapping<usize>>(s);
            pairs16::<i16>(s); pairs16::<u16>(s); pairs16::<Wrapping<i16>>(s); pairs16::<Wrapping<u16>>(s);
        }
        s.sample(json!({"type": "i64", "value strata": strata_values::<i64>().len(), "positive bound strata": strata_bounds::<i64>(s.thorough()).len()}));
    });

    rep.section("integer delta_angle_degrees, whole range of every implementing type (audit)", "every integer type for which the method exists (Self: From<u16>: i32 i64 u16 u32 u64 usize; i8/i16/u8/isize and the Wrapping forms do not satisfy the bound): all ordered pairs of {the +-1000 degree alphabet, MIN, MIN+1, MIN/2, MAX/2, MAX-359, MAX-180, MAX-1, MAX, +-(2^k+{-1,0,1})}; asserted whenever the representative of target-self modulo 360 in (-180,180] is representable in the type (always for signed types; for unsigned types when it is >= 0); non-trivial: |target-self| > 180", true, false, |s| {
        s.require_classes(&["target-minus-self-representable", "target-minus-self-not-representable(answer is)", "answer-not-representable(unsigned, not asserted)"]);
        delta_deg::<i32>(s); delta_deg::<i64>(s); delta_deg::<u16>(s); delta_deg::<u32>(s); delta_deg::<u64>(s); delta_deg::<usize>(s);
        s.sample(json!({"call": "350u32.delta_angle_degrees(10)", "want": 20}));
        s.sample(json!({"call": "i32::MAX.delta_angle_degrees(i32::MIN)", "want": ((i32::MIN as i128 - i32::MAX as i128).rem_euclid(360)).to_string()}));
    });

    let rd = "exact arbitrary-precision dyadic oracle (no case lost to rational overflow): value alphabet {+-0, +-min subnormal, +-MIN_POSITIVE, +-2^-60, +-1e-20, +-EPSILON, neighbours of 1, 3, 2pi, 360, exact multiples, 2^40, 2^53, 2^70, 1e20, 1e30, (1e100, 1e300), MAX/1024, MAX/2, MAX} (thorough: + four mantissas x 2^k, k=-70..100) x uppers {2^-60, 1e-3, .1, .5, 1, 3, next(3), 7.25, 2pi, 360, 1e7, 2^70, 1e30, MAX/4, MAX/2, MAX}: wrapped/wrap in [0,upper] and congruent within 8 eps max(|x|,upper), pingpong = triangle wave within 16 eps max; wrapped_between/wrap_between on every ordered pair of {0, 2^-60, 1e-3, .5, 1, 2, 3, next(3), 7.25, 359, 360, 1e7, 1e30}; inputs on which the documented formula self - floor(self/upper)*upper (or upper+upper) leaves the type are reported under their own class; documented panics of all five wrap forms; wrapped_2pi/wrap_2pi on the value alphabet; delta_angle(_degrees) on wide non-integer alphabets with the sign at the closed end of (-pi,pi]; the four clamp forms and two range tests on a 22^3 grid incl. NaN (NaN bound must panic, NaN value: no panic, range test and clamp agree), idempotence and agreement with the range test on the real code";
    rep.section("f64, exact dyadic oracle (audit)", rd, true, false, |s| { s.require_classes(&["negative", "beyond-upper", "in-range", "intermediate-overflows", "doubled-upper-not-representable", "lower-is-zero", "adjacent-bounds", "generic-bounds", "exactly-half-turn", "needs-wrap", "direct", "nan-bound(must panic)", "nan-value", "bounds-inverted(must panic)", "bounds-ordered", "upper-nonpositive(must panic)", "bounds-invalid(must panic)"]); float_dyadic!(s, f64, std::f64::consts::PI) });
    rep.section("f32, exact dyadic oracle (audit)", rd, true, false, |s| { s.require_classes(&["negative", "beyond-upper", "in-range", "intermediate-overflows", "doubled-upper-not-representable", "lower-is-zero", "adjacent-bounds", "generic-bounds", "exactly-half-turn", "needs-wrap", "direct", "nan-bound(must panic)", "nan-value"]); float_dyadic!(s, f32, std::f32::consts::PI) });

    rep.section("partial_min / partial_max, every primitive type and non-Copy operands (audit)", "all ordered pairs of the range ends, +-1, 0 and a mid value for every integer type and their Wrapping forms, of an f32 alphabet, and of String / tuple operands (the functions are generic over PartialOrd + Sized): the result equals the smaller / larger operand; ties and NaN are left open by the text", true, false, |s| {
        macro_rules! pm { ($($T:ty)*) => { $( {
            let al = few::<$T>(<$T as Scalar>::MAX / 3);
            for &a in &al { for &b in &al { s.evals(2, if a != b { 2 } else { 0 });
                let (ta, tb) = (<$T as Scalar>::mk(a), <$T as Scalar>::mk(b));
                if vek::ops::partial_min(ta, tb).w() != a.min(b) { s.violation(&format!("partial_min<{}>", <$T as Scalar>::NAME), "wrong-value", json!({"a": a.to_string(), "b": b.to_string()})); }
                if vek::ops::partial_max(ta, tb).w() != a.max(b) { s.violation(&format!("partial_max<{}>", <$T as Scalar>::NAME), "wrong-value", json!({"a": a.to_string(), "b": b.to_string()})); }
            } }
        } )* } }
        pm!(i8 u8 i16 u16 i32 u32 i64 u64 isize usize Wrapping<i8> Wrapping<u8> Wrapping<i16> Wrapping<u16> Wrapping<i32> Wrapping<u32> Wrapping<i64> Wrapping<u64> Wrapping<isize> Wrapping<usize>);
        let fl = [f32::NEG_INFINITY, -f32::MAX, -1.5, -f32::MIN_POSITIVE, 0.0, f32::from_bits(1), 1.0, 1.0 + f32::EPSILON, f32::MAX, f32::INFINITY];
        for &a in &fl { for &b in &fl { s.evals(2, if a != b { 2 } else { 0 });
            if vek::ops::partial_min(a, b) != a.min(b) { s.violation("partial_min<f32>", "wrong-value", json!({"a": jd(&a), "b": jd(&b)})); }
            if vek::ops::partial_max(a, b) != a.max(b) { s.violation("partial_max<f32>", "wrong-value", json!({"a": jd(&a), "b": jd(&b)})); } } }
        let st = ["", "a", "ab", "b", "B"];
        for a in st { for b in st { s.evals(2, if a != b { 2 } else { 0 });
            if vek::ops::partial_min(a.to_string(), b.to_string()) != std::cmp::min(a, b) { s.violation("partial_min<String>", "wrong-value", json!({"a": a, "b": b})); }
            if vek::ops::partial_max(a.to_string(), b.to_string()) != std::cmp::max(a, b) { s.violation("partial_max<String>", "wrong-value", json!({"a": a, "b": b})); }
            for (x, y) in [(1u8, 2u8), (2, 1)] { s.evals(2, 2);
                if vek::ops::partial_min((x, a), (y, b)) != std::cmp::min((x, a), (y, b)) { s.violation("partial_min<(u8,&str)>", "wrong-value", json!({"a": jd(&(x, a)), "b": jd(&(y, b))})); }
                if vek::ops::partial_max((x, a), (y, b)) != std::cmp::max((x, a), (y, b)) { s.violation("partial_max<(u8,&str)>", "wrong-value", json!({"a": jd(&(x, a)), "b": jd(&(y, b))})); } }
        } }
        // the marker traits of the anchored range are implemented by the blanket impls for exactly the stated bounds
        fn markers_signed<T: vek::ops::Clamp01 + vek::ops::ClampMinus1 + vek::ops::IsBetween01>() {}
        fn markers_unsigned<T: vek::ops::Clamp01 + vek::ops::IsBetween01>() {}
        markers_signed::<i8>(); markers_signed::<i64>(); markers_signed::<f32>(); markers_signed::<f64>(); markers_signed::<Wrapping<i32>>(); markers_unsigned::<u8>(); markers_unsigned::<usize>(); markers_unsigned::<Wrapping<u16>>();
        s.sample(json!({"partial_min(\"ab\", \"b\")": "ab"}));
    });

    rep.section("vector lifts: every vector type, every lane, every trait form (audit)", "all 13 vector types (Vec2/3/4/8/16/32/64, Extent2/3, Rgb, Rgba, Uv, Uvw; repr_c, the only layout that builds on stable) x element types {i32, u8, i64, Wrapping<i16>, f32, f64}: (a) rotations of a 13-triple alphabet with lane strides 1 and 5 (different (value,lower,upper) in neighbouring lanes, range ends of the element type included), (b) one hot lane at every position (all other lanes in range), (c) one lane with inverted / empty bounds at every position (the call must panic); every provided and defaulted method of Clamp, IsBetween and Wrap in the vector-bound and the scalar-bound (broadcast) spelling, plus the vector partial_min/partial_max: lane i equals the scalar method on lane i's arguments, and the call panics iff some lane's scalar call panics; non-trivial: every case", true, false, |s| {
        s.require_classes(&["rotation", "one-hot-lane", "one-bad-lane(must panic)"]);
        rayon::scope(|sc| {
        sc.spawn(move |_| {
        lift_all!(s, i32, "i32", signed: yes, float: no,
            vec![(5, 0, 3), (-4, 2, 5), (0, 0, 1), (-1, 0, 10), (11, 0, 10), (3, 1, 4), (-7, 3, 9), (100, 1, 2), (2, 2, 5), (-100, 0, 7), (i32::MIN, 3, 7), (i32::MAX, 0, i32::MAX), (-2, 1, i32::MAX)],
            (1, 0, 3), vec![(-5, 2, 4), (9, 0, 3)], vec![(1, 5, 2), (1, 0, 0)]);
        });
        sc.spawn(move |_| {
        lift_all!(s, u8, "u8", signed: no, float: no,
            vec![(5, 0, 3), (250, 3, 200), (0, 1, 2), (255, 0, 255), (7, 2, 5), (200, 100, 101), (1, 0, 1), (128, 0, 127), (13, 7, 11), (0, 0, 1), (99, 98, 100), (254, 1, 255), (3, 1, 4)],
            (1, 0, 3), vec![(250, 2, 4), (9, 0, 3)], vec![(1, 5, 2), (1, 0, 0)]);
        });
        sc.spawn(move |_| {
        lift_all!(s, i64, "i64", signed: yes, float: no,
            vec![(5, 0, 3), (-4, 2, 5), (0, 0, 1), (-1, 0, 10), (11, 0, 10), (3, 1, 4), (-7, 3, 9), (100, 1, 2), (2, 2, 5), (-100, 0, 7), (i64::MIN, 3, 7), (i64::MAX, 0, i64::MAX), (-2, 1, i64::MAX)],
            (1, 0, 3), vec![(-5, 2, 4), (9, 0, 3)], vec![(1, 5, 2), (1, 0, 0)]);
        });
        let w = |t: (i16, i16, i16)| (Wrapping(t.0), Wrapping(t.1), Wrapping(t.2));
        sc.spawn(move |_| {
        lift_all!(s, Wrapping<i16>, "Wrapping<i16>", signed: yes, float: no,
            vec![(5, 0, 3), (-4, 2, 5), (0, 0, 1), (-1, 0, 10), (11, 0, 10), (3, 1, 4), (-7, 3, 9), (100, 1, 2), (2, 2, 5), (-100, 0, 7), (i16::MIN, 3, 7), (i16::MAX, 0, i16::MAX), (-2, 1, i16::MAX)].into_iter().map(w).collect(),
            w((1, 0, 3)), vec![w((-5, 2, 4)), w((9, 0, 3))], vec![w((1, 5, 2)), w((1, 0, 0))]);
        });
        sc.spawn(move |_| {
        lift_all!(s, f32, "f32", signed: yes, float: yes,
            vec![(5.5, 0., 3.), (-4.25, 2., 5.), (0., 0., 1.), (-0.5, 0., 10.), (11., 0., 10.), (3., 1., 4.), (-7.25, 3., 9.), (100., 1., 2.), (2., 2., 5.), (-100., 0., 7.), (1e7, 0.5, 360.), (0.75, 0.25, 0.5), (-1e-20, 1e-3, 6.2831855)],
            (1., 0., 3.), vec![(-5., 2., 4.), (9.5, 0., 3.)], vec![(1., 5., 2.), (1., 0., 0.)]);
        });
        sc.spawn(move |_| {
        lift_all!(s, f64, "f64", signed: yes, float: yes,
            vec![(5.5, 0., 3.), (-4.25, 2., 5.), (0., 0., 1.), (-0.5, 0., 10.), (11., 0., 10.), (3., 1., 4.), (-7.25, 3., 9.), (100., 1., 2.), (2., 2., 5.), (-100., 0., 7.), (1e7, 0.5, 360.), (0.75, 0.25, 0.5), (-1e-20, 1e-3, 6.283185307179586)],
            (1., 0., 3.), vec![(-5., 2., 4.), (9.5, 0., 3.)], vec![(1., 5., 2.), (1., 0., 0.)]);
        });
        });
        s.sample(json!({"law": "Vec64(..).wrapped_between(lo, hi).lane_i == value_i.wrapped_between(lo_i, hi_i) for i = 0..64; one bad lane anywhere => panic"}));
    });

    // ============================ second audit round: added sections ============================
    let r2 = "exact dyadic oracle; (a) uppers {min subnormal, 2 and 12345 subnormal units, neighbours of MIN_POSITIVE, 2^-60, EPSILON, 1e-3, .1, .5, neighbours of 1, 3, next(3), 7.25, 2pi, 180, 360, 1e7, 2^70, 1e30, MAX/4, prev(MAX/2), MAX/2} (thorough: + 2^k and 1.7 2^k, k=-145..120 step 5) x values {+-base alphabet from the min subnormal to MAX, +-(just below / at / just above) k*upper for k = 1/2, 1, 3/2, 2, 3, 4, +-neighbours of upper 2^-30 and upper 2^-60}: wrapped, wrap, wrapped_between(0,upper), wrap_between(0,upper) (and wrapped_2pi/wrap_2pi for upper = 2pi) lie in [0,upper] within 8 eps |x| and are congruent to x within 8 eps |x| for x >= 0 (8 eps max(|x|,upper) for x < 0): the tolerance of the text, a few units in the last place of the INPUT's magnitude, wherever exact rounding attains it - in particular an input already in [0,upper) comes back as itself; pingpong lies in [0,upper] exactly and is the triangle wave within 16 eps max(|x|,upper); (b) wrapped_between/wrap_between on every ordered pair of {min subnormal, MIN_POSITIVE, 2^-60, 1e-3, 1, prev(3), 3, next(3), 360, 1e7, next(1e7), 1e30} x the same value construction around lower + k (upper - lower): within 8 eps |x| for x >= lower, the first audit's tolerance below lower; (c) delta_angle / delta_angle_degrees on all ordered pairs of {0, +-min subnormal, +-MIN_POSITIVE, +-2^-60, +-.25, +-1, +-(just below / at / just above) k quarter turns for k = 1..6, 8, 10, 12, 400, 402} (thorough: k up to 64): the result lies in (-PI, PI] resp. (-180, 180] EXACTLY (no tolerance at either end), is congruent to target - self within 16 eps max(|self|,|target|,7 resp. 360), and an exact half turn comes back positive; (d) clamped01/clamp01/clamped_minus1_1/clamp_minus1_1/is_between01 on 28 values incl. two neighbours on each side of 1 and -1, +-EPSILON, +-subnormals, +-MAX, infinities: exact; non-trivial: every wrap case, angle pairs more than half a turn apart";
    let c2 = ["subnormal-upper", "in-range", "in-range-far-below-upper", "beyond-upper", "negative", "negative-absorbed-by-upper", "between:in-range", "between:beyond-upper", "between:below-lower",
        "angle:exactly-half-turn", "angle:next-to-half-turn", "angle:needs-wrap", "angle:direct", "degrees:exactly-half-turn", "degrees:next-to-half-turn", "degrees:needs-wrap", "degrees:direct", "unary:outside", "unary:in-[-1,0)", "unary:in-[0,1]"];
    rep.section("f64, tolerance of the text where attainable, neighbourhoods of every bound (audit 2)", r2, true, false, |s| { s.require_classes(&c2); float_audit2!(s, f64, std::f64::consts::PI) });
    rep.section("f32, tolerance of the text where attainable, neighbourhoods of every bound (audit 2)", r2, true, false, |s| { s.require_classes(&c2); float_audit2!(s, f32, std::f32::consts::PI) });
    std::process::exit(rep.finish());
}
