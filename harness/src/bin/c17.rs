//! C17 — clamp, range test, wrap, ping-pong, angle difference obey their range laws.
use rayon::prelude::*;
use std::fmt::Debug;
use std::num::Wrapping;
use std::ops::{Add, Sub};
use vek::ops::{Clamp, IsBetween, Wrap};
use vek::{Vec2, Vec3, Vec4};
use vx::q::Q;
use vx::*;

trait Scalar: Copy + Send + Sync + Debug + PartialEq + PartialOrd + Clamp + IsBetween<Output = bool> + Wrap + Add<Output = Self> + Sub<Output = Self> + num_traits::Zero + num_traits::One + 'static {
    const NAME: &'static str;
    const MIN: i128;
    const MAX: i128;
    const WRAPPING: bool;
    fn w(self) -> i128;
    fn mk(w: i128) -> Self;
}
macro_rules! scalar_prim { ($($T:ident)*) => { $(
    impl Scalar for $T { const NAME: &'static str = stringify!($T); const MIN: i128 = $T::MIN as i128; const MAX: i128 = $T::MAX as i128; const WRAPPING: bool = false;
        fn w(self) -> i128 { self as i128 } fn mk(w: i128) -> Self { w as $T } }
    impl Scalar for Wrapping<$T> { const NAME: &'static str = concat!("Wrapping<", stringify!($T), ">"); const MIN: i128 = $T::MIN as i128; const MAX: i128 = $T::MAX as i128; const WRAPPING: bool = true;
        fn w(self) -> i128 { self.0 as i128 } fn mk(w: i128) -> Self { Wrapping(w as $T) } }
)* } }
scalar_prim!(i8 u8 i16 u16 i32 u32 i64 u64 isize usize);

/// per-thread accumulator (flushed once per outer iteration: no lock in the hot loop)
#[derive(Default)]
struct Acc { evals: u64, nontrivial: u64, classes: std::collections::BTreeMap<&'static str, u64> }
impl Acc {
    fn evals(&mut self, n: u64, nt: u64) { self.evals += n; self.nontrivial += nt; }
    fn class(&mut self, c: &'static str) { *self.classes.entry(c).or_insert(0) += 1; }
    fn flush(self, s: &Section) { s.evals(self.evals, self.nontrivial); for (c, n) in self.classes { s.class_n(c, n); } }
}
fn wsum(args: &[i128]) -> u64 { args.iter().fold(0u64, |a, x| a.saturating_add(x.unsigned_abs().min(u64::MAX as u128) as u64)) }

fn classify(panic_msg: &str) -> &'static str {
    if panic_msg.contains("overflow") { "overflow-panic-on-valid-input" }
    else if panic_msg.contains("divide by zero") || panic_msg.contains("division by zero") || panic_msg.contains("remainder with a divisor of zero") { "div-by-zero-panic-on-valid-input" }
    else { "panic-on-valid-input" }
}

/// Compare one call against `want`: Some(v) = must return v; None = must panic (documented precondition).
fn judge<T: Scalar>(s: &Section, func: &str, args: &[i128], want: Option<i128>, got: Result<T, Caught>) {
    let site = format!("{}<{}>", func, T::NAME);
    match (want, got) {
        (Some(w), Ok(g)) => { if g.w() != w { s.violation_w(&site, "wrong-value", json!({"args": args, "got": g.w().to_string(), "want": w.to_string()}), wsum(args)); } }
        (Some(w), Err(Caught::Panic(m))) => s.violation_w(&site, classify(&m), json!({"args": args, "want": w.to_string(), "panic": m}), wsum(args)),
        (None, Ok(g)) => s.violation(&site, "missing-documented-panic", json!({"args": args, "got": g.w().to_string()})),
        (None, Err(Caught::Panic(_))) => {}
        (_, Err(Caught::Unmodelled(w))) => s.unmodelled(w),
    }
}
fn judge_bool(s: &Section, site: &str, args: &[i128], want: Option<bool>, got: Result<bool, Caught>) {
    match (want, got) {
        (Some(w), Ok(g)) => if g != w { s.violation(site, "wrong-value", json!({"args": args, "got": g, "want": w})) },
        (Some(_), Err(Caught::Panic(m))) => s.violation(site, classify(&m), json!({"args": args, "panic": m})),
        (None, Ok(g)) => s.violation(site, "missing-documented-panic", json!({"args": args, "got": g})),
        _ => {}
    }
}

fn ref_clamp(v: i128, lo: i128, hi: i128) -> Option<i128> { if lo > hi { None } else { Some(if v < lo { lo } else if v > hi { hi } else { v }) } }
fn ref_wrapped(v: i128, up: i128) -> Option<i128> { if up <= 0 { None } else { Some(v.rem_euclid(up)) } }
fn ref_wrapped_between(v: i128, lo: i128, hi: i128) -> Option<i128> { if lo >= hi || lo < 0 || hi <= 0 { None } else { Some(lo + (v - lo).rem_euclid(hi - lo)) } }
fn ref_pingpong(v: i128, up: i128) -> Option<i128> { if up <= 0 { None } else { let r = v.rem_euclid(2 * up); Some(if r <= up { r } else { 2 * up - r }) } }

/// ternary functions on one (value, lower, upper) triple
fn ternary<T: Scalar>(s: &Section, acc: &mut Acc, v: i128, lo: i128, hi: i128, aliases: bool) {
    let (tv, tlo, thi) = (T::mk(v), T::mk(lo), T::mk(hi));
    let a = [v, lo, hi];
    let wc = ref_clamp(v, lo, hi);
    judge::<T>(s, "Clamp::clamped", &a, wc, catch(|| tv.clamped(tlo, thi)));
    let wb = wc.map(|_| lo <= v && v <= hi);
    judge_bool(s, &format!("IsBetween::is_between<{}>", T::NAME), &a, wb, catch(|| tv.is_between(tlo, thi)));
    let ww = ref_wrapped_between(v, lo, hi);
    judge::<T>(s, "Wrap::wrapped_between", &a, ww, catch(|| tv.wrapped_between(tlo, thi)));
    let mut n = 3;
    if aliases {
        judge::<T>(s, "Clamp::clamp", &a, wc, catch(|| T::clamp(tv, tlo, thi)));
        judge::<T>(s, "Clamp::clamped_to_inclusive_range", &a, wc, catch(|| tv.clamped_to_inclusive_range(tlo..=thi)));
        judge::<T>(s, "Clamp::clamp_to_inclusive_range", &a, wc, catch(|| T::clamp_to_inclusive_range(tv, tlo..=thi)));
        judge_bool(s, &format!("IsBetween::is_between_inclusive_range_bounds<{}>", T::NAME), &a, wb, catch(|| tv.is_between_inclusive_range_bounds(tlo..=thi)));
        judge::<T>(s, "Wrap::wrap_between", &a, ww, catch(|| T::wrap_between(tv, tlo, thi)));
        n += 5;
        if let Some(c) = wc {
            // idempotence and agreement with the range test, on the real code
            let c1 = T::mk(c);
            if let Ok(c2) = catch(|| c1.clamped(tlo, thi)) { if c2 != c1 { s.violation(&format!("Clamp::clamped<{}>", T::NAME), "not-idempotent", json!({"args": a})); } }
            if let Ok(b) = catch(|| c1.is_between(tlo, thi)) { if !b { s.violation(&format!("Clamp::clamped<{}>", T::NAME), "result-outside-range-test", json!({"args": a})); } }
            n += 2;
        }
    }
    acc.evals(n, if wc.is_some() && (v < lo || v > hi) { n } else { 0 });
    match (wc, ww) { (None, _) => acc.class("bounds-inverted(must panic)"), (Some(_), None) => acc.class("clamp-valid/wrap-precondition-violated"), (Some(_), Some(_)) => acc.class("all-valid") }
    if v < lo { acc.class("value-below"); } else if v > hi { acc.class("value-above"); } else { acc.class("value-inside"); }
}
/// binary functions on one (value, upper) pair
fn binary<T: Scalar>(s: &Section, acc: &mut Acc, v: i128, up: i128) {
    let (tv, tup) = (T::mk(v), T::mk(up));
    let a = [v, up];
    judge::<T>(s, "Wrap::wrapped", &a, ref_wrapped(v, up), catch(|| tv.wrapped(tup)));
    judge::<T>(s, "Wrap::wrap", &a, ref_wrapped(v, up), catch(|| T::wrap(tv, tup)));
    judge::<T>(s, "Wrap::pingpong", &a, ref_pingpong(v, up), catch(|| tv.pingpong(tup)));
    acc.evals(3, if up > 0 && (v < 0 || v >= up) { 3 } else { 0 });
    if up <= 0 { acc.class("upper-nonpositive(must panic)"); } else if v < 0 { acc.class("negative-value"); } else if v >= up { acc.class("value-beyond-upper"); } else { acc.class("value-in-range"); }
}
fn unary<T: Scalar>(s: &Section, v: i128) {
    let tv = T::mk(v);
    judge::<T>(s, "Clamp::clamped01", &[v], ref_clamp(v, 0, 1), catch(|| tv.clamped01()));
    judge::<T>(s, "Clamp::clamp01", &[v], ref_clamp(v, 0, 1), catch(|| T::clamp01(tv)));
    judge_bool(s, &format!("IsBetween::is_between01<{}>", T::NAME), &[v], Some(0 <= v && v <= 1), catch(|| tv.is_between01()));
    s.evals(3, if v < 0 || v > 1 { 3 } else { 0 });
}
macro_rules! unary_signed { ($s:expr, $T:ty, $v:expr) => {{
    let v: i128 = $v; let tv = <$T as Scalar>::mk(v);
    judge::<$T>($s, "Clamp::clamped_minus1_1", &[v], ref_clamp(v, -1, 1), catch(|| tv.clamped_minus1_1()));
    judge::<$T>($s, "Clamp::clamp_minus1_1", &[v], ref_clamp(v, -1, 1), catch(|| <$T as Clamp>::clamp_minus1_1(tv)));
    $s.evals(2, if v < -1 || v > 1 { 2 } else { 0 });
}} }

fn few<T: Scalar>(lo: i128) -> Vec<i128> {
    let mut v = vec![T::MIN, T::MIN + 1, -1, 0, 1, T::MAX - 1, T::MAX, lo];
    v.retain(|x| *x >= T::MIN && *x <= T::MAX); v.sort(); v.dedup(); v
}

/// whole 8-bit domain
fn exhaustive8<T: Scalar>(s: &Section) {
    let all: Vec<i128> = (T::MIN..=T::MAX).collect();
    let thorough = s.thorough();
    all.par_iter().for_each(|&lo| {
        let mut acc = Acc::default();
        let acc = &mut acc;
        for &hi in &all {
            let must_panic_everything = lo > hi;
            if must_panic_everything && !thorough {
                // every ternary function must panic here: the panicking region is covered on all
                // (lower, upper) pairs x 8 boundary values in the quick tier, completely in thorough
                for v in few::<T>(lo) { ternary::<T>(s, acc, v, lo, hi, true); }
            } else {
                for &v in &all { ternary::<T>(s, acc, v, lo, hi, lo <= hi && (v - lo).abs() <= 1 || (v - hi).abs() <= 1 || v == T::MIN || v == T::MAX || thorough); }
            }
        }
        for &v in &all { binary::<T>(s, acc, v, lo); }
        unary::<T>(s, lo);
        std::mem::take(acc).flush(s);
    });
    s.sample(json!({"type": T::NAME, "triples": "every (value, lower, upper) of the 8-bit domain", "example": {"call": "(-128).wrapped_between(2, 5)", "want": ref_wrapped_between(-128, 2, 5).map(|x| x.to_string())}}));
    s.sample(json!({"type": T::NAME, "example": {"call": "100.pingpong(100)", "want": ref_pingpong(100, 100).map(|x| x.to_string())}}));
}
/// boundary alphabet for wider integers: the cube of ~25 values
fn alphabet<T: Scalar>() -> Vec<i128> {
    let mut v = vec![T::MIN, T::MIN + 1, T::MIN + 2, T::MIN / 2, T::MIN / 2 + 1, -361, -360, -181, -180, -7, -3, -2, -1, 0, 1, 2, 3, 5, 7, 180, 181, 360, 361, T::MAX / 2, T::MAX / 2 + 1, T::MAX - 2, T::MAX - 1, T::MAX];
    v.retain(|x| *x >= T::MIN && *x <= T::MAX); v.sort(); v.dedup(); v
}
fn boundary<T: Scalar>(s: &Section) {
    let al = alphabet::<T>();
    al.par_iter().for_each(|&lo| {
        let mut acc = Acc::default();
        for &hi in &al { for &v in &al { ternary::<T>(s, &mut acc, v, lo, hi, true); } }
        for &v in &al { binary::<T>(s, &mut acc, v, lo); }
        unary::<T>(s, lo);
        acc.flush(s);
    });
    s.sample(json!({"type": T::NAME, "alphabet": al.iter().map(|x| x.to_string()).collect::<Vec<_>>()}));
}

/// run an oracle block; exact-rational overflow inside the oracle is "unmodelled", never a verdict
macro_rules! guard { ($s:expr, $body:block) => { match catch(|| $body) { Ok(()) => {}, Err(Caught::Unmodelled(w)) => $s.unmodelled(w), Err(Caught::Panic(m)) => $s.rep.machinery_error(format!("oracle panicked: {}", m)) } } }

// ---- floats ------------------------------------------------------------------------------------
macro_rules! float_suite { ($s:expr, $F:ident, $PI:expr) => {{
    let s: &Section = $s;
    let eps = $F::EPSILON as f64;
    let tiny: $F = (2.0 as $F).powi(-60);
    let vals: Vec<$F> = vec![0.0, -0.0, tiny, -tiny, 0.5, -0.5, 1.0, -1.0, 2.9999998, 3.0, -3.0, 6.0, -6.0, 7.25, -7.25, 359.9999, 360.0, -360.0, 720.0, 6.2831855, -6.2831855, 1e7, -1e7, 12345.678, -98765.43, 1048576.0 * 1048576.0, -1048576.0 * 1048576.0,
        // quotients x/upper at and beyond 2^63 (no integer type holds them): 2^70, 3*2^68, 1e20 and their negatives
        1180591620717411303424.0, -1180591620717411303424.0, 885443715538058477568.0, 1e20, -1e20];
    let ups: Vec<$F> = vec![1e-3, 0.5, 1.0, 3.0, ($PI + $PI) as $F, 360.0];
    let tol = |x: f64, up: f64| -> Q { vx::fl::qf(8.0 * eps * x.abs().max(up.abs())) };
    let qf = |v: $F| vx::fl::qf(v as f64);
    for &up in &ups { for &x in &vals { guard!(s, {
        let (xq, uq) = (qf(x), qf(up));
        let t = tol(x as f64, up as f64);
        // wrapped: in [0, upper] and congruent to x modulo upper
        match catch(|| x.wrapped(up)) {
            Ok(r) => {
                let rq = qf(r);
                let k = xq.sub(rq).div(uq).round();
                let err = xq.sub(rq).sub(k.mul(uq)).abs();
                let in_range = rq >= t.neg() && rq <= uq.add(t);
                if !(r.is_finite() && in_range && err <= t) { s.violation(concat!("Wrap::wrapped<", stringify!($F), ">"), "wrong-value", json!({"x": x, "upper": up, "got": r, "congruence_error": err.to_f64()})); }
            }
            Err(e) => s.violation(concat!("Wrap::wrapped<", stringify!($F), ">"), "panic-on-valid-input", json!({"x": x, "upper": up, "err": jd(&e)})),
        }
        // pingpong: triangle wave of period 2*upper (continuous: direct comparison)
        match catch(|| x.pingpong(up)) {
            Ok(r) => {
                let p2 = uq.add(uq);
                let m = xq.sub(xq.div(p2).floor().mul(p2));
                let want = uq.sub(m.sub(uq).abs());
                let err = qf(r).sub(want).abs();
                if !(r.is_finite() && err <= t.add(t)) { s.violation(concat!("Wrap::pingpong<", stringify!($F), ">"), "wrong-value", json!({"x": x, "upper": up, "got": r, "want": want.to_f64()})); }
            }
            Err(e) => s.violation(concat!("Wrap::pingpong<", stringify!($F), ">"), "panic-on-valid-input", json!({"x": x, "upper": up, "err": jd(&e)})),
        }
        s.evals(2, 2); s.class(if x < 0.0 { "negative" } else if x >= up { "beyond-upper" } else { "in-range" });
        // wrapped_between(lower = up/2 .. up*2) when lower >= 0
        let (lo, hi) = (up / 2.0, up * 2.0);
        match catch(|| x.wrapped_between(lo, hi)) {
            Ok(r) => {
                let (lq, hq, rq) = (qf(lo), qf(hi), qf(r));
                let range = hq.sub(lq);
                let k = xq.sub(rq).div(range).round();
                let err = xq.sub(rq).sub(k.mul(range)).abs();
                let t2 = tol(x as f64, hi as f64);
                if !(r.is_finite() && rq >= lq.sub(t2) && rq <= hq.add(t2) && err <= t2.add(t2)) { s.violation(concat!("Wrap::wrapped_between<", stringify!($F), ">"), "wrong-value", json!({"x": x, "lower": lo, "upper": hi, "got": r})); }
            }
            Err(e) => s.violation(concat!("Wrap::wrapped_between<", stringify!($F), ">"), "panic-on-valid-input", json!({"x": x, "lower": lo, "upper": hi, "err": jd(&e)})),
        }
        s.evals(1, 1);
    }) } }
    // documented panics
    for &(x, up) in &[(1.0 as $F, 0.0 as $F), (1.0, -1.0), (-5.0, -0.0)] {
        for (name, r) in [("wrapped", catch(|| x.wrapped(up))), ("pingpong", catch(|| x.pingpong(up)))] {
            s.evals(1, 1); s.class("upper-nonpositive(must panic)");
            if r.is_ok() { s.violation(&format!("Wrap::{}<{}>", name, stringify!($F)), "missing-documented-panic", json!({"x": x, "upper": up})); }
        }
    }
    for &(lo, hi) in &[(2.0 as $F, 2.0 as $F), (3.0, 2.0), (-1.0, 2.0)] {
        s.evals(1, 1);
        if catch(|| (1.0 as $F).wrapped_between(lo, hi)).is_ok() { s.violation(concat!("Wrap::wrapped_between<", stringify!($F), ">"), "missing-documented-panic", json!({"lower": lo, "upper": hi})); }
    }
    // clamp / is_between on a value x bounds grid, incl. infinities and signed zeros
    let cv: Vec<$F> = vec![$F::NEG_INFINITY, -1e30, -2.0, -1.0, -tiny, -0.0, 0.0, tiny, 0.5, 1.0, 1.0 + $F::EPSILON, 2.0, 1e30, $F::INFINITY];
    for &lo in &cv { for &hi in &cv { for &v in &cv {
        s.evals(2, if v < lo || v > hi { 2 } else { 0 });
        let rc = catch(|| v.clamped(lo, hi)); let rb = catch(|| v.is_between(lo, hi));
        if lo > hi {
            s.class("bounds-inverted(must panic)");
            if rc.is_ok() { s.violation(concat!("Clamp::clamped<", stringify!($F), ">"), "missing-documented-panic", json!({"v": v, "lo": lo, "hi": hi})); }
            if rb.is_ok() { s.violation(concat!("IsBetween::is_between<", stringify!($F), ">"), "missing-documented-panic", json!({"v": v, "lo": lo, "hi": hi})); }
        } else {
            s.class("bounds-ordered");
            let want = if v < lo { lo } else if v > hi { hi } else { v };
            match rc { Ok(g) => if g != want { s.violation(concat!("Clamp::clamped<", stringify!($F), ">"), "wrong-value", json!({"v": v, "lo": lo, "hi": hi, "got": g, "want": want})); },
                       Err(e) => s.violation(concat!("Clamp::clamped<", stringify!($F), ">"), "panic-on-valid-input", json!({"v": v, "lo": lo, "hi": hi, "err": jd(&e)})) }
            match rb { Ok(g) => if g != (lo <= v && v <= hi) { s.violation(concat!("IsBetween::is_between<", stringify!($F), ">"), "wrong-value", json!({"v": v, "lo": lo, "hi": hi, "got": g})); },
                       Err(e) => s.violation(concat!("IsBetween::is_between<", stringify!($F), ">"), "panic-on-valid-input", json!({"err": jd(&e)})) }
        }
    } } }
    for &v in &cv {
        s.evals(4, 4);
        let w01 = if v < 0.0 { 0.0 } else if v > 1.0 { 1.0 } else { v };
        let w11 = if v < -1.0 { -1.0 } else if v > 1.0 { 1.0 } else { v };
        if v.clamped01() != w01 || <$F as Clamp>::clamp01(v) != w01 { s.violation(concat!("Clamp::clamped01<", stringify!($F), ">"), "wrong-value", json!({"v": v})); }
        if v.clamped_minus1_1() != w11 || <$F as Clamp>::clamp_minus1_1(v) != w11 { s.violation(concat!("Clamp::clamped_minus1_1<", stringify!($F), ">"), "wrong-value", json!({"v": v})); }
        if v.is_between01() != (0.0 <= v && v <= 1.0) { s.violation(concat!("IsBetween::is_between01<", stringify!($F), ">"), "wrong-value", json!({"v": v})); }
    }
    // angle differences
    let pi = $PI as $F;
    let angs: Vec<$F> = vec![0.0, 0.1, -0.1, 1.0, -1.0, 3.0, -3.0, pi, -pi, 3.5, -3.5, 6.0, -6.0, 6.5, 10.0, -10.0, 100.0, -100.0];
    let period = qf(pi + pi); let piq = qf(pi);
    for &a in &angs { for &b in &angs { guard!(s, {
        s.evals(1, if (b - a).abs() > pi { 1 } else { 0 });
        s.class(if (b - a).abs() > pi { "needs-wrap" } else { "direct" });
        match catch(|| a.delta_angle(b)) {
            Ok(r) => {
                let d = qf(b - a); // the property states congruence to target - self (as computed)
                let rq = qf(r);
                let k = d.sub(rq).div(period).round();
                let err = d.sub(rq).sub(k.mul(period)).abs();
                let t = vx::fl::qf(16.0 * eps * ((b - a).abs() as f64).max(7.0));
                if !(rq > piq.neg().sub(t) && rq <= piq.add(t) && err <= t) { s.violation(concat!("Wrap::delta_angle<", stringify!($F), ">"), "wrong-value", json!({"self": a, "target": b, "got": r})); }
            }
            Err(e) => s.violation(concat!("Wrap::delta_angle<", stringify!($F), ">"), "panic-on-valid-input", json!({"self": a, "target": b, "err": jd(&e)})),
        }
    }) } }
    let degs: Vec<$F> = vec![0.0, 10.0, -10.0, 90.0, 179.0, 180.0, 181.0, -179.0, -180.0, -181.0, 270.0, 359.0, 360.0, 361.0, 540.0, -540.0, 720.0, 1000.0, -1000.0];
    for &a in &degs { for &b in &degs { guard!(s, {
        s.evals(2, 2);
        let d = (b as f64) - (a as f64);
        let m = d.rem_euclid(360.0); let want = if m > 180.0 { m - 360.0 } else { m };
        match catch(|| a.delta_angle_degrees(b)) { Ok(r) => if (r as f64) != want { s.violation(concat!("Wrap::delta_angle_degrees<", stringify!($F), ">"), "wrong-value", json!({"self": a, "target": b, "got": r, "want": want})); },
            Err(e) => s.violation(concat!("Wrap::delta_angle_degrees<", stringify!($F), ">"), "panic-on-valid-input", json!({"self": a, "target": b, "err": jd(&e)})) }
        // wrapped_2pi on the degree values read as radians: in [0, 2pi], congruent
        match catch(|| a.wrapped_2pi()) { Ok(r) => { let rq = qf(r); let k = qf(a).sub(rq).div(period).round(); let err = qf(a).sub(rq).sub(k.mul(period)).abs(); let t = vx::fl::qf(16.0 * eps * (a.abs() as f64).max(7.0));
                if !(rq >= t.neg() && rq <= period.add(t) && err <= t) || <$F as Wrap>::wrap_2pi(a) != r { s.violation(concat!("Wrap::wrapped_2pi<", stringify!($F), ">"), "wrong-value", json!({"x": a, "got": r})); } }
            Err(e) => s.violation(concat!("Wrap::wrapped_2pi<", stringify!($F), ">"), "panic-on-valid-input", json!({"x": a, "err": jd(&e)})) }
    }) } }
    s.sample(json!({"type": stringify!($F), "example": {"call": "(-1e-20).wrapped(3.0)", "law": "result in [0,3] and (x-result)/3 within 8 eps*max(|x|,3) of an integer"}}));
}} }

fn main() {
    let rep = Report::start("C17", "exploration");
    let r8 = "every (value, lower, upper) triple of the 8-bit domain for the ternary functions (quick: where the bounds are inverted, so that every function must panic, 8 boundary values per (lower,upper) pair; thorough: all 2^24), every (value, upper) pair for wrapped/wrap/pingpong, every value for the unary forms; oracle rem_euclid / triangle wave in i128; panic <=> documented precondition violated; non-trivial: value outside the range";
    rep.section("i8 exhaustive", r8, true, false, |s| { s.require_classes(&["bounds-inverted(must panic)", "all-valid", "value-below", "value-above", "value-inside", "negative-value", "value-beyond-upper", "upper-nonpositive(must panic)"]); exhaustive8::<i8>(s); for v in i8::MIN..=i8::MAX { unary_signed!(s, i8, v as i128); } });
    rep.section("u8 exhaustive", r8, true, false, |s| { s.require_classes(&["bounds-inverted(must panic)", "all-valid", "value-below", "value-above", "value-beyond-upper"]); exhaustive8::<u8>(s); });
    rep.section("Wrapping<i8> exhaustive", r8, true, false, |s| { exhaustive8::<Wrapping<i8>>(s); for v in i8::MIN..=i8::MAX { unary_signed!(s, Wrapping<i8>, v as i128); } });
    rep.section("Wrapping<u8> exhaustive", r8, true, false, |s| exhaustive8::<Wrapping<u8>>(s));
    let rb = "the cube of a boundary alphabet (type limits, halves of the limits, small values, +-180/360) for the ternary functions, its square for the binary ones; same oracle; non-trivial: value outside the range";
    rep.section("wider integers, boundary alphabet", rb, true, false, |s| {
        boundary::<i16>(s); boundary::<u16>(s); boundary::<i32>(s); boundary::<u32>(s); boundary::<i64>(s); boundary::<u64>(s); boundary::<isize>(s); boundary::<usize>(s);
        boundary::<Wrapping<i16>>(s); boundary::<Wrapping<u16>>(s); boundary::<Wrapping<i32>>(s); boundary::<Wrapping<u32>>(s); boundary::<Wrapping<i64>>(s); boundary::<Wrapping<u64>>(s); boundary::<Wrapping<isize>>(s); boundary::<Wrapping<usize>>(s);
        for v in alphabet::<i32>() { unary_signed!(s, i32, v); unary_signed!(s, Wrapping<i32>, v); }
        for v in alphabet::<i64>() { unary_signed!(s, i64, v); }
        for v in alphabet::<i16>() { unary_signed!(s, i16, v); }
    });
    rep.section("integer delta_angle_degrees", "all ordered pairs of a degree alphabet in [-1000,1000] for i32 and i64: result in (-180,180] and congruent to target-self mod 360; non-trivial: |target-self| > 180", true, false, |s| {
        let degs: Vec<i64> = vec![0, 1, -1, 10, 90, 179, 180, 181, -179, -180, -181, 270, 359, 360, 361, 540, -540, 720, 1000, -1000];
        for &a in &degs { for &b in &degs {
            let m = (b - a).rem_euclid(360); let want = if m > 180 { m - 360 } else { m };
            s.evals(2, if (b - a).abs() > 180 { 2 } else { 0 });
            judge::<i32>(s, "Wrap::delta_angle_degrees", &[a as i128, b as i128], Some(want as i128), catch(|| (a as i32).delta_angle_degrees(b as i32)));
            judge::<i64>(s, "Wrap::delta_angle_degrees", &[a as i128, b as i128], Some(want as i128), catch(|| a.delta_angle_degrees(b)));
        } }
        s.sample(json!({"call": "350.delta_angle_degrees(10)", "want": 20}));
    });
    let rf = "value alphabet (+-0, +-min positive, +-1e-20, halves, exact multiples of the bounds, just below a multiple, 1e7, 2^40, and 2^70, 3*2^68, 1e20 whose quotient by the bound exceeds every integer type) x bounds {1e-3, 1/2, 1, 3, 2pi, 360}; the oracle converts the floats to exact rationals and tests range and congruence with tolerance 8 eps max(|x|,upper); clamp/is_between on a 14^3 grid incl. infinities and signed zeros; delta_angle(_degrees), wrapped_2pi on angle alphabets; NaN is not in the alphabet (not defined by the property)";
    rep.section("f64", rf, true, false, |s| { s.require_classes(&["negative", "beyond-upper", "in-range", "needs-wrap", "bounds-inverted(must panic)", "upper-nonpositive(must panic)"]); float_suite!(s, f64, std::f64::consts::PI) });
    rep.section("f32", rf, true, false, |s| float_suite!(s, f32, std::f32::consts::PI));

    rep.section("partial_min / partial_max", "all ordered pairs of an i32 alphabet and of an f64 alphabet without NaN: result equals the smaller / larger operand", true, false, |s| {
        let al = [i32::MIN, -2, -1, 0, 1, 2, i32::MAX];
        for &a in &al { for &b in &al { s.evals(2, if a != b { 2 } else { 0 });
            if vek::ops::partial_min(a, b) != a.min(b) { s.violation("partial_min<i32>", "wrong-value", json!({"a": a, "b": b})); }
            if vek::ops::partial_max(a, b) != a.max(b) { s.violation("partial_max<i32>", "wrong-value", json!({"a": a, "b": b})); } } }
        let fl = [f64::NEG_INFINITY, -1.5, -0.0, 0.0, 1e-300, 2.0, f64::INFINITY];
        for &a in &fl { for &b in &fl { s.evals(2, if a != b { 2 } else { 0 });
            if vek::ops::partial_min(a, b) != a.min(b) { s.violation("partial_min<f64>", "wrong-value", json!({"a": a, "b": b})); }
            if vek::ops::partial_max(a, b) != a.max(b) { s.violation("partial_max<f64>", "wrong-value", json!({"a": a, "b": b})); } } }
        s.sample(json!({"partial_min(-1, 2)": -1}));
    });

    rep.section("vector lifts apply the scalar law per element", "Vec2/Vec3/Vec4<i32> with a different (value, lower, upper) triple in every lane, all rotations of a 12-triple alphabet, scalar-bound and vector-bound forms: lane i equals the scalar function on lane i's arguments, and the vector call panics iff some lane's scalar call panics; non-trivial: lanes differ", true, false, |s| {
        let tr: [(i32, i32, i32); 12] = [(5, 0, 3), (-4, 2, 5), (7, 7, 7), (0, 0, 1), (-1, 0, 10), (11, 0, 10), (3, 1, 4), (-7, 3, 9), (100, 1, 2), (2, 2, 5), (5, 2, 5), (-100, 0, 7)];
        let bad: [(i32, i32, i32); 2] = [(1, 5, 2), (1, -3, 0)];
        let mut lanes: Vec<[(i32, i32, i32); 4]> = Vec::new();
        for r in 0..12 { lanes.push([tr[r], tr[(r + 1) % 12], tr[(r + 5) % 12], tr[(r + 7) % 12]]); }
        for b in bad { for pos in 0..4 { let mut l = [tr[0], tr[1], tr[2], tr[3]]; l[pos] = b; lanes.push(l); } }
        for l in &lanes {
            macro_rules! lift { ($V:ident, $n:expr, [$($f:ident $i:expr),*]) => {{
                let v = $V { $($f: l[$i].0),* }; let lo = $V { $($f: l[$i].1),* }; let hi = $V { $($f: l[$i].2),* };
                let dec = |r: $V<i32>| -> Vec<i32> { vec![$(r.$f),*] };
                let decb = |r: $V<bool>| -> Vec<bool> { vec![$(r.$f),*] };
                let lanes_n: Vec<(i32, i32, i32)> = l[..$n].to_vec();
                let scal = |f: &dyn Fn(i32, i32, i32) -> i32| -> Option<Vec<i32>> { lanes_n.iter().map(|&(a, b, c)| catch(|| f(a, b, c)).ok()).collect() };
                let chk = |name: &str, got: Result<Vec<i32>, Caught>, want: Option<Vec<i32>>| {
                    s.eval(true);
                    match (got, want) { (Ok(g), Some(w)) => if g != w { s.violation(&format!("{}<{}<i32>>", name, stringify!($V)), "lane-differs-from-scalar-law", json!({"lanes": jd(&lanes_n), "got": g, "want": w})); },
                        (Err(_), None) => {}, (Ok(g), None) => s.violation(&format!("{}<{}<i32>>", name, stringify!($V)), "missing-panic", json!({"lanes": jd(&lanes_n), "got": g})),
                        (Err(e), Some(_)) => s.violation(&format!("{}<{}<i32>>", name, stringify!($V)), "panic-on-valid-input", json!({"lanes": jd(&lanes_n), "err": jd(&e)})) }
                };
                chk("Clamp::clamped(vec bounds)", catch(|| dec(v.clamped(lo, hi))), scal(&|a, b, c| a.clamped(b, c)));
                chk("Wrap::wrapped_between(vec bounds)", catch(|| dec(v.wrapped_between(lo, hi))), scal(&|a, b, c| a.wrapped_between(b, c)));
                chk("Wrap::wrapped(vec bound)", catch(|| dec(v.wrapped(hi))), scal(&|a, _, c| a.wrapped(c)));
                chk("Wrap::pingpong(vec bound)", catch(|| dec(v.pingpong(hi))), scal(&|a, _, c| a.pingpong(c)));
                // scalar (broadcast) bounds: lane 0's bounds for every lane
                let (b0, c0) = (l[0].1, l[0].2);
                let scal0 = |f: &dyn Fn(i32) -> i32| -> Option<Vec<i32>> { lanes_n.iter().map(|&(a, _, _)| catch(|| f(a)).ok()).collect() };
                chk("Clamp::clamped(scalar bounds)", catch(|| dec(v.clamped(b0, c0))), scal0(&|a| a.clamped(b0, c0)));
                chk("Wrap::wrapped_between(scalar bounds)", catch(|| dec(v.wrapped_between(b0, c0))), scal0(&|a| a.wrapped_between(b0, c0)));
                chk("Wrap::wrapped(scalar bound)", catch(|| dec(v.wrapped(c0))), scal0(&|a| a.wrapped(c0)));
                chk("Wrap::pingpong(scalar bound)", catch(|| dec(v.pingpong(c0))), scal0(&|a| a.pingpong(c0)));
                let wantb: Option<Vec<bool>> = lanes_n.iter().map(|&(a, b, c)| catch(|| a.is_between(b, c)).ok()).collect();
                s.eval(true);
                match (catch(|| decb(v.is_between(lo, hi))), wantb) { (Ok(g), Some(w)) => if g != w { s.violation(&format!("IsBetween<{}<i32>>", stringify!($V)), "lane-differs-from-scalar-law", json!({"lanes": jd(&lanes_n)})); },
                    (Err(_), None) => {}, _ => s.violation(&format!("IsBetween<{}<i32>>", stringify!($V)), "panic-mismatch", json!({"lanes": jd(&lanes_n)})) }
                let wantb0: Option<Vec<bool>> = lanes_n.iter().map(|&(a, _, _)| catch(|| a.is_between(b0, c0)).ok()).collect();
                s.eval(true);
                match (catch(|| decb(v.is_between(b0, c0))), wantb0) { (Ok(g), Some(w)) => if g != w { s.violation(&format!("IsBetween(scalar bounds)<{}<i32>>", stringify!($V)), "lane-differs-from-scalar-law", json!({"lanes": jd(&lanes_n)})); },
                    (Err(_), None) => {}, _ => s.violation(&format!("IsBetween(scalar bounds)<{}<i32>>", stringify!($V)), "panic-mismatch", json!({"lanes": jd(&lanes_n)})) }
            }} }
            lift!(Vec2, 2, [x 0, y 1]);
            lift!(Vec3, 3, [x 0, y 1, z 2]);
            lift!(Vec4, 4, [x 0, y 1, z 2, w 3]);
        }
        s.sample(json!({"lanes (value,lower,upper)": jd(&lanes[0]), "law": "Vec4{..}.clamped(lo,hi).lane_i == value_i.clamped(lo_i,hi_i)"}));
    });
    std::process::exit(rep.finish());
}
