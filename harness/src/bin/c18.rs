//! C18 — element containers never duplicate, leak or touch a moved-out element.
use stateright::{Checker, Model, Property};
use std::collections::hash_map::DefaultHasher;
use std::fmt::Debug;
use std::hash::{Hash, Hasher};
use std::marker::PhantomData;
use std::sync::atomic::{AtomicU64, Ordering::Relaxed};
use std::sync::Arc;
use vx::matx::{cm, rm};
use vx::tok::{self, St, Tok};
use vx::vecs::*;
use vx::*;

#[derive(Clone, Debug, PartialEq, Eq, Hash)]
enum S { Live { f: u8, b: u8 }, Dropped { f: u8, b: u8 }, Bad { class: &'static str, detail: String } }
#[derive(Clone, Copy, Debug, PartialEq, Eq, Hash)]
enum Act { Next, NextBack, Len, Observe, Drop }

/// Build a fresh real iterator over fresh tokens 0..N, pull `f` from the front and `b` from the back,
/// checking every pull against the reference (a deque of ids). Returns the iterator and the pulled tokens.
fn replay<V>(f: usize, b: usize) -> Result<(V::IntoIter, Vec<Tok>), (&'static str, String)>
where V: VecN<Tok> + IntoIterator<Item = Tok>, V::IntoIter: DoubleEndedIterator + ExactSizeIterator {
    tok::reset();
    let n = V::N;
    let v = V::from_elems((0..n).map(|_| Tok::new()).collect());
    let mut it = v.into_iter();
    let mut held = Vec::new();
    for i in 0..f { match it.next() { Some(t) if t.id as usize == i => { tok::mark_yielded(t.id); held.push(t) } o => return Err(("wrong-element-from-next", format!("pull #{} from the front gave {:?}", i, o.map(|t| t.id)))) } }
    for i in 0..b { match it.next_back() { Some(t) if t.id as usize == n - 1 - i => { tok::mark_yielded(t.id); held.push(t) } o => return Err(("wrong-element-from-next_back", format!("pull #{} from the back gave {:?}", i, o.map(|t| t.id)))) } }
    Ok((it, held))
}
/// After everything is gone: each id dropped exactly once, no ledger fault.
fn ledger_balanced(n: usize) -> Result<(), (&'static str, String)> {
    if let Some(f) = tok::faults().into_iter().next() { return Err(("ledger-fault", f)); }
    let st = tok::states();
    for id in 0..n { if st[id] != St::Dropped { return Err(("element-leaked", format!("element {} was never dropped", id))); } }
    Ok(())
}

/// One transition on the real iterator, compared with the reference model.
fn step<V>(f: u8, b: u8, a: Act) -> S
where V: VecN<Tok> + IntoIterator<Item = Tok>, V::IntoIter: DoubleEndedIterator + ExactSizeIterator + Debug + PartialEq + Hash {
    let n = V::N;
    let (fu, bu) = (f as usize, b as usize);
    let bad = |(class, detail): (&'static str, String)| S::Bad { class, detail };
    let (mut it, mut held) = match replay::<V>(fu, bu) { Ok(x) => x, Err(e) => return bad(e) };
    let rem = n - fu - bu;
    let mut next = S::Live { f, b };
    match a {
        Act::Next => {
            match (it.next(), rem) {
                (None, 0) => {}
                (Some(t), r) if r > 0 && t.id as usize == fu => { tok::mark_yielded(t.id); held.push(t); next = S::Live { f: f + 1, b }; }
                (o, _) => return bad(("wrong-element-from-next", format!("remaining {}, expected {:?}, got {:?}", rem, if rem > 0 { Some(fu) } else { None }, o.map(|t| t.id)))),
            }
        }
        Act::NextBack => {
            match (it.next_back(), rem) {
                (None, 0) => {}
                (Some(t), r) if r > 0 && t.id as usize == n - 1 - bu => { tok::mark_yielded(t.id); held.push(t); next = S::Live { f, b: b + 1 }; }
                (o, _) => return bad(("wrong-element-from-next_back", format!("remaining {}, got {:?}", rem, o.map(|t| t.id)))),
            }
        }
        Act::Len => {
            let (l, h) = (it.len(), it.size_hint());
            if l != rem || h != (rem, Some(rem)) { return bad(("wrong-length-report", format!("remaining {}, len() = {}, size_hint() = {:?}", rem, l, h))); }
        }
        Act::Observe => {
            tok::set_watch(true);
            let _ = format!("{:?}", it);
            #[allow(clippy::eq_op)]
            let _ = it == it;
            let mut h = DefaultHasher::new(); it.hash(&mut h); let _ = h.finish();
            tok::set_watch(false);
            if let Some(fl) = tok::faults().into_iter().next() { return bad(("safe-observation-reads-moved-out-element", fl)); }
        }
        Act::Drop => {
            drop(it);
            let st = tok::states();
            for id in 0..n {
                let live = id >= fu && id < n - bu;
                if live && st[id] != St::Dropped { return bad(("drop-leaks-unyielded-element", format!("element {} in the live range was not dropped by the iterator", id))); }
                if !live && st[id] == St::Dropped { return bad(("drop-drops-yielded-element", format!("element {} was yielded to the caller and dropped by the iterator as well", id))); }
            }
            if let Some(fl) = tok::faults().into_iter().next() { return bad(("ledger-fault", fl)); }
            drop(held);
            return match ledger_balanced(n) { Ok(()) => S::Dropped { f, b }, Err(e) => bad(e) };
        }
    }
    // every transition also ends the iterator's life: the ledger must balance from every state
    drop(it); drop(held);
    if let Err(e) = ledger_balanced(n) { return bad(e); }
    next
}

struct IterModel<V> { transitions: Arc<AtomicU64>, _p: PhantomData<fn() -> V> }
impl<V> Model for IterModel<V>
where V: VecN<Tok> + IntoIterator<Item = Tok> + 'static, V::IntoIter: DoubleEndedIterator + ExactSizeIterator + Debug + PartialEq + Hash {
    type State = S;
    type Action = Act;
    fn init_states(&self) -> Vec<S> { vec![S::Live { f: 0, b: 0 }] }
    fn actions(&self, s: &S, acts: &mut Vec<Act>) { if let S::Live { .. } = s { acts.extend([Act::Next, Act::NextBack, Act::Len, Act::Observe, Act::Drop]); } }
    fn next_state(&self, s: &S, a: Act) -> Option<S> {
        let S::Live { f, b } = s else { return None };
        self.transitions.fetch_add(1, Relaxed);
        Some(step::<V>(*f, *b, a))
    }
    fn properties(&self) -> Vec<Property<Self>> { vec![Property::always("real iterator agrees with the reference deque and the ownership ledger", |_, s| !matches!(s, S::Bad { .. }))] }
}

struct McTotals { states: u64, transitions: u64, max_depth: usize, samples: Vec<Value> }

fn model_check<V>(s: &Section, tot: &mut McTotals)
where V: VecN<Tok> + IntoIterator<Item = Tok> + 'static, V::IntoIter: DoubleEndedIterator + ExactSizeIterator + Debug + PartialEq + Hash {
    let mut counts = Vec::new();
    for _run in 0..2 {
        let tr = Arc::new(AtomicU64::new(0));
        let ck = IterModel::<V> { transitions: tr.clone(), _p: PhantomData }.checker().threads(8).spawn_bfs().join();
        let (us, t, md) = (ck.unique_state_count() as u64, tr.load(Relaxed), ck.max_depth());
        if let Some(path) = ck.discoveries().into_values().next() {
            let acts: Vec<String> = path.clone().into_actions().iter().map(|a| format!("{:?}", a)).collect();
            let last = path.last_state().clone();
            if let S::Bad { class, detail } = last {
                s.violation_w(&format!("{}::IntoIter", V::NAME), class, json!({"history": acts, "what": detail, "n": V::N}), acts.len() as u64);
            }
            s.evals(t, t); tot.states += us; tot.transitions += t; tot.max_depth = tot.max_depth.max(md);
            return;
        }
        counts.push((us, t, md));
    }
    if counts[0] != counts[1] { s.rep.machinery_error(format!("{}: state/transition counts differ between two runs: {:?}", V::NAME, counts)); }
    let (us, t, md) = counts[0];
    let n = V::N as u64;
    let expect_states = (n + 1) * (n + 2) / 2 * 2; // every (f,b) live, and its Dropped twin
    if us != expect_states { s.rep.machinery_error(format!("{}: reached {} states, the (front,back) triangle and its dropped twins have {}", V::NAME, us, expect_states)); }
    s.evals(t, t); s.class(V::NAME);
    tot.states += us; tot.transitions += t; tot.max_depth = tot.max_depth.max(md);
    if tot.samples.len() < 3 { tot.samples.push(json!({"type": V::NAME, "n": V::N, "history": ["Next", "NextBack", "Observe", "Len", "Drop"], "reaches_state": "Dropped{f:1,b:1}"})); }
    s.meta(V::NAME, json!({"states": us, "transitions": t, "max_depth": md, "fixpoint": true}));
}

// ---- unmerged histories (no state merging at all) -----------------------------------------------
fn histories<V>(s: &Section, max_len: usize)
where V: VecN<Tok> + IntoIterator<Item = Tok> + 'static, V::IntoIter: DoubleEndedIterator + ExactSizeIterator + Debug + PartialEq + Hash {
    let n = V::N;
    let acts = [Act::Next, Act::NextBack, Act::Len, Act::Observe];
    // observation of a (f,b) state reached along different orders must coincide: map (f,b) -> fingerprint
    let mut seen: std::collections::HashMap<(usize, usize), (Vec<u32>, Vec<Act>)> = Default::default();
    let mut seq: Vec<Act> = Vec::new();
    fn rec<V>(s: &Section, n: usize, acts: &[Act; 4], seq: &mut Vec<Act>, max_len: usize, seen: &mut std::collections::HashMap<(usize, usize), (Vec<u32>, Vec<Act>)>)
    where V: VecN<Tok> + IntoIterator<Item = Tok> + 'static, V::IntoIter: DoubleEndedIterator + ExactSizeIterator + Debug + PartialEq + Hash {
        // execute `seq` then drop, from scratch, on one real iterator
        tok::reset();
        let v = V::from_elems((0..n).map(|_| Tok::new()).collect());
        let mut it = v.into_iter();
        let mut dq: std::collections::VecDeque<u32> = (0..n as u32).collect();
        let mut held: Vec<Tok> = Vec::new();
        let site = format!("{}::IntoIter", V::NAME);
        let hist = |seq: &Vec<Act>| seq.iter().map(|a| format!("{:?}", a)).collect::<Vec<_>>();
        let mut ok = true;
        for a in seq.iter() {
            match a {
                Act::Next => { let (g, w) = (it.next(), dq.pop_front()); if g.as_ref().map(|t| t.id) != w { s.violation_w(&site, "wrong-element-from-next", json!({"history": hist(seq), "got": g.map(|t| t.id), "want": w}), seq.len() as u64); ok = false; break; } if let Some(t) = g { tok::mark_yielded(t.id); held.push(t); } }
                Act::NextBack => { let (g, w) = (it.next_back(), dq.pop_back()); if g.as_ref().map(|t| t.id) != w { s.violation_w(&site, "wrong-element-from-next_back", json!({"history": hist(seq), "got": g.map(|t| t.id), "want": w}), seq.len() as u64); ok = false; break; } if let Some(t) = g { tok::mark_yielded(t.id); held.push(t); } }
                Act::Len => { if it.len() != dq.len() || it.size_hint() != (dq.len(), Some(dq.len())) { s.violation_w(&site, "wrong-length-report", json!({"history": hist(seq)}), seq.len() as u64); ok = false; break; } }
                Act::Observe => { tok::set_watch(true); let _ = format!("{:?}", it); let mut h = DefaultHasher::new(); it.hash(&mut h); #[allow(clippy::eq_op)] let _ = it == it; tok::set_watch(false);
                    if let Some(fl) = tok::faults().into_iter().next() { s.violation_w(&site, "safe-observation-reads-moved-out-element", json!({"history": hist(seq), "what": fl}), seq.len() as u64); ok = false; break; } }
                Act::Drop => unreachable!(),
            }
        }
        s.eval(!seq.is_empty());
        if ok {
            let yielded: Vec<u32> = held.iter().map(|t| t.id).collect();
            drop(it);
            let st = tok::states();
            for id in 0..n { let live = dq.contains(&(id as u32)); if live != (st[id] == St::Dropped) { s.violation_w(&site, if live { "drop-leaks-unyielded-element" } else { "drop-drops-yielded-element" }, json!({"history": hist(seq), "element": id}), seq.len() as u64); } }
            drop(held);
            if let Err((c, d)) = ledger_balanced(n) { s.violation_w(&site, c, json!({"history": hist(seq), "what": d}), seq.len() as u64); }
            // differential: same (front, back) counts => same set of yielded elements, whatever the order
            let f = seq.iter().filter(|a| **a == Act::Next).count().min(n);
            let key = (f, yielded.len() - yielded.iter().filter(|&&id| (id as usize) < f).count().min(yielded.len()));
            let mut ys = yielded.clone(); ys.sort();
            let fronts_first = { let mut seen_back = false; seq.iter().all(|a| match a { Act::NextBack => { seen_back = true; true } Act::Next => !seen_back, _ => true }) };
            if fronts_first { seen.entry(key).or_insert((ys.clone(), seq.clone())); }
            if let Some((w, via)) = seen.get(&key) { if *w != ys && yielded.len() < n { s.violation_w(&site, "state-depends-on-pull-order", json!({"history": hist(seq), "other_history": hist(via), "yielded": ys, "other_yielded": w}), seq.len() as u64); } }
        }
        if seq.len() < max_len && ok { for a in acts { seq.push(*a); rec::<V>(s, n, acts, seq, max_len, seen); seq.pop(); } }
    }
    rec::<V>(s, n, &acts, &mut seq, max_len, &mut seen);
    s.class(V::NAME);
    if s.wants_sample() { s.sample(json!({"type": V::NAME, "history": ["NextBack", "Observe", "Next", "Len", "Next", "<drop>"], "max_length": max_len})); }
}

// ---- two iterators in different cursor states compared with each other ----------------------------
/// `a == b` / `a != b` for every ordered pair of cursor states of the stated set: neither operand's yielded elements may be read.
/// The second vector's values are shifted so that both live windows start with equal values (the comparison cannot stop at the
/// first element for a trivial reason).
fn compare_pairs<V>(s: &Section)
where V: VecN<Tok> + IntoIterator<Item = Tok> + 'static, V::IntoIter: DoubleEndedIterator + ExactSizeIterator + Debug + PartialEq + Hash {
    let n = V::N;
    let cur: Vec<usize> = if n <= 8 { (0..=n).collect() } else { let mut v = vec![0, 1, 2, n / 2, n - 2, n - 1, n]; v.sort(); v.dedup(); v };
    let states: Vec<(usize, usize)> = cur.iter().flat_map(|&f| cur.iter().map(move |&b| (f, b))).filter(|&(f, b)| f + b <= n).collect();
    let site = format!("{}::IntoIter", V::NAME);
    let mut cnt = 0u64;
    for &(f1, b1) in &states { for &(f2, b2) in &states {
        tok::reset();
        let v1 = V::from_elems((0..n).map(|i| Tok::with_val(1000 + i as u32)).collect::<Vec<_>>());
        let v2 = V::from_elems((0..n).map(|i| Tok::with_val((1000 + i + f1 - f2) as u32)).collect::<Vec<_>>());
        let (mut a, mut b) = (v1.into_iter(), v2.into_iter());
        let mut held = Vec::new();
        for _ in 0..f1 { let t = a.next().unwrap(); tok::mark_yielded(t.id); held.push(t); }
        for _ in 0..b1 { let t = a.next_back().unwrap(); tok::mark_yielded(t.id); held.push(t); }
        for _ in 0..f2 { let t = b.next().unwrap(); tok::mark_yielded(t.id); held.push(t); }
        for _ in 0..b2 { let t = b.next_back().unwrap(); tok::mark_yielded(t.id); held.push(t); }
        tok::set_watch(true);
        let (e1, e2, n1) = (a == b, b == a, a != b);
        tok::set_watch(false);
        cnt += 1;
        let differ = (f1, b1) != (f2, b2);
        s.eval(differ);
        if let Some(fl) = tok::faults().into_iter().next() {
            s.violation_w(&site, "comparison-of-two-iterators-reads-moved-out-element", json!({"n": n, "left(front,back pulls)": [f1, b1], "right(front,back pulls)": [f2, b2], "what": fl}), (f1 + b1 + f2 + b2) as u64);
        }
        if e1 != e2 || n1 == e1 { s.violation_w(&site, "comparison-not-symmetric-or-ne-not-the-negation-of-eq", json!({"n": n, "left": [f1, b1], "right": [f2, b2], "a==b": e1, "b==a": e2, "a!=b": n1}), (f1 + b1 + f2 + b2) as u64); }
        if s.wants_sample() && differ && f1 > 0 && b2 > 0 { s.sample(json!({"type": V::NAME, "left(front,back pulls)": [f1, b1], "right(front,back pulls)": [f2, b2], "a==b": e1})); }
        drop(a); drop(b); drop(held);
        if let Err((c, d)) = ledger_balanced(2 * n) { s.violation(&site, c, json!({"what": d, "left": [f1, b1], "right": [f2, b2]})); }
    } }
    s.class(V::NAME);
    s.meta(V::NAME, json!({"cursor_states": states.len(), "ordered_pairs": cnt}));
}

// ---- conversions move each element exactly once ---------------------------------------------------
fn ids(v: &[Tok]) -> Vec<u32> { v.iter().map(|t| t.id).collect() }
fn fresh(n: usize) -> Vec<Tok> { tok::reset(); (0..n).map(|_| Tok::new()).collect() }
fn no_drops_yet(s: &Section, site: &str) { let d = tok::dropped_ids(); if !d.is_empty() { s.violation(site, "element-dropped-during-conversion", json!({"dropped": d})); } if let Some(f) = tok::faults().into_iter().next() { s.violation(site, "ledger-fault", json!({"what": f})); } }
fn all_dropped_once(s: &Section, site: &str, n: usize) { if let Err((c, d)) = ledger_balanced(n) { s.violation(site, c, json!({"what": d})); } if tok::dropped_ids().len() != tok::count() { s.violation(site, "drop-count-mismatch", json!({"dropped": tok::dropped_ids().len(), "created": tok::count()})); } }

macro_rules! conv_vec { ($s:expr, $V:ident, $n:expr) => {{
    let s: &Section = $s; const N: usize = $n; let name = <$V<Tok> as VecN<Tok>>::NAME;
    // From<[T;N]>
    { let site = format!("From<[T;{}]> for {}", N, name); s.eval(true);
      let a: [Tok; N] = fresh(N).try_into().ok().unwrap();
      let v = $V::from(a); no_drops_yet(s, &site);
      let e = v.into_elems(); if ids(&e) != (0..N as u32).collect::<Vec<_>>() { s.violation(&site, "wrong-order", json!({"got": ids(&e)})); }
      drop(e); all_dropped_once(s, &site, N); }
    // into_array
    { let site = format!("{}::into_array", name); s.eval(true);
      let v = <$V<Tok> as VecN<Tok>>::from_elems(fresh(N)); let a = v.into_array(); no_drops_yet(s, &site);
      if ids(&a) != (0..N as u32).collect::<Vec<_>>() { s.violation(&site, "wrong-order", json!({"got": ids(&a)})); }
      drop(a); all_dropped_once(s, &site, N); }
    // from_iter for every length 0..N+2
    for len in 0..=N + 2 { let site = format!("FromIterator for {}", name); s.eval(len != N);
      tok::reset(); let src: Vec<Tok> = (0..len).map(|_| Tok::new()).collect();
      let v: $V<Tok> = src.into_iter().collect();
      let e = v.into_elems();
      let got = ids(&e);
      for i in 0..N { if i < len.min(N) { if got[i] != i as u32 { s.violation(&site, "wrong-order", json!({"iterator_length": len, "got": got})); break; } } else if (got[i] as usize) < len { s.violation(&site, "tail-not-default", json!({"iterator_length": len, "got": got})); break; } }
      drop(e);
      if let Some(f) = tok::faults().into_iter().next() { s.violation(&site, "ledger-fault", json!({"iterator_length": len, "what": f})); }
      let st = tok::states(); if st.iter().any(|x| *x != St::Dropped) { s.violation(&site, "element-leaked", json!({"iterator_length": len})); } }
    // map and zip move each element once
    { let site = format!("{}::map", name); s.eval(true);
      let v = <$V<Tok> as VecN<Tok>>::from_elems(fresh(N)); let m = v.map(|t| (t, 0u8)); no_drops_yet(s, &site);
      let e = m.into_elems(); if e.iter().map(|p| p.0.id).collect::<Vec<_>>() != (0..N as u32).collect::<Vec<_>>() { s.violation(&site, "wrong-order", json!({})); } drop(e); all_dropped_once(s, &site, N); }
    { let site = format!("{}::zip", name); s.eval(true);
      let mut all = fresh(2 * N); let second = all.split_off(N);
      let (a, b) = (<$V<Tok> as VecN<Tok>>::from_elems(all), <$V<Tok> as VecN<Tok>>::from_elems(second));
      let z = a.zip(b); no_drops_yet(s, &site);
      let e = z.into_elems(); for (i, (x, y)) in e.iter().enumerate() { if x.id != i as u32 || y.id != (N + i) as u32 { s.violation(&site, "wrong-pairing", json!({"lane": i, "got": [x.id, y.id]})); break; } }
      drop(e); all_dropped_once(s, &site, 2 * N); }
    // slice views alias the storage in declaration order
    { let site = format!("{}::as_slice/as_mut_slice/Deref/AsRef/Borrow", name); s.eval(true);
      let mut v = <$V<u32> as VecN<u32>>::from_elems((0..N as u32).map(|i| 100 + i).collect());
      let base = &v as *const $V<u32> as *const u32;
      let views: [&[u32]; 4] = [v.as_slice(), &*v, <$V<u32> as AsRef<[u32]>>::as_ref(&v), <$V<u32> as std::borrow::Borrow<[u32]>>::borrow(&v)];
      for (k, sl) in views.iter().enumerate() { if sl.as_ptr() != base || sl.len() != N || sl.iter().copied().ne((0..N as u32).map(|i| 100 + i)) { s.violation(&site, "view-does-not-alias-storage-in-order", json!({"view": k, "len": sl.len()})); } }
      for i in 0..N { v.as_mut_slice()[i] = 500 + i as u32; }
      { let m: &mut [u32] = <$V<u32> as AsMut<[u32]>>::as_mut(&mut v); m[0] += 1000; }
      { let m: &mut [u32] = &mut *v; m[N - 1] += 2000; }
      let e = v.into_elems();
      let want: Vec<u32> = (0..N as u32).map(|i| 500 + i + if i == 0 { 1000 } else { 0 } + if i as usize == N - 1 { 2000 } else { 0 }).collect();
      if e != want { s.violation(&site, "write-through-view-not-visible-in-fields", json!({"got": e, "want": want})); }
      let v2 = <$V<Tok> as VecN<Tok>>::from_elems(fresh(N));
      if ids(v2.as_slice()) != (0..N as u32).collect::<Vec<_>>() || v2.iter().map(|t| t.id).ne(0..N as u32) { s.violation(&site, "wrong-order", json!({})); }
      drop(v2); all_dropped_once(s, &site, N); }
    s.class(name);
}} }
macro_rules! conv_tuple { ($s:expr, $V:ident, [$($i:tt),*], $n:expr) => {{
    let s: &Section = $s; const N: usize = $n; let name = <$V<Tok> as VecN<Tok>>::NAME;
    { let site = format!("{}::into_tuple", name); s.eval(true);
      let v = <$V<Tok> as VecN<Tok>>::from_elems(fresh(N)); let t = v.into_tuple(); no_drops_yet(s, &site);
      let got = vec![$(t.$i.id),*]; if got != (0..N as u32).collect::<Vec<_>>() { s.violation(&site, "wrong-order", json!({"got": got})); }
      drop(t); all_dropped_once(s, &site, N); }
    { let site = format!("From<tuple> for {}", name); s.eval(true);
      let mut it = fresh(N).into_iter(); let t = ($({ let _ = $i; it.next().unwrap() }),*);
      let v = $V::from(t); no_drops_yet(s, &site);
      let e = v.into_elems(); if ids(&e) != (0..N as u32).collect::<Vec<_>>() { s.violation(&site, "wrong-order", json!({"got": ids(&e)})); }
      drop(e); all_dropped_once(s, &site, N); }
}} }

macro_rules! conv_mat { ($s:expr, $M:ident, $n:expr, $lay:ident, $layname:expr, $lines:ident, $V:ident) => {{
    let s: &Section = $s; const N: usize = $n; const NN: usize = N * N;
    let name = format!("Mat{}<{}>", N, $layname);
    // element (i,j) carries id i*N+j
    let build = || -> $lay::$M<Tok> {
        let mut t: Vec<Option<Tok>> = fresh(NN).into_iter().map(Some).collect();
        let line = |t: &mut Vec<Option<Tok>>, k: usize| -> $V<Tok> { <$V<Tok> as VecN<Tok>>::from_elems((0..N).map(|l| { let (i, j) = if $layname == "row" { (k, l) } else { (l, k) }; t[i * N + j].take().unwrap() }).collect()) };
        let lines: Vec<$V<Tok>> = (0..N).map(|k| line(&mut t, k)).collect();
        $lay::$M { $lines: <$V<$V<Tok>> as VecN<$V<Tok>>>::from_elems(lines) }
    };
    let decode = |m: $lay::$M<Tok>| -> Vec<Vec<u32>> { // [i][j]
        let lines: Vec<Vec<Tok>> = m.$lines.into_elems().into_iter().map(|l| l.into_elems()).collect();
        let mut out = vec![vec![0u32; N]; N];
        for (k, l) in lines.iter().enumerate() { for (x, t) in l.iter().enumerate() { let (i, j) = if $layname == "row" { (k, x) } else { (x, k) }; out[i][j] = t.id; } }
        out
    };
    let want_rows: Vec<u32> = (0..NN as u32).collect();
    let want_cols: Vec<u32> = (0..N).flat_map(|j| (0..N).map(move |i| (i * N + j) as u32)).collect();
    let want_ij: Vec<Vec<u32>> = (0..N).map(|i| (0..N).map(|j| (i * N + j) as u32).collect()).collect();
    { let site = format!("{}::into_row_array", name); s.eval(true); let a = build().into_row_array(); no_drops_yet(s, &site); if ids(&a) != want_rows { s.violation(&site, "wrong-order", json!({"got": ids(&a)})); } drop(a); all_dropped_once(s, &site, NN); }
    { let site = format!("{}::into_col_array", name); s.eval(true); let a = build().into_col_array(); no_drops_yet(s, &site); if ids(&a) != want_cols { s.violation(&site, "wrong-order", json!({"got": ids(&a)})); } drop(a); all_dropped_once(s, &site, NN); }
    { let site = format!("{}::into_row_arrays", name); s.eval(true); let a = build().into_row_arrays(); no_drops_yet(s, &site); let g: Vec<u32> = a.iter().flat_map(|r| r.iter().map(|t| t.id)).collect(); if g != want_rows { s.violation(&site, "wrong-order", json!({"got": g})); } drop(a); all_dropped_once(s, &site, NN); }
    { let site = format!("{}::into_col_arrays", name); s.eval(true); let a = build().into_col_arrays(); no_drops_yet(s, &site); let g: Vec<u32> = a.iter().flat_map(|r| r.iter().map(|t| t.id)).collect(); if g != want_cols { s.violation(&site, "wrong-order", json!({"got": g})); } drop(a); all_dropped_once(s, &site, NN); }
    { let site = format!("{}::from_row_array", name); s.eval(true); let a: [Tok; NN] = fresh(NN).try_into().ok().unwrap(); let m = $lay::$M::from_row_array(a); no_drops_yet(s, &site); let g = decode(m); if g != want_ij { s.violation(&site, "wrong-order", json!({"got": g})); } all_dropped_once(s, &site, NN); }
    { let site = format!("{}::from_col_array", name); s.eval(true); let a: [Tok; NN] = fresh(NN).try_into().ok().unwrap(); let m = $lay::$M::from_col_array(a); no_drops_yet(s, &site); let g = decode(m);
      let want_t: Vec<Vec<u32>> = (0..N).map(|i| (0..N).map(|j| (j * N + i) as u32).collect()).collect(); if g != want_t { s.violation(&site, "wrong-order", json!({"got": g})); } all_dropped_once(s, &site, NN); }
    { let site = format!("{}::from_row_arrays", name); s.eval(true); let mut it = fresh(NN).into_iter(); let a: [[Tok; N]; N] = std::array::from_fn(|_| std::array::from_fn(|_| it.next().unwrap())); let m = $lay::$M::from_row_arrays(a); no_drops_yet(s, &site); let g = decode(m); if g != want_ij { s.violation(&site, "wrong-order", json!({"got": g})); } all_dropped_once(s, &site, NN); }
    { let site = format!("{}::from_col_arrays", name); s.eval(true); let mut it = fresh(NN).into_iter(); let a: [[Tok; N]; N] = std::array::from_fn(|_| std::array::from_fn(|_| it.next().unwrap())); let m = $lay::$M::from_col_arrays(a); no_drops_yet(s, &site); let g = decode(m);
      let want_t: Vec<Vec<u32>> = (0..N).map(|i| (0..N).map(|j| (j * N + i) as u32).collect()).collect(); if g != want_t { s.violation(&site, "wrong-order", json!({"got": g})); } all_dropped_once(s, &site, NN); }
    s.class(&name);
}} }

fn main() {
    let rep = Report::start("C18", "model_checking");
    let mut tot = McTotals { states: 0, transitions: 0, max_depth: 0, samples: Vec::new() };

    rep.section("consuming iterator: every reachable (front, back) state and transition, per vector type",
        "stateright BFS (8 threads, run twice, counts compared) over states (f,b) = elements pulled from the front/back, actions {next, next_back, len+size_hint, observe (Debug, ==, Hash with the ledger watching), drop}; every transition rebuilds a REAL vek IntoIter over fresh ownership tokens, replays the canonical path, applies the action and compares with a reference deque and the drop ledger; the search runs to its fixpoint ((N+1)(N+2)/2 live states + their dropped twins), no depth cap; non-trivial: all transitions", true, false, |s| {
        s.require_classes(&["Vec2", "Vec3", "Vec4", "Vec8", "Vec16", "Vec32", "Vec64", "Extent2", "Extent3", "Rgb", "Rgba", "Uv", "Uvw"]);
        for_all_vecs!(V => { model_check::<V<Tok>>(s, &mut tot); });
        for smp in &tot.samples { s.sample(smp.clone()); }
    });

    rep.section("consuming iterator: all unmerged histories for N <= 4",
        "every sequence over {next, next_back, len, observe} of length <= N+3 (thorough: N+4), each followed by drop, executed from scratch on one real iterator with NO state merging, for the 9 vector types with N <= 4; reference deque + ledger at every step, and the set of yielded elements for (f,b) reached backs-first must equal the one reached fronts-first; non-trivial: non-empty histories", true, false, |s| {
        let extra = if s.thorough() { 4 } else { 3 };
        histories::<Vec2<Tok>>(s, 2 + extra); histories::<Vec3<Tok>>(s, 3 + extra); histories::<Vec4<Tok>>(s, 4 + extra);
        histories::<Extent2<Tok>>(s, 2 + extra); histories::<Extent3<Tok>>(s, 3 + extra);
        histories::<Rgb<Tok>>(s, 3 + extra); histories::<Rgba<Tok>>(s, 4 + extra); histories::<Uv<Tok>>(s, 2 + extra); histories::<Uvw<Tok>>(s, 3 + extra);
    });

    rep.section("two consuming iterators in different cursor states compared with each other",
        "for each of the 13 vector types: every ordered pair of cursor states (f1,b1),(f2,b2) (all states for N <= 8; cursors from {0,1,2,N/2,N-2,N-1,N} for N >= 16) of two REAL iterators over separately tracked tokens whose live windows start with equal values: a == b, b == a, a != b with the ledger watching - no element already yielded by either iterator may be read, == is symmetric and != its negation; afterwards the ledger balances; non-trivial: the two states differ", true, false, |s| {
        s.require_classes(&["Vec2", "Vec3", "Vec4", "Vec8", "Vec16", "Vec32", "Vec64", "Extent2", "Extent3", "Rgb", "Rgba", "Uv", "Uvw"]);
        for_all_vecs!(V => { compare_pairs::<V<Tok>>(s); });
    });

    rep.section("conversions move each element exactly once and keep the documented order",
        "for each of the 13 vector types with ownership tokens: From<[T;N]>, into_array, collect() for EVERY iterator length 0..N+2, map, zip, slice views (as_slice, Deref, AsRef, Borrow, as_mut_slice, AsMut, DerefMut: same base address, length N, writes through the view visible in the fields); into_tuple/From<tuple> for N <= 4; for the 6 matrix types: {into,from}_{row,col}_array(s); ledger: nothing dropped during the conversion, everything dropped exactly once afterwards; non-trivial: all", true, false, |s| {
        s.require_classes(&["Vec2", "Vec64", "Rgba", "Mat4<row>", "Mat4<col>", "Mat2<col>", "Mat3<row>"]);
        conv_vec!(s, Vec2, 2); conv_vec!(s, Vec3, 3); conv_vec!(s, Vec4, 4); conv_vec!(s, Vec8, 8); conv_vec!(s, Vec16, 16); conv_vec!(s, Vec32, 32); conv_vec!(s, Vec64, 64);
        conv_vec!(s, Extent2, 2); conv_vec!(s, Extent3, 3); conv_vec!(s, Rgb, 3); conv_vec!(s, Rgba, 4); conv_vec!(s, Uv, 2); conv_vec!(s, Uvw, 3);
        conv_tuple!(s, Vec2, [0, 1], 2); conv_tuple!(s, Vec3, [0, 1, 2], 3); conv_tuple!(s, Vec4, [0, 1, 2, 3], 4); conv_tuple!(s, Extent2, [0, 1], 2); conv_tuple!(s, Extent3, [0, 1, 2], 3);
        conv_tuple!(s, Rgb, [0, 1, 2], 3); conv_tuple!(s, Rgba, [0, 1, 2, 3], 4); conv_tuple!(s, Uv, [0, 1], 2); conv_tuple!(s, Uvw, [0, 1, 2], 3); conv_tuple!(s, Vec8, [0, 1, 2, 3, 4, 5, 6, 7], 8);
        conv_mat!(s, Mat2, 2, rm, "row", rows, Vec2); conv_mat!(s, Mat2, 2, cm, "col", cols, Vec2);
        conv_mat!(s, Mat3, 3, rm, "row", rows, Vec3); conv_mat!(s, Mat3, 3, cm, "col", cols, Vec3);
        conv_mat!(s, Mat4, 4, rm, "row", rows, Vec4); conv_mat!(s, Mat4, 4, cm, "col", cols, Vec4);
        s.sample(json!({"call": "row_major::Mat3<Tok>::into_col_array()", "element (i,j) has id": "3i+j", "want ids": [0, 3, 6, 1, 4, 7, 2, 5, 8], "ledger": "no drop before the array is dropped, then 9 drops"}));
        s.sample(json!({"call": "(0..5 tokens).collect::<Vec3<Tok>>()", "want": "ids [0,1,2] kept in order; tokens 3,4 never pulled or dropped once; no leak"}));
    });

    let lk = json!({"states": tot.states, "transitions": tot.transitions, "traces_validated_against_impl": tot.transitions, "max_depth": tot.max_depth,
        "explanation": "states/transitions summed over the 13 per-type models; every transition is executed on the real IntoIter (the model IS the implementation plus a reference deque), so traces validated = transitions"});
    std::process::exit(rep.finish_with(lk));
}
